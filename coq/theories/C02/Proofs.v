(* C02/Proofs.v — lemmas and proofs. *)
From Coq Require Import String List Bool Arith Lia Ascii.
From Verif Require Import Base.Str C02.Model C02.Spec.
From VerifGen Require Import C02Tables.
Import ListNotations.
Open Scope string_scope.
Open Scope list_scope.

(* ================================================================== trees: induction, equality *)
Section TreeInd.
  Variable P : tree -> Prop.
  Hypothesis step : forall tg ats tx ks, Forall P ks -> P (Node tg ats tx ks).
  Fixpoint tree_ind' (t : tree) : P t :=
    match t with
    | Node tg ats tx ks =>
        step tg ats tx ks
             ((fix go (l : list tree) : Forall P l :=
                 match l with
                 | [] => Forall_nil P
                 | k :: r => Forall_cons k (tree_ind' k) (go r)
                 end) ks)
    end.
End TreeInd.

Fixpoint trees_eqb (l1 l2 : list tree) : bool :=
  match l1, l2 with
  | [], [] => true
  | x :: r, y :: s => tree_eqb x y && trees_eqb r s
  | _, _ => false
  end.

Lemma tree_eqb_unfold t1 a1 x1 k1 t2 a2 x2 k2 :
  tree_eqb (Node t1 a1 x1 k1) (Node t2 a2 x2 k2)
  = String.eqb t1 t2 && attrs_eqb a1 a2 && String.eqb x1 x2 && trees_eqb k1 k2.
Proof.
  reflexivity.
Qed.

Lemma attrs_eqb_eq a b : attrs_eqb a b = true <-> a = b.
Proof.
  revert b. induction a as [|[k v] r IH]; intros [|[k' v'] s]; simpl; split; intro H; try congruence; try discriminate.
  - apply andb_true_iff in H as [H H3]. apply andb_true_iff in H as [H1 H2].
    apply String.eqb_eq in H1, H2. apply IH in H3. now subst.
  - inversion H; subst. rewrite !String.eqb_refl. simpl. now apply IH.
Qed.

Lemma tree_eqb_eq : forall a b, tree_eqb a b = true <-> a = b.
Proof.
  induction a as [t1 a1 x1 k1 IH] using tree_ind'. intros [t2 a2 x2 k2].
  rewrite tree_eqb_unfold.
  assert (Hk : forall l2, trees_eqb k1 l2 = true <-> k1 = l2).
  { induction IH as [|x r Hx Hr IHr]; intros [|y s]; simpl; split; intro H; try congruence; try discriminate.
    - apply andb_true_iff in H as [H1 H2]. apply Hx in H1. apply IHr in H2. now subst.
    - inversion H; subst. apply andb_true_iff. split; [now apply Hx | now apply IHr]. }
  split; intro H.
  - apply andb_true_iff in H as [H H4]. apply andb_true_iff in H as [H H3]. apply andb_true_iff in H as [H1 H2].
    apply String.eqb_eq in H1, H3. apply attrs_eqb_eq in H2. apply Hk in H4. now subst.
  - inversion H; subst. rewrite !String.eqb_refl. simpl.
    rewrite (proj2 (attrs_eqb_eq a2 a2) eq_refl). simpl. now apply Hk.
Qed.

(* ================================================================== lists, accessors *)
Lemma last_opt_In {A} (l : list A) x : last_opt l = Some x -> In x l.
Proof.
  induction l as [|y [|z r] IH]; simpl; intro H; try discriminate.
  - inversion H. now left.
  - right. now apply IH.
Qed.

Lemma first_opt_In {A} (l : list A) x : first_opt l = Some x -> In x l.
Proof. destruct l; simpl; intro H; [discriminate | inversion H; now left]. Qed.

Lemma many_In tg t x : In x (many tg t) <-> In x (kids t) /\ tag x = tg.
Proof.
  unfold many, with_tag. rewrite filter_In. now rewrite String.eqb_eq.
Qed.

Lemma single_In tg t x : single tg t = Some x -> In x (many tg t).
Proof. apply last_opt_In. Qed.

Lemma first_child_In tg t x : first_child tg t = Some x -> In x (many tg t).
Proof. apply first_opt_In. Qed.

Fixpoint subtrees_list (l : list tree) : list tree :=
  match l with [] => [] | k :: r => subtrees k ++ subtrees_list r end.

Lemma subtrees_unfold t : subtrees t = t :: subtrees_list (kids t).
Proof.
  destruct t as [tg ats tx ks]. reflexivity.
Qed.

Lemma subtrees_self t : In t (subtrees t).
Proof. rewrite subtrees_unfold. now left. Qed.

Lemma subtrees_list_In l k x : In k l -> In x (subtrees k) -> In x (subtrees_list l).
Proof.
  induction l as [|y r IH]; simpl; [tauto|]. intros [->|H] Hx; apply in_or_app; [now left | right; now apply IH].
Qed.

Lemma subtrees_kid t k x : In k (kids t) -> In x (subtrees k) -> In x (subtrees t).
Proof. intros Hk Hx. rewrite subtrees_unfold. right. eapply subtrees_list_In; eauto. Qed.

Lemma reach_step tg r a c x : In c (many tg a) -> In x (reach r c) -> In x (reach (tg :: r) a).
Proof. intros Hc Hx. simpl. apply in_flat_map. now exists c. Qed.

Lemma reach_nil a : reach [] a = [a].
Proof. reflexivity. Qed.

(* ================================================================== spec_b <-> spec *)
Lemma pair_eqb_eq a b : pair_eqb a b = true <-> a = b.
Proof.
  destruct a as [a1 a2], b as [b1 b2]. unfold pair_eqb. simpl. rewrite andb_true_iff, String.eqb_eq.
  destruct a2 as [x|], b2 as [y|]; simpl; try rewrite String.eqb_eq; split; intros; try tauto;
    try (destruct H; congruence); try (inversion H; subst; tauto); try (destruct H; discriminate).
Qed.

Lemma pair2_eqb_eq a b : pair2_eqb a b = true <-> a = b.
Proof.
  destruct a, b. unfold pair2_eqb. simpl. rewrite andb_true_iff, !String.eqb_eq. split; [intros []; congruence | intro H; inversion H; tauto].
Qed.

Lemma from_assertion_b_iff {A} (eqb : A -> A -> bool) (Heq : forall x y, eqb x y = true <-> x = y) c cv f v :
  from_assertion_b eqb c cv f v = true <-> from_assertion c cv f v.
Proof.
  unfold from_assertion_b, from_assertion. rewrite existsb_exists. split.
  - intros (a & Ha & H). apply existsb_exists in H as (y & Hy & E). apply Heq in E. subst. eauto.
  - intros (a & Ha & H). exists a. split; [assumption|]. apply existsb_exists. exists v. split; [assumption | now apply Heq].
Qed.

Lemma opt_all_iff {A} (o : option A) p (P : A -> Prop) :
  (forall x, p x = true <-> P x) -> (opt_all o p = true <-> forall v, o = Some v -> P v).
Proof.
  intro H. destruct o as [x|]; simpl.
  - rewrite H. split; [intros Hx v E; inversion E; now subst | intro Hx; now apply Hx].
  - split; [intros _ v E; discriminate | reflexivity].
Qed.

Lemma spec_name_id_b_iff c cv rep : spec_name_id_b c cv rep = true <-> spec_name_id c cv rep.
Proof. apply opt_all_iff. intro x. apply from_assertion_b_iff, pair_eqb_eq. Qed.

Lemma spec_ava_b_iff c cv rep : spec_ava_b c cv rep = true <-> spec_ava c cv rep.
Proof.
  unfold spec_ava_b, spec_ava. rewrite forallb_forall. split.
  - intros H k vs v Hk Hv. specialize (H (k, vs) Hk). simpl in H. rewrite forallb_forall in H.
    apply (from_assertion_b_iff pair2_eqb pair2_eqb_eq). now apply H.
  - intros H [k vs] Hk. simpl. apply forallb_forall. intros v Hv.
    apply (from_assertion_b_iff pair2_eqb pair2_eqb_eq). eapply H; eauto.
Qed.

Lemma is_empty_iff s : is_empty s = true <-> s = "".
Proof. destruct s; simpl; split; intro H; congruence. Qed.

Lemma spec_issuer_b_iff c cv rep : spec_issuer_b c cv rep = true <-> spec_issuer c cv rep.
Proof. unfold spec_issuer_b, spec_issuer. now rewrite orb_true_iff, is_empty_iff, mem_In. Qed.

Lemma spec_audience_b_iff c cv rep : spec_audience_b c cv rep = true <-> spec_audience c cv rep.
Proof.
  unfold spec_audience_b, spec_audience. rewrite forallb_forall.
  split; intros H v Hv; apply (from_assertion_b_iff String.eqb String.eqb_eq); now apply H.
Qed.

Lemma fab_str c cv f v : from_assertion_b String.eqb c cv f v = true <-> from_assertion c cv f v.
Proof. apply from_assertion_b_iff, String.eqb_eq. Qed.

Lemma spec_validity_b_iff c cv rep : spec_validity_b c cv rep = true <-> spec_validity c cv rep.
Proof.
  unfold spec_validity_b, spec_validity. rewrite andb_true_iff.
  rewrite (opt_all_iff _ _ (from_assertion c cv (cond_attr "NotBefore"))) by (intro; apply fab_str).
  rewrite (opt_all_iff _ _ (from_assertion c cv (cond_attr "NotOnOrAfter"))) by (intro; apply fab_str).
  reflexivity.
Qed.

Lemma spec_session_b_iff c cv rep : spec_session_b c cv rep = true <-> spec_session c cv rep.
Proof.
  unfold spec_session_b, spec_session. rewrite !andb_true_iff.
  rewrite (opt_all_iff _ _ (from_assertion c cv (stmt_attr "SessionIndex"))) by (intro; apply fab_str).
  rewrite (opt_all_iff (r_session_nooa rep) _
             (fun v => from_assertion c cv (stmt_attr "SessionNotOnOrAfter") v \/ from_assertion c cv (cond_attr "NotOnOrAfter") v))
    by (intro; rewrite orb_true_iff, !fab_str; reflexivity).
  rewrite (opt_all_iff (r_authn rep) _
             (fun ic => (forall v, fst ic = Some v -> from_assertion c cv (stmt_attr "AuthnInstant") v)
                        /\ (forall v, snd ic = Some v -> from_assertion c cv class_refs v))).
  - split.
    + intros [[H1 H2] H3]. split; [exact H1 | split; [exact H2 |]].
      intros i cr E. exact (H3 (i, cr) E).
    + intros (H1 & H2 & H3). split; [split; [exact H1 | exact H2] |]. intros [i cr] E. exact (H3 i cr E).
  - intros [i cr]. simpl. rewrite andb_true_iff.
    rewrite (opt_all_iff i _ (from_assertion c cv (stmt_attr "AuthnInstant"))) by (intro; apply fab_str).
    rewrite (opt_all_iff cr _ (from_assertion c cv class_refs)) by (intro; apply fab_str).
    reflexivity.
Qed.

Lemma spec_but_issuer_b_iff c cv rep : spec_but_issuer_b c cv rep = true <-> spec_but_issuer c cv rep.
Proof.
  unfold spec_but_issuer_b, spec_but_issuer. rewrite !andb_true_iff.
  rewrite spec_name_id_b_iff, spec_ava_b_iff, spec_audience_b_iff, spec_validity_b_iff, spec_session_b_iff. tauto.
Qed.

Lemma spec_b_iff c cv rep : spec_b c cv rep = true <-> spec c cv rep.
Proof.
  unfold spec_b, spec. rewrite andb_true_iff, spec_but_issuer_b_iff, spec_issuer_b_iff.
  unfold spec_but_issuer. tauto.
Qed.

Lemma spec_split c cv rep : spec c cv rep <-> spec_but_issuer c cv rep /\ spec_issuer c cv rep.
Proof. unfold spec, spec_but_issuer. tauto. Qed.

(* ================================================================== the ID registry *)
Fixpoint collect_kids (nn : nodename) (i : nat) (l : list tree) : list (string * path) :=
  match l with
  | [] => []
  | k :: r => map (fun vp => (fst vp, i :: snd vp)) (collect nn k) ++ collect_kids nn (S i) r
  end.

Lemma collect_unfold nn t :
  collect nn t = (if id_match nn (tag t) then match attr "ID" t with Some v => [(v, [])] | None => [] end else [])
                 ++ (if opaque t then [] else collect_kids nn 0 (kids t)).
Proof.
  destruct t as [tg ats tx ks]. unfold opaque. cbn [collect tag attr attrs kids]. f_equal.
  destruct (opaque_parts tg ats); [reflexivity|].
  generalize 0 as i. induction ks as [|k r IH]; intro i; [reflexivity|].
  cbn [collect_kids]. rewrite <- IH. reflexivity.
Qed.

(* no ciphertext node strictly above the node at path p *)
Fixpoint clear_path (t : tree) (p : path) : Prop :=
  match p with
  | [] => True
  | i :: r => opaque t = false /\ match nth_error (kids t) i with Some k => clear_path k r | None => True end
  end.

Lemma collect_kids_In nn l : forall n m k v q,
  nth_error l n = Some k -> In (v, q) (collect nn k) -> In (v, (m + n) :: q) (collect_kids nn m l).
Proof.
  induction l as [|y r IH]; intros [|n] m k v q Hn Hin; simpl in *; try discriminate.
  - inversion Hn; subst. apply in_or_app. left. apply in_map_iff. exists (v, q). simpl. now rewrite Nat.add_0_r.
  - apply in_or_app. right. replace (m + S n) with (S m + n) by lia. eapply IH; eauto.
Qed.

Lemma collect_sub nn : forall p doc item i,
  sub doc p = Some item -> clear_path doc p -> id_match nn (tag item) = true -> attr "ID" item = Some i ->
  In (i, p) (collect nn doc).
Proof.
  induction p as [|n r IH]; intros doc item i Hs Hc Hm Hi; simpl in Hs.
  - inversion Hs; subst. rewrite collect_unfold, Hm, Hi. now left.
  - destruct Hc as [Hop Hc]. destruct (nth_error (kids doc) n) as [k|] eqn:Hn; [|discriminate].
    rewrite collect_unfold, Hop. apply in_or_app. right.
    change (n :: r) with ((0 + n) :: r). eapply collect_kids_In; eauto.
Qed.

Lemma assoc_nodup {B} (l : list (string * B)) i p :
  has_dup (map fst l) = false -> In (i, p) l -> assoc i l = Some p.
Proof.
  induction l as [|[k v] r IH]; simpl; intros Hd Hin; [tauto|].
  apply orb_false_iff in Hd as [Hm Hd].
  destruct (String.eqb i k) eqn:E.
  - apply String.eqb_eq in E. subst. destruct Hin as [H|H]; [now inversion H|].
    exfalso. assert (In k (map fst r)) by (apply in_map_iff; now exists (k, p)).
    apply mem_In in H0. congruence.
  - destruct Hin as [H|H]; [inversion H; subst; now rewrite String.eqb_refl in E | now apply IH].
Qed.

Lemma collect_kids_inv nn l : forall m v p, In (v, p) (collect_kids nn m l) ->
  exists n k q, p = (m + n) :: q /\ nth_error l n = Some k /\ In (v, q) (collect nn k).
Proof.
  induction l as [|y r IH]; intros m v p H; simpl in H; [contradiction|].
  apply in_app_or in H as [H|H].
  - apply in_map_iff in H as ([v' q] & E & Hq). simpl in E. inversion E; subst.
    exists 0, y, q. rewrite Nat.add_0_r. repeat split; assumption.
  - destruct (IH _ _ _ H) as (n & k & q & -> & Hn & Hq). exists (S n), k, q.
    replace (m + S n) with (S m + n) by lia. repeat split; assumption.
Qed.

Lemma nodup_unique {B} (l : list (string * B)) i p q :
  has_dup (map fst l) = false -> In (i, p) l -> In (i, q) l -> p = q.
Proof.
  intros Hd Hp Hq. pose proof (assoc_nodup l i p Hd Hp) as E1. pose proof (assoc_nodup l i q Hd Hq) as E2. congruence.
Qed.

Lemma assoc_last_In {B} (l : list (string * B)) i w : assoc_last i l = Some w -> In (i, w) l.
Proof.
  induction l as [|[k v] r IH]; simpl; [discriminate|].
  destruct (assoc_last i r) as [w'|] eqn:E.
  - intro H. inversion H; subst. right. now apply IH.
  - destruct (String.eqb i k) eqn:Ek; [|discriminate]. apply String.eqb_eq in Ek. intro H. inversion H; subst. now left.
Qed.

(* when every registration of i names the same element, first-wins and last-wins agree *)
Lemma lookup_all_same {B} (l : list (string * B)) i p :
  In (i, p) l -> (forall q, In (i, q) l -> q = p) -> assoc i l = Some p /\ assoc_last i l = Some p.
Proof.
  induction l as [|[k v] r IH]; simpl; intros Hin Hall; [contradiction|].
  assert (Hr : forall q, In (i, q) r -> q = p) by (intros q Hq; apply Hall; now right).
  split.
  - destruct (String.eqb i k) eqn:E.
    + apply String.eqb_eq in E. subst k. f_equal. apply Hall. now left.
    + destruct Hin as [Hin|Hin]; [inversion Hin; subst; now rewrite String.eqb_refl in E | now apply IH].
  - destruct (assoc_last i r) as [w|] eqn:E.
    + f_equal. apply Hr. now apply assoc_last_In.
    + destruct Hin as [Hin|Hin].
      * inversion Hin; subst. now rewrite String.eqb_refl.
      * destruct (IH Hin Hr) as [_ IH2]. congruence.
Qed.

(* ================================================================== the elements a parser of the text sees *)
Fixpoint visible_kids (i : nat) (l : list tree) : list (path * tree) :=
  match l with
  | [] => []
  | k :: r => map (fun pe => (i :: fst pe, snd pe)) (visible k) ++ visible_kids (S i) r
  end.

Lemma visible_unfold t : visible t = ([], t) :: (if opaque t then [] else visible_kids 0 (kids t)).
Proof.
  destruct t as [tg ats tx ks]. reflexivity.
Qed.

Lemma visible_kids_In l : forall n m k q e,
  nth_error l n = Some k -> In (q, e) (visible k) -> In ((m + n) :: q, e) (visible_kids m l).
Proof.
  induction l as [|y r IH]; intros [|n] m k q e Hn Hin; simpl in *; try discriminate.
  - inversion Hn; subst. apply in_or_app. left. apply in_map_iff. exists (q, e). simpl. now rewrite Nat.add_0_r.
  - apply in_or_app. right. replace (m + S n) with (S m + n) by lia. eapply IH; eauto.
Qed.

Lemma visible_kids_inv l : forall m p e, In (p, e) (visible_kids m l) ->
  exists n k q, p = (m + n) :: q /\ nth_error l n = Some k /\ In (q, e) (visible k).
Proof.
  induction l as [|y r IH]; intros m p e H; simpl in H; [contradiction|].
  apply in_app_or in H as [H|H].
  - apply in_map_iff in H as ([q e'] & E & Hq). simpl in E. inversion E; subst.
    exists 0, y, q. rewrite Nat.add_0_r. repeat split; assumption.
  - destruct (IH _ _ _ H) as (n & k & q & -> & Hn & Hq). exists (S n), k, q.
    replace (m + S n) with (S m + n) by lia. repeat split; assumption.
Qed.

Lemma visible_sub : forall t p e, In (p, e) (visible t) -> sub t p = Some e /\ clear_path t p.
Proof.
  induction t as [tg ats tx ks IH] using tree_ind'. intros p e H.
  rewrite visible_unfold in H. destruct H as [E|H].
  - inversion E; subst. split; [reflexivity | exact I].
  - destruct (opaque (Node tg ats tx ks)) eqn:Ho; [contradiction|].
    apply visible_kids_inv in H as (n & k & q & -> & Hn & Hq). cbn [kids] in Hn.
    rewrite Forall_forall in IH. destruct (IH k (nth_error_In _ _ Hn) q e Hq) as [Hs Hc].
    cbn [Nat.add sub clear_path kids]. rewrite Hn. repeat split; assumption.
Qed.

Lemma visible_complete : forall p doc e, sub doc p = Some e -> clear_path doc p -> In (p, e) (visible doc).
Proof.
  induction p as [|n r IH]; intros doc e Hs Hc; simpl in Hs.
  - inversion Hs; subst. rewrite visible_unfold. now left.
  - destruct Hc as [Hop Hc]. destruct (nth_error (kids doc) n) as [k|] eqn:Hn; [|discriminate].
    rewrite visible_unfold, Hop. right. change (n :: r) with ((0 + n) :: r). eapply visible_kids_In; eauto.
Qed.

(* every registration of the engine belongs to a visible element of that name *)
Lemma collect_visible nn : forall t v p, In (v, p) (collect nn t) ->
  exists e, In (p, e) (visible t) /\ id_match nn (tag e) = true /\ attr "ID" e = Some v.
Proof.
  induction t as [tg ats tx ks IH] using tree_ind'. intros v p H.
  rewrite collect_unfold in H. apply in_app_or in H as [H|H].
  - destruct (id_match nn (tag (Node tg ats tx ks))) eqn:Hm; [|contradiction].
    destruct (attr "ID" (Node tg ats tx ks)) as [v'|] eqn:Hid; [|contradiction].
    destruct H as [E|[]]. inversion E; subst. exists (Node tg ats tx ks).
    split; [rewrite visible_unfold; now left | split; assumption].
  - destruct (opaque (Node tg ats tx ks)) eqn:Ho; [contradiction|].
    apply collect_kids_inv in H as (n & k & q & -> & Hn & Hq). cbn [kids] in Hn.
    rewrite Forall_forall in IH. destruct (IH k (nth_error_In _ _ Hn) v q Hq) as (e & He & Hme & Hide).
    exists e. split; [|split; assumption]. rewrite visible_unfold, Ho. right. cbn [kids]. eapply visible_kids_In; eauto.
Qed.

Lemma opt_eqb_str a b : opt_eqb String.eqb a b = true <-> a = b.
Proof.
  destruct a as [x|], b as [y|]; simpl; try rewrite String.eqb_eq; split; intro H; try congruence; try discriminate.
Qed.

Lemma nodes_of_In m oid doc q :
  In q (nodes_of m oid doc) <-> exists e, In (q, e) (visible doc) /\ m (tag e) = true /\ attr "ID" e = oid.
Proof.
  unfold nodes_of. rewrite in_map_iff. split.
  - intros ([q' e] & E & H). simpl in E. subst. apply filter_In in H as [H1 H2]. simpl in H2.
    apply andb_true_iff in H2 as [Ha Hb]. apply opt_eqb_str in Hb. eauto.
  - intros (e & H & Ht & Hi). exists (q, e). split; [reflexivity|]. apply filter_In. split; [assumption|].
    simpl. rewrite Ht. simpl. now apply opt_eqb_str.
Qed.

(* what a passed _is_the_only_signature_child says: some element of that name and ID, found in the text,
   passed the one-signature test; with the uniqueness test on it is the only one *)
Lemma node_match_id K nn tg : node_match K nn tg = true -> id_match nn tg = true.
Proof. unfold node_match, id_match. destruct (k_lax K); [tauto | intros ->; reflexivity]. Qed.
Lemma node_match_q K nn : node_match K nn (nn_q nn) = true.
Proof. unfold node_match, id_match. rewrite String.eqb_refl. now destruct (k_lax K). Qed.

Lemma one_sig_doc_pick K nn doc item : one_sig_doc K nn doc item = true ->
  exists q node, In q (nodes_of (node_match K nn) (attr "ID" item) doc) /\ sub doc q = Some node /\ one_sig_k K node = true
                 /\ (k_uniq K = true -> nodes_of (node_match K nn) (attr "ID" item) doc = [q]).
Proof.
  unfold one_sig_doc. set (ps := nodes_of (node_match K nn) (attr "ID" item) doc).
  destruct (k_uniq K).
  - destruct ps as [|q [|? ?]]; try discriminate.
    destruct (sub doc q) as [node|] eqn:Es; [|discriminate]. intro H.
    exists q, node. repeat split; try assumption. now left.
  - destruct (last_opt ps) as [q|] eqn:El; [|discriminate].
    destruct (sub doc q) as [node|] eqn:Es; [|discriminate]. intro H.
    exists q, node. repeat split; try assumption; [now apply last_opt_In | discriminate].
Qed.

(* ================================================================== first signature, removal *)
Lemma sub_one t j : sub t [j] = nth_error (kids t) j.
Proof. simpl. now destruct (nth_error (kids t) j). Qed.

Lemma sub_app : forall p q t x, sub t p = Some x -> sub t (p ++ q) = sub x q.
Proof.
  induction p as [|i r IH]; intros q t x H; simpl in *; [now inversion H|].
  destruct (nth_error (kids t) i); [now apply IH | discriminate].
Qed.

Lemma strip_prefix_app p q : strip_prefix p (p ++ q) = Some q.
Proof. induction p as [|i r IH]; simpl; [reflexivity | now rewrite Nat.eqb_refl]. Qed.

Lemma kids_remove_one t j : kids (remove_at t [j]) = remove_nth j (kids t).
Proof. reflexivity. Qed.
Lemma tag_remove_one t j : tag (remove_at t [j]) = tag t.
Proof. reflexivity. Qed.
Lemma attrs_remove_one t j : attrs (remove_at t [j]) = attrs t.
Proof. reflexivity. Qed.

Lemma remove_nth_In {A} (l : list A) : forall j x y, nth_error l j = Some y -> In x l -> x <> y -> In x (remove_nth j l).
Proof.
  induction l as [|z r IH]; intros [|j] x y Hn Hin Hne; simpl in *; try discriminate; try tauto.
  - inversion Hn; subst. destruct Hin; [congruence | assumption].
  - destruct Hin; [now left | right; eapply IH; eauto].
Qed.

Lemma remove_nth_incl {A} (l : list A) : forall j x, In x (remove_nth j l) -> In x l.
Proof.
  induction l as [|z r IH]; intros [|j] x H; simpl in *; try tauto.
  destruct H; [now left | right; eauto].
Qed.

(* removing a child whose tag is not tg leaves the children tagged tg untouched *)
Lemma with_tag_remove tg (l : list tree) : forall j s, nth_error l j = Some s -> tag s <> tg ->
  with_tag tg (remove_nth j l) = with_tag tg l.
Proof.
  induction l as [|z r IH]; intros [|j] s Hn Hne; simpl in *; try discriminate.
  - inversion Hn; subst. destruct (String.eqb (tag s) tg) eqn:E; [apply String.eqb_eq in E; congruence | reflexivity].
  - erewrite IH; eauto.
Qed.

Lemma many_remove tg t j s : nth_error (kids t) j = Some s -> tag s <> tg -> many tg (remove_at t [j]) = many tg t.
Proof. intros. unfold many. rewrite kids_remove_one. eapply with_tag_remove; eauto. Qed.

Lemma reach_remove tg r t j s : nth_error (kids t) j = Some s -> tag s <> tg ->
  reach (tg :: r) (remove_at t [j]) = reach (tg :: r) t.
Proof. intros. cbn [reach]. erewrite many_remove; eauto. Qed.

Lemma with_tag_all_other tg tg' l : all_tag tg l = true -> tg <> tg' -> with_tag tg' l = [].
Proof.
  induction l as [|x r IH]; simpl; intros H Hne; [reflexivity|].
  apply andb_true_iff in H as [H1 H2]. apply String.eqb_eq in H1.
  destruct (String.eqb (tag x) tg') eqn:E; [apply String.eqb_eq in E; congruence | now apply IH].
Qed.

Lemma all_tag_with_tag tg l : all_tag tg l = true -> with_tag tg l = l.
Proof.
  induction l as [|x r IH]; simpl; intro H; [reflexivity|].
  apply andb_true_iff in H as [H1 H2]. rewrite H1. f_equal. now apply IH.
Qed.

(* ================================================================== the key lemma *)
Ltac split_and H :=
  repeat match type of H with
         | (_ && _) = true => let H1 := fresh H in let H2 := fresh H in
                              apply andb_true_iff in H as [H1 H2]; split_and H1; split_and H2
         end.

Lemma tag_neq_by_eqb a b : String.eqb a b = false -> a <> b.
Proof. intros H E. subst. now rewrite String.eqb_refl in H. Qed.

Lemma strict_sig_shape sg : strict_sig sg = true ->
  exists si sv, first_child SIGNEDINFO sg = Some si /\ single SIGNEDINFO sg = Some si
                /\ first_child SIGVALUE sg = Some sv /\ strict_si si = true.
Proof.
  unfold strict_sig, first_child, single, many. destruct (kids sg) as [|si [|sv rest]]; try discriminate.
  intro H. rewrite !andb_true_iff in H. destruct H as (((H2 & H4) & H3) & H0).
  apply String.eqb_eq in H2, H4.
  exists si, sv.
  assert (R1 : with_tag SIGNEDINFO rest = [] /\ with_tag SIGVALUE rest = []).
  { destruct rest as [|k r']; [now split|].
    destruct (String.eqb (tag k) KEYINFO) eqn:E.
    - apply String.eqb_eq in E. simpl. rewrite E. simpl.
      split; eapply with_tag_all_other; eauto; apply tag_neq_by_eqb; reflexivity.
    - split; eapply with_tag_all_other; eauto; apply tag_neq_by_eqb; reflexivity. }
  destruct R1 as [R1 R2].
  simpl. rewrite H2, H4. simpl. rewrite ?R1, ?R2. simpl. repeat split; assumption.
Qed.

Lemma strict_si_refs si r : strict_si si = true -> In r (many REFERENCE si) -> strict_ref r = true.
Proof.
  unfold strict_si. intros H Hin. apply many_In in Hin as [Hin Ht].
  destruct (kids si) as [|cm [|sm [|r1 refs]]]; try discriminate.
  rewrite !andb_true_iff in H. destruct H as ((H2 & H3) & H1).
  apply String.eqb_eq in H2, H3.
  destruct Hin as [E|[E|Hin]]; try (subst; rewrite Ht in *; discriminate).
  rewrite forallb_forall in H1. apply H1 in Hin. now apply andb_true_iff in Hin as [_ Hin].
Qed.

Lemma strict_ref_transforms r T : strict_ref r = true -> single TRANSFORMS r = Some T -> first_child TRANSFORMS r = Some T.
Proof.
  unfold strict_ref, single, first_child, many. destruct (kids r) as [|a [|b [|c [|d l]]]]; try discriminate.
  - intros H. rewrite !andb_true_iff in H. destruct H as (H & H2).
    apply String.eqb_eq in H, H2. simpl. rewrite H, H2. simpl. discriminate.
  - intros H. rewrite !andb_true_iff in H. destruct H as (((H0 & H1) & H2) & H3).
    apply String.eqb_eq in H0, H2, H3. simpl. rewrite H0, H2, H3. simpl. tauto.
Qed.

Lemma first_ok_In f certs ds k : first_ok f certs = Some (ds, k) -> In k certs /\ f k = VOk ds.
Proof.
  induction certs as [|c r IH]; simpl; [discriminate|].
  destruct (f c) eqn:E; intro H; try (apply IH in H as [H1 H2]; split; [now right | assumption]).
  inversion H; subst. split; [now left | assumption].
Qed.

Lemma one_sig_shape item : one_sig item = true ->
  exists j s, many SIGNATURE item = [s] /\ first_sig item = Some [j] /\ nth_error (kids item) j = Some s /\ tag s = SIGNATURE.
Proof.
  unfold one_sig. destruct (many SIGNATURE item) as [|s [|? ?]] eqn:Em; try discriminate.
  destruct (first_sig item) as [[|j [|? ?]]|] eqn:Ef; try discriminate.
  destruct (nth_error (kids item) j) as [k|] eqn:En; [|discriminate].
  intro H. apply String.eqb_eq in H. exists j, s.
  assert (In k (many SIGNATURE item)) by (apply many_In; split; [eapply nth_error_In; eauto | assumption]).
  rewrite Em in H0. destruct H0 as [->|[]]. tauto.
Qed.

Definition si_digest (si : tree) : option (string * string) :=
  match many REFERENCE si with
  | [r] => match first_child DIGESTMETHOD r, first_child DIGESTVALUE r with
           | Some dm, Some dv => match attr "Algorithm" dm with
                                 | Some alg => Some (alg, text dv)
                                 | None => None
                                 end
           | _, _ => None
           end
  | _ => None
  end.

Lemma resolve_anchor ids i : resolve ids (Some (String "#"%char i)) = ids i.
Proof.
  unfold resolve. cbn [is_empty startswith drop1]. unfold prefix.
  destruct (Ascii.ascii_dec "#"%char "#"%char) as [_|N]; [|congruence]. destruct i; reflexivity.
Qed.

(* the first ds:Signature at or below an element, when it is a child, is the first ds:Signature child *)
Fixpoint first_sig_kids (i : nat) (l : list tree) : option path :=
  match l with
  | [] => None
  | k :: r => match first_sig k with Some p => Some (i :: p) | None => first_sig_kids (S i) r end
  end.

Lemma first_sig_unfold t :
  first_sig t = if String.eqb (tag t) SIGNATURE then Some [] else if opaque t then None else first_sig_kids 0 (kids t).
Proof.
  destruct t as [tg ats tx ks]. reflexivity.
Qed.

Lemma first_sig_kids_cons l : forall m p, first_sig_kids m l = Some p -> p <> [].
Proof.
  induction l as [|k r IH]; intros m p H; cbn [first_sig_kids] in H; [discriminate|].
  destruct (first_sig k); [inversion H; discriminate | eapply IH; eauto].
Qed.

Lemma first_sig_kids_index l : forall m j, first_sig_kids m l = Some [j] -> sig_index m l = Some j.
Proof.
  induction l as [|k r IH]; intros m j H; cbn [first_sig_kids] in H; [discriminate|].
  cbn [sig_index]. destruct (first_sig k) as [pk|] eqn:Ek.
  - inversion H; subst. rewrite first_sig_unfold in Ek.
    destruct (String.eqb (tag k) SIGNATURE); [reflexivity|].
    destruct (opaque k); [discriminate|]. exfalso. eapply first_sig_kids_cons; eauto.
  - rewrite first_sig_unfold in Ek. destruct (String.eqb (tag k) SIGNATURE); [discriminate|]. now apply IH.
Qed.

Lemma first_sig_is_child item j : first_sig item = Some [j] -> first_sig_child item = Some [j].
Proof.
  rewrite first_sig_unfold. destruct (String.eqb (tag item) SIGNATURE); [discriminate|].
  destruct (opaque item); [discriminate|]. intro H. unfold first_sig_child. now rewrite (first_sig_kids_index _ _ _ H).
Qed.

Lemma sel_sig_one s item j : first_sig item = Some [j] -> sel_sig s item = Some [j].
Proof. intro H. destruct s; [exact H | now apply first_sig_is_child]. Qed.

(* the switches that every theorem needs on; k_onesig / k_uniq / k_issuer are handled by guards *)
Definition sound_knobs (K : knobs) : Prop :=
  k_uri K = true /\ k_nodeid K = true /\ k_iter K = true /\ k_exact K = true /\ k_isseq K = true.

(* why the element that is signature-checked is the element the engine starts from:
   - the code makes the whole test (one signature, unique in the text) - enough for EVERY engine; or
   - the code makes the one-signature test on whichever element of that ID it finds, and the engine is strict
     about duplicate IDs (then the uniqueness test of the code is redundant); or
   - (before e81db11e) the document satisfies the guard and the engine is strict *)
Definition item_guard (E : engine) (K : knobs) (item : tree) : Prop :=
  (k_onesig K = true /\ (k_uniq K = true \/ e_ids E = IdStrict))
  \/ (one_sig item = true /\ e_ids E = IdStrict).

(* lenient engines only: no un-namespaced element called like the node carries an ID (the engine's --id-attr
   registration matches such elements, the uniqueness test of the code does not see them: finding C02-F3) *)
Definition no_bare_for (nn : nodename) (doc : tree) : Prop :=
  forall q e, sub doc q = Some e -> tag e = nn_l nn -> String.eqb (nn_l nn) (nn_q nn) = false -> attr "ID" e = None.

Section Key.
  Variable dig_ok : string -> string -> tree -> bool.
  Variable sig_ok : nat -> string -> tree -> bool.

  Lemma check_signature_covered E K c doc item nn fb schema p ds k :
    sound_knobs K ->
    item_guard E K item ->
    (lenient E = true -> k_lax K = true \/ no_bare_for nn doc) ->
    sub doc p = Some item -> clear_path doc p -> tag item = nn_q nn ->
    (schema = true -> attr "ID" item <> None) ->
    check_signature dig_ok sig_ok E K c doc item nn fb schema = Some (ds, k) ->
    exists j sg si sv alg dv,
      nth_error (kids item) j = Some sg /\ tag sg = SIGNATURE /\ ds = [(p, p ++ [j])]
      /\ In k (md_certs c (let i := issuer_text item in if is_empty i then fb else i))
      /\ si_digest si = Some (alg, dv)
      /\ dig_ok alg dv (remove_at item [j]) = true
      /\ sig_ok k sv si = true.
  Proof.
    intros (Ku & Kn & Ki & Ke & _) Hone Hbare Hsub Hclear Htag Hschema H.
    assert (Hm : id_match nn (tag item) = true) by (unfold id_match; now rewrite Htag, String.eqb_refl).
    unfold check_signature in H.
    destruct schema; [|discriminate]. simpl in H.
    destruct (validators K item) eqn:Hv; [|discriminate]. simpl in H.
    destruct (k_onesig K && negb (one_sig_doc K nn doc item)) eqn:Hos; [discriminate|].
    apply first_ok_In in H as [Hk Hx].
    destruct (attr "ID" item) as [i|] eqn:Hid; [|exfalso; now apply Hschema].
    (* validators *)
    unfold validators in Hv.
    destruct (single SIGNATURE item) as [sg|] eqn:Esg; [|discriminate].
    destruct (single SIGNEDINFO sg) as [si|] eqn:Esi; [|discriminate].
    destruct (many REFERENCE si) as [|r [|? ?]] eqn:Eref; try discriminate.
    destruct (attr "URI" r) as [uri|] eqn:Euri; [|discriminate].
    destruct (single C14NMETHOD si) as [cm|]; [|discriminate].
    destruct (single TRANSFORMS r) as [T|] eqn:ET; [|discriminate].
    rewrite !andb_true_iff in Hv. destruct Hv as ((((((((Va & Vb) & Vc) & Vd) & Ve) & Vf) & Vg) & Vh) & Vi).
    rewrite Ku, Ke in Vc. simpl in Vc. apply String.eqb_eq in Vc.
    unfold id_str in Vc. rewrite Hid in Vc. subst uri.
    assert (Hi : is_empty i = false).
    { destruct i; [simpl in Vb; discriminate | reflexivity]. }
    rewrite Hi in Hx.
    (* the engine: registry, start node *)
    unfold xmlsec_verify in Hx. rewrite Kn in Hx.
    destruct (dup_error (e_ids E) (collect nn doc)) eqn:Hdup; [discriminate|].
    assert (Hin : In (i, p) (collect nn doc)) by (eapply collect_sub; eauto).
    assert (Hvis : In (p, item) (visible doc)) by (now apply visible_complete).
    assert (F : one_sig item = true /\ ids_of (e_ids E) (collect nn doc) i = Some p).
    { destruct (e_ids E) eqn:Em; cbn [dup_error] in Hdup; cbn [ids_of].
      - (* strict: no duplicate registration at all *)
        split; [|now apply assoc_nodup].
        destruct Hone as [[Ko _]|[Ho _]]; [|exact Ho].
        rewrite Ko in Hos. cbn [andb] in Hos. apply negb_false_iff in Hos.
        destruct (one_sig_doc_pick _ _ _ _ Hos) as (q & node & Hq & Hsq & Hnode & _).
        apply nodes_of_In in Hq as (e & Hve & Hte & Hie).
        destruct (visible_sub _ _ _ Hve) as [Hse Hce].
        assert (In (i, q) (collect nn doc)).
        { eapply collect_sub; eauto; [eapply node_match_id; eauto | congruence]. }
        assert (q = p) by (eapply nodup_unique; eauto). subst q.
        rewrite Hsub in Hsq. inversion Hsq; subst node. unfold one_sig_k in Hnode. now rewrite Ki in Hnode.
      - (* first registration wins *)
        destruct Hone as [[Ko [Hu|Hs]]|[_ Hs]]; try congruence.
        rewrite Ko in Hos. cbn [andb] in Hos. apply negb_false_iff in Hos.
        destruct (one_sig_doc_pick _ _ _ _ Hos) as (q & node & Hq & Hsq & Hnode & Hall). specialize (Hall Hu).
        assert (Hp : In p (nodes_of (node_match K nn) (attr "ID" item) doc))
          by (apply nodes_of_In; exists item; rewrite Hid, Htag; auto using node_match_q).
        rewrite Hall in Hp, Hq. destruct Hp as [<-|[]].
        rewrite Hsub in Hsq. inversion Hsq; subst node. unfold one_sig_k in Hnode. rewrite Ki in Hnode.
        split; [assumption|]. apply lookup_all_same; [assumption|].
        intros q' Hq'. destruct (collect_visible _ _ _ _ Hq') as (e & Hve & Hme & Hie).
        destruct (node_match K nn (tag e)) eqn:Eq.
        + assert (In q' (nodes_of (node_match K nn) (attr "ID" item) doc)) by (apply nodes_of_In; exists e; rewrite Hid; auto).
          rewrite Hall in H. now destruct H as [<-|[]].
        + exfalso. unfold node_match in Eq. destruct (k_lax K) eqn:Kl; [congruence|].
          unfold id_match in Hme. rewrite Eq in Hme. cbn [orb] in Hme. apply String.eqb_eq in Hme.
          assert (Hl : lenient E = true) by (unfold lenient; now rewrite Em).
          destruct (Hbare Hl) as [Hb|Hb]; [discriminate|].
          destruct (visible_sub _ _ _ Hve) as [Hse _].
          rewrite (Hb q' e Hse Hme) in Hie; [discriminate|]. rewrite <- Hme. exact Eq.
      - (* last registration wins *)
        destruct Hone as [[Ko [Hu|Hs]]|[_ Hs]]; try congruence.
        rewrite Ko in Hos. cbn [andb] in Hos. apply negb_false_iff in Hos.
        destruct (one_sig_doc_pick _ _ _ _ Hos) as (q & node & Hq & Hsq & Hnode & Hall). specialize (Hall Hu).
        assert (Hp : In p (nodes_of (node_match K nn) (attr "ID" item) doc))
          by (apply nodes_of_In; exists item; rewrite Hid, Htag; auto using node_match_q).
        rewrite Hall in Hp, Hq. destruct Hp as [<-|[]].
        rewrite Hsub in Hsq. inversion Hsq; subst node. unfold one_sig_k in Hnode. rewrite Ki in Hnode.
        split; [assumption|]. apply lookup_all_same; [assumption|].
        intros q' Hq'. destruct (collect_visible _ _ _ _ Hq') as (e & Hve & Hme & Hie).
        destruct (node_match K nn (tag e)) eqn:Eq.
        + assert (In q' (nodes_of (node_match K nn) (attr "ID" item) doc)) by (apply nodes_of_In; exists e; rewrite Hid; auto).
          rewrite Hall in H. now destruct H as [<-|[]].
        + exfalso. unfold node_match in Eq. destruct (k_lax K) eqn:Kl; [congruence|].
          unfold id_match in Hme. rewrite Eq in Hme. cbn [orb] in Hme. apply String.eqb_eq in Hme.
          assert (Hl : lenient E = true) by (unfold lenient; now rewrite Em).
          destruct (Hbare Hl) as [Hb|Hb]; [discriminate|].
          destruct (visible_sub _ _ _ Hve) as [Hse _].
          rewrite (Hb q' e Hse Hme) in Hie; [discriminate|]. rewrite <- Hme. exact Eq. }
    destruct F as [Hone' Hreg].
    (* one signature *)
    destruct (one_sig_shape _ Hone') as (j & s & Em & Ef & En & Ets).
    assert (sg = s).
    { apply single_In in Esg. rewrite Em in Esg. destruct Esg as [E0|[]]. now subst. }
    subst s.
    (* xmlsec *)
    cbv zeta in Hx. rewrite Hreg, Hsub in Hx. rewrite (sel_sig_one (e_sel E) item j Ef) in Hx.
    rewrite sub_one, En in Hx.
    destruct (strict_sig sg) eqn:Hst; [|discriminate]. simpl in Hx.
    destruct (strict_sig_shape _ Hst) as (si' & sv & Fsi & Ssi & Fsv & Hssi).
    rewrite Esi in Ssi. inversion Ssi; subst si'. clear Ssi.
    rewrite Fsi, Fsv, Eref in Hx.
    cbn [refs_check] in Hx.
    assert (Hsr : strict_ref r = true) by (eapply strict_si_refs; eauto; rewrite Eref; now left).
    pose proof (strict_ref_transforms _ _ Hsr ET) as FT.
    unfold ref_check in Hx. rewrite Euri in Hx.
    rewrite resolve_anchor in Hx.
    rewrite Hreg, Hsub, FT in Hx.
    destruct (forallb _ (map (attr "Algorithm") (many TRANSFORM T))); [|discriminate].
    cbn [negb] in Hx. cbv beta iota in Hx.
    rewrite Vh in Hx. rewrite strip_prefix_app in Hx. cbv beta iota in Hx.
    destruct (first_child DIGESTMETHOD r) as [dm|] eqn:Edm; [|cbv beta iota in Hx; discriminate].
    destruct (first_child DIGESTVALUE r) as [dv|] eqn:Edv; [|cbv beta iota in Hx; discriminate].
    destruct (attr "Algorithm" dm) as [alg|] eqn:Ealg; [|cbv beta iota in Hx; discriminate].
    destruct (mem alg XS_DIG_ALGS); [|cbv beta iota in Hx; discriminate].
    cbv beta iota in Hx. rewrite andb_true_r in Hx.
    destruct (negb (opt_mem _ XS_C14N_ALGS)); [discriminate|].
    destruct (negb (opt_mem _ XS_SIG_ALGS)); [discriminate|].
    destruct (dig_ok alg (text dv) (remove_at item [j])) eqn:Hd; [|discriminate]. cbn [andb] in Hx.
    destruct (sig_ok k (text sv) si) eqn:Hs; [|discriminate].
    inversion Hx; subst ds.
    exists j, sg, si, (text sv), alg, (text dv). repeat split; try assumption.
    unfold si_digest. now rewrite Eref, Edm, Edv, Ealg.
  Qed.
End Key.

(* ================================================================== provenance of the reported fields *)
Lemma subtrees_list_inv l x : In x (subtrees_list l) -> exists k, In k l /\ In x (subtrees k).
Proof.
  induction l as [|y r IH]; simpl; [tauto|]. intro H. apply in_app_or in H as [H|H].
  - exists y. split; [now left | assumption].
  - destruct (IH H) as (k & Hk & Hx). exists k. split; [now right | assumption].
Qed.

Lemma subtrees_trans : forall e x, In x (subtrees e) -> forall y, In y (subtrees x) -> In y (subtrees e).
Proof.
  induction e as [tg ats tx ks IH] using tree_ind'. intros x Hx y Hy.
  rewrite subtrees_unfold in Hx. destruct Hx as [<-|Hx]; [assumption|].
  apply subtrees_list_inv in Hx as (k & Hk & Hx). simpl in Hk.
  rewrite Forall_forall in IH. eapply subtrees_kid; [exact Hk|]. eapply IH; eauto.
Qed.

Lemma covered_elements_kid c cv x k : In x (covered_elements c cv) -> In k (kids x) -> In k (covered_elements c cv).
Proof.
  unfold covered_elements. rewrite !in_flat_map. intros (ek & Hek & Hx) Hk. exists ek. split; [assumption|].
  destruct (by_asserting_party c ek); [|contradiction].
  eapply subtrees_trans; [exact Hx|]. eapply subtrees_kid; [exact Hk | apply subtrees_self].
Qed.

Lemma covered_assertions_In c cv a : In a (covered_assertions c cv) <-> In a (covered_elements c cv) /\ tag a = ASSERTION.
Proof. unfold covered_assertions. now rewrite filter_In, String.eqb_eq. Qed.

(* a is covered: as it stands inside a covered element, or it is a covered element once its
   (verified, enveloped) signature child is taken out *)
Definition asserted (c : cfg) (cv : cov) (a : tree) : Prop :=
  In a (covered_assertions c cv)
  \/ exists j s, nth_error (kids a) j = Some s /\ tag s = SIGNATURE /\ In (remove_at a [j]) (covered_assertions c cv).

Definition sig_blind {A} (f : tree -> list A) : Prop :=
  forall t j s, nth_error (kids t) j = Some s -> tag s = SIGNATURE -> f (remove_at t [j]) = f t.

Lemma sig_ne tg : String.eqb SIGNATURE tg = false -> forall s, tag s = SIGNATURE -> tag s <> tg.
Proof. intros H s E. rewrite E. now apply tag_neq_by_eqb. Qed.

Lemma name_ids_blind : sig_blind name_ids.
Proof. intros t j s Hn Hs. unfold name_ids. erewrite reach_remove; eauto. now apply sig_ne. Qed.
Lemma attr_values_blind c : sig_blind (attr_values c).
Proof. intros t j s Hn Hs. unfold attr_values. erewrite reach_remove; eauto. now apply sig_ne. Qed.
Lemma audiences_blind : sig_blind audiences.
Proof. intros t j s Hn Hs. unfold audiences. erewrite reach_remove; eauto. now apply sig_ne. Qed.
Lemma cond_attr_blind nm : sig_blind (cond_attr nm).
Proof. intros t j s Hn Hs. unfold cond_attr. erewrite reach_remove; eauto. now apply sig_ne. Qed.
Lemma stmt_attr_blind nm : sig_blind (stmt_attr nm).
Proof. intros t j s Hn Hs. unfold stmt_attr. erewrite reach_remove; eauto. now apply sig_ne. Qed.
Lemma class_refs_blind : sig_blind class_refs.
Proof. intros t j s Hn Hs. unfold class_refs. erewrite reach_remove; eauto. now apply sig_ne. Qed.

Lemma fields_from {A} (f : tree -> list A) c cv a v :
  sig_blind f -> asserted c cv a -> In v (f a) -> from_assertion c cv f v.
Proof.
  intros Hb [Ha|(j & s & Hn & Hs & Ha)] Hv.
  - now exists a.
  - exists (remove_at a [j]). split; [assumption|]. now rewrite (Hb a j s Hn Hs).
Qed.

Lemma advice_from c cv a adv ta :
  asserted c cv a -> single ADVICE a = Some adv -> In ta (many ASSERTION adv) -> In ta (covered_assertions c cv).
Proof.
  intros Ha Hadv Hta. apply single_In, many_In in Hadv as [Hadv Htag]. apply many_In in Hta as [Hta Htt].
  apply covered_assertions_In. split; [|assumption].
  destruct Ha as [Ha|(j & s & Hn & Hs & Ha)]; apply covered_assertions_In in Ha as [Ha _].
  - eapply covered_elements_kid; [|exact Hta]. eapply covered_elements_kid; eauto.
  - eapply covered_elements_kid; [|exact Hta]. eapply covered_elements_kid; [exact Ha|].
    rewrite kids_remove_one. eapply remove_nth_In; eauto. intro E. subst. rewrite Hs in Htag. discriminate.
Qed.

Lemma keep_last_In {A} (f : tree -> option A) l x : keep_last f l = Some x -> exists a, In a l /\ f a = Some x.
Proof.
  unfold keep_last.
  assert (G : forall acc, fold_left (fun acc a => match f a with Some y => Some y | None => acc end) l acc = Some x ->
                          acc = Some x \/ exists a, In a l /\ f a = Some x).
  { induction l as [|a r IH]; simpl; intros acc H; [now left|].
    apply IH in H as [H|(b & Hb & Hf)].
    - destruct (f a) eqn:E; [right; exists a; split; [now left | congruence] | now left].
    - right. exists b. split; [now right | assumption]. }
  intro H. apply G in H as [H|H]; [discriminate | assumption].
Qed.

Lemma nonempty_Some o s : nonempty o = Some s -> o = Some s.
Proof. unfold nonempty. destruct o as [x|]; [destruct (is_empty x); congruence | discriminate]. Qed.

Section Ava.
  Variables (c : cfg) (cv : cov).
  Definition Pv (k v : string) : Prop := from_assertion c cv (attr_values c) (k, v).
  Definition ava_good (m : ava) : Prop := forall k vs v, In (k, vs) m -> In v vs -> Pv k v.

  Lemma ava_extend_good k vs m : ava_good m -> (forall v, In v vs -> Pv k v) -> ava_good (ava_extend k vs m).
  Proof.
    intros Hm Hvs. induction m as [|[k' v'] r IH]; simpl.
    - intros k0 vs0 v [E|[]] Hv. inversion E; subst. now apply Hvs.
    - assert (Hr : ava_good r) by (intros k0 vs0 v H1 H2; eapply Hm; [right; exact H1 | exact H2]).
      destruct (String.eqb k k') eqn:E.
      + apply String.eqb_eq in E. subst k'. intros k0 vs0 v [E|H1] Hv.
        * inversion E; subst. apply in_app_or in Hv as [Hv|Hv]; [eapply Hm; [now left | exact Hv] | now apply Hvs].
        * eapply Hr; eauto.
      + intros k0 vs0 v [E'|H1] Hv.
        * inversion E'; subst. eapply Hm; [now left | exact Hv].
        * eapply IH; eauto.
  Qed.

  Lemma ava_set_good k vs m : ava_good m -> (forall v, In v vs -> Pv k v) -> ava_good (ava_set k vs m).
  Proof.
    intros Hm Hvs. induction m as [|[k' v'] r IH]; simpl.
    - intros k0 vs0 v [E|[]] Hv. inversion E; subst. now apply Hvs.
    - assert (Hr : ava_good r) by (intros k0 vs0 v H1 H2; eapply Hm; [right; exact H1 | exact H2]).
      destruct (String.eqb k k') eqn:E.
      + apply String.eqb_eq in E. subst k'. intros k0 vs0 v [E|H1] Hv.
        * inversion E; subst. now apply Hvs.
        * eapply Hr; eauto.
      + intros k0 vs0 v [E'|H1] Hv.
        * inversion E'; subst. eapply Hm; [now left | exact Hv].
        * eapply IH; eauto.
  Qed.

  Lemma ava_update_good m new : ava_good m -> ava_good new -> ava_good (ava_update m new).
  Proof.
    unfold ava_update. revert m. induction new as [|[k vs] r IH]; simpl; intros m Hm Hn; [assumption|].
    apply IH.
    - apply ava_set_good; [assumption|]. intros v Hv. eapply Hn; [now left | exact Hv].
    - intros k0 vs0 v H1 H2. eapply Hn; [right; exact H1 | exact H2].
  Qed.

  Definition stmt_ok (st : tree) : Prop :=
    forall at_ k v, In at_ (many ATTRIBUTE st) -> akey c at_ = Some k -> In v (values_of at_) -> Pv k v.

  Lemma ava_stmt_good st : stmt_ok st -> ava_good (ava_stmt c st).
  Proof.
    unfold ava_stmt. intro Hst.
    assert (G : forall l m, (forall x, In x l -> In x (many ATTRIBUTE st)) -> ava_good m ->
                            ava_good (fold_left (fun m at_ => match akey c at_ with
                                                              | Some k => ava_extend k (values_of at_) m
                                                              | None => m end) l m)).
    { induction l as [|x r IH]; simpl; intros m Hl Hm; [assumption|].
      apply IH; [intros y Hy; apply Hl; now right|].
      destruct (akey c x) as [k|] eqn:E; [|assumption].
      apply ava_extend_good; [assumption|]. intros v Hv. eapply Hst; eauto. }
    apply G; [auto|]. intros k vs v [].
  Qed.

  Lemma stmt_ok_of a st : In st (many ATTRSTMT a) ->
    (forall kv, In kv (attr_values c a) -> from_assertion c cv (attr_values c) kv) -> stmt_ok st.
  Proof.
    intros Hst Hf at_ k v Hat Hk Hv. apply Hf. unfold attr_values. apply in_flat_map.
    exists at_. split.
    - eapply reach_step; [exact Hst|]. eapply reach_step; [exact Hat|]. now left.
    - rewrite Hk. apply in_map_iff. now exists v.
  Qed.

  Lemma ava_assertion_good m a : ava_good m -> asserted c cv a -> ava_good (ava_assertion c m a).
  Proof.
    intros Hm Ha. unfold ava_assertion.
    assert (G2 : forall l m0, (forall st, In st l -> In st (many ATTRSTMT a)) -> ava_good m0 ->
                              ava_good (fold_left (fun m st => ava_update m (ava_stmt c st)) l m0)).
    { induction l as [|st r IH]; simpl; intros m0 Hl Hm0; [assumption|].
      apply IH; [intros y Hy; apply Hl; now right|].
      apply ava_update_good; [assumption|]. apply ava_stmt_good.
      eapply stmt_ok_of; [apply Hl; now left|].
      intros kv Hkv. eapply fields_from; eauto. apply attr_values_blind. }
    apply G2; [auto|].
    destruct (single ADVICE a) as [adv|] eqn:Eadv; [|assumption].
    assert (G1 : forall l m0, (forall ta, In ta l -> In ta (many ASSERTION adv)) -> ava_good m0 ->
                              ava_good (fold_left (fun m ta => match many ATTRSTMT ta with
                                                               | st :: _ => ava_update m (ava_stmt c st)
                                                               | [] => m end) l m0)).
    { induction l as [|ta r IH]; simpl; intros m0 Hl Hm0; [assumption|].
      apply IH; [intros y Hy; apply Hl; now right|].
      destruct (many ATTRSTMT ta) as [|st rest] eqn:Est; [assumption|].
      apply ava_update_good; [assumption|]. apply ava_stmt_good.
      eapply stmt_ok_of; [rewrite Est; now left|].
      intros kv Hkv. exists ta. split; [|assumption]. eapply advice_from; eauto; apply Hl; now left. }
    apply G1; auto.
  Qed.

  Lemma ava_fold_good l : (forall a, In a l -> asserted c cv a) -> ava_good (fold_left (ava_assertion c) l []).
  Proof.
    assert (G : forall l m, (forall a, In a l -> asserted c cv a) -> ava_good m -> ava_good (fold_left (ava_assertion c) l m)).
    { induction l0 as [|a r IH]; simpl; intros m Hl Hm; [assumption|].
      apply IH; [intros y Hy; apply Hl; now right|]. apply ava_assertion_good; [assumption | apply Hl; now left]. }
    intro Hl. apply G; [assumption|]. intros k vs v [].
  Qed.
End Ava.

Lemma report_covered c cv root proc rep :
  (forall a, In a proc -> asserted c cv a) -> (forall a, In a rep -> asserted c cv a) ->
  spec_but_issuer c cv (report c root proc rep).
Proof.
  intros Hproc Hrep.
  assert (Ha0 : forall a0, first_opt rep = Some a0 -> asserted c cv a0) by (intros a0 H; apply Hrep; now apply first_opt_In).
  unfold spec_but_issuer. split; [|split; [|split; [|split; [split|split; [|split; [|intros i cr H; split]]]]]].
  - (* name id *)
    intros v Hv. cbn [report r_name_id] in Hv.
    destruct (keep_last name_id_of proc) as [n|] eqn:E; [|discriminate]. inversion Hv; subst v.
    apply keep_last_In in E as (a & Ha & Hn). unfold name_id_of in Hn.
    destruct (single SUBJECT a) as [s|] eqn:Es; [|discriminate].
    apply (fields_from _ c cv a _ (name_ids_blind) (Hproc a Ha)).
    unfold name_ids. apply in_map_iff. exists n. split; [reflexivity|].
    eapply reach_step; [eapply single_In; eauto|]. eapply reach_step; [eapply single_In; eauto|]. now left.
  - (* attributes *)
    intros k vs v Hk Hv. cbn [report r_ava] in Hk.
    exact (ava_fold_good c cv rep Hrep k vs v Hk Hv).
  - (* audiences *)
    intros v Hv. cbn [report r_audiences] in Hv.
    destruct (first_opt rep) as [a0|] eqn:E0; [|contradiction].
    destruct (single CONDITIONS a0) as [x|] eqn:Ex; [|contradiction].
    apply in_flat_map in Hv as (ar & Har & Hv). apply in_map_iff in Hv as (au & Etext & Hau).
    apply (fields_from _ c cv a0 _ (audiences_blind) (Ha0 a0 eq_refl)).
    unfold audiences. apply in_map_iff. exists au. split; [assumption|].
    eapply reach_step; [eapply single_In; eauto|]. eapply reach_step; [exact Har|]. eapply reach_step; [exact Hau|]. now left.
  - (* NotBefore *)
    intros v Hv. cbn [report r_not_before] in Hv.
    destruct (first_opt rep) as [a0|] eqn:E0; [|discriminate].
    destruct (single CONDITIONS a0) as [x|] eqn:Ex; [|discriminate].
    apply (fields_from _ c cv a0 _ (cond_attr_blind _) (Ha0 a0 eq_refl)).
    unfold cond_attr. apply in_flat_map. exists x. split; [|rewrite Hv; now left].
    eapply reach_step; [eapply single_In; eauto | now left].
  - (* NotOnOrAfter *)
    intros v Hv. cbn [report r_not_on_or_after] in Hv.
    destruct (first_opt rep) as [a0|] eqn:E0; [|discriminate].
    destruct (single CONDITIONS a0) as [x|] eqn:Ex; [|discriminate].
    apply (fields_from _ c cv a0 _ (cond_attr_blind _) (Ha0 a0 eq_refl)).
    unfold cond_attr. apply in_flat_map. exists x. split; [|rewrite Hv; now left].
    eapply reach_step; [eapply single_In; eauto | now left].
  - (* session index *)
    intros v Hv. cbn [report r_session_index] in Hv.
    destruct (first_opt rep) as [a0|] eqn:E0; [|discriminate].
    destruct (first_opt (many AUTHNSTMT a0)) as [st|] eqn:Est; [|discriminate].
    apply (fields_from _ c cv a0 _ (stmt_attr_blind _) (Ha0 a0 eq_refl)).
    unfold stmt_attr. apply in_flat_map. exists st. split; [|rewrite Hv; now left].
    eapply reach_step; [eapply first_opt_In; eauto | now left].
  - (* session not-on-or-after *)
    intros v Hv. cbn [report r_session_nooa] in Hv.
    destruct (match single ISSUER root with Some i => is_empty (text i) | None => false end); [discriminate|].
    destruct (keep_last sess_nooa proc) as [s|] eqn:Es.
    + inversion Hv; subst s. left. apply keep_last_In in Es as (a & Ha & Hs). unfold sess_nooa in Hs.
      destruct (first_opt (many AUTHNSTMT a)) as [st|] eqn:Est; [|discriminate]. apply nonempty_Some in Hs.
      apply (fields_from _ c cv a _ (stmt_attr_blind _) (Hproc a Ha)).
      unfold stmt_attr. apply in_flat_map. exists st. split; [|rewrite Hs; now left].
      eapply reach_step; [eapply first_opt_In; eauto | now left].
    + right. apply keep_last_In in Hv as (a & Ha & Hs). unfold cond_nooa in Hs.
      destruct (single CONDITIONS a) as [x|] eqn:Ex; [|discriminate]. apply nonempty_Some in Hs.
      apply (fields_from _ c cv a _ (cond_attr_blind _) (Hproc a Ha)).
      unfold cond_attr. apply in_flat_map. exists x. split; [|rewrite Hs; now left].
      eapply reach_step; [eapply single_In; eauto | now left].
  - (* authn instant *)
    intros v Hv. cbn [report r_authn] in H.
    destruct (first_opt rep) as [a0|] eqn:E0; [|discriminate].
    destruct (first_opt (many AUTHNSTMT a0)) as [st|] eqn:Est; [|discriminate].
    inversion H as [[Hi Hc]]. rewrite <- Hi in Hv.
    apply (fields_from _ c cv a0 _ (stmt_attr_blind _) (Ha0 a0 eq_refl)).
    unfold stmt_attr. apply in_flat_map. exists st. split; [|rewrite Hv; now left].
    eapply reach_step; [eapply first_opt_In; eauto | now left].
  - (* class ref *)
    intros v Hv. cbn [report r_authn] in H.
    destruct (first_opt rep) as [a0|] eqn:E0; [|discriminate].
    destruct (first_opt (many AUTHNSTMT a0)) as [st|] eqn:Est; [|discriminate].
    inversion H as [[Hi Hc]]. rewrite <- Hc in Hv.
    destruct (single AUTHNCONTEXT st) as [ac|] eqn:Eac; [|discriminate].
    destruct (single CLASSREF ac) as [crn|] eqn:Ecr; [|discriminate].
    change (nonempty (Some (text crn)) = Some v) in Hv. apply nonempty_Some in Hv. inversion Hv; subst v.
    apply (fields_from _ c cv a0 _ (class_refs_blind) (Ha0 a0 eq_refl)).
    unfold class_refs. apply in_map_iff. exists crn. split; [reflexivity|].
    eapply reach_step; [eapply first_opt_In; eauto|]. eapply reach_step; [eapply single_In; eauto|].
    eapply reach_step; [eapply single_In; eauto|]. now left.
Qed.

(* ================================================================== acceptance: who is covered *)
Lemma cov_of_app doc ddoc d1 d2 : cov_of doc ddoc (d1 ++ d2) = cov_of doc ddoc d1 ++ cov_of doc ddoc d2.
Proof. unfold cov_of. apply flat_map_app. Qed.

Lemma cov_of_In doc ddoc (which : bool) dc p j k a ds :
  (if which then ddoc else Some doc) = Some dc -> sub dc p = Some a ->
  In (which, p, p ++ [j], k) ds -> In (remove_at a [j], k) (cov_of doc ddoc ds).
Proof.
  intros Hdc Hs Hin. unfold cov_of. apply in_flat_map. exists (which, p, p ++ [j], k). split; [assumption|].
  cbv beta iota. rewrite Hdc. unfold covered_tree. rewrite Hs, strip_prefix_app. now left.
Qed.

Lemma cov_of_single doc ddoc (which : bool) dc p j k a :
  (if which then ddoc else Some doc) = Some dc -> sub dc p = Some a ->
  cov_of doc ddoc [(which, p, p ++ [j], k)] = [(remove_at a [j], k)].
Proof.
  intros Hdc Hs. unfold cov_of. cbn [flat_map]. rewrite Hdc. unfold covered_tree. now rewrite Hs, strip_prefix_app.
Qed.

Lemma mem_nat_In k l : In k l -> mem_nat k l = true.
Proof. intro H. unfold mem_nat. apply existsb_exists. exists k. split; [assumption | apply Nat.eqb_refl]. Qed.

Lemma md_certs_empty c : md_certs c "" = [].
Proof. reflexivity. Qed.

Lemma by_party c a j s k :
  nth_error (kids a) j = Some s -> tag s = SIGNATURE ->
  In k (md_certs c (let i := issuer_text a in if is_empty i then "" else i)) ->
  by_asserting_party c (remove_at a [j], k) = true.
Proof.
  intros Hn Hs Hk. cbv zeta in Hk.
  destruct (is_empty (issuer_text a)) eqn:E; [rewrite md_certs_empty in Hk; contradiction|].
  unfold issuer_text in *. destruct (single ISSUER a) as [n|] eqn:En; [|discriminate].
  unfold by_asserting_party. apply existsb_exists. exists n. split.
  - cbn [fst]. erewrite many_remove; eauto; [now apply single_In | apply sig_ne; [reflexivity | assumption]].
  - cbn [snd]. now apply mem_nat_In.
Qed.

Fixpoint bits_sane (items : list tree) (bits : list bool) : Prop :=
  match items, bits with
  | t :: r, b :: s => (b = true -> attr "ID" t <> None) /\ bits_sane r s
  | _, _ => True
  end.

Definition signed (t : tree) : Prop := single SIGNATURE t <> None.

Section Accept.
  Variable dig_ok : string -> string -> tree -> bool.
  Variable sig_ok : nat -> string -> tree -> bool.

  (* the signature-carrying elements are either guarded by the repaired code or satisfy the guard *)
  Definition guarded (E : engine) (K : knobs) (t : tree) : Prop := signed t -> item_guard E K t.

  (* what the cryptography established for a covered element: the verifying certificate accepted
     a SignedInfo whose digest value is the digest of exactly this element *)
  Definition crypto_ok (e : tree) (k : nat) : Prop :=
    exists si sv alg dv, si_digest si = Some (alg, dv) /\ dig_ok alg dv e = true /\ sig_ok k sv si = true.

  Lemma check_assertions_covered E K c (which : bool) root dc doc ddoc :
    sound_knobs K -> (if which then ddoc else Some doc) = Some dc ->
    (lenient E = true -> k_lax K = true \/ no_bare_for A_NAME dc) ->
    forall as_ sch all ds,
      (forall a, In a as_ -> guarded E K a) ->
      (forall a, In a as_ -> exists p, sub dc p = Some a /\ clear_path dc p) ->
      (forall a, In a as_ -> tag a = ASSERTION) ->
      bits_sane as_ sch ->
      check_assertions dig_ok sig_ok E K c which root dc "" as_ sch = Some (all, ds) ->
      (forall a, In a as_ -> signed a ->
         exists j s k, nth_error (kids a) j = Some s /\ tag s = SIGNATURE
                       /\ In (remove_at a [j], k) (cov_of doc ddoc ds)
                       /\ by_asserting_party c (remove_at a [j], k) = true
                       /\ crypto_ok (remove_at a [j]) k)
      /\ ((all = true \/ want_assert c = true) -> forall a, In a as_ -> signed a)
      /\ (forall e k, In (e, k) (cov_of doc ddoc ds) -> crypto_ok e k)
      /\ (forall a, In a as_ -> issuer_check K root a = true).
  Proof.
    intros HK Hdc Hbare. induction as_ as [|a r IH]; intros sch all ds Hg Hp Ht Hb H.
    - cbn in H. inversion H; subst. split; [|split; [|split]]; intros; contradiction.
    - cbn [check_assertions] in H.
      destruct (issuer_check K root a) eqn:Eic; [|discriminate]. cbn [negb] in H.
      assert (Hb' : bits_sane r (tl sch)) by (destruct sch; [destruct r; exact I | exact (proj2 Hb)]).
      assert (IH' := fun all ds => IH (tl sch) all ds (fun x Hx => Hg x (or_intror Hx)) (fun x Hx => Hp x (or_intror Hx))
                                      (fun x Hx => Ht x (or_intror Hx)) Hb').
      destruct (single SIGNATURE a) as [sg|] eqn:Esg.
      + destruct (check_signature dig_ok sig_ok E K c dc a A_NAME "" match sch with b :: _ => b | [] => false end)
          as [[res k]|] eqn:Ec; [|discriminate].
        destruct (check_assertions dig_ok sig_ok E K c which root dc "" r (tl sch)) as [[all' ds']|] eqn:Er; [|discriminate].
        inversion H; subst all ds. clear H.
        destruct (IH' _ _ eq_refl) as (I1 & I2 & I3 & I4).
        destruct (Hp a (or_introl eq_refl)) as (p & Hsub & Hclear).
        assert (Hsa : signed a) by (unfold signed; congruence).
        assert (Hid : match sch with b :: _ => b | [] => false end = true -> attr "ID" a <> None).
        { destruct sch as [|b s]; [discriminate | exact (proj1 Hb)]. }
        assert (Hm : tag a = nn_q A_NAME) by (exact (Ht a (or_introl eq_refl))).
        destruct (check_signature_covered dig_ok sig_ok E K c dc a A_NAME "" _ p res k HK (Hg a (or_introl eq_refl) Hsa) Hbare Hsub Hclear Hm Hid Ec)
          as (j & s & si & sv & alg & dv & Hn & Hs & Hres & Hk & Hsd & Hd & Hsg).
        split.
        * intros x [<-|Hx] Hsx.
          -- exists j, s, k. repeat split; try assumption.
             ++ rewrite cov_of_app. apply in_or_app. left. eapply cov_of_In; eauto.
                unfold mkdigs. subst res. now left.
             ++ eapply by_party; eauto.
             ++ exists si, sv, alg, dv. tauto.
          -- destruct (I1 x Hx Hsx) as (j' & s' & k' & A1 & A2 & A3 & A4 & A5).
             exists j', s', k'. repeat split; try assumption. rewrite cov_of_app. apply in_or_app. now right.
        * split; [intros Hall x [<-|Hx]; [assumption | now apply I2]|].
          split; [|intros x [<-|Hx]; [assumption | now apply I4]].
          intros e k0 Hin. rewrite cov_of_app in Hin. apply in_app_or in Hin as [Hin|Hin]; [|now apply I3].
          subst res. change (mkdigs which ([(p, p ++ [j])], k)) with [(which, p, p ++ [j], k)] in Hin.
          rewrite (cov_of_single doc ddoc which dc p j k a Hdc Hsub) in Hin.
          destruct Hin as [E0|[]]. inversion E0; subst. exists si, sv, alg, dv. tauto.
      + destruct (want_assert c) eqn:Ew; [discriminate|].
        destruct (check_assertions dig_ok sig_ok E K c which root dc "" r (tl sch)) as [[all' ds']|] eqn:Er; [|discriminate].
        inversion H; subst all ds. clear H.
        destruct (IH' _ _ eq_refl) as (I1 & I2 & I3 & I4).
        split; [|split; [|split]].
        * intros x [<-|Hx] Hsx; [exfalso; now apply Hsx | now apply I1].
        * intros [Hall|Hall]; discriminate.
        * exact I3.
        * intros x [<-|Hx]; [assumption | now apply I4].
  Qed.
End Accept.

(* ================================================================== the main theorem *)
Definition sig_required (c : cfg) : Prop := want_resp c = true \/ want_assert c = true \/ want_either c = true.

(* the guard: every signature-carrying element (the Response, its Assertion children, the decrypted
   assertions), as received, has exactly one ds:Signature child and that child is the first
   ds:Signature in document order at or below the element *)
Definition sig_guard (doc : tree) (ddoc : option tree) : Prop :=
  (signed doc -> one_sig doc = true)
  /\ (forall a, In a (many ASSERTION doc) -> signed a -> one_sig a = true)
  /\ (forall dd, ddoc = Some dd -> forall a, In a (decrypted dd) -> signed a -> one_sig a = true).

(* assumed about the schema oracle (XSD: ID is a required attribute of Response and Assertion) *)
Definition oracle_sane (o : oracle) (doc : tree) (ddoc : option tree) : Prop :=
  (schema_root o = true -> attr "ID" doc <> None)
  /\ bits_sane (many ASSERTION doc) (schema_as o)
  /\ (forall dd, ddoc = Some dd -> bits_sane (decrypted dd) (schema_enc o)).

(* assumed about decryption + re-serialisation (only consulted when the Response carries ciphertext):
   decrypted assertions come out of non-signature children of the Response as received, and the plain
   assertions are not changed by the round trip through str(response) *)
Definition dec_sound (doc : tree) (ddoc : option tree) : Prop :=
  forall dd, ddoc = Some dd ->
    opaque dd = false
    /\ (forall a, In a (decrypted dd) -> exists k, In k (kids doc) /\ tag k <> SIGNATURE /\ In a (subtrees k))
    /\ (forall a, In a (many ASSERTION dd) -> In a (many ASSERTION doc)).

(* the assertions whose content is reported *)
Definition reported_assertions (doc : tree) (ddoc : option tree) : list tree :=
  many ASSERTION doc ++ (if find_encrypt_data doc then match ddoc with Some dd => decrypted dd | None => [] end else []).

(* C02-F2 is excluded by: the Response itself is signed, or its Issuer is the Issuer of a reported assertion *)
Definition issuer_guard (doc : tree) (ddoc : option tree) : Prop :=
  signed doc \/ exists a, In a (reported_assertions doc ddoc) /\ issuer_text a = issuer_text doc.

(* lenient engines only (finding C02-F3): no un-namespaced element called Assertion / Response carries an ID, in
   the text as received and in the decrypted text *)
Definition no_bare (doc : tree) : Prop :=
  forall q e, sub doc q = Some e -> (tag e = "Assertion" \/ tag e = "Response") -> attr "ID" e = None.
Definition engine_guard (E : engine) (doc : tree) (ddoc : option tree) : Prop :=
  lenient E = true -> no_bare doc /\ (forall dd, ddoc = Some dd -> no_bare dd).

Lemma no_bare_A doc : no_bare doc -> no_bare_for A_NAME doc.
Proof. intros H q e Hs Ht _. apply (H q e Hs). left. exact Ht. Qed.
Lemma no_bare_R doc : no_bare doc -> no_bare_for R_NAME doc.
Proof. intros H q e Hs Ht _. apply (H q e Hs). right. exact Ht. Qed.

(* which engines / documents a set of switches is sound for (see item_guard) *)
Definition defence (E : engine) (K : knobs) (doc : tree) (ddoc : option tree) : Prop :=
  (k_onesig K = true /\ (k_uniq K = true \/ e_ids E = IdStrict)) \/ (sig_guard doc ddoc /\ e_ids E = IdStrict).

Lemma sub_kid doc a : opaque doc = false -> In a (kids doc) -> exists p, sub doc p = Some a /\ clear_path doc p.
Proof.
  intros Ho H. apply In_nth_error in H as (n & Hn). exists [n]. rewrite sub_one. split; [assumption|].
  cbn [clear_path]. rewrite Hn. now split.
Qed.

Lemma not_opaque_tag t tg : tag t = tg -> String.eqb tg ENCDATA = false -> opaque t = false.
Proof. intros E H. unfold opaque, opaque_parts. now rewrite E, H. Qed.

Lemma decrypted_In dd a : opaque dd = false -> In a (decrypted dd) ->
  tag a = ASSERTION /\ exists p, sub dd p = Some a /\ clear_path dd p.
Proof.
  unfold decrypted. rewrite in_flat_map. intros Ho (e & He & Ha). apply many_In in He as [He Hte]. apply many_In in Ha as [Ha Ht].
  split; [assumption|]. apply In_nth_error in He as (n & Hn). apply In_nth_error in Ha as (m & Hm).
  exists [n; m]. split; [simpl; rewrite Hn; now rewrite Hm|].
  cbn [clear_path]. rewrite Hn, Hm. repeat split; try assumption. eapply not_opaque_tag; eauto.
Qed.

Lemma asserted_issuer c cv a : tag a = ASSERTION -> asserted c cv a -> is_empty (issuer_text a) = false ->
  In (issuer_text a) (covered_issuers c cv).
Proof.
  intros Ht Ha Hne. unfold issuer_text in *. destruct (single ISSUER a) as [n|] eqn:En; [|discriminate].
  apply single_In in En.
  unfold covered_issuers. apply in_flat_map.
  destruct Ha as [Ha|(j & s & Hn & Hs & Ha)]; apply covered_assertions_In in Ha as [Ha Hta].
  - exists a. split; [assumption|]. rewrite Ht. cbn [String.eqb orb]. rewrite String.eqb_refl. cbn [orb].
    apply in_map_iff. now exists n.
  - exists (remove_at a [j]). split; [assumption|]. rewrite Hta. rewrite String.eqb_refl. cbn [orb].
    apply in_map_iff. exists n. split; [reflexivity|]. erewrite many_remove; eauto. apply sig_ne; [reflexivity | assumption].
Qed.

Section Main.
  Variable dig_ok : string -> string -> tree -> bool.
  Variable sig_ok : nat -> string -> tree -> bool.

  Definition response_check (E : engine) (K : knobs) (c : cfg) (o : oracle) (doc : tree) : option (bool * list dig) :=
    match single SIGNATURE doc with
    | Some _ => match check_signature dig_ok sig_ok E K c doc doc R_NAME "" (schema_root o) with
                | Some res => Some (true, mkdigs false res)
                | None => None
                end
    | None => if want_resp c then None else Some (false, [])
    end.

  Lemma response_step E K c o doc ddoc resp_signed d0 :
    sound_knobs K -> tag doc = RESPONSE -> guarded E K doc -> (lenient E = true -> k_lax K = true \/ no_bare_for R_NAME doc) ->
    (schema_root o = true -> attr "ID" doc <> None) ->
    response_check E K c o doc = Some (resp_signed, d0) ->
    (resp_signed = true ->
       exists j s k, nth_error (kids doc) j = Some s /\ tag s = SIGNATURE
                     /\ cov_of doc ddoc d0 = [(remove_at doc [j], k)]
                     /\ by_asserting_party c (remove_at doc [j], k) = true
                     /\ crypto_ok dig_ok sig_ok (remove_at doc [j]) k)
    /\ (resp_signed = false -> d0 = [] /\ want_resp c = false /\ ~ signed doc).
  Proof.
    intros HK Etag Gdoc Hbare Os1 ER. unfold response_check in ER.
    destruct (single SIGNATURE doc) as [sg|] eqn:Esg.
    - destruct (check_signature dig_ok sig_ok E K c doc doc R_NAME "" (schema_root o)) as [[res k]|] eqn:Ec; [|discriminate].
      inversion ER; subst resp_signed d0. clear ER. split; [intros _|discriminate].
      assert (Hsd : signed doc) by (unfold signed; congruence).
      assert (Hm : tag doc = nn_q R_NAME) by (exact Etag).
      destruct (check_signature_covered dig_ok sig_ok E K c doc doc R_NAME "" _ [] res k HK (Gdoc Hsd) Hbare eq_refl I Hm Os1 Ec)
        as (j & s & si & sv & alg & dv & Hn & Hs & Hres & Hk & Hsdg & Hd & Hsg).
      exists j, s, k. repeat split; try assumption.
      + subst res. change (mkdigs false ([(@nil nat, @nil nat ++ [j])], k)) with [(false, @nil nat, @nil nat ++ [j], k)].
        apply (cov_of_single doc ddoc false doc (@nil nat) j k doc); reflexivity.
      + eapply by_party; eauto.
      + exists si, sv, alg, dv. tauto.
    - destruct (want_resp c); [discriminate|]. inversion ER; subst. split; [discriminate|].
      intros _. repeat split. unfold signed. congruence.
  Qed.

  Lemma covered_self c (cv : cov) e k : In (e, k) cv -> by_asserting_party c (e, k) = true -> In e (covered_elements c cv).
  Proof.
    intros Hin Hby. unfold covered_elements. apply in_flat_map. exists (e, k). split; [assumption|].
    rewrite Hby. apply subtrees_self.
  Qed.

  Theorem accept_covered Eg K c o doc ddoc rep ds :
    sound_knobs K -> sig_required c ->
    defence Eg K doc ddoc ->
    (k_issuer K = true \/ issuer_guard doc ddoc) ->
    (k_lax K = true \/ engine_guard Eg doc ddoc) ->
    oracle_sane o doc ddoc -> dec_sound doc ddoc ->
    accept dig_ok sig_ok Eg K c o doc ddoc = Some (rep, ds) ->
    spec c (cov_of doc ddoc ds) rep
    /\ (forall e k, In (e, k) (cov_of doc ddoc ds) -> crypto_ok dig_ok sig_ok e k).
  Proof.
    intros HK Hreq Hguard Hig Heng (Os1 & Os2 & Os3) Hdec H.
    unfold accept in H.
    destruct (String.eqb (tag doc) RESPONSE) eqn:Etag; [|discriminate]. apply String.eqb_eq in Etag. cbn [negb] in H.
    destruct (content_ok o); [|discriminate]. cbn [negb] in H.
    destruct (count_ok doc); [|discriminate]. cbn [negb] in H.
    assert (Gdoc : guarded Eg K doc)
      by (intro Hs; destruct Hguard as [G|((G & _ & _) & Hst)]; [now left | right; split; [now apply G | exact Hst]]).
    assert (Gplain : forall a, In a (many ASSERTION doc) -> guarded Eg K a)
      by (intros a Ha Hs; destruct Hguard as [G|((_ & G & _) & Hst)]; [now left | right; split; [now apply G | exact Hst]]).
    assert (Genc : forall dd, ddoc = Some dd -> forall a, In a (decrypted dd) -> guarded Eg K a)
      by (intros dd Hdd a Ha Hs; destruct Hguard as [G|((_ & _ & G) & Hst)]; [now left | right; split; [eapply G; eauto | exact Hst]]).
    assert (BR : lenient Eg = true -> k_lax K = true \/ no_bare_for R_NAME doc)
      by (intro Hl; destruct Heng as [Hx|Hx]; [now left | right; apply no_bare_R; exact (proj1 (Hx Hl))]).
    assert (BA : lenient Eg = true -> k_lax K = true \/ no_bare_for A_NAME doc)
      by (intro Hl; destruct Heng as [Hx|Hx]; [now left | right; apply no_bare_A; exact (proj1 (Hx Hl))]).
    assert (BD : forall dd, ddoc = Some dd -> lenient Eg = true -> k_lax K = true \/ no_bare_for A_NAME dd)
      by (intros dd Hdd Hl; destruct Heng as [Hx|Hx]; [now left | right; apply no_bare_A; exact (proj2 (Hx Hl) dd Hdd)]).
    change (match single SIGNATURE doc with
            | Some _ => match check_signature dig_ok sig_ok Eg K c doc doc R_NAME "" (schema_root o) with
                        | Some res => Some (true, mkdigs false res)
                        | None => None
                        end
            | None => if want_resp c then None else Some (false, [])
            end) with (response_check Eg K c o doc) in H.
    destruct (response_check Eg K c o doc) as [[resp_signed d0]|] eqn:ER; [|discriminate].
    destruct (response_step Eg K c o doc ddoc resp_signed d0 HK Etag Gdoc BR Os1 ER) as [Hroot Hd0].
    assert (Hopq : opaque doc = false) by (eapply not_opaque_tag; [exact Etag | reflexivity]).
    destruct (check_assertions dig_ok sig_ok Eg K c false doc doc "" (many ASSERTION doc) (schema_as o)) as [[all1 d1]|] eqn:E1; [|discriminate].
    destruct (check_assertions_covered dig_ok sig_ok Eg K c false doc doc doc ddoc HK eq_refl BA _ _ _ _
                Gplain (fun a Ha => sub_kid doc a Hopq (proj1 (proj1 (many_In _ _ _) Ha)))
                (fun a Ha => proj2 (proj1 (many_In _ _ _) Ha)) Os2 E1) as (P1 & P2 & P3 & P4).
    (* a signed Response covers every assertion below its non-signature children *)
    assert (Hunder : resp_signed = true -> forall a k0, In k0 (kids doc) -> tag k0 <> SIGNATURE -> In a (subtrees k0) ->
                                            tag a = ASSERTION -> forall rest, asserted c (cov_of doc ddoc (d0 ++ rest)) a).
    { intros Hrs a k0 Hk0 Hne Ha Hta rest. destruct (Hroot Hrs) as (j & s & k & Hn & Hs & Hcov & Hby & _).
      left. apply covered_assertions_In. split; [|assumption].
      unfold covered_elements. apply in_flat_map. exists (remove_at doc [j], k). split.
      - rewrite cov_of_app, Hcov. now left.
      - rewrite Hby. cbn [fst]. eapply subtrees_kid; [|exact Ha]. rewrite kids_remove_one.
        eapply remove_nth_In; eauto. intro E. subst. contradiction. }
    (* the issuer, when the Response is signed *)
    assert (Hiss : resp_signed = true -> forall rest, is_empty (issuer_text doc) = false ->
                                         In (issuer_text doc) (covered_issuers c (cov_of doc ddoc (d0 ++ rest)))).
    { intros Hrs rest Hne. destruct (Hroot Hrs) as (j & s & k & Hn & Hs & Hcov & Hby & _).
      unfold issuer_text in *. destruct (single ISSUER doc) as [n|] eqn:En; [|discriminate].
      unfold covered_issuers. apply in_flat_map. exists (remove_at doc [j]). split.
      - apply (covered_self c _ _ k); [|assumption]. rewrite cov_of_app, Hcov. now left.
      - rewrite tag_remove_one, Etag.
        change (String.eqb RESPONSE ASSERTION || String.eqb RESPONSE RESPONSE) with true. cbv iota.
        apply in_map_iff. exists n. split; [reflexivity|].
        erewrite many_remove; eauto; [now apply single_In | apply sig_ne; [reflexivity | assumption]]. }
    (* the issuer, when it is not: from an asserted assertion naming the same issuer *)
    assert (Hiss2 : forall (cv : cov) a, tag a = ASSERTION -> asserted c cv a ->
                      is_empty (issuer_text doc) = false ->
                      (issuer_check K doc a = true /\ k_issuer K = true \/ issuer_text a = issuer_text doc) ->
                      In (issuer_text doc) (covered_issuers c cv)).
    { intros cv a Hta Has Hne [[Hic Hk]|Heq].
      - unfold issuer_check in Hic. rewrite Hk in Hic. cbn [negb orb] in Hic.
        apply andb_true_iff in Hic as [_ Hic]. rewrite Hne in Hic. cbn [orb] in Hic.
        rewrite (proj2 (proj2 (proj2 (proj2 HK)))) in Hic. apply String.eqb_eq in Hic.
        rewrite Hic. apply asserted_issuer; try assumption. now rewrite <- Hic.
      - rewrite <- Heq. apply asserted_issuer; try assumption. now rewrite Heq. }
    (* crypto facts for the Response digest *)
    assert (Hc0 : forall e k, In (e, k) (cov_of doc ddoc d0) -> crypto_ok dig_ok sig_ok e k).
    { intros e k Hin. destruct resp_signed.
      - destruct (Hroot eq_refl) as (j & s & k' & _ & _ & Hcov & _ & Hcr). rewrite Hcov in Hin.
        destruct Hin as [E0|[]]. now inversion E0; subst.
      - destruct (Hd0 eq_refl) as (-> & _). contradiction. }
    (* an assertion verified on its own is covered *)
    assert (Hown : forall (cv : cov) a j s k, nth_error (kids a) j = Some s -> tag s = SIGNATURE -> tag a = ASSERTION ->
                     In (remove_at a [j], k) cv -> by_asserting_party c (remove_at a [j], k) = true -> asserted c cv a).
    { intros cv a j s k Hn Hs Hta Hin Hby. right. exists j, s. repeat split; try assumption.
      apply covered_assertions_In. split; [eapply covered_self; eauto | now rewrite tag_remove_one]. }
    destruct (find_encrypt_data doc) eqn:Efe.
    - (* ---------------- the Response carries ciphertext *)
      destruct ddoc as [dd|] eqn:Edd; [|discriminate].
      destruct (Hdec dd eq_refl) as (Dec0 & Dec1 & Dec2).
      destruct (check_assertions dig_ok sig_ok Eg K c true doc dd "" (decrypted dd) (schema_enc o)) as [[all2 d2]|] eqn:E2; [|discriminate].
      destruct (check_assertions_covered dig_ok sig_ok Eg K c true doc dd doc (Some dd) HK eq_refl (BD dd eq_refl) _ _ _ _
                  (Genc dd eq_refl) (fun a Ha => proj2 (decrypted_In dd a Dec0 Ha))
                  (fun a Ha => proj1 (decrypted_In dd a Dec0 Ha)) (Os3 dd eq_refl) E2) as (Q1 & Q2 & Q3 & Q4).
      destruct (want_either c && negb resp_signed && negb (all1 && all2)) eqn:Eeither; [discriminate|].
      destruct (many ASSERTION doc ++ decrypted dd ++ many ASSERTION dd) as [|x0 xs] eqn:Enon; [discriminate|].
      destruct (one_fed K resp_signed (decrypted dd ++ many ASSERTION dd)) eqn:Eone; [|discriminate]. cbn [negb] in H.
      inversion H; subst rep ds. clear H.
      assert (Hall : forall a, In a (many ASSERTION doc ++ decrypted dd) -> asserted c (cov_of doc (Some dd) (d0 ++ d1 ++ d2)) a).
      { intros a Ha. destruct resp_signed eqn:Ers.
        - apply in_app_or in Ha as [Ha|Ha].
          + apply many_In in Ha as [Hk Ht]. eapply Hunder; eauto; [rewrite Ht; discriminate | apply subtrees_self].
          + destruct (Dec1 a Ha) as (k0 & Hk0 & Hne & Hsub). eapply Hunder; eauto. exact (proj1 (decrypted_In dd a Dec0 Ha)).
        - destruct (Hd0 eq_refl) as (-> & Hwr & _).
          assert (Hsig : all1 && all2 = true \/ want_assert c = true).
          { destruct Hreq as [Hr|[Hr|Hr]]; [congruence | now right | left].
            rewrite Hr in Eeither. cbn in Eeither. now destruct (all1 && all2). }
          assert (S1 : all1 = true \/ want_assert c = true)
            by (destruct Hsig as [Hs|Hs]; [apply andb_true_iff in Hs; tauto | tauto]).
          assert (S2 : all2 = true \/ want_assert c = true)
            by (destruct Hsig as [Hs|Hs]; [apply andb_true_iff in Hs; tauto | tauto]).
          cbn [app]. apply in_app_or in Ha as [Ha|Ha].
          + destruct (P1 a Ha (P2 S1 a Ha)) as (j & s & k & Hn & Hs & Hin & Hby & _).
            eapply Hown; eauto; [now apply many_In in Ha | rewrite cov_of_app; apply in_or_app; now left].
          + destruct (Q1 a Ha (Q2 S2 a Ha)) as (j & s & k & Hn & Hs & Hin & Hby & _).
            eapply Hown; eauto; [exact (proj1 (decrypted_In dd a Dec0 Ha)) | rewrite cov_of_app; apply in_or_app; now right]. }
      assert (Htag : forall a, In a (many ASSERTION doc ++ decrypted dd) -> tag a = ASSERTION).
      { intros a Ha. apply in_app_or in Ha as [Ha|Ha]; [now apply many_In in Ha | exact (proj1 (decrypted_In dd a Dec0 Ha))]. }
      assert (Hchk : forall a, In a (many ASSERTION doc ++ decrypted dd) -> issuer_check K doc a = true).
      { intros a Ha. apply in_app_or in Ha as [Ha|Ha]; [now apply P4 | now apply Q4]. }
      split.
      + apply spec_split. split.
        * apply report_covered; [exact Hall|].
          intros a Ha. apply Hall. apply in_app_or in Ha as [Ha|Ha]; apply in_or_app; [now right | left; now apply Dec2].
        * unfold spec_issuer. cbn [report r_issuer].
          destruct (is_empty (issuer_text doc)) eqn:Eie; [left; now apply is_empty_iff|]. right.
          destruct resp_signed eqn:Ers; [now apply Hiss|].
          destruct Hig as [Hki|[Hsd|(a & Ha & Hia)]].
          -- (* some assertion was processed *)
             assert (Hex : exists a, In a (many ASSERTION doc ++ decrypted dd)).
             { destruct (many ASSERTION doc ++ decrypted dd) as [|a l] eqn:El; [|exists a; now left].
               apply app_eq_nil in El as [El1 El2]. rewrite El1, El2 in Enon. cbn [app] in Enon.
               assert (In x0 (many ASSERTION dd)) by (rewrite Enon; now left).
               apply Dec2 in H. rewrite El1 in H. contradiction. }
             destruct Hex as (a & Ha). eapply (Hiss2 _ a); eauto.
          -- destruct (Hd0 eq_refl) as (_ & _ & Hns). contradiction.
          -- unfold reported_assertions in Ha. rewrite Efe in Ha. eapply (Hiss2 _ a); eauto.
      + intros e k Hin. rewrite !cov_of_app in Hin.
        apply in_app_or in Hin as [Hin|Hin]; [now apply Hc0|].
        apply in_app_or in Hin as [Hin|Hin]; [now apply P3 | now apply Q3].
    - (* ---------------- no ciphertext *)
      destruct (want_either c && negb resp_signed && negb all1) eqn:Eeither; [discriminate|].
      destruct (many ASSERTION doc) as [|x0 xs] eqn:Enon; [discriminate|]. rewrite <- Enon in *.
      destruct (one_fed K resp_signed (many ASSERTION doc)) eqn:Eone; [|discriminate]. cbn [negb] in H.
      inversion H; subst rep ds. clear H.
      assert (Hall : forall a, In a (many ASSERTION doc) -> asserted c (cov_of doc ddoc (d0 ++ d1)) a).
      { intros a Ha. destruct resp_signed eqn:Ers.
        - apply many_In in Ha as [Hk Ht]. eapply Hunder; eauto; [rewrite Ht; discriminate | apply subtrees_self].
        - destruct (Hd0 eq_refl) as (-> & Hwr & _).
          assert (S1 : all1 = true \/ want_assert c = true).
          { destruct Hreq as [Hr|[Hr|Hr]]; [congruence | now right | left].
            rewrite Hr in Eeither. cbn in Eeither. now destruct all1. }
          cbn [app].
          destruct (P1 a Ha (P2 S1 a Ha)) as (j & s & k & Hn & Hs & Hin & Hby & _).
          eapply Hown; eauto. now apply many_In in Ha. }
      split.
      + apply spec_split. split.
        * apply report_covered; exact Hall.
        * unfold spec_issuer. cbn [report r_issuer].
          destruct (is_empty (issuer_text doc)) eqn:Eie; [left; now apply is_empty_iff|]. right.
          destruct resp_signed eqn:Ers; [now apply Hiss|].
          assert (Hx0 : In x0 (many ASSERTION doc)) by (rewrite Enon; now left).
          destruct Hig as [Hki|[Hsd|(a & Ha & Hia)]].
          -- eapply (Hiss2 _ x0); eauto. now apply many_In in Hx0.
          -- destruct (Hd0 eq_refl) as (_ & _ & Hns). contradiction.
          -- unfold reported_assertions in Ha. rewrite Efe, app_nil_r in Ha. eapply (Hiss2 _ a); eauto. now apply many_In in Ha.
      + intros e k Hin. rewrite cov_of_app in Hin.
        apply in_app_or in Hin as [Hin|Hin]; [now apply Hc0 | now apply P3].
  Qed.
End Main.

(* ================================================================== ONE covered element accounts for the report *)
(* (round 5) "exactly those of AN element covered by a valid signature".  When the Response itself is signed it is
   that element.  When it is not, every assertion is verified on its own and the report mixes them (name_id of the
   last, .assertion / session of the first, attributes merged): the property then needs that exactly one assertion
   feeds the report.  parse_assertion's count test lets the Response through when it has exactly one plain Assertion
   child OR exactly one EncryptedAssertion child: that is finding C02-F4 (mix_guard is the excluded class). *)
Definition mix_guard (doc : tree) (ddoc : option tree) : Prop :=
  signed doc \/ exists a, reported_assertions doc ddoc = [a].

(* assumed about decryption + re-serialisation, for the repaired count test (it counts self.assertions = the decrypted
   assertions and the plain ones of the text AFTER the round trip): the round trip loses no plain assertion.
   Checked on every case of the correspondence (Corr.holds). *)
Definition dec_count (doc : tree) (ddoc : option tree) : Prop :=
  forall dd, ddoc = Some dd -> length (many ASSERTION doc) <= length (many ASSERTION dd).

Lemma spec_one_b_iff c cv rep : spec_one_b c cv rep = true <-> spec_one c cv rep.
Proof.
  unfold spec_one_b, spec_one. rewrite existsb_exists.
  split; intros (ek & Hin & H); exists ek; (split; [assumption|]); now apply spec_b_iff.
Qed.

Lemma covered_self' c (cv : cov) e k : In (e, k) cv -> by_asserting_party c (e, k) = true -> In e (covered_elements c cv).
Proof.
  intros Hin Hby. unfold covered_elements. apply in_flat_map. exists (e, k). split; [assumption|].
  rewrite Hby. apply subtrees_self.
Qed.

(* everything that is reported lies below the signed Response *)
Lemma single_from_root c doc j s k proc reps :
  tag doc = RESPONSE -> nth_error (kids doc) j = Some s -> tag s = SIGNATURE ->
  by_asserting_party c (remove_at doc [j], k) = true ->
  (forall a, In a proc -> tag a = ASSERTION /\ exists k0, In k0 (kids doc) /\ tag k0 <> SIGNATURE /\ In a (subtrees k0)) ->
  (forall a, In a reps -> In a proc) ->
  spec c [(remove_at doc [j], k)] (report c doc proc reps).
Proof.
  intros Etag Hn Hs Hby Hproc Hreps.
  assert (Hall : forall a, In a proc -> asserted c [(remove_at doc [j], k)] a).
  { intros a Ha. destruct (Hproc a Ha) as (Hta & k0 & Hk0 & Hne & Hsub).
    left. apply covered_assertions_In. split; [|assumption].
    unfold covered_elements. apply in_flat_map. exists (remove_at doc [j], k). split; [now left|].
    rewrite Hby. cbn [fst]. eapply subtrees_kid; [|exact Hsub]. rewrite kids_remove_one.
    eapply remove_nth_In; eauto. intro E. subst. contradiction. }
  apply spec_split. split.
  - apply report_covered; [exact Hall | intros a Ha; apply Hall; now apply Hreps].
  - unfold spec_issuer. cbn [report r_issuer].
    destruct (is_empty (issuer_text doc)) eqn:Eie; [left; now apply is_empty_iff|]. right.
    unfold issuer_text in *. destruct (single ISSUER doc) as [n|] eqn:En; [|discriminate].
    unfold covered_issuers. apply in_flat_map. exists (remove_at doc [j]). split.
    + apply (covered_self' c _ _ k); [now left | assumption].
    + rewrite tag_remove_one, Etag.
      change (String.eqb RESPONSE ASSERTION || String.eqb RESPONSE RESPONSE) with true. cbv iota.
      apply in_map_iff. exists n. split; [reflexivity|].
      erewrite many_remove; eauto; [now apply single_In | apply sig_ne; [reflexivity | assumption]].
Qed.

(* the one assertion that was processed, verified on its own *)
Lemma single_from_assertion c doc a j s k reps :
  tag a = ASSERTION -> nth_error (kids a) j = Some s -> tag s = SIGNATURE ->
  by_asserting_party c (remove_at a [j], k) = true ->
  (forall x, In x reps -> x = a) ->
  (is_empty (issuer_text doc) = false -> issuer_text a = issuer_text doc) ->
  spec c [(remove_at a [j], k)] (report c doc [a] reps).
Proof.
  intros Hta Hn Hs Hby Hreps Hiss.
  assert (Ha : asserted c [(remove_at a [j], k)] a).
  { right. exists j, s. repeat split; try assumption.
    apply covered_assertions_In. split; [eapply covered_self'; [now left | assumption] | now rewrite tag_remove_one]. }
  apply spec_split. split.
  - apply report_covered; [intros x [<-|[]]; exact Ha | intros x Hx; rewrite (Hreps x Hx); exact Ha].
  - unfold spec_issuer. cbn [report r_issuer].
    destruct (is_empty (issuer_text doc)) eqn:Eie; [left; now apply is_empty_iff|]. right.
    rewrite <- (Hiss eq_refl). apply asserted_issuer; try assumption. now rewrite (Hiss eq_refl).
Qed.

Section Single.
  Variable dig_ok : string -> string -> tree -> bool.
  Variable sig_ok : nat -> string -> tree -> bool.

  Lemma accept_count Eg K c o doc ddoc r : accept dig_ok sig_ok Eg K c o doc ddoc = Some r -> count_ok doc = true.
  Proof.
    unfold accept. destruct (String.eqb (tag doc) RESPONSE); [|discriminate]. cbn [negb].
    destruct (content_ok o); [|discriminate]. cbn [negb].
    destruct (count_ok doc); [reflexivity | discriminate].
  Qed.

  Theorem accept_single Eg K c o doc ddoc rep ds :
    sound_knobs K -> sig_required c ->
    defence Eg K doc ddoc ->
    (k_issuer K = true \/ issuer_guard doc ddoc) ->
    (k_lax K = true \/ engine_guard Eg doc ddoc) ->
    oracle_sane o doc ddoc -> dec_sound doc ddoc ->
    (k_one K = true /\ dec_count doc ddoc) \/ mix_guard doc ddoc ->
    accept dig_ok sig_ok Eg K c o doc ddoc = Some (rep, ds) ->
    spec_one c (cov_of doc ddoc ds) rep.
  Proof.
    intros HK Hreq Hguard Hig Heng (Os1 & Os2 & Os3) Hdec Hmix H.
    unfold accept in H.
    destruct (String.eqb (tag doc) RESPONSE) eqn:Etag; [|discriminate]. apply String.eqb_eq in Etag. cbn [negb] in H.
    destruct (content_ok o); [|discriminate]. cbn [negb] in H.
    destruct (count_ok doc); [|discriminate]. cbn [negb] in H.
    assert (Gdoc : guarded Eg K doc)
      by (intro Hs; destruct Hguard as [G|((G & _ & _) & Hst)]; [now left | right; split; [now apply G | exact Hst]]).
    assert (Gplain : forall a, In a (many ASSERTION doc) -> guarded Eg K a)
      by (intros a Ha Hs; destruct Hguard as [G|((_ & G & _) & Hst)]; [now left | right; split; [now apply G | exact Hst]]).
    assert (Genc : forall dd, ddoc = Some dd -> forall a, In a (decrypted dd) -> guarded Eg K a)
      by (intros dd Hdd a Ha Hs; destruct Hguard as [G|((_ & _ & G) & Hst)]; [now left | right; split; [eapply G; eauto | exact Hst]]).
    assert (BR : lenient Eg = true -> k_lax K = true \/ no_bare_for R_NAME doc)
      by (intro Hl; destruct Heng as [Hx|Hx]; [now left | right; apply no_bare_R; exact (proj1 (Hx Hl))]).
    assert (BA : lenient Eg = true -> k_lax K = true \/ no_bare_for A_NAME doc)
      by (intro Hl; destruct Heng as [Hx|Hx]; [now left | right; apply no_bare_A; exact (proj1 (Hx Hl))]).
    assert (BD : forall dd, ddoc = Some dd -> lenient Eg = true -> k_lax K = true \/ no_bare_for A_NAME dd)
      by (intros dd Hdd Hl; destruct Heng as [Hx|Hx]; [now left | right; apply no_bare_A; exact (proj2 (Hx Hl) dd Hdd)]).
    change (match single SIGNATURE doc with
            | Some _ => match check_signature dig_ok sig_ok Eg K c doc doc R_NAME "" (schema_root o) with
                        | Some res => Some (true, mkdigs false res)
                        | None => None
                        end
            | None => if want_resp c then None else Some (false, [])
            end) with (response_check dig_ok sig_ok Eg K c o doc) in H.
    destruct (response_check dig_ok sig_ok Eg K c o doc) as [[resp_signed d0]|] eqn:ER; [|discriminate].
    destruct (response_step dig_ok sig_ok Eg K c o doc ddoc resp_signed d0 HK Etag Gdoc BR Os1 ER) as [Hroot Hd0].
    assert (Hopq : opaque doc = false) by (eapply not_opaque_tag; [exact Etag | reflexivity]).
    destruct (check_assertions dig_ok sig_ok Eg K c false doc doc "" (many ASSERTION doc) (schema_as o)) as [[all1 d1]|] eqn:E1; [|discriminate].
    destruct (check_assertions_covered dig_ok sig_ok Eg K c false doc doc doc ddoc HK eq_refl BA _ _ _ _
                Gplain (fun a Ha => sub_kid doc a Hopq (proj1 (proj1 (many_In _ _ _) Ha)))
                (fun a Ha => proj2 (proj1 (many_In _ _ _) Ha)) Os2 E1) as (P1 & P2 & P3 & P4).
    (* the Response is not signed and one assertion went through _assertion: its issuer is the envelope's *)
    assert (Hieq : ~ signed doc -> forall a, reported_assertions doc ddoc = [a] -> issuer_check K doc a = true ->
                   is_empty (issuer_text doc) = false -> issuer_text a = issuer_text doc).
    { intros Hns a Hone Hic Hne. destruct Hig as [Hk|[Hs|(a' & Ha' & Hia)]].
      - unfold issuer_check in Hic. rewrite Hk in Hic. cbn [negb orb] in Hic.
        apply andb_true_iff in Hic as [_ Hic]. rewrite Hne in Hic. cbn [orb] in Hic.
        rewrite (proj2 (proj2 (proj2 (proj2 HK)))) in Hic. apply String.eqb_eq in Hic. now symmetry.
      - contradiction.
      - rewrite Hone in Ha'. destruct Ha' as [<-|[]]. assumption. }
    destruct (find_encrypt_data doc) eqn:Efe.
    - (* ---------------- the Response carries ciphertext *)
      destruct ddoc as [dd|] eqn:Edd; [|discriminate].
      destruct (Hdec dd eq_refl) as (Dec0 & Dec1 & Dec2).
      destruct (check_assertions dig_ok sig_ok Eg K c true doc dd "" (decrypted dd) (schema_enc o)) as [[all2 d2]|] eqn:E2; [|discriminate].
      destruct (check_assertions_covered dig_ok sig_ok Eg K c true doc dd doc (Some dd) HK eq_refl (BD dd eq_refl) _ _ _ _
                  (Genc dd eq_refl) (fun a Ha => proj2 (decrypted_In dd a Dec0 Ha))
                  (fun a Ha => proj1 (decrypted_In dd a Dec0 Ha)) (Os3 dd eq_refl) E2) as (Q1 & Q2 & Q3 & Q4).
      destruct (want_either c && negb resp_signed && negb (all1 && all2)) eqn:Eeither; [discriminate|].
      destruct (many ASSERTION doc ++ decrypted dd ++ many ASSERTION dd) as [|x0 xs] eqn:Enon; [discriminate|].
      destruct (one_fed K resp_signed (decrypted dd ++ many ASSERTION dd)) eqn:Eone; [|discriminate]. cbn [negb] in H.
      inversion H; subst rep ds. clear H.
      destruct resp_signed eqn:Ers.
      + destruct (Hroot eq_refl) as (j & s & k & Hn & Hs & Hcov & Hby & _).
        exists (remove_at doc [j], k). split; [rewrite cov_of_app, Hcov; now left|].
        apply (single_from_root c doc j s k); try assumption.
        * intros a Ha. apply in_app_or in Ha as [Ha|Ha].
          -- apply many_In in Ha as [Hk Ht]. split; [assumption|]. exists a.
             repeat split; [assumption | rewrite Ht; discriminate | apply subtrees_self].
          -- split; [exact (proj1 (decrypted_In dd a Dec0 Ha))|].
             destruct (Dec1 a Ha) as (k0 & Hk0 & Hne & Hsub). now exists k0.
        * intros a Ha. apply in_app_or in Ha as [Ha|Ha]; apply in_or_app; [now right | left; now apply Dec2].
      + destruct (Hd0 eq_refl) as (-> & Hwr & Hns).
        assert (Hmix' : exists a, reported_assertions doc (Some dd) = [a]).
        { destruct Hmix as [[Hk Hcnt]|[Hsd|Hx]]; [|contradiction|exact Hx].
          unfold reported_assertions. rewrite Efe.
          unfold one_fed in Eone. rewrite Hk in Eone. cbn [negb orb] in Eone. apply Nat.leb_le in Eone.
          rewrite app_length in Eone. specialize (Hcnt dd eq_refl).
          destruct (many ASSERTION doc ++ decrypted dd) as [|a [|b r]] eqn:El.
          - exfalso. apply app_eq_nil in El as [El1 El2]. rewrite El1, El2 in Enon. cbn [app] in Enon.
            assert (Hin : In x0 (many ASSERTION dd)) by (rewrite Enon; now left).
            apply Dec2 in Hin. rewrite El1 in Hin. contradiction.
          - now exists a.
          - exfalso. assert (Hl : length (many ASSERTION doc ++ decrypted dd) = S (S (length r))) by (now rewrite El).
            rewrite app_length in Hl. lia. }
        destruct Hmix' as (a & Hone).
        assert (Hone' := Hone). unfold reported_assertions in Hone'. rewrite Efe in Hone'.
        assert (Hsig : all1 && all2 = true \/ want_assert c = true).
        { destruct Hreq as [Hr|[Hr|Hr]]; [congruence | now right | left].
          rewrite Hr in Eeither. cbn in Eeither. now destruct (all1 && all2). }
        assert (S1 : all1 = true \/ want_assert c = true)
          by (destruct Hsig as [Hs|Hs]; [apply andb_true_iff in Hs; tauto | tauto]).
        assert (S2 : all2 = true \/ want_assert c = true)
          by (destruct Hsig as [Hs|Hs]; [apply andb_true_iff in Hs; tauto | tauto]).
        assert (Ha : In a (many ASSERTION doc ++ decrypted dd)) by (rewrite Hone'; now left).
        assert (Hex : exists j s k, nth_error (kids a) j = Some s /\ tag s = SIGNATURE
                                    /\ In (remove_at a [j], k) (cov_of doc (Some dd) ([] ++ d1 ++ d2))
                                    /\ by_asserting_party c (remove_at a [j], k) = true
                                    /\ tag a = ASSERTION /\ issuer_check K doc a = true).
        { cbn [app]. apply in_app_or in Ha as [Ha|Ha].
          - destruct (P1 a Ha (P2 S1 a Ha)) as (j & s & k & Hn & Hs & Hin & Hby & _).
            exists j, s, k. repeat split; try assumption.
            + rewrite cov_of_app. apply in_or_app. now left.
            + now apply many_In in Ha.
            + now apply P4.
          - destruct (Q1 a Ha (Q2 S2 a Ha)) as (j & s & k & Hn & Hs & Hin & Hby & _).
            exists j, s, k. repeat split; try assumption.
            + rewrite cov_of_app. apply in_or_app. now right.
            + exact (proj1 (decrypted_In dd a Dec0 Ha)).
            + now apply Q4. }
        destruct Hex as (j & s & k & Hn & Hs & Hin & Hby & Hta & Hic).
        exists (remove_at a [j], k). split; [assumption|].
        rewrite Hone'. apply (single_from_assertion c doc a j s k); try assumption.
        * intros x Hx.
          assert (Hx' : In x (many ASSERTION doc ++ decrypted dd)).
          { apply in_app_or in Hx as [Hx|Hx]; apply in_or_app; [now right | left; now apply Dec2]. }
          rewrite Hone' in Hx'. destruct Hx' as [<-|[]]. reflexivity.
        * intro Hne. now apply (Hieq Hns a Hone Hic).
    - (* ---------------- no ciphertext *)
      destruct (want_either c && negb resp_signed && negb all1) eqn:Eeither; [discriminate|].
      destruct (many ASSERTION doc) as [|x0 xs] eqn:Enon; [discriminate|]. rewrite <- Enon in *.
      destruct (one_fed K resp_signed (many ASSERTION doc)) eqn:Eone; [|discriminate]. cbn [negb] in H.
      inversion H; subst rep ds. clear H.
      destruct resp_signed eqn:Ers.
      + destruct (Hroot eq_refl) as (j & s & k & Hn & Hs & Hcov & Hby & _).
        exists (remove_at doc [j], k). split; [rewrite cov_of_app, Hcov; now left|].
        apply (single_from_root c doc j s k); try assumption; [|auto].
        intros a Ha. apply many_In in Ha as [Hk Ht]. split; [assumption|]. exists a.
        repeat split; [assumption | rewrite Ht; discriminate | apply subtrees_self].
      + destruct (Hd0 eq_refl) as (-> & Hwr & Hns).
        assert (Hmix' : exists a, reported_assertions doc ddoc = [a]).
        { destruct Hmix as [[Hk Hcnt]|[Hsd|Hx]]; [|contradiction|exact Hx].
          unfold reported_assertions. rewrite Efe, app_nil_r.
          unfold one_fed in Eone. rewrite Hk in Eone. cbn [negb orb] in Eone. apply Nat.leb_le in Eone.
          destruct (many ASSERTION doc) as [|a [|b r]]; [discriminate | now exists a | cbn [length] in Eone; lia]. }
        destruct Hmix' as (a & Hone).
        assert (Hone' := Hone). unfold reported_assertions in Hone'. rewrite Efe, app_nil_r in Hone'.
        assert (S1 : all1 = true \/ want_assert c = true).
        { destruct Hreq as [Hr|[Hr|Hr]]; [congruence | now right | left].
          rewrite Hr in Eeither. cbn in Eeither. now destruct all1. }
        assert (Ha : In a (many ASSERTION doc)) by (rewrite Hone'; now left).
        destruct (P1 a Ha (P2 S1 a Ha)) as (j & s & k & Hn & Hs & Hin & Hby & _).
        exists (remove_at a [j], k). split; [exact Hin|].
        rewrite Hone'. apply (single_from_assertion c doc a j s k); try assumption.
        * now apply many_In in Ha.
        * intros x Hx. destruct Hx as [<-|[]]. reflexivity.
        * intro Hne. apply (Hieq Hns a Hone); [now apply P4 | assumption].
  Qed.

  (* no EncryptedAssertion child at all: the count test leaves exactly one assertion, no guard is needed *)
  Corollary accept_single_plain Eg K c o doc ddoc rep ds :
    sound_knobs K -> sig_required c ->
    defence Eg K doc ddoc ->
    (k_issuer K = true \/ issuer_guard doc ddoc) ->
    (k_lax K = true \/ engine_guard Eg doc ddoc) ->
    oracle_sane o doc ddoc -> dec_sound doc ddoc ->
    many ENCASSERTION doc = [] -> find_encrypt_data doc = false ->
    accept dig_ok sig_ok Eg K c o doc ddoc = Some (rep, ds) ->
    spec_one c (cov_of doc ddoc ds) rep.
  Proof.
    intros HK Hreq Hg Hi He Ho Hd Hnoenc Hfe H.
    eapply accept_single; eauto.
    right. right. apply accept_count in H. unfold count_ok in H. rewrite Hnoenc in H. cbn [length Nat.eqb orb] in H.
    rewrite orb_false_r in H. apply Nat.eqb_eq in H.
    unfold reported_assertions. rewrite Hfe, app_nil_r.
    destruct (many ASSERTION doc) as [|a [|b r]]; try discriminate. now exists a.
  Qed.
End Single.

(* ================================================================== ideal cryptography: wrapping-freedom *)
Section Ideal.
  Variable dig_ok : string -> string -> tree -> bool.
  Variable sig_ok : nat -> string -> tree -> bool.
  (* issued k si e: the holder of the private key of certificate k signed SignedInfo si for the
     element e (e = the element without its enveloped signature) *)
  Variable issued : nat -> tree -> tree -> Prop.
  Hypothesis unforgeable : forall k sv si, sig_ok k sv si = true -> exists e, issued k si e.
  Hypothesis honest_digest : forall k si e alg dv, issued k si e -> si_digest si = Some (alg, dv) -> dig_ok alg dv e = true.
  Hypothesis collision_free : forall alg dv t t', dig_ok alg dv t = true -> dig_ok alg dv t' = true -> t = t'.

  Lemma crypto_issued e k : crypto_ok dig_ok sig_ok e k -> exists si, issued k si e.
  Proof.
    intros (si & sv & alg & dv & Hsd & Hd & Hs). destruct (unforgeable _ _ _ Hs) as (e0 & Hi).
    pose proof (honest_digest _ _ _ _ _ Hi Hsd) as Hd0.
    rewrite (collision_free _ _ _ _ Hd Hd0). now exists si.
  Qed.

  Theorem wrapping_free E K c o doc ddoc rep ds :
    sound_knobs K -> sig_required c -> defence E K doc ddoc ->
    (k_issuer K = true \/ issuer_guard doc ddoc) -> (k_lax K = true \/ engine_guard E doc ddoc) ->
    oracle_sane o doc ddoc -> dec_sound doc ddoc ->
    accept dig_ok sig_ok E K c o doc ddoc = Some (rep, ds) ->
    spec c (cov_of doc ddoc ds) rep
    /\ (forall e k, In (e, k) (cov_of doc ddoc ds) -> exists si, issued k si e).
  Proof.
    intros HK Hr Hg Hi He Ho Hd H.
    destruct (accept_covered dig_ok sig_ok E K c o doc ddoc rep ds HK Hr Hg Hi He Ho Hd H) as (S1 & S3).
    split; [assumption|]. intros e k Hin. apply crypto_issued. now apply S3.
  Qed.
End Ideal.

(* ================================================================== concrete documents: witnesses *)
Module Ex.
  Definition IDP := "https://idp.example.org/idp.xml".
  Definition OTHER := "https://other.example.org/idp.xml".
  Definition el (tg : string) (ks : list tree) : tree := Node tg [] "" ks.
  Definition txt (tg s : string) : tree := Node tg [] s [].
  Definition alg (tg a : string) : tree := Node tg [("Algorithm", a)] "" [].

  Definition signed_info (uri dv : string) : tree :=
    el SIGNEDINFO [alg C14NMETHOD TRANSFORM_C14N; alg SIGMETHOD "http://www.w3.org/2001/04/xmldsig-more#rsa-sha256";
                   Node REFERENCE [("URI", uri)] ""
                        [el TRANSFORMS [alg TRANSFORM TRANSFORM_ENVELOPED; alg TRANSFORM TRANSFORM_C14N];
                         alg DIGESTMETHOD "http://www.w3.org/2001/04/xmlenc#sha256"; txt DIGESTVALUE dv]].
  Definition sig (uri dv sv : string) : tree := el SIGNATURE [signed_info uri dv; txt SIGVALUE sv].

  (* Assertion: Issuer, signatures, Subject/NameID, one attribute, extra children *)
  Definition assertion (id issuer : string) (sigs : list tree) (name mail : string) (extra : list tree) : tree :=
    Node ASSERTION [("ID", id)] ""
         ([txt ISSUER issuer] ++ sigs
          ++ [el SUBJECT [txt NAMEID name];
              el ATTRSTMT [Node ATTRIBUTE [("Name", "mail"); ("NameFormat", "uri")] "" [txt ATTRVALUE mail]]]
          ++ extra).
  Definition response (issuer : string) (ks : list tree) : tree :=
    Node RESPONSE [("ID", "R")] "" (txt ISSUER issuer :: ks).

  (* what the identity provider signed: assertion A about alice (no signature inside: enveloped) *)
  Definition genuineA : tree := assertion "A" IDP [] "alice" "alice@example.org" [].
  Definition sigA : tree := sig "#A" "dA" "sA".
  Definition A_signed : tree := assertion "A" IDP [sigA] "alice" "alice@example.org" [].

  (* the ideal primitives: the only digest value that exists is that of genuineA, the only
     signature is key 1's over the SignedInfo of sigA *)
  Definition dig_ex (a dv : string) (t : tree) : bool := String.eqb dv "dA" && tree_eqb t genuineA.
  Definition sig_ex (k : nat) (sv : string) (si : tree) : bool :=
    Nat.eqb k 1 && String.eqb sv "sA" && tree_eqb si (signed_info "#A" "dA").
  Definition issued_ex (k : nat) (si e : tree) : Prop := k = 1 /\ si = signed_info "#A" "dA" /\ e = genuineA.

  Definition cfgA : cfg := {| want_resp := false; want_assert := true; want_either := false;
                              md := [(IDP, [1]); (OTHER, [4])]; amap := [("uri|mail", "mail")] |}.
  Definition cfgR : cfg := {| want_resp := true; want_assert := false; want_either := false;
                              md := [(IDP, [1]); (OTHER, [4])]; amap := [("uri|mail", "mail")] |}.
  Definition all_ok : oracle := {| content_ok := true; schema_root := true; schema_as := [true; true]; schema_enc := [] |}.

  (* the genuine message *)
  Definition doc_genuine : tree := response IDP [A_signed].

  (* C02-F1: two ds:Signature children — validators read the last (decoy, Reference #E), xmlsec1
     verifies the first (genuine, Reference #A); A itself rides in the Advice *)
  Definition evil_two_sigs : tree :=
    assertion "E" IDP [sigA; sig "#E" "x" "y"] "admin" "admin@evil.example" [el ADVICE [genuineA]].
  Definition doc_f1 : tree := response IDP [evil_two_sigs].

  (* necessity of the URI validator: one signature (the genuine one, Reference #A) on the evil assertion *)
  Definition doc_uri : tree :=
    response IDP [assertion "E" IDP [sigA] "admin" "admin@evil.example" [el ADVICE [genuineA]]].
  (* necessity of xmlsec1's duplicate-ID error: evil and genuine share the ID, the genuine one comes later *)
  Definition doc_dup : tree :=
    response IDP [assertion "A" IDP [sigA] "admin" "admin@evil.example" []; el "samlp:Extensions" [A_signed]].
  (* necessity of --node-id: the genuine signed assertion comes first in the document, the evil one
     carries a decoy signature that satisfies the validators *)
  Definition doc_nodeid : tree :=
    response IDP [el "samlp:Extensions" [A_signed]; assertion "E" IDP [sig "#E" "x" "y"] "admin" "admin@evil.example" []].
  (* C02-F2: only the assertion is signed, the envelope names another issuer *)
  Definition doc_f2 : tree := response OTHER [A_signed].

  Definition run_e (E : engine) (K : knobs) (c : cfg) (d : tree) := accept dig_ex sig_ex E K c all_ok d None.
  (* the engine pysaml2 is written for *)
  Definition run (K : knobs) (c : cfg) (d : tree) := run_e xmlsec1 K c d.
  Definition eng_first : engine := {| e_ids := IdFirst; e_sel := SelBelow |}.
  Definition eng_last : engine := {| e_ids := IdLast; e_sel := SelBelow |}.
  Definition all_engines : list engine :=
    [xmlsec1; eng_first; eng_last; {| e_ids := IdStrict; e_sel := SelChild |};
     {| e_ids := IdFirst; e_sel := SelChild |}; {| e_ids := IdLast; e_sel := SelChild |}].

  (* necessity of the uniqueness test of _is_the_only_signature_child under a first-wins engine: the genuine
     signed assertion is parked FIRST (Extensions), the forged one with the same ID and a copy of the genuine
     signature is the Response's Assertion child *)
  Definition doc_dup_first : tree :=
    response IDP [el "samlp:Extensions" [A_signed]; assertion "A" IDP [sigA] "admin" "admin@evil.example" []].
  (* C02-F3: an UN-NAMESPACED element called Assertion carries the forged assertion's ID and holds the genuine
     signed assertion; the forged assertion carries a self-referencing decoy signature.  A lenient engine resolves
     --node-id E to the un-namespaced element and verifies the genuine signature below it. *)
  Definition bare_holder : tree := Node "Assertion" [("ID", "E")] "" [A_signed].
  Definition evil_decoy : tree := assertion "E" IDP [sig "#E" "x" "y"] "admin" "admin@evil.example" [].
  Definition doc_bare_first : tree := response IDP [el "samlp:Extensions" [bare_holder]; evil_decoy].
  Definition doc_bare_last : tree := response IDP [evil_decoy; el "samlp:Extensions" [bare_holder]].
  Definition bad (c : cfg) (d : tree) (r : option (reported * list dig)) : bool :=
    match r with Some (rep, ds) => negb (spec_but_issuer_b c (cov_of d None ds) rep) | None => false end.
  Definition names (r : option (reported * list dig)) : option (option (string * option string)) :=
    match r with Some (rep, _) => Some (r_name_id rep) | None => None end.

  (* ---- C02-F4: two genuinely signed assertions in one unsigned envelope ---- *)
  Definition stmt (six : string) : tree := Node AUTHNSTMT [("SessionIndex", six)] "" [].
  Definition genuineA2 : tree := assertion "A" IDP [] "alice" "alice@example.org" [stmt "s-alice"].
  Definition genuineB2 : tree := assertion "B" IDP [] "bob" "bob@example.org" [stmt "s-bob"].
  Definition A2_signed : tree := assertion "A" IDP [sig "#A" "dA" "sA"] "alice" "alice@example.org" [stmt "s-alice"].
  Definition B2_signed : tree := assertion "B" IDP [sig "#B" "dB" "sB"] "bob" "bob@example.org" [stmt "s-bob"].
  Definition dig_ex2 (a dv : string) (t : tree) : bool :=
    (String.eqb dv "dA" && tree_eqb t genuineA2) || (String.eqb dv "dB" && tree_eqb t genuineB2).
  Definition sig_ex2 (k : nat) (sv : string) (si : tree) : bool :=
    Nat.eqb k 1 && ((String.eqb sv "sA" && tree_eqb si (signed_info "#A" "dA"))
                    || (String.eqb sv "sB" && tree_eqb si (signed_info "#B" "dB"))).
  (* the splice as the count test refuses it ... *)
  Definition doc_two : tree := response IDP [A2_signed; B2_signed].
  (* ... and as it lets it through: an EMPTY EncryptedAssertion element makes "exactly one encrypted assertion" true *)
  Definition doc_mix : tree := response IDP [A2_signed; B2_signed; el ENCASSERTION []].
  (* one plain, one encrypted (ciphertext abstracted: EncryptedData[n] holding the plaintext) *)
  Definition doc_mix_enc : tree :=
    response IDP [A2_signed; el ENCASSERTION [Node ENCDATA [("n", "$e")] "" [B2_signed]]].
  Definition ddoc_mix_enc : tree := response IDP [A2_signed; el ENCASSERTION [B2_signed]].
  Definition ok3 : oracle := {| content_ok := true; schema_root := true; schema_as := [true; true]; schema_enc := [true] |}.
  Definition run2k (K : knobs) (c : cfg) (d : tree) (dd : option tree) := accept dig_ex2 sig_ex2 xmlsec1 K c ok3 d dd.
  (* the code before 6a3bb24f *)
  Definition run2 := run2k knobs_v2.
  Definition run2_now := run2k as_coded.
  Definition doc_one : tree := response IDP [A2_signed].
  Definition mixed (c : cfg) (d : tree) (dd : option tree) : option (bool * bool * option string * option string) :=
    match run2 c d dd with
    | Some (rep, ds) => Some (spec_b c (cov_of d dd ds) rep, spec_one_b c (cov_of d dd ds) rep,
                              match r_name_id rep with Some (n, _) => Some n | None => None end, r_session_index rep)
    | None => None
    end.
End Ex.

Lemma ex_crypto_ideal :
  (forall k sv si, Ex.sig_ex k sv si = true -> exists e, Ex.issued_ex k si e)
  /\ (forall k si e alg dv, Ex.issued_ex k si e -> si_digest si = Some (alg, dv) -> Ex.dig_ex alg dv e = true)
  /\ (forall alg dv t t', Ex.dig_ex alg dv t = true -> Ex.dig_ex alg dv t' = true -> t = t').
Proof.
  split; [|split].
  - intros k sv si H. unfold Ex.sig_ex in H. rewrite !andb_true_iff in H. destruct H as ((H1 & H2) & H3).
    apply Nat.eqb_eq in H1. apply tree_eqb_eq in H3. exists Ex.genuineA. now repeat split.
  - intros k si e alg dv (-> & -> & ->) H. vm_compute in H. inversion H; subst. vm_compute. reflexivity.
  - intros alg dv t t' H H'. unfold Ex.dig_ex in *. rewrite andb_true_iff in H, H'.
    destruct H as [_ H], H' as [_ H']. apply tree_eqb_eq in H, H'. congruence.
Qed.

(* the hypotheses are satisfiable: the genuine message is accepted and alice is reported *)
Example genuine_accepted :
  oracle_sane Ex.all_ok Ex.doc_genuine None /\ dec_sound Ex.doc_genuine None /\ sig_required Ex.cfgA
  /\ Ex.names (Ex.run as_coded Ex.cfgA Ex.doc_genuine) = Some (Some ("alice", None))
  /\ Ex.bad Ex.cfgA Ex.doc_genuine (Ex.run as_coded Ex.cfgA Ex.doc_genuine) = false
  /\ Ex.names (Ex.run as_coded Ex.cfgR (Ex.response Ex.IDP [Ex.sig "#R" "dA" "sA"; Ex.genuineA])) = None.
Proof.
  split; [|split; [|split; [|split; [|split]]]]; try (vm_compute; reflexivity).
  - split; [|split].
    + intros _. vm_compute. discriminate.
    + vm_compute. repeat split; discriminate.
    + intros dd H. discriminate.
  - intros dd H. discriminate.
  - right. now left.
Qed.

Lemma not_spec_of_b c cv rep : spec_but_issuer_b c cv rep = false -> ~ spec_but_issuer c cv rep.
Proof. intros H S. apply spec_but_issuer_b_iff in S. congruence. Qed.

(* C02-F1 (fixed by e81db11e): the code before the repair accepted the two-signature document and reported
   the attacker's identity, none of which is inside the element that was digested (A, in the Advice) *)
Lemma f1_v0_refuted :
  exists rep ds, Ex.run knobs_v0 Ex.cfgA Ex.doc_f1 = Some (rep, ds)
                 /\ r_name_id rep = Some ("admin", None)
                 /\ oracle_sane Ex.all_ok Ex.doc_f1 None /\ sig_required Ex.cfgA
                 /\ ~ spec_but_issuer Ex.cfgA (cov_of Ex.doc_f1 None ds) rep.
Proof.
  destruct (Ex.run knobs_v0 Ex.cfgA Ex.doc_f1) as [[rep ds]|] eqn:E; [|vm_compute in E; discriminate].
  exists rep, ds. split; [reflexivity|].
  assert (Hn : Ex.names (Ex.run knobs_v0 Ex.cfgA Ex.doc_f1) = Some (Some ("admin", None))) by (vm_compute; reflexivity).
  assert (Hb : Ex.bad Ex.cfgA Ex.doc_f1 (Ex.run knobs_v0 Ex.cfgA Ex.doc_f1) = true) by (vm_compute; reflexivity).
  rewrite E in Hn, Hb. cbn [Ex.names Ex.bad] in Hn, Hb. inversion Hn as [Hn'].
  split; [reflexivity|]. split; [|split; [right; left; reflexivity|]].
  - split; [intros _; vm_compute; discriminate | split; [vm_compute; repeat split; discriminate | intros dd H; discriminate]].
  - apply not_spec_of_b. now apply negb_true_iff in Hb.
Qed.

Lemma f1_outside_guard : ~ sig_guard Ex.doc_f1 None.
Proof.
  intros (_ & G & _). specialize (G Ex.evil_two_sigs (or_introl eq_refl)).
  assert (signed Ex.evil_two_sigs) by (vm_compute; discriminate).
  specialize (G H). vm_compute in G. discriminate.
Qed.

Lemma f1_now_rejected : Ex.run as_coded Ex.cfgA Ex.doc_f1 = None.
Proof. vm_compute. reflexivity. Qed.

(* necessity of three conjuncts of the defence: with the conjunct switched off (everything else as coded)
   a wrapping document is accepted with the attacker's identity; the code as it is rejects it *)
Definition no_uri : knobs := {| k_uri := false; k_uniq := true; k_nodeid := true; k_onesig := true; k_issuer := true; k_iter := true; k_exact := true; k_lax := true; k_one := true; k_isseq := true |}.
Definition no_uniq : knobs := {| k_uri := true; k_uniq := false; k_nodeid := true; k_onesig := true; k_issuer := true; k_iter := true; k_exact := true; k_lax := true; k_one := true; k_isseq := true |}.
Definition no_nodeid : knobs := {| k_uri := true; k_uniq := true; k_nodeid := false; k_onesig := true; k_issuer := true; k_iter := true; k_exact := true; k_lax := true; k_one := true; k_isseq := true |}.

Definition permits_wrapping (K : knobs) (d : tree) : Prop :=
  Ex.names (Ex.run K Ex.cfgA d) = Some (Some ("admin", None))
  /\ Ex.bad Ex.cfgA d (Ex.run K Ex.cfgA d) = true
  /\ Ex.run as_coded Ex.cfgA d = None.

Lemma necessity_uri : permits_wrapping no_uri Ex.doc_uri.
Proof. repeat split; vm_compute; reflexivity. Qed.

(* the same under another engine: with the conjunct off the document is accepted with the attacker's identity BY THAT
   ENGINE, and the code as it is rejects it under that engine *)
Definition permits_wrapping_e (E : engine) (K : knobs) (d : tree) : Prop :=
  Ex.names (Ex.run_e E K Ex.cfgA d) = Some (Some ("admin", None))
  /\ Ex.bad Ex.cfgA d (Ex.run_e E K Ex.cfgA d) = true
  /\ Ex.run_e E as_coded Ex.cfgA d = None.

(* the document-wide uniqueness test of _is_the_only_signature_child is what stands between a lenient engine
   and signature wrapping by ID duplication ... *)
Lemma necessity_uniq_first : permits_wrapping_e Ex.eng_first no_uniq Ex.doc_dup_first.
Proof. repeat split; vm_compute; reflexivity. Qed.
Lemma necessity_uniq_last : permits_wrapping_e Ex.eng_last no_uniq Ex.doc_dup.
Proof. repeat split; vm_compute; reflexivity. Qed.
(* ... while xmlsec1 itself (duplicate ID = error) rejects both documents even without that test *)
Lemma uniq_examples_strict :
  Ex.run no_uniq Ex.cfgA Ex.doc_dup_first = None /\ Ex.run no_uniq Ex.cfgA Ex.doc_dup = None.
Proof. split; vm_compute; reflexivity. Qed.
Lemma necessity_nodeid : permits_wrapping no_nodeid Ex.doc_nodeid.
Proof. repeat split; vm_compute; reflexivity. Qed.

Definition no_onesig : knobs := {| k_uri := true; k_uniq := true; k_nodeid := true; k_onesig := false; k_issuer := true; k_iter := true; k_exact := true; k_lax := true; k_one := true; k_isseq := true |}.
Lemma necessity_onesig : permits_wrapping no_onesig Ex.doc_f1.
Proof. repeat split; vm_compute; reflexivity. Qed.

(* the one-signature test must look at ALL descendants in document order: a genuine, still signed assertion
   nested (in the Advice) AHEAD of the wrapper's own self-referencing ds:Signature child is what xmlsec1 verifies *)
Definition no_iter : knobs :=
  {| k_uri := true; k_uniq := true; k_nodeid := true; k_onesig := true; k_issuer := true; k_iter := false; k_exact := true; k_lax := true; k_one := true; k_isseq := true |}.
Definition doc_nested_first : tree :=
  Ex.response Ex.IDP
    [Node ASSERTION [("ID", "E")] ""
          [Ex.txt ISSUER Ex.IDP; Ex.el ADVICE [Ex.A_signed]; Ex.sig "#E" "x" "y";
           Ex.el SUBJECT [Ex.txt NAMEID "admin"];
           Ex.el ATTRSTMT [Node ATTRIBUTE [("Name", "mail"); ("NameFormat", "uri")] "" [Ex.txt ATTRVALUE "admin@evil.example"]]]].
Lemma necessity_first_signature_is_child : permits_wrapping no_iter doc_nested_first.
Proof. repeat split; vm_compute; reflexivity. Qed.

(* the Reference URI must equal "#"+ID exactly: with a case-insensitive comparison the genuine signature
   (URI #A) moved onto an attacker assertion whose ID is "a" passes, and xmlsec1 resolves #A to the genuine A *)
Definition no_exact : knobs :=
  {| k_uri := true; k_uniq := true; k_nodeid := true; k_onesig := true; k_issuer := true; k_iter := true; k_exact := false; k_lax := true; k_one := true; k_isseq := true |}.
Definition doc_case_id : tree :=
  Ex.response Ex.IDP [Ex.assertion "a" Ex.IDP [Ex.sigA] "admin" "admin@evil.example" [Ex.el ADVICE [Ex.genuineA]]].
Lemma necessity_exact_id : permits_wrapping no_exact doc_case_id.
Proof. repeat split; vm_compute; reflexivity. Qed.

(* C02-F2 (fixed by 64feb908): assertion-only signature, the reported issuer was the unsigned envelope's *)
Lemma f2_v0_refuted :
  exists rep ds, Ex.run knobs_v0 Ex.cfgA Ex.doc_f2 = Some (rep, ds)
                 /\ sig_guard Ex.doc_f2 None /\ sig_required Ex.cfgA
                 /\ r_issuer rep = Ex.OTHER
                 /\ spec_but_issuer Ex.cfgA (cov_of Ex.doc_f2 None ds) rep
                 /\ ~ spec_issuer Ex.cfgA (cov_of Ex.doc_f2 None ds) rep.
Proof.
  destruct (Ex.run knobs_v0 Ex.cfgA Ex.doc_f2) as [[rep ds]|] eqn:E; [|vm_compute in E; discriminate].
  exists rep, ds. split; [reflexivity|].
  assert (H1 : match Ex.run knobs_v0 Ex.cfgA Ex.doc_f2 with
               | Some (rep, ds) => (String.eqb (r_issuer rep) Ex.OTHER
                                    && spec_but_issuer_b Ex.cfgA (cov_of Ex.doc_f2 None ds) rep
                                    && negb (spec_issuer_b Ex.cfgA (cov_of Ex.doc_f2 None ds) rep))
               | None => false end = true) by (vm_compute; reflexivity).
  rewrite E in H1. rewrite !andb_true_iff in H1. destruct H1 as ((H1 & H2) & H3).
  apply String.eqb_eq in H1. apply spec_but_issuer_b_iff in H2. apply negb_true_iff in H3.
  split; [|split; [right; left; reflexivity | split; [assumption | split; [assumption|]]]].
  - split; [|split].
    + intro H. exfalso. apply H. vm_compute. reflexivity.
    + intros a [<-|[]] _. vm_compute. reflexivity.
    + intros dd H. discriminate.
  - intro S. apply spec_issuer_b_iff in S. congruence.
Qed.

(* (round 6) the issuer test must compare the two names for EQUALITY.  The federation of ExN has two members whose
   entityIDs NEST (the staff IdP's is the leading part of the guest IdP's); the guest IdP genuinely signs an assertion
   about its self-registered subject "admin", the envelope - outside the signature - is rewritten to name the staff IdP.
   With a substring test (`_resp_issuer not in _ass_issuer`) the message is accepted and REPORTED as the staff IdP's
   although the only covered element names the guest IdP; the code as it is refuses it, and accepts the unedited
   message. *)
Module ExN.
  Definition GUEST := "https://idp.example.org/idp.xml/guest".
  Definition genuineG : tree := Ex.assertion "G" GUEST [] "admin" "admin@example.org" [].
  Definition G_signed : tree := Ex.assertion "G" GUEST [Ex.sig "#G" "dG" "sG"] "admin" "admin@example.org" [].
  Definition dig_g (a dv : string) (t : tree) : bool := String.eqb dv "dG" && tree_eqb t genuineG.
  Definition sig_g (k : nat) (sv : string) (si : tree) : bool :=
    Nat.eqb k 7 && String.eqb sv "sG" && tree_eqb si (Ex.signed_info "#G" "dG").
  Definition cfgG : cfg := {| want_resp := false; want_assert := true; want_either := false;
                              md := [(GUEST, [7]); (Ex.IDP, [1]); (Ex.OTHER, [4])]; amap := [("uri|mail", "mail")] |}.
  Definition doc_nested : tree := Ex.response Ex.IDP [G_signed].
  Definition doc_unedited : tree := Ex.response GUEST [G_signed].
  (* other spellings near the signed name: a fragment, the name in capitals, a superstring *)
  Definition doc_fragment : tree := Ex.response "idp.example.org" [G_signed].
  Definition doc_upper : tree := Ex.response "HTTPS://IDP.EXAMPLE.ORG/IDP.XML/GUEST" [G_signed].
  Definition doc_longer : tree := Ex.response (GUEST ++ "/x") [G_signed].
  Definition run (K : knobs) (d : tree) := accept dig_g sig_g xmlsec1 K cfgG Ex.all_ok d None.
End ExN.

Definition no_isseq : knobs :=
  {| k_uri := true; k_uniq := true; k_nodeid := true; k_onesig := true; k_issuer := true; k_iter := true; k_exact := true; k_lax := true; k_one := true; k_isseq := false |}.

Lemma necessity_exact_issuer :
  (exists rep ds, ExN.run no_isseq ExN.doc_nested = Some (rep, ds)
                  /\ sig_required ExN.cfgG
                  /\ r_issuer rep = Ex.IDP /\ r_name_id rep = Some ("admin", None)
                  /\ spec_but_issuer ExN.cfgG (cov_of ExN.doc_nested None ds) rep
                  /\ ~ spec_issuer ExN.cfgG (cov_of ExN.doc_nested None ds) rep)
  /\ (exists rep ds, ExN.run no_isseq ExN.doc_fragment = Some (rep, ds)
                     /\ ~ spec_issuer ExN.cfgG (cov_of ExN.doc_fragment None ds) rep)
  /\ ExN.run as_coded ExN.doc_nested = None /\ ExN.run as_coded ExN.doc_fragment = None
  /\ ExN.run as_coded ExN.doc_upper = None /\ ExN.run as_coded ExN.doc_longer = None
  /\ (exists rep ds, ExN.run as_coded ExN.doc_unedited = Some (rep, ds) /\ r_issuer rep = ExN.GUEST
                     /\ spec ExN.cfgG (cov_of ExN.doc_unedited None ds) rep).
Proof.
  split; [|split; [|repeat split; try (vm_compute; reflexivity)]].
  - destruct (ExN.run no_isseq ExN.doc_nested) as [[rep ds]|] eqn:E; [|vm_compute in E; discriminate].
    exists rep, ds. split; [reflexivity|].
    assert (H1 : match ExN.run no_isseq ExN.doc_nested with
                 | Some (rep, ds) => (String.eqb (r_issuer rep) Ex.IDP
                                      && opt_eqb (fun x y => String.eqb (fst x) (fst y) && opt_eqb String.eqb (snd x) (snd y))
                                                 (r_name_id rep) (Some ("admin", None))
                                      && spec_but_issuer_b ExN.cfgG (cov_of ExN.doc_nested None ds) rep
                                      && negb (spec_issuer_b ExN.cfgG (cov_of ExN.doc_nested None ds) rep))
                 | None => false end = true) by (vm_compute; reflexivity).
    rewrite E in H1. rewrite !andb_true_iff in H1. destruct H1 as (((H1 & H0) & H2) & H3).
    apply String.eqb_eq in H1. apply spec_but_issuer_b_iff in H2. apply negb_true_iff in H3.
    split; [right; left; reflexivity|]. split; [assumption|]. split.
    + destruct (r_name_id rep) as [[n f]|]; [|discriminate]. cbn in H0. apply andb_true_iff in H0 as [Hn Hf].
      apply String.eqb_eq in Hn. destruct f; [discriminate|]. now subst.
    + split; [assumption|]. intro S. apply spec_issuer_b_iff in S. congruence.
  - destruct (ExN.run no_isseq ExN.doc_fragment) as [[rep ds]|] eqn:E; [|vm_compute in E; discriminate].
    exists rep, ds. split; [reflexivity|].
    assert (H1 : match ExN.run no_isseq ExN.doc_fragment with
                 | Some (rep, ds) => negb (spec_issuer_b ExN.cfgG (cov_of ExN.doc_fragment None ds) rep)
                 | None => false end = true) by (vm_compute; reflexivity).
    rewrite E in H1. apply negb_true_iff in H1. intro S. apply spec_issuer_b_iff in S. congruence.
  - destruct (ExN.run as_coded ExN.doc_unedited) as [[rep ds]|] eqn:E; [|vm_compute in E; discriminate].
    exists rep, ds. split; [reflexivity|].
    assert (H1 : match ExN.run as_coded ExN.doc_unedited with
                 | Some (rep, ds) => String.eqb (r_issuer rep) ExN.GUEST && spec_b ExN.cfgG (cov_of ExN.doc_unedited None ds) rep
                 | None => false end = true) by (vm_compute; reflexivity).
    rewrite E in H1. apply andb_true_iff in H1 as [H1 H2]. apply String.eqb_eq in H1. split; [assumption|].
    now apply spec_b_iff.
Qed.

Lemma f2_outside_guard : ~ issuer_guard Ex.doc_f2 None.
Proof.
  intros [H|(a & Ha & Hi)].
  - apply H. vm_compute. reflexivity.
  - vm_compute in Ha. destruct Ha as [<-|[]]. vm_compute in Hi. discriminate.
Qed.

Lemma f2_now_rejected : Ex.run as_coded Ex.cfgA Ex.doc_f2 = None.
Proof. vm_compute. reflexivity. Qed.

(* ================================================================== engines: guard, finding C02-F3 *)
Lemma sub_subtrees : forall q t e, sub t q = Some e -> In e (subtrees t).
Proof.
  induction q as [|n r IH]; intros t e H; simpl in H.
  - inversion H; subst. apply subtrees_self.
  - destruct (nth_error (kids t) n) as [k|] eqn:Hn; [|discriminate].
    eapply subtrees_kid; [eapply nth_error_In; eauto | now apply IH].
Qed.

Definition no_bare_b (doc : tree) : bool :=
  forallb (fun e => negb (String.eqb (tag e) "Assertion" || String.eqb (tag e) "Response")
                    || match attr "ID" e with None => true | Some _ => false end) (subtrees doc).

Lemma no_bare_b_ok doc : no_bare_b doc = true -> no_bare doc.
Proof.
  unfold no_bare_b, no_bare. rewrite forallb_forall. intros H q e Hs Ht.
  specialize (H e (sub_subtrees _ _ _ Hs)).
  assert (Hb : String.eqb (tag e) "Assertion" || String.eqb (tag e) "Response" = true)
    by (destruct Ht as [-> | ->]; reflexivity).
  rewrite Hb in H. cbn [negb orb] in H. destruct (attr "ID" e); [discriminate | reflexivity].
Qed.

Lemma engine_guard_strict E doc ddoc : e_ids E = IdStrict -> engine_guard E doc ddoc.
Proof. intros H Hl. unfold lenient in Hl. rewrite H in Hl. discriminate. Qed.

(* the guard is satisfiable: the genuine message has no such element; and it is accepted under every engine *)
Example genuine_all_engines :
  (forall E, engine_guard E Ex.doc_genuine None)
  /\ forallb (fun E => match Ex.names (Ex.run_e E as_coded Ex.cfgA Ex.doc_genuine) with
                       | Some (Some ("alice", None)) => true | _ => false end) Ex.all_engines = true.
Proof.
  split; [|vm_compute; reflexivity].
  intros E _. split; [apply no_bare_b_ok; vm_compute; reflexivity | intros dd H; discriminate].
Qed.

(* C02-F3 (fixed by 32211c52; lenient engines only): the code before the fix (knobs_v1) accepted the forged assertion, only the genuine
   assertion inside the un-namespaced holder was digested; xmlsec1 itself rejects the document (duplicate ID) *)
Lemma f3_lenient_v1_refuted :
  (exists rep ds, Ex.run_e Ex.eng_first knobs_v1 Ex.cfgA Ex.doc_bare_first = Some (rep, ds)
                  /\ r_name_id rep = Some ("admin", None)
                  /\ oracle_sane Ex.all_ok Ex.doc_bare_first None /\ sig_required Ex.cfgA
                  /\ ~ spec_but_issuer Ex.cfgA (cov_of Ex.doc_bare_first None ds) rep)
  /\ (exists rep ds, Ex.run_e Ex.eng_last knobs_v1 Ex.cfgA Ex.doc_bare_last = Some (rep, ds)
                  /\ r_name_id rep = Some ("admin", None)
                  /\ ~ spec_but_issuer Ex.cfgA (cov_of Ex.doc_bare_last None ds) rep)
  /\ ~ engine_guard Ex.eng_first Ex.doc_bare_first None /\ ~ engine_guard Ex.eng_last Ex.doc_bare_last None
  /\ Ex.run knobs_v1 Ex.cfgA Ex.doc_bare_first = None /\ Ex.run knobs_v1 Ex.cfgA Ex.doc_bare_last = None.
Proof.
  split; [|split; [|split; [|split; [|split]]]]; try (vm_compute; reflexivity).
  - destruct (Ex.run_e Ex.eng_first knobs_v1 Ex.cfgA Ex.doc_bare_first) as [[rep ds]|] eqn:E; [|vm_compute in E; discriminate].
    exists rep, ds. split; [reflexivity|].
    assert (Hn : Ex.names (Ex.run_e Ex.eng_first knobs_v1 Ex.cfgA Ex.doc_bare_first) = Some (Some ("admin", None))) by (vm_compute; reflexivity).
    assert (Hb : Ex.bad Ex.cfgA Ex.doc_bare_first (Ex.run_e Ex.eng_first knobs_v1 Ex.cfgA Ex.doc_bare_first) = true) by (vm_compute; reflexivity).
    rewrite E in Hn, Hb. cbn [Ex.names Ex.bad] in Hn, Hb. inversion Hn as [Hn'].
    split; [reflexivity|]. split; [|split; [right; left; reflexivity|]].
    + split; [intros _; vm_compute; discriminate | split; [vm_compute; repeat split; discriminate | intros dd H; discriminate]].
    + apply not_spec_of_b. now apply negb_true_iff in Hb.
  - destruct (Ex.run_e Ex.eng_last knobs_v1 Ex.cfgA Ex.doc_bare_last) as [[rep ds]|] eqn:E; [|vm_compute in E; discriminate].
    exists rep, ds. split; [reflexivity|].
    assert (Hn : Ex.names (Ex.run_e Ex.eng_last knobs_v1 Ex.cfgA Ex.doc_bare_last) = Some (Some ("admin", None))) by (vm_compute; reflexivity).
    assert (Hb : Ex.bad Ex.cfgA Ex.doc_bare_last (Ex.run_e Ex.eng_last knobs_v1 Ex.cfgA Ex.doc_bare_last) = true) by (vm_compute; reflexivity).
    rewrite E in Hn, Hb. cbn [Ex.names Ex.bad] in Hn, Hb. inversion Hn as [Hn'].
    split; [reflexivity|]. apply not_spec_of_b. now apply negb_true_iff in Hb.
  - intro G. destruct (G eq_refl) as [G1 _].
    specialize (G1 [1; 0] Ex.bare_holder eq_refl (or_introl eq_refl)). vm_compute in G1. discriminate.
  - intro G. destruct (G eq_refl) as [G1 _].
    specialize (G1 [2; 0] Ex.bare_holder eq_refl (or_introl eq_refl)). vm_compute in G1. discriminate.
Qed.

(* ================================================================== C02-F4 (fixed: 6a3bb24f): the report mixed two signed assertions *)
Lemma not_spec_one_of_b c cv rep : spec_one_b c cv rep = false -> ~ spec_one c cv rep.
Proof. intros H S. apply spec_one_b_iff in S. congruence. Qed.

(* the code before 6a3bb24f (knobs_v2) accepted two genuinely signed assertions in an unsigned envelope as soon as the Response also has
   exactly one EncryptedAssertion child (an empty element will do; a real ciphertext too) and reports bob (the last
   assertion's subject) with alice's session (the first one's): every field is signed content (spec holds), but no
   single covered element carries that combination (spec_one fails).  Without the extra child the splice is refused. *)
Lemma f4_v2_refuted :
  Ex.mixed Ex.cfgA Ex.doc_mix None = Some (true, false, Some "bob", Some "s-alice")
  /\ Ex.mixed Ex.cfgA Ex.doc_mix_enc (Some Ex.ddoc_mix_enc) = Some (true, false, Some "bob", Some "s-bob")
  /\ (exists rep ds, Ex.run2 Ex.cfgA Ex.doc_mix None = Some (rep, ds)
                     /\ oracle_sane Ex.ok3 Ex.doc_mix None /\ dec_sound Ex.doc_mix None /\ sig_required Ex.cfgA
                     /\ spec Ex.cfgA (cov_of Ex.doc_mix None ds) rep
                     /\ ~ spec_one Ex.cfgA (cov_of Ex.doc_mix None ds) rep)
  /\ ~ mix_guard Ex.doc_mix None /\ ~ mix_guard Ex.doc_mix_enc (Some Ex.ddoc_mix_enc)
  /\ Ex.run2 Ex.cfgA Ex.doc_two None = None.
Proof.
  split; [vm_compute; reflexivity|]. split; [vm_compute; reflexivity|]. split; [|split; [|split]].
  - destruct (Ex.run2 Ex.cfgA Ex.doc_mix None) as [[rep ds]|] eqn:E; [|vm_compute in E; discriminate].
    exists rep, ds. split; [reflexivity|].
    assert (Hm : Ex.mixed Ex.cfgA Ex.doc_mix None = Some (true, false, Some "bob", Some "s-alice")) by (vm_compute; reflexivity).
    unfold Ex.mixed in Hm. rewrite E in Hm. inversion Hm as [[H1 H2 H3 H4]].
    split; [|split; [|split; [right; left; reflexivity|split]]].
    + split; [intros _; vm_compute; discriminate | split; [vm_compute; repeat split; discriminate | intros dd H; discriminate]].
    + intros dd H. discriminate.
    + now apply spec_b_iff.
    + now apply not_spec_one_of_b.
  - intros [H|(a & H)]; [apply H; vm_compute; reflexivity | vm_compute in H; discriminate].
  - intros [H|(a & H)]; [apply H; vm_compute; reflexivity | vm_compute in H; discriminate].
  - vm_compute. reflexivity.
Qed.

(* the code as it is refuses both witnesses and still accepts the single genuine assertion *)
Lemma f4_now_rejected :
  Ex.run2_now Ex.cfgA Ex.doc_mix None = None
  /\ Ex.run2_now Ex.cfgA Ex.doc_mix_enc (Some Ex.ddoc_mix_enc) = None
  /\ Ex.names (Ex.run2_now Ex.cfgA Ex.doc_one None) = Some (Some ("alice", None)).
Proof. repeat split; vm_compute; reflexivity. Qed.

(* the hypotheses of the one-element theorem are satisfiable: the genuine message is accepted, one element covers it *)
Example single_nonvacuous :
  mix_guard Ex.doc_genuine None
  /\ match Ex.run as_coded Ex.cfgA Ex.doc_genuine with
     | Some (rep, ds) => spec_one_b Ex.cfgA (cov_of Ex.doc_genuine None ds) rep
     | None => false
     end = true.
Proof. split; [right; exists Ex.A_signed; vm_compute; reflexivity | vm_compute; reflexivity]. Qed.

(* ================================================================== the statements of Property.v *)
Lemma knobs_as_coded : sound_knobs as_coded.
Proof. repeat split. Qed.
Lemma knobs_v0_sound : sound_knobs knobs_v0.
Proof. repeat split. Qed.
Lemma knobs_no_uniq : sound_knobs no_uniq.
Proof. repeat split. Qed.

Lemma knobs_v1_sound : sound_knobs knobs_v1.
Proof. repeat split. Qed.

Lemma defence_as_coded E doc ddoc : defence E as_coded doc ddoc.
Proof. left. split; [reflexivity | now left]. Qed.
Lemma defence_v1 E doc ddoc : defence E knobs_v1 doc ddoc.
Proof. left. split; [reflexivity | now left]. Qed.

(* the code as it is (after e81db11e, 64feb908, 32211c52): every engine, no guard *)
Lemma covered_as_coded :
  forall E dig_ok sig_ok c o doc ddoc rep ds,
    sig_required c -> oracle_sane o doc ddoc -> dec_sound doc ddoc ->
    accept dig_ok sig_ok E as_coded c o doc ddoc = Some (rep, ds) ->
    spec c (cov_of doc ddoc ds) rep
    /\ (forall e k, In (e, k) (cov_of doc ddoc ds) -> crypto_ok dig_ok sig_ok e k).
Proof.
  intros E dig_ok sig_ok c o doc ddoc rep ds Hr Ho Hd H.
  exact (accept_covered dig_ok sig_ok E as_coded c o doc ddoc rep ds knobs_as_coded Hr (defence_as_coded E doc ddoc)
           (or_introl eq_refl) (or_introl eq_refl) Ho Hd H).
Qed.

Lemma xsw_free_as_coded :
  forall E dig_ok sig_ok (issued : nat -> tree -> tree -> Prop),
    (forall k sv si, sig_ok k sv si = true -> exists e, issued k si e) ->
    (forall k si e alg dv, issued k si e -> si_digest si = Some (alg, dv) -> dig_ok alg dv e = true) ->
    (forall alg dv t t', dig_ok alg dv t = true -> dig_ok alg dv t' = true -> t = t') ->
    forall c o doc ddoc rep ds,
      sig_required c -> oracle_sane o doc ddoc -> dec_sound doc ddoc ->
      accept dig_ok sig_ok E as_coded c o doc ddoc = Some (rep, ds) ->
      spec c (cov_of doc ddoc ds) rep
      /\ (forall e k, In (e, k) (cov_of doc ddoc ds) -> exists si, issued k si e).
Proof.
  intros E dig_ok sig_ok issued H1 H2 H3 c o doc ddoc rep ds Hr Ho Hd H.
  exact (wrapping_free dig_ok sig_ok issued H1 H2 H3 E as_coded c o doc ddoc rep ds knobs_as_coded Hr
           (defence_as_coded E doc ddoc) (or_introl eq_refl) (or_introl eq_refl) Ho Hd H).
Qed.

(* the code before 32211c52 (knobs_v1): every engine, but for the lenient ones only under engine_guard *)
Lemma covered_v1 :
  forall E dig_ok sig_ok c o doc ddoc rep ds,
    engine_guard E doc ddoc ->
    sig_required c -> oracle_sane o doc ddoc -> dec_sound doc ddoc ->
    accept dig_ok sig_ok E knobs_v1 c o doc ddoc = Some (rep, ds) ->
    spec c (cov_of doc ddoc ds) rep
    /\ (forall e k, In (e, k) (cov_of doc ddoc ds) -> crypto_ok dig_ok sig_ok e k).
Proof.
  intros E dig_ok sig_ok c o doc ddoc rep ds He Hr Ho Hd H.
  exact (accept_covered dig_ok sig_ok E knobs_v1 c o doc ddoc rep ds knobs_v1_sound Hr (defence_v1 E doc ddoc)
           (or_introl eq_refl) (or_intror He) Ho Hd H).
Qed.

(* the witnesses of C02-F3 lie outside engine_guard's class ... and the code as it is rejects them under every engine,
   while the genuine message is still accepted under all six *)
Lemma f3_now_rejected :
  forallb (fun E => match Ex.run_e E as_coded Ex.cfgA Ex.doc_bare_first, Ex.run_e E as_coded Ex.cfgA Ex.doc_bare_last with
                    | None, None => true | _, _ => false end) Ex.all_engines = true
  /\ forallb (fun E => match Ex.names (Ex.run_e E as_coded Ex.cfgA Ex.doc_genuine) with
                       | Some (Some ("alice", None)) => true | _ => false end) Ex.all_engines = true.
Proof. split; vm_compute; reflexivity. Qed.

(* under an engine that is strict about duplicate IDs (xmlsec1) the uniqueness test of the code is redundant:
   the property holds without it *)
Lemma covered_strict_without_uniq :
  forall E dig_ok sig_ok c o doc ddoc rep ds,
    e_ids E = IdStrict ->
    sig_required c -> oracle_sane o doc ddoc -> dec_sound doc ddoc ->
    accept dig_ok sig_ok E no_uniq c o doc ddoc = Some (rep, ds) ->
    spec c (cov_of doc ddoc ds) rep
    /\ (forall e k, In (e, k) (cov_of doc ddoc ds) -> crypto_ok dig_ok sig_ok e k).
Proof.
  intros E dig_ok sig_ok c o doc ddoc rep ds Hs Hr Ho Hd H.
  refine (accept_covered dig_ok sig_ok E no_uniq c o doc ddoc rep ds knobs_no_uniq Hr _ (or_introl eq_refl)
            (or_introl eq_refl) Ho Hd H).
  left. split; [reflexivity | now right].
Qed.

(* the code before the repairs satisfied the property only under the two guards (and only with a strict engine) *)
Lemma covered_v0 :
  forall E dig_ok sig_ok c o doc ddoc rep ds,
    e_ids E = IdStrict ->
    sig_required c -> sig_guard doc ddoc -> issuer_guard doc ddoc -> oracle_sane o doc ddoc -> dec_sound doc ddoc ->
    accept dig_ok sig_ok E knobs_v0 c o doc ddoc = Some (rep, ds) ->
    spec c (cov_of doc ddoc ds) rep
    /\ (forall e k, In (e, k) (cov_of doc ddoc ds) -> crypto_ok dig_ok sig_ok e k).
Proof.
  intros E dig_ok sig_ok c o doc ddoc rep ds Hs Hr Hg Hi Ho Hd H.
  exact (accept_covered dig_ok sig_ok E knobs_v0 c o doc ddoc rep ds knobs_v0_sound Hr (or_intror (conj Hg Hs)) (or_intror Hi)
           (or_intror (engine_guard_strict E doc ddoc Hs)) Ho Hd H).
Qed.

Lemma knobs_v2_sound : sound_knobs knobs_v2.
Proof. repeat split. Qed.
Lemma defence_v2 E doc ddoc : defence E knobs_v2 doc ddoc.
Proof. left. split; [reflexivity | now left]. Qed.

(* (round 5, after 6a3bb24f) ONE covered element accounts for the whole report: no guard - the code refuses more than
   one processed assertion unless the Response itself is signed *)
Lemma single_as_coded :
  forall E dig_ok sig_ok c o doc ddoc rep ds,
    sig_required c -> oracle_sane o doc ddoc -> dec_sound doc ddoc -> dec_count doc ddoc ->
    accept dig_ok sig_ok E as_coded c o doc ddoc = Some (rep, ds) ->
    spec_one c (cov_of doc ddoc ds) rep.
Proof.
  intros E dig_ok sig_ok c o doc ddoc rep ds Hr Ho Hd Hc H.
  exact (accept_single dig_ok sig_ok E as_coded c o doc ddoc rep ds knobs_as_coded Hr (defence_as_coded E doc ddoc)
           (or_introl eq_refl) (or_introl eq_refl) Ho Hd (or_introl (conj eq_refl Hc)) H).
Qed.

(* the code before 6a3bb24f: only under mix_guard (the Response is signed, or exactly one assertion feeds the report) *)
Lemma single_v2 :
  forall E dig_ok sig_ok c o doc ddoc rep ds,
    sig_required c -> oracle_sane o doc ddoc -> dec_sound doc ddoc -> mix_guard doc ddoc ->
    accept dig_ok sig_ok E knobs_v2 c o doc ddoc = Some (rep, ds) ->
    spec_one c (cov_of doc ddoc ds) rep.
Proof.
  intros E dig_ok sig_ok c o doc ddoc rep ds Hr Ho Hd Hm H.
  exact (accept_single dig_ok sig_ok E knobs_v2 c o doc ddoc rep ds knobs_v2_sound Hr (defence_v2 E doc ddoc)
           (or_introl eq_refl) (or_introl eq_refl) Ho Hd (or_intror Hm) H).
Qed.

(* a Response without EncryptedAssertion children: the count test of parse_assertion leaves exactly one assertion *)
Lemma single_plain_as_coded :
  forall E dig_ok sig_ok c o doc ddoc rep ds,
    sig_required c -> oracle_sane o doc ddoc -> dec_sound doc ddoc ->
    many ENCASSERTION doc = [] -> find_encrypt_data doc = false ->
    accept dig_ok sig_ok E as_coded c o doc ddoc = Some (rep, ds) ->
    spec_one c (cov_of doc ddoc ds) rep.
Proof.
  intros E dig_ok sig_ok c o doc ddoc rep ds Hr Ho Hd Hn Hf H.
  exact (accept_single_plain dig_ok sig_ok E as_coded c o doc ddoc rep ds knobs_as_coded Hr (defence_as_coded E doc ddoc)
           (or_introl eq_refl) (or_introl eq_refl) Ho Hd Hn Hf H).
Qed.

(* the allow-lists and names of the LIVE saml2.xmldsig / saml2.sigver (coq/gen/C02Tables.v, regenerated on every run)
   are the constants the model uses *)
Lemma live_constants :
  live_allowed_transforms = ALLOWED_TRANSFORMS
  /\ live_allowed_canonicalizations = ALLOWED_CANONICALIZATIONS
  /\ live_transform_enveloped = TRANSFORM_ENVELOPED
  /\ live_node_name = "urn:oasis:names:tc:SAML:2.0:assertion:Assertion".
Proof. repeat split; reflexivity. Qed.
