(* C02/Corr.v — correspondence runner.
   A case = signature engine + policy + oracle bits + the abstract document (+ the decrypted text, when the
   implementation decrypted) + the ideal-crypto tables + what the real
   Saml2Client.parse_authn_request_response did: accepted?, the reported fields, and — from the
   xmlsec1 stand-in's log — which elements were digested under which certificate. *)
From Coq Require Import String List Bool Arith.
From Verif Require Import Base.Str Base.Run C02.Model C02.Spec.
Import ListNotations.
Open Scope string_scope.
Open Scope list_scope.

(* ideal digests / signatures as tables of the values that were genuinely made *)
Record tabs := {
  t_digs : list (string * string * tree);        (* algorithm, DigestValue token, digested tree *)
  t_sigs : list (string * (nat * tree))          (* SignatureValue token, (key, SignedInfo) *)
}.

(* (written with if-then-else, not &&: vm_compute evaluates the arguments of andb eagerly, the tree comparison would be
   made for every table entry) *)
Definition dig_tab (tb : tabs) (alg dv : string) (t : tree) : bool :=
  existsb (fun e => if String.eqb (snd (fst e)) dv then if String.eqb (fst (fst e)) alg then tree_eqb (snd e) t else false else false)
          (t_digs tb).

Definition sig_tab (tb : tabs) (cert : nat) (sv : string) (si : tree) : bool :=
  existsb (fun e => if String.eqb (fst e) sv then if Nat.eqb (fst (snd e)) cert then tree_eqb (snd (snd e)) si else false else false)
          (t_sigs tb).

Record case := {
  c_eng : engine;                                (* the engine variant the implementation was run with *)
  c_cfg : cfg;
  c_or : oracle;
  c_doc : tree;
  c_ddoc : option tree;
  c_tabs : tabs;
  c_obs : option (reported * list dig)           (* None = no identity *)
}.

Definition mkrep nid av iss aud nb nooa six snooa authn : reported :=
  {| r_name_id := nid; r_ava := av; r_issuer := iss; r_audiences := aud; r_not_before := nb;
     r_not_on_or_after := nooa; r_session_index := six; r_session_nooa := snooa; r_authn := authn |}.

Definition eng (ids sel : nat) : engine :=
  {| e_ids := match ids with 0 => IdStrict | 1 => IdFirst | _ => IdLast end;
     e_sel := match sel with 0 => SelBelow | _ => SelChild end |}.

Definition mk (e : engine) (world : list (string * list nat) * list (string * string))
           (wr wa we cok sroot : bool) (sas senc : list bool) (doc : tree) (ddoc : option tree)
           (tb : tabs) (accepted : bool) (rep : option reported) (ds : list dig) : case :=
  {| c_eng := e;
     c_cfg := {| want_resp := wr; want_assert := wa; want_either := we; md := fst world; amap := snd world |};
     c_or := {| content_ok := cok; schema_root := sroot; schema_as := sas; schema_enc := senc |};
     c_doc := doc; c_ddoc := ddoc; c_tabs := tb;
     c_obs := if accepted then match rep with Some r => Some (r, ds) | None => None end else None |}.

Definition run_model (K : knobs) (c : case) : option (reported * list dig) :=
  accept (dig_tab (c_tabs c)) (sig_tab (c_tabs c)) (c_eng c) K (c_cfg c) (c_or c) (c_doc c) (c_ddoc c).

(* ---- equality of observations (attribute dictionaries and digest sets: order-free) ---- *)
Definition os_eqb := opt_eqb String.eqb.
Definition path_eqb := list_eqb Nat.eqb.
Definition dig_eqb (a b : dig) : bool :=
  match a, b with
  | (w1, t1, s1, k1), (w2, t2, s2, k2) => Bool.eqb w1 w2 && path_eqb t1 t2 && path_eqb s1 s2 && Nat.eqb k1 k2
  end.
Definition subset {A} (eqb : A -> A -> bool) (l1 l2 : list A) : bool :=
  forallb (fun x => existsb (eqb x) l2) l1.
Definition ava_entry_eqb (a b : string * list string) : bool :=
  String.eqb (fst a) (fst b) && list_eqb String.eqb (snd a) (snd b).

Definition reported_eqb (a b : reported) : bool :=
  opt_eqb (fun x y => String.eqb (fst x) (fst y) && os_eqb (snd x) (snd y)) (r_name_id a) (r_name_id b)
  && subset ava_entry_eqb (r_ava a) (r_ava b) && subset ava_entry_eqb (r_ava b) (r_ava a)
  && String.eqb (r_issuer a) (r_issuer b)
  && list_eqb String.eqb (r_audiences a) (r_audiences b)
  && os_eqb (r_not_before a) (r_not_before b)
  && os_eqb (r_not_on_or_after a) (r_not_on_or_after b)
  && os_eqb (r_session_index a) (r_session_index b)
  && os_eqb (r_session_nooa a) (r_session_nooa b)
  && opt_eqb (fun x y => os_eqb (fst x) (fst y) && os_eqb (snd x) (snd y)) (r_authn a) (r_authn b).

Definition agrees_with (K : knobs) (c : case) : bool :=
  match run_model K c, c_obs c with
  | None, None => true
  | Some (r1, d1), Some (r2, d2) => reported_eqb r1 r2 && subset dig_eqb d1 d2 && subset dig_eqb d2 d1
  | _, _ => false
  end.
Definition agrees := agrees_with as_coded.

(* the oracle bits satisfy what the theorems assume about them: a schema-valid item has an ID *)
Definition has_id (t : tree) : bool := match attr "ID" t with Some _ => true | None => false end.
Fixpoint oracle_sane (items : list tree) (bits : list bool) : bool :=
  match items, bits with
  | t :: r, b :: s => (negb b || has_id t) && oracle_sane r s
  | _, _ => true
  end.

(* the property on what the implementation did *)
Definition holds (c : case) : bool :=
  match c_obs c with
  | None => true
  | Some (rep, ds) => spec_b (c_cfg c) (cov_of (c_doc c) (c_ddoc c) ds) rep
                      && spec_one_b (c_cfg c) (cov_of (c_doc c) (c_ddoc c) ds) rep
  end
  && (negb (schema_root (c_or c)) || has_id (c_doc c))
  && oracle_sane (many ASSERTION (c_doc c)) (schema_as (c_or c))
  && match c_ddoc c with Some dd => oracle_sane (decrypted dd) (schema_enc (c_or c)) | None => true end
  (* Proofs.dec_count: the round trip through str(response) loses no plain assertion *)
  && match c_ddoc c with Some dd => Nat.leb (length (many ASSERTION (c_doc c))) (length (many ASSERTION dd)) | None => true end.

(* finding classes (consulted only when holds is false; ALL are FIXED, so a case in any class is a
   regression and reported as VIOLATION):
   3 = C02-F3 (fixed: 32211c52; lenient engines only): an un-namespaced element called Assertion / Response carries the ID
       of a signature-checked element (the Response, its Assertion children, the decrypted assertions);
   1 = C02-F1: some signature-carrying item has more than one ds:Signature child, or its first
       ds:Signature in document order is not that child (validators look at the last, xmlsec1
       verifies the first);
   2 = C02-F2: everything but the issuer is covered, the Response itself carries no signature and
       the reported issuer (read from the unsigned envelope) is not the issuer of a covered element *)
Definition guard_item (t : tree) : bool :=
  match many SIGNATURE t with [] => true | _ => one_sig t end.
Definition sig_guard (c : case) : bool :=
  guard_item (c_doc c) && forallb guard_item (many ASSERTION (c_doc c))
  && match c_ddoc c with Some dd => forallb guard_item (decrypted dd) | None => true end.

Definition bare_name (tg : string) : bool := String.eqb tg "Assertion" || String.eqb tg "Response".
Definition bare_ids (t : tree) : list string :=
  flat_map (fun e => if bare_name (tag e) then opt_list (attr "ID" e) else []) (subtrees t).
Definition bare_clash (c : case) : bool :=
  lenient (c_eng c)
  && (let items := c_doc c :: many ASSERTION (c_doc c)
                   ++ match c_ddoc c with Some dd => decrypted dd | None => [] end in
      let bare := bare_ids (c_doc c) ++ match c_ddoc c with Some dd => bare_ids dd | None => [] end in
      existsb (fun t => match attr "ID" t with Some i => mem i bare | None => false end) items).

(* 4 = C02-F4 (fixed: 6a3bb24f): every field is covered, but no ONE covered element accounts for the whole report; the Response
       itself carries no signature, parse_assertion's count test is satisfied (exactly one plain Assertion child OR
       exactly one EncryptedAssertion child) and more than one assertion feeds the report *)
Definition fed (c : case) : list tree :=
  many ASSERTION (c_doc c)
  ++ (if find_encrypt_data (c_doc c) then match c_ddoc c with Some dd => decrypted dd | None => [] end else []).
Definition mix_class (c : case) : bool :=
  match many SIGNATURE (c_doc c) with [] => true | _ => false end
  && count_ok (c_doc c) && Nat.ltb 1 (length (fed c)).

Definition cls (c : case) : nat :=
  match c_obs c with
  | None => 0
  | Some (rep, ds) =>
      let cv := cov_of (c_doc c) (c_ddoc c) ds in
      if bare_clash c then 3 else
      if negb (spec_but_issuer_b (c_cfg c) cv rep) then (if sig_guard c then 0 else 1)
      else if negb (spec_issuer_b (c_cfg c) cv rep) then
             (match many SIGNATURE (c_doc c) with [] => 2 | _ => if sig_guard c then 0 else 1 end)
           else if negb (spec_one_b (c_cfg c) cv rep) then (if mix_class c then 4 else 0)
           else 0
  end.

(* one document is observed under several engines: a group of cases; the group agrees / holds when every member
   does; its class is 0 as soon as one failing member is unclassified, else the smallest class of a failing member *)
Definition group := list case.
Definition cls_g (g : group) : nat :=
  match fold_left (fun acc c => if holds c then acc
                                else match acc with
                                     | None => Some (cls c)
                                     | Some k => Some (Nat.min k (cls c))
                                     end) g None with
  | Some k => k
  | None => 0
  end.
Definition run := run_cases (forallb agrees) (forallb holds) cls_g.
(* the behaviour before 6a3bb24f, for comparison only (VERIF_C02_MODEL=v2) *)
Definition run_v2 := run_cases (forallb (agrees_with knobs_v2)) (forallb holds) cls_g.
(* the behaviour before 32211c52, for comparison only (VERIF_C02_MODEL=v1) *)
Definition run_v1 := run_cases (forallb (agrees_with knobs_v1)) (forallb holds) cls_g.
(* the behaviour before e81db11e / 64feb908, for comparison only (VERIF_C02_MODEL=v0) *)
Definition run_v0 := run_cases (forallb (agrees_with knobs_v0)) (forallb holds) cls_g.

Definition explain1 (c : case) :=
  (c_eng c, run_model as_coded c, c_obs c, agrees c, holds c, cls c,
   match c_obs c with Some (rep, ds) => Some (map (fun e => (tag (fst e), attr "ID" (fst e), snd e)) (cov_of (c_doc c) (c_ddoc c) ds)) | None => None end).
Definition explain (g : group) := map explain1 g.
