(* C02/Spec.v — the property, from its text:
     "When a signature is required, the subject identifier, attributes, issuer, audience,
      validity and session data that the service provider reports for an accepted Response are
      exactly those of an element covered by a valid signature of the asserting party."
   Inputs of the spec: the configuration (metadata: which certificates belong to which
   entity), the list of COVERED elements — each one the element that the signature engine
   digested under a verifying signature (the enveloped signature itself taken out), together
   with the certificate that verified — and the reported fields.  Nothing here refers to how
   the implementation finds elements (no "last child wins", no node-id): a reported value
   must literally occur, at the place where SAML puts that kind of value, inside a covered
   element whose own Issuer is an entity to which metadata binds the verifying certificate.
   Per-field reading ("those of AN element covered ..." is applied to every reported field
   separately; two covered elements may both contribute): see notes/C02.md. *)
From Coq Require Import String List Bool Arith.
From Verif Require Import Base.Str C02.Model.
Import ListNotations.
Open Scope string_scope.
Open Scope list_scope.

(* all elements at or below e, document order *)
Fixpoint subtrees (t : tree) : list tree :=
  match t with
  | Node _ _ _ ks => t :: (fix go (l : list tree) : list tree :=
                             match l with [] => [] | k :: r => subtrees k ++ go r end) ks
  end.

(* elements reached from a by descending through children with the given tags *)
Fixpoint reach (tags : list string) (a : tree) : list tree :=
  match tags with
  | [] => [a]
  | tg :: r => flat_map (reach r) (many tg a)
  end.

Definition opt_list {A} (o : option A) : list A := match o with Some x => [x] | None => [] end.

(* ---- what a SAML assertion element says ---------------------------------------- *)
Definition name_ids (a : tree) : list (string * option string) :=
  map (fun n => (text n, attr "Format" n)) (reach [SUBJECT; NAMEID] a).

Definition attr_values (c : cfg) (a : tree) : list (string * string) :=
  flat_map (fun at_ => match akey c at_ with
                       | Some k => map (fun v => (k, v)) (values_of at_)
                       | None => []
                       end) (reach [ATTRSTMT; ATTRIBUTE] a).

Definition audiences (a : tree) : list string := map text (reach [CONDITIONS; AUDRESTR; AUDIENCE] a).

Definition cond_attr (nm : string) (a : tree) : list string :=
  flat_map (fun n => opt_list (attr nm n)) (reach [CONDITIONS] a).

Definition stmt_attr (nm : string) (a : tree) : list string :=
  flat_map (fun n => opt_list (attr nm n)) (reach [AUTHNSTMT] a).

Definition class_refs (a : tree) : list string := map text (reach [AUTHNSTMT; AUTHNCONTEXT; CLASSREF] a).

(* ---- covered elements ------------------------------------------------------------ *)
Definition cov := list (tree * nat).

Definition mem_nat (k : nat) (l : list nat) : bool := existsb (Nat.eqb k) l.

(* the certificate that verified is bound by metadata to the entity the element names as its Issuer *)
Definition by_asserting_party (c : cfg) (ek : tree * nat) : bool :=
  existsb (fun i => mem_nat (snd ek) (md_certs c (strip (text i)))) (many ISSUER (fst ek)).

Definition covered_elements (c : cfg) (cv : cov) : list tree :=
  flat_map (fun ek => if by_asserting_party c ek then subtrees (fst ek) else []) cv.

Definition covered_assertions (c : cfg) (cv : cov) : list tree :=
  filter (fun x => String.eqb (tag x) ASSERTION) (covered_elements c cv).

Definition covered_issuers (c : cfg) (cv : cov) : list string :=
  flat_map (fun x => if String.eqb (tag x) ASSERTION || String.eqb (tag x) RESPONSE
                     then map (fun i => strip (text i)) (many ISSUER x) else [])
           (covered_elements c cv).

Definition from_assertion {A} (c : cfg) (cv : cov) (f : tree -> list A) (v : A) : Prop :=
  exists a, In a (covered_assertions c cv) /\ In v (f a).

(* ---- the property ---------------------------------------------------------------------- *)
Definition spec_name_id (c : cfg) (cv : cov) (rep : reported) : Prop :=
  forall v, r_name_id rep = Some v -> from_assertion c cv name_ids v.
Definition spec_ava (c : cfg) (cv : cov) (rep : reported) : Prop :=
  forall k vs v, In (k, vs) (r_ava rep) -> In v vs -> from_assertion c cv (attr_values c) (k, v).
(* an absent envelope Issuer is reported as "": nothing is claimed then *)
Definition spec_issuer (c : cfg) (cv : cov) (rep : reported) : Prop :=
  r_issuer rep = "" \/ In (r_issuer rep) (covered_issuers c cv).
Definition spec_audience (c : cfg) (cv : cov) (rep : reported) : Prop :=
  forall v, In v (r_audiences rep) -> from_assertion c cv audiences v.
Definition spec_validity (c : cfg) (cv : cov) (rep : reported) : Prop :=
  (forall v, r_not_before rep = Some v -> from_assertion c cv (cond_attr "NotBefore") v)
  /\ (forall v, r_not_on_or_after rep = Some v -> from_assertion c cv (cond_attr "NotOnOrAfter") v).
Definition spec_session (c : cfg) (cv : cov) (rep : reported) : Prop :=
  (forall v, r_session_index rep = Some v -> from_assertion c cv (stmt_attr "SessionIndex") v)
  /\ (forall v, r_session_nooa rep = Some v ->
        from_assertion c cv (stmt_attr "SessionNotOnOrAfter") v
        \/ from_assertion c cv (cond_attr "NotOnOrAfter") v)
  /\ (forall i cr, r_authn rep = Some (i, cr) ->
        (forall v, i = Some v -> from_assertion c cv (stmt_attr "AuthnInstant") v)
        /\ (forall v, cr = Some v -> from_assertion c cv class_refs v)).

Definition spec (c : cfg) (cv : cov) (rep : reported) : Prop :=
  spec_name_id c cv rep /\ spec_ava c cv rep /\ spec_issuer c cv rep /\ spec_audience c cv rep
  /\ spec_validity c cv rep /\ spec_session c cv rep.

(* "... are exactly those of AN element covered by a valid signature": ONE covered element accounts for everything
   that is reported (round 5; before, every field was allowed to come from a covered element of its own, which lets a
   splice of two genuinely signed assertions report a subject with somebody else's attributes and session — a
   combination no signature covers).  A signed Response with several assertions is one element. *)
Definition spec_one (c : cfg) (cv : cov) (rep : reported) : Prop :=
  exists ek, In ek cv /\ spec c [ek] rep.

(* everything except the issuer (the part that holds for the code as it is, see Property.v) *)
Definition spec_but_issuer (c : cfg) (cv : cov) (rep : reported) : Prop :=
  spec_name_id c cv rep /\ spec_ava c cv rep /\ spec_audience c cv rep
  /\ spec_validity c cv rep /\ spec_session c cv rep.

(* ---- boolean version, evaluated on what the implementation reported -------------------- *)
Definition pair_eqb (a b : string * option string) : bool :=
  String.eqb (fst a) (fst b) && opt_eqb String.eqb (snd a) (snd b).
Definition pair2_eqb (a b : string * string) : bool :=
  String.eqb (fst a) (fst b) && String.eqb (snd a) (snd b).

Definition from_assertion_b {A} (eqb : A -> A -> bool) (c : cfg) (cv : cov) (f : tree -> list A) (v : A) : bool :=
  existsb (fun a => existsb (eqb v) (f a)) (covered_assertions c cv).

Definition opt_all {A} (o : option A) (p : A -> bool) : bool := match o with Some x => p x | None => true end.

Definition spec_name_id_b c cv rep := opt_all (r_name_id rep) (from_assertion_b pair_eqb c cv name_ids).
Definition spec_ava_b c cv rep :=
  forallb (fun kv => forallb (fun v => from_assertion_b pair2_eqb c cv (attr_values c) (fst kv, v)) (snd kv)) (r_ava rep).
Definition spec_issuer_b c cv rep := is_empty (r_issuer rep) || mem (r_issuer rep) (covered_issuers c cv).
Definition spec_audience_b c cv rep := forallb (from_assertion_b String.eqb c cv audiences) (r_audiences rep).
Definition spec_validity_b c cv rep :=
  opt_all (r_not_before rep) (from_assertion_b String.eqb c cv (cond_attr "NotBefore"))
  && opt_all (r_not_on_or_after rep) (from_assertion_b String.eqb c cv (cond_attr "NotOnOrAfter")).
Definition spec_session_b c cv rep :=
  opt_all (r_session_index rep) (from_assertion_b String.eqb c cv (stmt_attr "SessionIndex"))
  && opt_all (r_session_nooa rep) (fun v => from_assertion_b String.eqb c cv (stmt_attr "SessionNotOnOrAfter") v
                                           || from_assertion_b String.eqb c cv (cond_attr "NotOnOrAfter") v)
  && opt_all (r_authn rep) (fun ic => opt_all (fst ic) (from_assertion_b String.eqb c cv (stmt_attr "AuthnInstant"))
                                      && opt_all (snd ic) (from_assertion_b String.eqb c cv class_refs)).

Definition spec_but_issuer_b c cv rep :=
  spec_name_id_b c cv rep && spec_ava_b c cv rep && spec_audience_b c cv rep
  && spec_validity_b c cv rep && spec_session_b c cv rep.
Definition spec_b c cv rep := spec_but_issuer_b c cv rep && spec_issuer_b c cv rep.
Definition spec_one_b c (cv : cov) rep := existsb (fun ek => spec_b c [ek] rep) cv.

(* ---- from a digest record to the covered element ------------------------------------------ *)
(* the element at `target` of the document, with the verified signature (if it lies inside) removed *)
Definition covered_tree (doc : tree) (target sigp : path) : option tree :=
  match sub doc target with
  | None => None
  | Some t => match strip_prefix target sigp with
              | Some (i :: r) => Some (remove_at t (i :: r))
              | _ => Some t
              end
  end.

Definition cov_of (doc : tree) (ddoc : option tree) (ds : list dig) : cov :=
  flat_map (fun d : dig => match d with
                     | (which, target, sigp, k) =>
                         match (if which then ddoc else Some doc) with
                         | Some dc => match covered_tree dc target sigp with
                                      | Some t => [(t, k)]
                                      | None => []
                                      end
                         | None => []
                         end
                     end) ds.
