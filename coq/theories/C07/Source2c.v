(* C07/Source2c.v — tie to the source TEXT of the configuration loader (translator v2).
   coq/gen/C07Src2c.v holds the statements of Config.load_special through which the value of an option passes
   between the configuration dict and Config.setattr, re-translated from /repo's current source on every run
   (cut out by harness/c07.py:load_special_slice; fail-closed when the statements around the cut change shape).
   Proved here, for EVERY value the configuration can hold for the option (None, a Boolean, a number, any text):
   the translated statements compute Model.load_special_val, and the truth value Python gives the result is
   Model.py_true — so what _parse_request makes of the option is Model.stored. *)
From Coq Require Import String Ascii List Bool ZArith.
From Verif Require Import Base.Str Base.Py Base.Py2 C07.Model C07.Source2.
From VerifGen Require Import C07Src2c.
Import ListNotations.
Open Scope string_scope.

(* Source2.enc_cval: a configuration value as a Python value; an absent key never reaches these statements
   (KeyError: pass) *)
Definition written (v : cval) : bool := match v with CAbsent => false | _ => true end.

Lemma src2_load_special_value_is_model v :
  written v = true -> src2_load_special_value (enc_cval v) = enc_cval (load_special_val v).
Proof.
  destruct v as [| |b|z|s]; intros Hp; try discriminate Hp; try reflexivity; try (destruct b; reflexivity).
  cbn [enc_cval load_special_val]. unfold src2_load_special_value. cbn.
  destruct (String.eqb s "true") eqn:Ht; cbn; [reflexivity|].
  destruct (String.eqb s "false") eqn:Hf; cbn; reflexivity.
Qed.

Lemma py_truthy_enc_cval v : py_truthy (enc_cval v) = py_true v.
Proof. destruct v; reflexivity. Qed.

(* Config.getattr(option, "idp") after loading: None when nothing was stored (or None was), else what the
   translated statements made of the written value *)
Definition getattr_py (v : cval) : pyval :=
  match v with CAbsent => PNone | _ => src2_load_special_value (enc_cval v) end.

(* what _parse_request does with it ("if only_valid_cert is None: only_valid_cert = False", then truth values only) *)
Theorem src2_stored_is_model v :
  match stored v with
  | None => getattr_py v = PNone
  | Some t => getattr_py v <> PNone /\ py_truthy (getattr_py v) = t
  end.
Proof.
  destruct v as [| |b|z|s]; try (cbn; auto; fail).
  - unfold getattr_py. rewrite src2_load_special_value_is_model by reflexivity. cbn. split; [discriminate|reflexivity].
  - unfold getattr_py. rewrite src2_load_special_value_is_model by reflexivity. cbn. split; [discriminate|reflexivity].
  - unfold getattr_py. rewrite src2_load_special_value_is_model by reflexivity.
    unfold stored. destruct (load_special_val (CStr s)) eqn:E; cbn [enc_cval].
    + unfold load_special_val in E. destruct (String.eqb s "true"); [discriminate|]. destruct (String.eqb s "false"); discriminate.
    + unfold load_special_val in E. destruct (String.eqb s "true"); [discriminate|]. destruct (String.eqb s "false"); discriminate.
    + split; [discriminate|reflexivity].
    + split; [discriminate|reflexivity].
    + split; [discriminate|reflexivity].
Qed.

(* Config.getattr answers the encoding of what Model.load_special_val says (the W / O of c07_source2_parse_request) *)
Lemma getattr_py_enc v : getattr_py v = enc_cval (load_special_val v).
Proof.
  destruct v as [| |b|z|s]; try reflexivity; unfold getattr_py; rewrite src2_load_special_value_is_model; reflexivity.
Qed.
