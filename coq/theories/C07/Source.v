(* C07/Source.v — the model's version / Destination tests equal Request._verify as the translator
   (harness/py2coq.py) produced it from the CURRENT source text (coq/gen/C07Src.v, regenerated on every
   run): for every message version, Destination and receiver address list.  The result of
   self.issue_instant_ok() is a parameter. *)
From Coq Require Import String List Bool ZArith.
From Verif Require Import Base.Str Base.Py C07.Model.
From VerifGen Require Import C07Src.
Import ListNotations.
Open Scope string_scope.

Definition enc_request (b : body) (addrs : list string) : pyval :=
  PObj [("message", PObj [("version", PStr (version b));
                          ("destination", match destination b with Some d => PStr d | None => PNone end)]);
        ("receiver_addrs", PList (map PStr addrs))].

Lemma in_addrs d addrs :
  existsb (fun x => match py_eq (PStr d) x with PBool true => true | _ => false end) (map PStr addrs) = mem d addrs.
Proof.
  induction addrs as [|a r IH]; cbn [map existsb mem]; [reflexivity|].
  rewrite IH. cbn [py_eq]. destruct (String.eqb d a); reflexivity.
Qed.

Theorem src_request_verify_is_model : forall iok b addrs,
  src_request_verify iok (enc_request b addrs)
  = if negb (String.eqb (version b) "2.0") then PExc "VersionMismatch"
    else if negb (dest_ok addrs b) then PExc "OtherError"
    else iok.
Proof.
  intros iok b addrs. unfold src_request_verify, enc_request, dest_ok.
  cbn [py_attr assoc_py String.eqb Ascii.eqb Bool.eqb py_ne py_eq].
  destruct (String.eqb (version b) "2.0"); cbn [negb py_truthy]; [|reflexivity].
  destruct (destination b) as [d|]; [|reflexivity].
  destruct (is_empty d) eqn:Ed; cbn [negb orb].
  - unfold py_and at 1. cbn [py_truthy]. rewrite Ed. cbn [negb py_truthy]. rewrite Ed. reflexivity.
  - unfold py_and at 1. cbn [py_truthy]. rewrite Ed. cbn [negb].
    destruct addrs as [|a r]; [reflexivity|].
    unfold py_and. cbn [map py_truthy]. unfold py_in, py_not.
    change (PStr a :: map PStr r) with (map PStr (a :: r)).
    rewrite in_addrs. cbn [py_truthy]. destruct (mem d (a :: r)); reflexivity.
Qed.
