(* C07/Corr.v — correspondence on the term-algebra instance of the signature schemes:
   keys and certificates are small numbers (which fixture key pair signed / which certificate the
   metadata publishes), an enveloped signature is the pair (signing key, content that was signed), a
   detached signature is None (not a signature at all) or (signing key, octets that were signed). *)
From Coq Require Import String List Bool ZArith Arith Lia.
From Verif Require Import Base.Str Base.Run C07.Model C07.Spec C07.Proofs.
Import ListNotations.
Open Scope string_scope.

(* ---------- the instance ---------- *)
Definition body_eqb (a b : body) : bool :=
  kind_eqb (b_kind a) (b_kind b) && String.eqb (version a) (version b)
  && opt_eqb String.eqb (destination a) (destination b) && Z.eqb (issued a) (issued b)
  && zone_eqb (izone a) (izone b)
  && opt_eqb String.eqb (issuer a) (issuer b) && Bool.eqb (xsd_ok a) (xsd_ok b)
  && Bool.eqb (inst_ok a) (inst_ok b) && Nat.eqb (rest a) (rest b).

Lemma zone_eqb_eq a b : zone_eqb a b = true <-> a = b.
Proof.
  destruct a as [| |m|], b as [| |n|]; cbn [zone_eqb]; try (split; congruence).
  rewrite Z.eqb_eq. split; congruence.
Qed.

Lemma body_eqb_eq a b : body_eqb a b = true <-> a = b.
Proof.
  unfold body_eqb. rewrite !andb_true_iff, kind_eqb_eq, String.eqb_eq, !opt_str_eqb_eq, Z.eqb_eq, zone_eqb_eq,
    !Bool.eqb_true_iff, Nat.eqb_eq.
  destruct a, b; cbn. split; [intros [[[[[[[[-> ->] ->] ->] ->] ->] ->] ->] ->]; reflexivity|].
  intros E; inversion E; subst; tauto.
Qed.

Definition octets := (nat * option string * string)%type.
Definition octets_eqb (a b : octets) : bool :=
  Nat.eqb (fst (fst a)) (fst (fst b)) && opt_eqb String.eqb (snd (fst a)) (snd (fst b)) && String.eqb (snd a) (snd b).

Lemma octets_eqb_eq a b : octets_eqb a b = true <-> a = b.
Proof.
  destruct a as [[a1 a2] a3], b as [[b1 b2] b3]. unfold octets_eqb. cbn [fst snd].
  rewrite !andb_true_iff, Nat.eqb_eq, opt_str_eqb_eq, String.eqb_eq.
  split; [intros [[-> ->] ->]; reflexivity|intros E; inversion E; auto].
Qed.

Definition iesig := (nat * body)%type.
Definition idsig := option (nat * octets).
Definition icert_of (k : nat) : nat := k.
Definition iesign (k : nat) (b : body) : iesig := (k, b).
Definition idsign (k : nat) (o : octets) : idsig := Some (k, o).
Definition ieverify (c : nat) (b : body) (s : iesig) : bool := Nat.eqb c (fst s) && body_eqb (snd s) b.
Definition idverify (c : nat) (o : octets) (s : idsig) : bool :=
  match s with Some (k, o') => Nat.eqb c k && octets_eqb o' o | None => false end.

Lemma ieverify_spec c b s : ieverify c b s = true <-> exists k, c = icert_of k /\ s = iesign k b.
Proof.
  unfold ieverify, icert_of, iesign. destruct s as [k0 b0]. cbn [fst snd].
  rewrite andb_true_iff, Nat.eqb_eq, body_eqb_eq. split.
  - intros [-> ->]. exists k0. auto.
  - intros [k [-> E]]. inversion E. auto.
Qed.

Lemma idverify_spec c o s : idverify c o s = true <-> exists k, c = icert_of k /\ s = idsign k o.
Proof.
  unfold idverify, icert_of, idsign. destruct s as [[k0 o0]|].
  - rewrite andb_true_iff, Nat.eqb_eq, octets_eqb_eq. split.
    + intros [-> ->]. exists k0. auto.
    + intros [k [-> E]]. inversion E. auto.
  - split; [discriminate|]. intros [k [_ E]]. discriminate.
Qed.

Lemma iesign_inj k k' b : iesign k b = iesign k' b -> k = k'.
Proof. unfold iesign. intros E. inversion E. reflexivity. Qed.

Definition iconfig := config nat.
Definition ienvsig := envsig nat iesig.
Definition iinput := input nat iesig idsig nat.
Definition imodel (x : iinput) : verdict := parse_request ieverify idverify x.

(* ---------- the boolean spec ---------- *)
Fixpoint memn (n : nat) (l : list nat) : bool :=
  match l with [] => false | m :: r => Nat.eqb n m || memn n r end.

Lemma memn_In n l : memn n l = true <-> In n l.
Proof.
  induction l as [|m r IH]; cbn [memn In]; [split; [discriminate|contradiction]|].
  rewrite orb_true_iff, Nat.eqb_eq, IH. split; intros [H|H]; auto.
Qed.

Definition is_nil {A} (l : list A) : bool := match l with [] => true | _ => false end.

Definition requires_b (c : iconfig) : bool := truthy (want_signed c) || truthy (only_valid_cert c).

Definition trusted_b (c : iconfig) (b : body) (e : ienvsig) (ct : nat) : bool :=
  memn ct (md_certs c (sender b))
  || (negb (only_md c) && is_nil (md_certs c (sender b)) && memn ct (e_embedded e)).

Definition enveloped_valid_b (x : iinput) (e : ienvsig) : bool :=
  body_eqb (snd (e_sig e)) (msg x) && trusted_b (cfg x) (msg x) e (fst (e_sig e)).

Definition detached_valid_b (x : iinput) : bool :=
  match sigalg x, signature x with
  | Some sa, Some (Some (k, o)) =>
      octets_eqb o (origdoc x, relay_state x, sa) && memn k (md_certs (cfg x) (sender (msg x))) && mem sa SIG_ALGS
  | _, _ => false
  end.

Definition roles (etyp : string) : list string :=
  etyp :: (if String.eqb etyp "idp" then ["aa"; "aq"; "pdp"] else []).

Definition binding_covered (b : option string) (bd : string) : bool :=
  match b with None => true | Some b' => String.eqb b' bd end.

Definition covers_b (b : option string) (d : string) (e : epspec) : bool :=
  match e with
  | EP u bd => String.eqb u d && binding_covered b bd
  | Bare u => String.eqb u d
  end.

Definition covers_any_b (b : option string) (e : epspec) : bool :=
  match e with EP _ bd => binding_covered b bd | Bare _ => true end.

Definition own_endpoint_b (c : iconfig) (svc : string) (b : option string) (d : string) : bool :=
  existsb (fun ctx => existsb (covers_b b d) (eps c ctx svc)) (roles (etype c)).

Definition any_own_b (c : iconfig) (svc : string) (b : option string) : bool :=
  existsb (fun ctx => existsb (covers_any_b b) (eps c ctx svc)) (roles (etype c)).

Definition spec_with_b (requires certonly : bool) (x : iinput) (v : verdict) : bool :=
  negb (verdict_eqb v Accept) ||
  (let c := cfg x in
   let svc := service_of (expected x) in
   (negb requires
    || (if opt_eqb String.eqb (binding x) (Some BINDING_HTTP_REDIRECT) then detached_valid_b x
        else match env x with Some _ => true | None => false end))
   && match env x with
      | Some e => enveloped_valid_b x e || certonly
      | None => true
      end
   && match destination (msg x) with
      | Some d => is_empty d || negb (any_own_b c svc (binding x)) || own_endpoint_b c svc (binding x) d
      | None => true
      end
   && String.eqb (version (msg x)) "2.0"
   && match denoted (msg x) with
      | Some t => ((now x - 86400 - skew c <=? t) && (t <=? now x + 86400 + skew c))%Z
      | None => false
      end).

(* in-memory reading *)
Definition spec_b (x : iinput) (v : verdict) : bool :=
  spec_with_b (requires_b (cfg x)) (truthy (only_valid_cert (cfg x))) x v.

(* as-written reading *)
Definition says_yes_b (v : cval) : bool :=
  match v with
  | CBool b => b
  | CInt z => negb (Z.eqb z 0)
  | CStr s => mem (lower (strip s)) yes_words
  | CAbsent | CNone => false
  end.

Definition says_no_b (v : cval) : bool :=
  match v with
  | CAbsent | CNone => true
  | CBool b => negb b
  | CInt z => Z.eqb z 0
  | CStr s => mem (lower (strip s)) no_words
  end.

Definition spec_src_b (s : source) (x : iinput) (v : verdict) : bool :=
  spec_with_b (says_yes_b (s_ws s) || says_yes_b (s_ovc s)) (negb (says_no_b (s_ovc s))) x v.

(* ---------- cases ---------- *)
Definition verdict_of_nat (n : nat) : option verdict :=
  match n with
  | 0 => Some Accept | 1 => Some RejBinding | 2 => Some RejUnravel | 3 => Some RejSig
  | 4 => Some RejInvalid | 5 => Some RejVersion | 6 => Some RejDest | 7 => Some RejStale
  | _ => None           (* anything else the implementation did *)
  end.

(* a case: the receiver's input as the model configures it from the source, the source (the two options as
   written) with what Config.getattr answered for them on the real receiver after loading, and the verdict *)
Record seen := { src : source; got_ws : cval; got_ovc : cval }.
Definition case := (iinput * seen * option verdict)%type.
Definition c_in (c : case) : iinput := fst (fst c).
Definition c_seen (c : case) : seen := snd (fst c).
Definition c_out (c : case) : option verdict := snd c.

Fixpoint lookup_eps (l : list (string * string * list epspec)) (ctx svc : string) : list epspec :=
  match l with
  | [] => []
  | (c, s, e) :: r => if String.eqb c ctx && String.eqb s svc then e else lookup_eps r ctx svc
  end.

Fixpoint lookup_md (l : list (string * list nat)) (e : string) : list nat :=
  match l with
  | [] => []
  | (e', cs) :: r => if String.eqb e e' then cs else lookup_md r e
  end.

Definition mdtab := list (string * list nat).
Definition mdf (t : mdtab) : option string -> list nat :=
  fun o => match o with Some e => lookup_md t e | None => [] end.

(* mk: receiver configuration (the two options AS WRITTEN: ws, ovc; and as Config.getattr answered them after
   loading: gws, govc - CAbsent stands for the answer None), clock, entry point, binding, transport
   encoding, message fields (IssueInstant: the written date and time read as UTC, and the zone designator written
   after them), enveloped signature (signer, content altered after signing, profile
   constraints met, embedded certificates), RelayState / SigAlg / Signature as handed in — the detached
   signature is None = not a signature, or (signer, other document signed?, RelayState signed, SigAlg
   signed) — and the verdict observed on the implementation *)
Definition mk (etyp : string) (epl : list (string * string * list epspec)) (ws ovc gws govc : cval)
    (td : option Z) (omd : bool) (mdl : list (string * list nat)) (valid : option (list nat))
    (nw : Z) (exp : kind) (bnd : option string) (w : wire)
    (bk : kind) (ver : string) (dst : option string) (iss : Z) (zn : zone) (issr : option string) (xsd inst : bool)
    (envs : option (nat * bool * bool * list nat))
    (rs sa : option string) (sg : option (option (nat * bool * option string * string)))
    (obs : nat) : case :=
  let sc := {| s_ws := ws; s_ovc := ovc |} in
  let c := Build_config etyp (lookup_eps epl) None None td omd
             (mdf mdl)
             (fun ct => match valid with None => true | Some l => memn ct l end) in
  let b := Build_body bk ver dst iss zn issr xsd inst 7 in
  let e := match envs with
           | None => None
           | Some (k, tampered, shape, emb) =>
               Some (Build_envsig (k, if tampered then Build_body bk ver dst iss zn issr xsd inst 8 else b) shape emb)
           end in
  let g := match sg with
           | None => None
           | Some None => Some None
           | Some (Some (k, otherdoc, rs', sa')) => Some (Some (k, ((if otherdoc then 2 else 1), rs', sa')))
           end in
  (load_src sc (Build_input c nw exp bnd w 1 b e rs sa g), {| src := sc; got_ws := gws; got_ovc := govc |},
   verdict_of_nat obs).

Definition cval_eqb (a b : cval) : bool :=
  match a, b with
  | CAbsent, CAbsent | CNone, CNone => true
  | CBool x, CBool y => Bool.eqb x y
  | CInt x, CInt y => Z.eqb x y
  | CStr x, CStr y => String.eqb x y
  | _, _ => false
  end.

(* Config.getattr answers None both for an option that was never stored and for a stored None *)
Definition getattr_of (v : cval) : cval := match load_special_val v with CNone => CAbsent | w => w end.

(* the model agrees: the loader stores what Model.load_special_val says, and the verdict is the model's *)
Definition agrees (c : case) : bool :=
  cval_eqb (getattr_of (s_ws (src (c_seen c)))) (got_ws (c_seen c))
  && cval_eqb (getattr_of (s_ovc (src (c_seen c)))) (got_ovc (c_seen c))
  && match c_out c with Some v => verdict_eqb (imodel (c_in c)) v | None => false end.
(* an outcome outside the enumeration is a rejection: the property holds, the model disagrees.
   The property is evaluated in the as-written reading (which implies the in-memory one wherever the loaded
   options are what the model says; the in-memory reading alone would not see a loader that misreads). *)
Definition holds (c : case) : bool :=
  match c_out c with Some v => spec_src_b (src (c_seen c)) (c_in c) v | None => true end.
(* finding C07-F2 (fixed by 9e47ced6; kept to name a regression): the certificate-only option is a text that says
   no and yet counts as set by its truth value, and nothing but the claim of that opt-in is wrong with the outcome *)
Definition in_f2 (c : case) : bool :=
  let o := s_ovc (src (c_seen c)) in
  says_no_b o && (match stored o with Some true => true | _ => false end)
  && match c_out c with
     | Some v => spec_with_b (says_yes_b (s_ws (src (c_seen c))) || says_yes_b o) true (c_in c) v
     | None => true
     end.
Definition explain1 (c : case) :=
  (imodel (c_in c), c_out c,
   receiver_addrs (cfg (c_in c)) (service_of (expected (c_in c))) (binding (c_in c)),
   (want_signed (cfg (c_in c)), only_valid_cert (cfg (c_in c)), c_seen c),
   holds c).

(* ---------- lives ----------
   A test case is one request on a receiver (One) or the life of a process (Life): the metadata
   each receiver object is built from and the operations in order — requests (as built by mk; the
   metadata argument of mk is ignored: Model.run_life judges each request against the metadata its
   receiver holds at that moment), successful reloads (new metadata table), failed reloads.  The
   observed verdicts are compared with Model.run_life, and the spec is evaluated on each observed
   verdict with the metadata current at that step. *)
Inductive lop :=
  | LReq (r : nat) (c : case)
  | LReload (r : nat) (t : mdtab)
  | LReloadFailed (r : nat).

Inductive tcase := One (c : case) | Life (init : list mdtab) (ops : list lop).

Definition iop := op nat iesig idsig nat.
Definition to_op (o : lop) : iop :=
  match o with
  | LReq r c => Req r (c_in c)
  | LReload r t => Reload r (mdf t)
  | LReloadFailed r => ReloadFailed r
  end.

Fixpoint observed (ops : list lop) : list (seen * option verdict) :=
  match ops with
  | [] => []
  | LReq _ c :: t => (c_seen c, c_out c) :: observed t
  | _ :: t => observed t
  end.

Definition init_state (init : list mdtab) : nat -> option string -> list nat :=
  fun r => mdf (nth r init []).

Definition ilife (init : list mdtab) (ops : list lop) : list (iinput * verdict) :=
  run_life ieverify idverify (init_state init) (map to_op ops).

(* (effective input, observed verdict) of every request of the life *)
Definition life_cases (init : list mdtab) (ops : list lop) : list case :=
  map (fun po => (fst (fst po), fst (snd po), snd (snd po))) (combine (ilife init ops) (observed ops)).

Definition cases_of (t : tcase) : list case :=
  match t with One c => [c] | Life init ops => life_cases init ops end.

Definition tagrees (t : tcase) : bool := forallb agrees (cases_of t).
Definition tholds (t : tcase) : bool := forallb holds (cases_of t).
(* class 2 (finding C07-F2) only when every failing request of the case is inside it *)
Definition cls (t : tcase) : nat :=
  if forallb (fun c => holds c || in_f2 c) (cases_of t) then 2 else 0.
Definition run := run_cases tagrees tholds cls.
Definition explain (t : tcase) := map explain1 (cases_of t).

(* ---------- the boolean spec is the stated spec (on the instance) ---------- *)
Lemma verdict_eqb_eq a b : verdict_eqb a b = true <-> a = b.
Proof. destruct a, b; cbn; split; congruence. Qed.

Lemma requires_b_iff c : requires_b c = true <-> requires_signed c.
Proof.
  unfold requires_b, requires_signed, cert_only. rewrite orb_true_iff, !truthy_iff. tauto.
Qed.

Lemma is_nil_iff {A} (l : list A) : is_nil l = true <-> l = [].
Proof. destruct l; cbn; split; congruence. Qed.

Lemma trusted_b_iff c b e ct : trusted_b c b e ct = true <-> trusted_cert c b e ct.
Proof.
  unfold trusted_b, trusted_cert.
  rewrite orb_true_iff, !andb_true_iff, negb_true_iff, !memn_In, is_nil_iff. tauto.
Qed.

Lemma enveloped_valid_b_iff x e :
  enveloped_valid_b x e = true <-> enveloped_valid icert_of iesign x e.
Proof.
  unfold enveloped_valid_b, enveloped_valid, icert_of, iesign.
  rewrite andb_true_iff, body_eqb_eq, trusted_b_iff. destruct (e_sig e) as [k0 b0]. cbn [fst snd]. split.
  - intros [-> H]. exists k0. auto.
  - intros [k [E H]]. inversion E. subst. auto.
Qed.

Lemma detached_valid_b_iff x : detached_valid_b x = true <-> detached_valid icert_of idsign x.
Proof.
  unfold detached_valid_b, detached_valid, icert_of, idsign. split.
  - destruct (sigalg x) as [sa|]; [|discriminate]. destruct (signature x) as [[[k o]|]|]; try discriminate.
    rewrite !andb_true_iff, octets_eqb_eq, memn_In, mem_In. intros [[-> H] Hal].
    exists k, sa, (Some (k, (origdoc x, relay_state x, sa))). unfold sig_alg. auto.
  - intros (k & sa & sg & -> & -> & -> & H & Hal). rewrite !andb_true_iff, octets_eqb_eq, memn_In, mem_In. auto.
Qed.

Lemma roles_iff etyp ctx : In ctx (roles etyp) <-> role_of etyp ctx.
Proof.
  unfold roles, role_of. cbn [In]. destruct (String.eqb etyp "idp") eqn:E.
  - apply String.eqb_eq in E. cbn [In]. intuition.
  - apply String.eqb_neq in E. cbn [In]. intuition.
Qed.

Lemma binding_covered_iff b bd : binding_covered b bd = true <-> (b = None \/ b = Some bd).
Proof.
  destruct b as [b'|]; cbn.
  - rewrite String.eqb_eq. split; [intros ->; right; reflexivity|intros [H|H]; congruence].
  - split; auto.
Qed.

Lemma covers_b_iff b d e : covers_b b d e = true <-> spec_covers e b d.
Proof.
  destruct e as [u bd|u]; cbn [covers_b spec_covers].
  - rewrite andb_true_iff, String.eqb_eq, binding_covered_iff. tauto.
  - apply String.eqb_eq.
Qed.

Lemma own_endpoint_b_iff c svc b d : own_endpoint_b c svc b d = true <-> own_endpoint c svc b d.
Proof.
  unfold own_endpoint_b, own_endpoint. rewrite existsb_exists. split.
  - intros [ctx [Hr H]]. apply existsb_exists in H as [e [He Hc]].
    exists ctx, e. rewrite <- roles_iff, <- covers_b_iff. auto.
  - intros (ctx & e & Hr & He & Hc). exists ctx. rewrite roles_iff. split; [exact Hr|].
    apply existsb_exists. exists e. rewrite covers_b_iff. auto.
Qed.

Lemma any_own_b_iff c svc b : any_own_b c svc b = true <-> exists d', own_endpoint c svc b d'.
Proof.
  unfold any_own_b, own_endpoint. rewrite existsb_exists. split.
  - intros [ctx [Hr H]]. apply existsb_exists in H as [e [He Hc]].
    destruct e as [u bd|u]; cbn [covers_any_b] in Hc.
    + exists u, ctx, (EP u bd). rewrite <- roles_iff. cbn [spec_covers]. rewrite <- binding_covered_iff. auto.
    + exists u, ctx, (Bare u). rewrite <- roles_iff. cbn. auto.
  - intros (d' & ctx & e & Hr & He & Hc). exists ctx. rewrite roles_iff. split; [exact Hr|].
    apply existsb_exists. exists e. split; [exact He|].
    destruct e as [u bd|u]; cbn [covers_any_b spec_covers] in *; [|reflexivity].
    apply binding_covered_iff. tauto.
Qed.

Lemma spec_with_b_iff (R C : bool) (RP CP : Prop) x v :
  (R = true <-> RP) -> (C = true <-> CP) ->
  spec_with_b R C x v = true <-> spec_with icert_of iesign idsign RP CP x v.
Proof.
  intros HR HC.
  unfold spec_with_b, spec_with. cbv zeta. destruct (verdict_eqb v Accept) eqn:Ev; cbn [negb orb].
  2:{ split; [|reflexivity]. intros _ H. apply verdict_eqb_eq in H. congruence. }
  apply verdict_eqb_eq in Ev. subst v.
  rewrite !andb_true_iff. split.
  - intros [[[[H1 H2] H3] H4] H5] _. split; [|split; [|split; [|split]]].
    + intros Hreq. apply HR in Hreq. rewrite Hreq in H1. cbn [negb orb] in H1. split.
      * intros Hb. rewrite Hb in H1. cbn [opt_eqb] in H1. rewrite String.eqb_refl in H1.
        apply detached_valid_b_iff. exact H1.
      * intros Hb. destruct (opt_eqb String.eqb (binding x) (Some BINDING_HTTP_REDIRECT)) eqn:Eb.
        { apply opt_str_eqb_eq in Eb. contradiction. }
        destruct (env x); [discriminate|discriminate].
    + intros e He. rewrite He in H2. apply orb_true_iff in H2 as [H2|H2].
      * left. apply enveloped_valid_b_iff. exact H2.
      * right. apply HC. exact H2.
    + intros d Hd Hne Hex. rewrite Hd in H3. apply orb_true_iff in H3 as [H3|H3].
      * apply orb_true_iff in H3 as [H3|H3]; [apply is_empty_true in H3; contradiction|].
        apply any_own_b_iff in Hex. rewrite Hex in H3. discriminate.
      * apply own_endpoint_b_iff. exact H3.
    + apply String.eqb_eq. exact H4.
    + destruct (denoted (msg x)) as [t|]; [|discriminate]. exists t. split; [reflexivity|lia].
  - intros H. destruct (H eq_refl) as (H1 & H2 & H3 & H4 & H5). clear H.
    split; [split; [split; [split|]|]|].
    + destruct R eqn:Er; [|reflexivity]. cbn [negb orb].
      assert (Hrp : RP) by (apply HR; reflexivity). destruct (H1 Hrp) as [Ha Hb].
      destruct (opt_eqb String.eqb (binding x) (Some BINDING_HTTP_REDIRECT)) eqn:Eb.
      * apply opt_str_eqb_eq in Eb. apply detached_valid_b_iff. auto.
      * destruct (env x) eqn:Ee; [reflexivity|]. exfalso. apply Hb; [|reflexivity].
        intros Hbb. apply opt_str_eqb_eq in Hbb. congruence.
    + destruct (env x) as [e|] eqn:Ee; [|reflexivity]. apply orb_true_iff.
      destruct (H2 e eq_refl) as [Hv|Hc]; [left; apply enveloped_valid_b_iff; exact Hv|right; apply HC; exact Hc].
    + destruct (destination (msg x)) as [d|] eqn:Ed; [|reflexivity].
      destruct (is_empty d) eqn:Ee; [reflexivity|]. cbn [orb].
      destruct (any_own_b (cfg x) (service_of (expected x)) (binding x)) eqn:Ea; [|reflexivity]. cbn [negb orb].
      apply own_endpoint_b_iff. apply H3; [reflexivity| |apply any_own_b_iff; exact Ea].
      intros ->. discriminate.
    + apply String.eqb_eq. exact H4.
    + destruct H5 as [t [-> Ht]]. lia.
Qed.

Lemma spec_b_iff x v : spec_b x v = true <-> spec icert_of iesign idsign x v.
Proof.
  unfold spec_b, spec. apply spec_with_b_iff; [apply requires_b_iff|].
  unfold cert_only. apply truthy_iff.
Qed.

Lemma says_yes_b_iff v : says_yes_b v = true <-> says_yes v.
Proof.
  destruct v as [| |b|z|s]; cbn [says_yes_b says_yes]; try (split; [discriminate|contradiction]).
  - tauto.
  - rewrite negb_true_iff, Z.eqb_neq. tauto.
  - apply mem_In.
Qed.

Lemma says_no_b_iff v : says_no_b v = true <-> says_no v.
Proof.
  destruct v as [| |b|z|s]; cbn [says_no_b says_no]; try tauto.
  - destruct b; cbn; split; congruence.
  - apply Z.eqb_eq.
  - apply mem_In.
Qed.

Lemma spec_src_b_iff s x v : spec_src_b s x v = true <-> spec_src icert_of iesign idsign s x v.
Proof.
  unfold spec_src_b, spec_src. apply spec_with_b_iff.
  - unfold requires_src. rewrite orb_true_iff, !says_yes_b_iff. tauto.
  - unfold cert_only_src. rewrite negb_true_iff, <- says_no_b_iff. destruct (says_no_b (s_ovc s)); split; congruence.
Qed.

(* the instance satisfies the hypotheses of the general theorems *)
Lemma instance_sound (x : iinput) : spec icert_of iesign idsign x (imodel x).
Proof. apply soundness; [exact ieverify_spec|exact idverify_spec]. Qed.

(* ... for lives too: what the correspondence evaluates per step is the effective input of Model.run_life *)
Lemma instance_life_sound init ops :
  Forall (fun p => spec icert_of iesign idsign (fst p) (snd p)) (ilife init ops).
Proof. apply life_sound; [exact ieverify_spec|exact idverify_spec]. Qed.

Lemma observed_length init ops : length (observed ops) = length (ilife init ops).
Proof.
  unfold ilife. generalize (init_state init). induction ops as [|o t IH]; intros st; [reflexivity|].
  destruct o as [r c|r m|r]; cbn [observed map to_op run_life length]; [f_equal|..]; apply IH.
Qed.

(* a life on which model and implementation agree step by step and whose observed verdicts all pass
   spec_b: every observed verdict satisfies the stated spec on the effective input of its step *)
Lemma tholds_sound t :
  tholds t = true ->
  Forall (fun c => match c_out c with
                   | Some v => spec_src icert_of iesign idsign (src (c_seen c)) (c_in c) v
                   | None => True
                   end) (cases_of t).
Proof.
  unfold tholds. intros H0. pose proof (proj1 (forallb_forall _ _) H0) as H. apply Forall_forall. intros c Hc. specialize (H c Hc). revert H.
  unfold holds. destruct (c_out c) as [v|]; [intros H; apply spec_src_b_iff; exact H|intros _; exact I].
Qed.

(* ---------- the configuration as written, on the instance ---------- *)
Lemma instance_sound_src (s : source) (x : iinput) :
  spec_src icert_of iesign idsign s (load_src s x) (imodel (load_src s x)).
Proof. apply soundness_src; [exact ieverify_spec|exact idverify_spec]. Qed.

(* non-vacuity: a request that IS processed under a signing requirement, over POST (enveloped) and
   over Redirect (detached) *)
Definition ex_cfg : iconfig :=
  Build_config "idp"
    (lookup_eps [("idp", "single_sign_on_service",
                  [EP "https://idp.example.org/sso/post" BINDING_HTTP_POST;
                   EP "https://idp.example.org/sso/redirect" BINDING_HTTP_REDIRECT])])
    (Some true) None None true
    (fun o => match o with Some e => lookup_md [("https://sp.example.org/sp.xml", [1])] e | None => [] end)
    (fun _ => true).
Definition ex_body (d : string) : body :=
  Build_body AuthnRequest "2.0" (Some d) 1700000000 ZUtc (Some "https://sp.example.org/sp.xml") true true 7.
Definition ex_post : iinput :=
  let b := ex_body "https://idp.example.org/sso/post" in
  Build_input ex_cfg 1700000000 AuthnRequest (Some BINDING_HTTP_POST) WBase64 1 b
    (Some (Build_envsig (1, b) true [])) None None None.
Definition ex_redirect : iinput :=
  let b := ex_body "https://idp.example.org/sso/redirect" in
  let sa := "http://www.w3.org/2001/04/xmldsig-more#rsa-sha256" in
  Build_input ex_cfg 1700000000 AuthnRequest (Some BINDING_HTTP_REDIRECT) WDeflate 1 b
    None (Some "rs") (Some sa) (Some (Some (1, (1, Some "rs", sa)))).

Example accepted_post : requires_signed (cfg ex_post) /\ imodel ex_post = Accept.
Proof. split; [left; reflexivity|vm_compute; reflexivity]. Qed.
Example accepted_redirect : requires_signed (cfg ex_redirect) /\ imodel ex_redirect = Accept.
Proof. split; [left; reflexivity|vm_compute; reflexivity]. Qed.
(* ... and the same requests without their signature are not *)
Example unsigned_post_rejected :
  imodel (Build_input ex_cfg 1700000000 AuthnRequest (Some BINDING_HTTP_POST) WBase64 1
            (ex_body "https://idp.example.org/sso/post") None None None None) = RejSig.
Proof. vm_compute. reflexivity. Qed.

(* ---------- the requirement as written ---------- *)
(* spelled 'True' (a text, not the Boolean, not the exact text "true"): still a requirement *)
Definition src_True : source := {| s_ws := CStr "True"; s_ovc := CAbsent |}.
Example spelled_True_unsigned_rejected :
  requires_src src_True
  /\ imodel (load_src src_True (Build_input ex_cfg 1700000000 AuthnRequest (Some BINDING_HTTP_POST) WBase64 1
               (ex_body "https://idp.example.org/sso/post") None None None None)) = RejSig
  /\ imodel (load_src src_True ex_post) = Accept.
Proof. split; [left; vm_compute; auto|split; vm_compute; reflexivity]. Qed.

(* finding C07-F2 (fixed by 9e47ced6): want_authn_requests_only_with_valid_cert written as the text "False" is a
   non-empty string and, read by its truth value (load_src_v0), counted as set: a request whose enveloped
   signature does not verify (the content was altered after signing) was processed although the operator said
   no to certificate-only validation *)
Definition src_ovc_False : source := {| s_ws := CAbsent; s_ovc := CStr "False" |}.
Definition ex_tampered : iinput :=
  let b := ex_body "https://idp.example.org/sso/post" in
  let signed := Build_body AuthnRequest "2.0" (Some "https://idp.example.org/sso/post") 1700000000 ZUtc
                  (Some "https://sp.example.org/sp.xml") true true 8 in
  Build_input ex_cfg 1700000000 AuthnRequest (Some BINDING_HTTP_POST) WBase64 1 b
    (Some (Build_envsig (1, signed) true [])) None None None.

Lemma src_v0_refuted :
  exists (s : source) (x : iinput),
    ~ spec_src icert_of iesign idsign s (load_src_v0 s x) (imodel (load_src_v0 s x)).
Proof.
  exists src_ovc_False, ex_tampered. intros H. apply spec_src_b_iff in H. vm_compute in H. discriminate.
Qed.

(* ... the witness is inside the class the v0 guard excludes, and the code as it is now rejects it *)
Example src_ovc_False_misread : misread_no (s_ovc src_ovc_False).
Proof. exists "False". repeat split; try discriminate. vm_compute. auto. Qed.
Example src_ovc_False_now_rejected : imodel (load_src src_ovc_False ex_tampered) = RejSig.
Proof. vm_compute. reflexivity. Qed.

(* ---------- SigAlg as received; IssueInstant as written ---------- *)
(* a Redirect request under a signing requirement whose SigAlg parameter names no signature algorithm: rejected, whether
   the Signature is a value nobody's key made or one the sender's key made over exactly these parameters; and a verdict
   Accept would fail the property in both cases (so an implementation that "has nothing to complain about" because it
   could not verify shows as a failing input, not only as a disagreement with the model) *)
Definition ex_redirect_alg (sa : string) (g : idsig) : iinput :=
  Build_input ex_cfg 1700000000 AuthnRequest (Some BINDING_HTTP_REDIRECT) WDeflate 1
    (ex_body "https://idp.example.org/sso/redirect") None (Some "rs") (Some sa) (Some g).
Definition ecdsa := "http://www.w3.org/2001/04/xmldsig-more#ecdsa-sha256".

Lemma unverifiable_alg_witness :
  imodel (ex_redirect_alg "" None) = RejSig
  /\ imodel (ex_redirect_alg ecdsa (Some (1, (1, Some "rs", ecdsa)))) = RejSig
  /\ ~ spec icert_of iesign idsign (ex_redirect_alg "" None) Accept
  /\ ~ spec icert_of iesign idsign (ex_redirect_alg ecdsa (Some (1, (1, Some "rs", ecdsa)))) Accept.
Proof.
  split; [vm_compute; reflexivity|]. split; [vm_compute; reflexivity|].
  split; intros H; apply spec_b_iff in H; vm_compute in H; discriminate.
Qed.

(* a request issued 36 hours ago.  Written in UTC it is stale.  Written as the local time of the zone +14:00 its date
   and time fields lie 22 hours back, inside the window: the code refuses the spelling (NotValid), and a verdict Accept
   would fail the property, because the instant the text denotes is what counts.  The same fields with 'Z' denote an
   instant 22 hours ago: processed. *)
Definition ex_instant (written : Z) (z : zone) : iinput :=
  Build_input ex_cfg 1700000000 AuthnRequest (Some BINDING_HTTP_POST) WBase64 1
    (Build_body AuthnRequest "2.0" (Some "https://idp.example.org/sso/post") written z
       (Some "https://sp.example.org/sp.xml") true true 7)
    (Some (Build_envsig (1, Build_body AuthnRequest "2.0" (Some "https://idp.example.org/sso/post") written z
                               (Some "https://sp.example.org/sp.xml") true true 7) true [])) None None None.

Lemma instant_spelling_witness :
  imodel (ex_instant (1700000000 - 129600) ZUtc) = RejStale
  /\ imodel (ex_instant (1700000000 - 79200) (ZOff 840)) = RejInvalid
  /\ denoted (msg (ex_instant (1700000000 - 79200) (ZOff 840))) = Some (1700000000 - 129600)%Z
  /\ ~ spec icert_of iesign idsign (ex_instant (1700000000 - 79200) (ZOff 840)) Accept
  /\ imodel (ex_instant (1700000000 - 79200) ZUtc) = Accept
  /\ spec icert_of iesign idsign (ex_instant (1700000000 - 79200) ZUtc) Accept.
Proof.
  split; [vm_compute; reflexivity|]. split; [vm_compute; reflexivity|]. split; [vm_compute; reflexivity|].
  split; [intros H; apply spec_b_iff in H; vm_compute in H; discriminate|].
  split; [vm_compute; reflexivity|]. apply spec_b_iff. vm_compute. reflexivity.
Qed.
