(* C07/Model.v — what a receiver does with an incoming request, as coded NOW in /repo.
   Mirrors, line by line:
     Entity._parse_request        entity.py 980-1052  (receiver addresses incl. the aa/aq/pdp fall-back of
                                   an "idp", accepted_time_diff, must / only_valid_cert from the *idp*
                                   section of the configuration for every request class, verify() honoured)
     Entity.unravel               entity.py 424-462   (which transport encodings each binding decodes)
     Server.parse_* / Entity.parse_logout_request / parse_manage_name_id_request  (only the AuthnRequest
                                   and LogoutRequest entry points hand RelayState/SigAlg/Signature down)
     Request._loads               request.py 41-107   (sign_redirect / sign_post split, enveloped check always,
                                   detached check only under sign_redirect, every failure => IncorrectlySigned,
                                   then valid_instance)
     Request._do_redirect_sig_check  request.py 109-115 (any metadata signing cert of the sender verifies)
     Request._verify / issue_instant_ok  request.py 117-136
     SecurityContext.correctly_signed_message / _check_signature  sigver.py 1365-1577
     Config.endpoint              config.py 395-425
   Cryptography is ideal and enters as Section variables (verification oracles). *)
From Coq Require Import String List Bool ZArith.
From Verif Require Import Base.Str.
Import ListNotations.
Open Scope string_scope.

Definition BINDING_HTTP_REDIRECT := "urn:oasis:names:tc:SAML:2.0:bindings:HTTP-Redirect".
Definition BINDING_HTTP_POST := "urn:oasis:names:tc:SAML:2.0:bindings:HTTP-POST".
Definition BINDING_SOAP := "urn:oasis:names:tc:SAML:2.0:bindings:SOAP".
Definition BINDING_URI := "urn:oasis:names:tc:SAML:2.0:bindings:URI".
Definition BINDING_HTTP_ARTIFACT := "urn:oasis:names:tc:SAML:2.0:bindings:HTTP-Artifact".

(* sigver.SIGNER_ALGS keys (the table itself is the subject of C15) *)
Definition SIGNER_ALGS : list string :=
  ["http://www.w3.org/2000/09/xmldsig#rsa-sha1";
   "http://www.w3.org/2001/04/xmldsig-more#rsa-sha224";
   "http://www.w3.org/2001/04/xmldsig-more#rsa-sha256";
   "http://www.w3.org/2001/04/xmldsig-more#rsa-sha384";
   "http://www.w3.org/2001/04/xmldsig-more#rsa-sha512"].

(* request classes (request.SERVICE2REQUEST) *)
Inductive kind :=
  | AuthnRequest | LogoutRequest | AttributeQuery | AuthzDecisionQuery
  | AssertionIDRequest | AuthnQuery | ManageNameIDRequest | NameIDMappingRequest.

Definition kind_eqb (a b : kind) : bool :=
  match a, b with
  | AuthnRequest, AuthnRequest | LogoutRequest, LogoutRequest | AttributeQuery, AttributeQuery
  | AuthzDecisionQuery, AuthzDecisionQuery | AssertionIDRequest, AssertionIDRequest
  | AuthnQuery, AuthnQuery | ManageNameIDRequest, ManageNameIDRequest
  | NameIDMappingRequest, NameIDMappingRequest => true
  | _, _ => false
  end.

(* the service name each entry point passes to _parse_request *)
Definition service_of (k : kind) : string :=
  match k with
  | AuthnRequest => "single_sign_on_service"
  | LogoutRequest => "single_logout_service"
  | AttributeQuery => "attribute_service"
  | AuthzDecisionQuery => "authz_service"
  | AssertionIDRequest => "assertion_id_request_service"
  | AuthnQuery => "authn_query_service"
  | ManageNameIDRequest => "manage_name_id_service"
  | NameIDMappingRequest => "name_id_mapping_service"
  end.

(* parse_authn_request and parse_logout_request forward relay_state / sigalg / signature;
   the query entry points call _parse_request without them (=> None, None, None) *)
Definition passes_detached (k : kind) : bool :=
  match k with AuthnRequest | LogoutRequest => true | _ => false end.

(* Entity.unravel looks up soap.parse_soap_enveloped_saml_<msgtype>; soap.py has no such function for
   authz_decision_query: the AttributeError becomes UnravelError, whatever the envelope holds *)
Definition has_soap_parser (k : kind) : bool :=
  match k with AuthzDecisionQuery => false | _ => true end.

(* ---- Config.endpoint ---- *)
Inductive epspec := EP (url bind : string) | Bare (url : string).

(* binding = None selects every (url, binding) pair *)
Definition endpoint (specs : list epspec) (binding : option string) : list string :=
  let spec := flat_map (fun e => match e with
                                 | EP u b => match binding with
                                             | None => [u]
                                             | Some b' => if String.eqb b b' then [u] else []
                                             end
                                 | Bare _ => []
                                 end) specs in
  let unspec := flat_map (fun e => match e with Bare u => [u] | EP _ _ => [] end) specs in
  match spec with [] => unspec | _ => spec end.

(* ---- the message as parsed ---- *)
(* how the time zone of @IssueInstant was written (xs:dateTime: 'Z', nothing, or a numeric offset) *)
Inductive zone :=
  | ZUtc                    (* 'Z' *)
  | ZNone                   (* no designator (SAML core 1.3.3: time values are in UTC) *)
  | ZOff (minutes : Z)      (* '+hh:mm' / '-hh:mm' with mm <= 59, as signed minutes east of UTC (any hh) *)
  | ZBad.                   (* anything else after the seconds / fraction, or no date-time at all *)

Definition zone_eqb (a b : zone) : bool :=
  match a, b with
  | ZUtc, ZUtc | ZNone, ZNone | ZBad, ZBad => true
  | ZOff m, ZOff n => Z.eqb m n
  | _, _ => false
  end.

(* time_util.str_to_time reads a date-time through strptime("%Y-%m-%dT%H:%M:%SZ") or, failing that, through the pattern
   TIME_FORMAT_WITH_FRAGMENT = date-time, optional fraction, optional 'Z', end of text - and takes the fields for UTC.
   Anything else after the seconds (a numeric offset, legal or not) matches neither: valid_date_time raises NotValid. *)
Definition zone_read (z : zone) : bool := match z with ZUtc | ZNone => true | _ => false end.

Record body := {
  b_kind : kind;                 (* the element that was actually sent *)
  version : string;              (* @Version ("" = attribute absent or empty) *)
  destination : option string;   (* @Destination *)
  issued : Z;                    (* @IssueInstant: the date and time fields AS WRITTEN, read as UTC, in seconds
                                    (what str_to_time makes of them; the fraction is dropped) *)
  izone : zone;                  (* ... and the zone designator written after them *)
  issuer : option string;        (* Issuer text; None = no Issuer element / no text *)
  xsd_ok : bool;                 (* validate_doc_with_schema(str(item)) passes *)
  inst_ok : bool;                (* valid_instance passes for everything except @Version presence and the zone of
                                    @IssueInstant *)
  rest : nat                     (* all remaining content (what a signature also covers) *)
}.

Definition issuer_id (b : body) : option string := option_map strip (issuer b).

(* how the text handed to the entry point was encoded *)
Inductive wire := WDeflate | WBase64 | WSoap | WXml | WNotB64.

Inductive unraveled := UBadBinding | UFail | UText | UMsg.

Definition known_binding (b : option string) : bool :=
  match b with
  | None => true
  | Some s => mem s [BINDING_HTTP_REDIRECT; BINDING_HTTP_POST; BINDING_SOAP; BINDING_URI; BINDING_HTTP_ARTIFACT]
  end.

(* Entity.unravel followed by "is the text an element of the expected class".
   UText = text came through but is not such an element (the parser inside
   correctly_signed_message raises or returns None).
   For (POST | Artifact) x (WXml | WSoap) the real outcome depends on the bytes (UnravelError or a
   parse failure later); both reject; the model answers UFail and the correspondence does not
   generate those combinations.
   kind_ok, for SOAP: the body element is of the expected class AND soap.py has a parser for it. *)
Definition unravel (binding : option string) (w : wire) (kind_ok : bool) : unraveled :=
  if negb (known_binding binding) then UBadBinding else
  match binding with
  | None => match w with WXml => UMsg | _ => UText end
  | Some b =>
    if String.eqb b BINDING_HTTP_REDIRECT then match w with WDeflate => UMsg | _ => UFail end
    else if String.eqb b BINDING_HTTP_POST then
      match w with WDeflate | WBase64 => UMsg | _ => UFail end
    else if String.eqb b BINDING_SOAP then
      match w with WSoap => if kind_ok then UMsg else UFail | _ => UFail end
    else if String.eqb b BINDING_HTTP_ARTIFACT then
      match w with WBase64 => UMsg | WDeflate => UText | _ => UFail end
    else (* URI *) match w with WXml => UMsg | _ => UText end
  end.

Inductive verdict :=
  | Accept          (* a Request object is returned *)
  | RejBinding      (* UnknownBinding *)
  | RejUnravel      (* UnravelError *)
  | RejSig          (* IncorrectlySigned *)
  | RejInvalid      (* NotValid (valid_instance) *)
  | RejVersion      (* VersionMismatch *)
  | RejDest         (* OtherError "Not destined for me!" *)
  | RejStale.       (* None: IssueInstant outside the window *)

Definition verdict_eqb (a b : verdict) : bool :=
  match a, b with
  | Accept, Accept | RejBinding, RejBinding | RejUnravel, RejUnravel | RejSig, RejSig
  | RejInvalid, RejInvalid | RejVersion, RejVersion | RejDest, RejDest | RejStale, RejStale => true
  | _, _ => false
  end.

(* ---- the configuration as the operator WROTE it ----
   The two options of the idp section that _parse_request reads (want_authn_requests_signed,
   want_authn_requests_only_with_valid_cert) are whatever Python value the configuration source holds.
   Config.load_special (config.py): the texts "true" / "false" (exactly these) become True / False,
   every other value is stored as it is; Config.getattr answers None for an option that was never
   stored.  _parse_request then uses the stored value through its TRUTH value only ("if
   only_valid_cert:", "must and binding == ...", "if must:" in correctly_signed_message; None counts as
   not set): a non-empty text counts as set whatever it says, a number counts as set unless it is 0.
   The way the configuration object was made (load_special on a live Config, IdPConfig / SPConfig /
   Config .load of the whole dict, config_factory) plays no part: no such input. *)
Inductive cval :=
  | CAbsent                 (* the key is not in the section *)
  | CNone                   (* None *)
  | CBool (b : bool)
  | CInt (z : Z)
  | CStr (s : string).

Definition load_special_val (v : cval) : cval :=
  match v with
  | CStr s => if String.eqb s "true" then CBool true else if String.eqb s "false" then CBool false else v
  | _ => v
  end.

(* bool(value) *)
Definition py_true (v : cval) : bool :=
  match v with
  | CAbsent | CNone => false
  | CBool b => b
  | CInt z => negb (Z.eqb z 0)
  | CStr s => negb (is_empty s)
  end.

(* what _parse_request makes of Config.getattr("want_authn_requests_signed", "idp"): None, or the truth value of
   what is stored (a non-empty text counts as set whatever it says: fail-closed) *)
Definition stored (v : cval) : option bool :=
  match load_special_val v with
  | CAbsent | CNone => None
  | w => Some (py_true w)
  end.

(* ... and of Config.getattr("want_authn_requests_only_with_valid_cert", "idp"), since 9e47ced6: a text is read by
   what it says - stripped and lower-cased it must be one of the words below to opt in, any other text is False -;
   anything that is no text counts by its truth value as before *)
Definition OVC_YES : list string := ["true"; "yes"; "on"; "1"].

Definition stored_ovc (v : cval) : option bool :=
  match load_special_val v with
  | CAbsent | CNone => None
  | CStr s => Some (mem (lower (strip s)) OVC_YES)
  | w => Some (py_true w)
  end.

(* before 9e47ced6 (finding C07-F2): the truth value of the text *)
Definition stored_ovc_v0 : cval -> option bool := stored.

(* the two options as written *)
Record source := { s_ws : cval; s_ovc : cval }.

Section Model.
  Variables cert esig dsig doc : Type.
  (* xmlsec1 restricted to one certificate: does the enveloped signature verify for this content *)
  Variable everify : cert -> body -> esig -> bool.
  (* verify_redirect_signature for one certificate over (SAMLRequest, RelayState, SigAlg) *)
  Variable dverify : cert -> (doc * option string * string) -> dsig -> bool.

  Record config := {
    etype : string;                                   (* Entity.entity_type: "idp" | "sp" *)
    eps : string -> string -> list epspec;            (* context -> service -> endpoint specs *)
    want_signed : option bool;                        (* service/idp/want_authn_requests_signed *)
    only_valid_cert : option bool;                    (* service/idp/want_authn_requests_only_with_valid_cert *)
    time_diff : option Z;                             (* accepted_time_diff *)
    only_md : bool;                                   (* only_use_keys_in_metadata *)
    md_certs : option string -> list cert;            (* metadata.certs(issuer, "any", "signing"); [] if unknown *)
    cert_valid : cert -> bool                         (* CertHandler.verify_cert (true when validate_certificate is off) *)
  }.

  Record envsig := {
    e_sig : esig;
    e_shape_ok : bool;            (* the nine xmldsig-profile validators of _check_signature *)
    e_embedded : list cert        (* X509 certificates in its KeyInfo *)
  }.

  Record input := {
    cfg : config;
    now : Z;
    expected : kind;              (* which entry point was called *)
    binding : option string;
    enc : wire;
    origdoc : doc;                (* the text handed in (the SAMLRequest parameter) *)
    msg : body;
    env : option envsig;          (* ds:Signature child of the request *)
    relay_state : option string;
    sigalg : option string;
    signature : option dsig
  }.

  (* receiver addresses *)
  Fixpoint first_nonempty (l : list (list string)) : list string :=
    match l with
    | [] => []
    | a :: r => match a with [] => first_nonempty r | _ => a end
    end.

  Definition receiver_addrs (c : config) (service : string) (b : option string) : list string :=
    match endpoint (eps c (etype c) service) b with
    | [] => if String.eqb (etype c) "idp"
            then first_nonempty (map (fun typ => endpoint (eps c typ service) b) ["aa"; "aq"; "pdp"])
            else []
    | own => own
    end.

  Definition truthy (o : option bool) : bool := match o with Some true => true | _ => false end.

  (* the verification loop of _check_signature: (verified, last certificate tried) *)
  Fixpoint try_certs (cs : list cert) (b : body) (s : esig) (last : option cert) : bool * option cert :=
    match cs with
    | [] => (false, last)
    | c :: r => if everify c b s then (true, Some c) else try_certs r b s (Some c)
    end.

  Definition candidates (c : config) (b : body) (e : envsig) : list cert :=
    match md_certs c (issuer_id b) with
    | [] => if only_md c then [] else e_embedded e
    | certs => certs
    end.

  (* _check_signature does not raise *)
  Definition check_signature (c : config) (b : body) (e : envsig) (ovc : bool) : bool :=
    match candidates c b e with
    | [] => false                                                 (* MissingKey *)
    | cands =>
        if negb (xsd_ok b) then false                             (* schema validation *)
        else if negb (e_shape_ok e) then false                    (* xmldsig constraints *)
        else let '(verified, last) := try_certs cands b (e_sig e) None in
             if verified || ovc
             then match last with Some lc => cert_valid c lc | None => false end
             else false
    end.

  Definition supported_alg (sa : string) : bool := mem sa SIGNER_ALGS.

  (* _do_redirect_sig_check does not raise and returns a true value *)
  Definition redirect_sig_ok (c : config) (b : body) (od : doc) (rs : option string) (sa : string) (sg : dsig) : bool :=
    match issuer b with
    | None => false                                               (* sender(): AttributeError *)
    | Some _ => supported_alg sa && existsb (fun ct => dverify ct (od, rs, sa) sg) (md_certs c (issuer_id b))
    end.

  Definition slack (c : config) : Z := match time_diff c with Some z => z | None => 0%Z end.

  (* Request.issue_instant_ok: struct_time comparison; the lower bound is attained (tm_isdst 0 > -1) *)
  Definition issue_instant_ok (c : config) (nw : Z) (b : body) : bool :=
    ((nw - 86400 - slack c <=? issued b) && (issued b <? nw + 86400 + slack c))%Z.

  Definition dest_ok (addrs : list string) (b : body) : bool :=
    match destination b with
    | None => true
    | Some d => is_empty d || match addrs with [] => true | _ => mem d addrs end
    end.

  Definition valid_instance (b : body) : bool := negb (is_empty (version b)) && inst_ok b && zone_read (izone b).

  Definition parse_request (x : input) : verdict :=
    let c := cfg x in
    let b := msg x in
    let kind_ok := kind_eqb (b_kind b) (expected x) in
    match unravel (binding x) (enc x) (kind_ok && has_soap_parser (expected x)) with
    | UBadBinding => RejBinding
    | UFail => RejUnravel
    | UText => RejSig
    | UMsg =>
      let ovc := truthy (only_valid_cert c) in
      let must := truthy (want_signed c) || ovc in
      let sign_redirect := must && opt_eqb String.eqb (binding x) (Some BINDING_HTTP_REDIRECT) in
      let sign_post := must && negb sign_redirect in
      let pd := passes_detached (expected x) in
      let sa := if pd then sigalg x else None in
      let sg := if pd then signature x else None in
      let rs := if pd then relay_state x else None in
      if negb kind_ok then RejSig
      else if negb (match env x with
                    | None => negb sign_post
                    | Some e => check_signature c b e ovc
                    end) then RejSig
      else if sign_redirect && negb (match sa, sg with
                                     | Some a, Some g => redirect_sig_ok c b (origdoc x) rs a g
                                     | _, _ => false
                                     end) then RejSig
      else if negb (valid_instance b) then RejInvalid
      else if negb (String.eqb (version b) "2.0") then RejVersion
      else if negb (dest_ok (receiver_addrs c (service_of (expected x)) (binding x)) b) then RejDest
      else if negb (issue_instant_ok c (now x) b) then RejStale
      else Accept
    end.

  (* ---- the life of a process ----
     Several receivers (Server / Saml2Client objects) live in one process, each with the metadata it
     was built from; Entity.reload_metadata / MetadataStore.reload replaces the metadata of ONE of
     them (a failed reload restores the previous one, mdstore.py MetadataStore.reload), requests
     arrive in any order.  Nothing else is remembered between requests: no class-level or
     per-object cache, no trace of earlier requests — a request is judged against the metadata its
     receiver holds at that moment. *)
  Definition mdfun := option string -> list cert.

  Definition with_md (x : input) (m : mdfun) : input :=
    let c := cfg x in
    Build_input
      (Build_config (etype c) (eps c) (want_signed c) (only_valid_cert c) (time_diff c) (only_md c) m (cert_valid c))
      (now x) (expected x) (binding x) (enc x) (origdoc x) (msg x) (env x) (relay_state x) (sigalg x) (signature x).

  (* the receiver as configured from the source s (everything else as in x); f = how the certificate-only option
     is read *)
  Definition load_src_with (f : cval -> option bool) (s : source) (x : input) : input :=
    let c := cfg x in
    Build_input
      (Build_config (etype c) (eps c) (stored (s_ws s)) (f (s_ovc s)) (time_diff c) (only_md c) (md_certs c)
         (cert_valid c))
      (now x) (expected x) (binding x) (enc x) (origdoc x) (msg x) (env x) (relay_state x) (sigalg x) (signature x).

  Definition load_src := load_src_with stored_ovc.          (* the code as it is now *)
  Definition load_src_v0 := load_src_with stored_ovc_v0.    (* before 9e47ced6: finding C07-F2 *)

  Inductive op :=
    | Req (r : nat) (x : input)          (* a request handed to receiver r (md_certs of x's configuration is ignored) *)
    | Reload (r : nat) (m : mdfun)       (* successful metadata reload of receiver r *)
    | ReloadFailed (r : nat).            (* reload that raised: metadata restored *)

  Definition upd (st : nat -> mdfun) (r : nat) (m : mdfun) : nat -> mdfun :=
    fun r' => if Nat.eqb r' r then m else st r'.

  (* metadata of every receiver after the operations *)
  Fixpoint state_after (st : nat -> mdfun) (ops : list op) : nat -> mdfun :=
    match ops with
    | [] => st
    | Reload r m :: t => state_after (upd st r m) t
    | _ :: t => state_after st t
    end.

  (* the requests as they were judged (effective input, verdict), in order *)
  Fixpoint run_life (st : nat -> mdfun) (ops : list op) : list (input * verdict) :=
    match ops with
    | [] => []
    | Req r x :: t => (with_md x (st r), parse_request (with_md x (st r))) :: run_life st t
    | Reload r m :: t => run_life (upd st r m) t
    | ReloadFailed _ :: t => run_life st t
    end.
End Model.

Arguments etype {cert}.
Arguments eps {cert}.
Arguments want_signed {cert}.
Arguments only_valid_cert {cert}.
Arguments time_diff {cert}.
Arguments only_md {cert}.
Arguments md_certs {cert}.
Arguments cert_valid {cert}.
Arguments Build_config {cert}.
Arguments e_sig {cert esig}.
Arguments e_shape_ok {cert esig}.
Arguments e_embedded {cert esig}.
Arguments Build_envsig {cert esig}.
Arguments cfg {cert esig dsig doc}.
Arguments now {cert esig dsig doc}.
Arguments expected {cert esig dsig doc}.
Arguments binding {cert esig dsig doc}.
Arguments enc {cert esig dsig doc}.
Arguments origdoc {cert esig dsig doc}.
Arguments msg {cert esig dsig doc}.
Arguments env {cert esig dsig doc}.
Arguments relay_state {cert esig dsig doc}.
Arguments sigalg {cert esig dsig doc}.
Arguments signature {cert esig dsig doc}.
Arguments Build_input {cert esig dsig doc}.
Arguments receiver_addrs {cert}.
Arguments slack {cert}.
Arguments issue_instant_ok {cert}.
Arguments candidates {cert esig}.
Arguments try_certs {cert esig}.
Arguments check_signature {cert esig}.
Arguments redirect_sig_ok {cert dsig doc}.
Arguments parse_request {cert esig dsig doc}.
Arguments with_md {cert esig dsig doc}.
Arguments load_src_with {cert esig dsig doc}.
Arguments load_src {cert esig dsig doc}.
Arguments load_src_v0 {cert esig dsig doc}.
Arguments Req {cert esig dsig doc}.
Arguments Reload {cert esig dsig doc}.
Arguments ReloadFailed {cert esig dsig doc}.
Arguments upd {cert}.
Arguments state_after {cert esig dsig doc}.
Arguments run_life {cert esig dsig doc}.
