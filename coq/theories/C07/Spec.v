(* C07/Spec.v — "receivers enforce request signatures and addressing", written from the property
   text over the inputs and the observable verdict (processed = a Request object is returned).
   Nothing here refers to the model's decision functions. *)
From Coq Require Import String List Bool ZArith.
From Verif Require Import Base.Str C07.Model.
Import ListNotations.
Open Scope string_scope.

(* how a configuration value reads *)
Definition yes_words : list string := ["true"; "yes"; "on"; "1"].
Definition no_words : list string := ["false"; "no"; "off"; "0"; ""].

Definition says_yes (v : cval) : Prop :=
  match v with
  | CBool b => b = true
  | CInt z => z <> 0%Z
  | CStr s => In (lower (strip s)) yes_words
  | CAbsent | CNone => False
  end.

Definition says_no (v : cval) : Prop :=
  match v with
  | CAbsent | CNone => True
  | CBool b => b = false
  | CInt z => z = 0%Z
  | CStr s => In (lower (strip s)) no_words
  end.

(* the algorithms a detached (Redirect) signature can be made with and verified by the receiver: RSA PKCS#1 v1.5 over
   SHA-1 / SHA-2, named by their xmldsig / RFC 4051 identifiers, exact text (SAML bindings 3.4.4.1: SigAlg is such an
   identifier).  A SigAlg that is anything else - another algorithm family, an unknown or misspelt identifier, the empty
   text - names nothing the receiver can verify: no valid signature can be claimed under it. *)
Definition SIG_ALGS : list string :=
  ["http://www.w3.org/2000/09/xmldsig#rsa-sha1";
   "http://www.w3.org/2001/04/xmldsig-more#rsa-sha224";
   "http://www.w3.org/2001/04/xmldsig-more#rsa-sha256";
   "http://www.w3.org/2001/04/xmldsig-more#rsa-sha384";
   "http://www.w3.org/2001/04/xmldsig-more#rsa-sha512"].
Definition sig_alg (sa : string) : Prop := In sa SIG_ALGS.

(* the instant an IssueInstant text DENOTES (xs:dateTime): the written date and time minus the written offset; 'Z' and no
   designator are UTC (SAML core 1.3.3); an offset beyond +-14:00 and anything that is no zone designator denote nothing *)
Definition denoted (b : body) : option Z :=
  match izone b with
  | ZUtc | ZNone => Some (issued b)
  | ZOff m => if (Z.abs m <=? 840)%Z then Some (issued b - 60 * m)%Z else None
  | ZBad => None
  end.

Section Spec.
  Variables key cert esig dsig doc : Type.
  Variable cert_of : key -> cert.
  Variable esign : key -> body -> esig.                                   (* enveloped XML signature *)
  Variable dsign : key -> (doc * option string * string) -> dsig.         (* detached query-string signature *)

  Notation config := (config cert).
  Notation envsig := (envsig cert esig).
  Notation input := (input cert esig dsig doc).

  (* the entity requires signed requests; certificate-only validation is the separate opt-in *)
  Definition cert_only (c : config) : Prop := only_valid_cert c = Some true.
  Definition requires_signed (c : config) : Prop := want_signed c = Some true \/ cert_only c.

  (* the sender named in the message (entity ids are compared modulo surrounding whitespace) *)
  Definition sender (b : body) : option string := option_map strip (issuer b).

  (* ct is a key the receiver may use for this sender: published in metadata for the sender, or
     — only when only_use_keys_in_metadata is switched off and metadata has no key for the sender
     (property C03) — carried in the signature itself *)
  Definition trusted_cert (c : config) (b : body) (e : envsig) (ct : cert) : Prop :=
    In ct (md_certs c (sender b))
    \/ (only_md c = false /\ md_certs c (sender b) = [] /\ In ct (e_embedded e)).

  (* the enveloped signature was made over exactly the received content with a trusted key *)
  Definition enveloped_valid (x : input) (e : envsig) : Prop :=
    exists k, e_sig e = esign k (msg x) /\ trusted_cert (cfg x) (msg x) e (cert_of k).

  (* SigAlg and Signature were received, SigAlg names a signature algorithm, and the signature was made with a
     metadata key of the sender over SAMLRequest, RelayState (as received, possibly absent) and SigAlg *)
  Definition detached_valid (x : input) : Prop :=
    exists k sa sg,
      sigalg x = Some sa /\ signature x = Some sg
      /\ sg = dsign k (origdoc x, relay_state x, sa)
      /\ In (cert_of k) (md_certs (cfg x) (sender (msg x)))
      /\ sig_alg sa.

  (* endpoints the receiver has configured for a service and binding, in any of its roles
     (an IdP server also plays the aa / aq / pdp roles); a bare URL counts for every binding *)
  Definition role_of (etyp ctx : string) : Prop :=
    ctx = etyp \/ (etyp = "idp" /\ (ctx = "aa" \/ ctx = "aq" \/ ctx = "pdp")).

  Definition spec_covers (e : epspec) (b : option string) (d : string) : Prop :=
    match e with
    | EP u bd => u = d /\ (b = None \/ b = Some bd)
    | Bare u => u = d
    end.

  Definition own_endpoint (c : config) (service : string) (b : option string) (d : string) : Prop :=
    exists ctx e, role_of (etype c) ctx /\ In e (eps c ctx service) /\ spec_covers e b d.

  Definition skew (c : config) : Z := match time_diff c with Some z => z | None => 0%Z end.

  (* the property text, for a given reading of "the entity requires signed requests" (requires) and of
     "certificate-only validation was opted into" (certonly) *)
  Definition spec_with (requires certonly : Prop) (x : input) (v : verdict) : Prop :=
    v = Accept ->
      let c := cfg x in
      let svc := service_of (expected x) in
      (* required signature: detached on Redirect, enveloped elsewhere *)
      (requires ->
         (binding x = Some BINDING_HTTP_REDIRECT -> detached_valid x)
         /\ (binding x <> Some BINDING_HTTP_REDIRECT -> env x <> None))
      (* an enveloped signature that is present verifies, required or not *)
      /\ (forall e, env x = Some e -> enveloped_valid x e \/ certonly)
      (* addressing *)
      /\ (forall d, destination (msg x) = Some d -> d <> "" ->
            (exists d', own_endpoint c svc (binding x) d') -> own_endpoint c svc (binding x) d)
      /\ version (msg x) = "2.0"
      (* the instant IssueInstant denotes - however it is written - is at most a day plus skew off *)
      /\ (exists t, denoted (msg x) = Some t /\ now x - 86400 - skew c <= t <= now x + 86400 + skew c)%Z.

  (* ... read off the receiver object as it is configured in memory *)
  Definition spec (x : input) (v : verdict) : Prop :=
    spec_with (requires_signed (cfg x)) (cert_only (cfg x)) x v.

  (* ... read off the configuration as the operator wrote it: an option is switched on by a value that
     SAYS so - True, a number other than 0, or one of the words true / yes / on / 1 in any
     capitalisation, surrounding blanks ignored (the vocabulary pysaml2 itself reads boolean SP
     options with, client_base.py) - and the certificate-only opt-in cannot be claimed for a value that
     says no: absent, None, False, 0, or one of the words false / no / off / 0 / "" .  A text that says
     neither demands nothing either way. *)
  Definition requires_src (s : source) : Prop := says_yes (s_ws s) \/ says_yes (s_ovc s).
  Definition cert_only_src (s : source) : Prop := ~ says_no (s_ovc s).
  Definition spec_src (s : source) (x : input) (v : verdict) : Prop :=
    spec_with (requires_src s) (cert_only_src s) x v.
End Spec.

Arguments cert_only {cert}.
Arguments requires_signed {cert}.
Arguments trusted_cert {cert esig}.
Arguments enveloped_valid {key cert esig dsig doc}.
Arguments detached_valid {key cert esig dsig doc}.
Arguments own_endpoint {cert}.
Arguments skew {cert}.
Arguments spec_with {key cert esig dsig doc}.
Arguments spec {key cert esig dsig doc}.
Arguments spec_src {key cert esig dsig doc}.
