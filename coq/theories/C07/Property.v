(* C07/Property.v — property theorems only. *)
From Coq Require Import String List Bool ZArith.
From Verif Require Import Base.Str Base.Py Base.Py2 C07.Model C07.Spec C07.Proofs C07.Corr C07.Source C07.Source2 C07.Source2c.
From VerifGen Require Import C07Src C07Src2 C07Src2l C07Src2c.
Import ListNotations.

(* C07: for every receiver configuration (entity type, endpoints in every role, signing requirement,
   certificate-only opt-in, clock skew, metadata, only_use_keys_in_metadata, certificate validation),
   every request class and entry point, every binding and transport encoding, every message, every
   enveloped and detached signature state and every ideal signature scheme: a request is processed
   only if — when signatures are required — it carries the detached signature of a metadata key of
   its sender over SAMLRequest, RelayState and SigAlg (Redirect) or an enveloped signature
   (elsewhere); an enveloped signature that is present was made over the received content with a
   trusted key of the sender (or the certificate-only opt-in is set); a non-empty Destination is one of
   the receiver's own endpoints for that service and binding when it has any; Version is "2.0"; and
   IssueInstant is within a day plus skew of the clock. *)
Theorem c07_receiver_enforces :
  forall (key cert esig dsig doc : Type) (cert_of : key -> cert)
         (esign : key -> body -> esig) (dsign : key -> doc * option string * string -> dsig)
         (everify : cert -> body -> esig -> bool) (dverify : cert -> doc * option string * string -> dsig -> bool),
    (forall c b s, everify c b s = true <-> exists k, c = cert_of k /\ s = esign k b) ->
    (forall c o s, dverify c o s = true <-> exists k, c = cert_of k /\ s = dsign k o) ->
    forall x : input cert esig dsig doc, spec cert_of esign dsign x (parse_request everify dverify x).
Proof. exact soundness. Qed.
Print Assumptions c07_receiver_enforces.

(* a required enveloped signature cannot be omitted (POST, SOAP, Artifact, URI, no binding) *)
Theorem c07_unsigned_rejected :
  forall (key cert esig dsig doc : Type) (cert_of : key -> cert)
         (esign : key -> body -> esig) (dsign : key -> doc * option string * string -> dsig)
         (everify : cert -> body -> esig -> bool) (dverify : cert -> doc * option string * string -> dsig -> bool),
    (forall c b s, everify c b s = true <-> exists k, c = cert_of k /\ s = esign k b) ->
    (forall c o s, dverify c o s = true <-> exists k, c = cert_of k /\ s = dsign k o) ->
    forall x : input cert esig dsig doc,
      requires_signed (cfg x) -> binding x <> Some BINDING_HTTP_REDIRECT -> env x = None ->
      parse_request everify dverify x <> Accept.
Proof. exact unsigned_rejected. Qed.
Print Assumptions c07_unsigned_rejected.

(* ... nor the detached one on Redirect, whatever enveloped signature the request carries *)
Theorem c07_unsigned_redirect_rejected :
  forall (key cert esig dsig doc : Type) (cert_of : key -> cert)
         (esign : key -> body -> esig) (dsign : key -> doc * option string * string -> dsig)
         (everify : cert -> body -> esig -> bool) (dverify : cert -> doc * option string * string -> dsig -> bool),
    (forall c b s, everify c b s = true <-> exists k, c = cert_of k /\ s = esign k b) ->
    (forall c o s, dverify c o s = true <-> exists k, c = cert_of k /\ s = dsign k o) ->
    forall x : input cert esig dsig doc,
      requires_signed (cfg x) -> binding x = Some BINDING_HTTP_REDIRECT ->
      (sigalg x = None \/ signature x = None) -> parse_request everify dverify x <> Accept.
Proof. exact unsigned_redirect_rejected. Qed.
Print Assumptions c07_unsigned_redirect_rejected.

(* the query entry points do not take a detached signature: under a signing requirement no query
   is processed over Redirect *)
Theorem c07_query_redirect_rejected :
  forall (cert esig dsig doc : Type)
         (everify : cert -> body -> esig -> bool) (dverify : cert -> doc * option string * string -> dsig -> bool)
         (x : input cert esig dsig doc),
    requires_signed (cfg x) -> binding x = Some BINDING_HTTP_REDIRECT -> passes_detached (expected x) = false ->
    parse_request everify dverify x <> Accept.
Proof. exact query_redirect_rejected. Qed.
Print Assumptions c07_query_redirect_rejected.

(* an enveloped signature that does not verify under a trusted key is fatal even where signing is optional *)
Theorem c07_bad_enveloped_rejected :
  forall (key cert esig dsig doc : Type) (cert_of : key -> cert)
         (esign : key -> body -> esig) (dsign : key -> doc * option string * string -> dsig)
         (everify : cert -> body -> esig -> bool) (dverify : cert -> doc * option string * string -> dsig -> bool),
    (forall c b s, everify c b s = true <-> exists k, c = cert_of k /\ s = esign k b) ->
    (forall c o s, dverify c o s = true <-> exists k, c = cert_of k /\ s = dsign k o) ->
    forall (x : input cert esig dsig doc) e,
      env x = Some e -> only_valid_cert (cfg x) <> Some true ->
      (forall k, e_sig e = esign k (msg x) -> ~ trusted_cert (cfg x) (msg x) e (cert_of k)) ->
      parse_request everify dverify x <> Accept.
Proof. exact bad_enveloped_rejected. Qed.
Print Assumptions c07_bad_enveloped_rejected.

(* the detached signature names one of the supported algorithms and the message names its sender *)
Theorem c07_detached_alg_supported :
  forall (key cert esig dsig doc : Type) (cert_of : key -> cert)
         (dsign : key -> doc * option string * string -> dsig)
         (everify : cert -> body -> esig -> bool) (dverify : cert -> doc * option string * string -> dsig -> bool),
    (forall c o s, dverify c o s = true <-> exists k, c = cert_of k /\ s = dsign k o) ->
    forall x : input cert esig dsig doc,
      requires_signed (cfg x) -> binding x = Some BINDING_HTTP_REDIRECT -> parse_request everify dverify x = Accept ->
      exists sa, sigalg x = Some sa /\ In sa SIGNER_ALGS /\ issuer (msg x) <> None.
Proof. exact detached_alg_supported. Qed.
Print Assumptions c07_detached_alg_supported.

(* a SigAlg that names no signature algorithm the receiver can verify (another family, an unknown or misspelt
   identifier, the empty text) never passes for a required signature *)
Theorem c07_unverifiable_alg_rejected :
  forall (key cert esig dsig doc : Type) (cert_of : key -> cert)
         (dsign : key -> doc * option string * string -> dsig)
         (everify : cert -> body -> esig -> bool) (dverify : cert -> doc * option string * string -> dsig -> bool),
    (forall c o s, dverify c o s = true <-> exists k, c = cert_of k /\ s = dsign k o) ->
    forall x : input cert esig dsig doc,
      requires_signed (cfg x) -> binding x = Some BINDING_HTTP_REDIRECT ->
      (forall sa, sigalg x = Some sa -> ~ sig_alg sa) -> parse_request everify dverify x <> Accept.
Proof. exact unverifiable_alg_rejected. Qed.
Print Assumptions c07_unverifiable_alg_rejected.

(* an IssueInstant written with a numeric zone offset (legal or not), or with anything else that is no 'Z' after the
   seconds, is never processed *)
Theorem c07_zone_offset_rejected :
  forall (cert esig dsig doc : Type)
         (everify : cert -> body -> esig -> bool) (dverify : cert -> doc * option string * string -> dsig -> bool)
         (x : input cert esig dsig doc),
    zone_read (izone (msg x)) = false -> parse_request everify dverify x <> Accept.
Proof. exact zone_offset_rejected. Qed.
Print Assumptions c07_zone_offset_rejected.

(* what is processed denotes an instant - the written date and time, taken as UTC - at most a day plus skew off *)
Theorem c07_accepted_instant :
  forall (cert esig dsig doc : Type)
         (everify : cert -> body -> esig -> bool) (dverify : cert -> doc * option string * string -> dsig -> bool)
         (x : input cert esig dsig doc),
    parse_request everify dverify x = Accept ->
    denoted (msg x) = Some (issued (msg x))
    /\ (now x - 86400 - skew (cfg x) <= issued (msg x) < now x + 86400 + skew (cfg x))%Z.
Proof. exact accepted_instant. Qed.
Print Assumptions c07_accepted_instant.

(* witnesses on the instance of the correspondence: the two clauses above are not vacuous, and a verdict Accept on such
   inputs FAILS the stated property (an implementation that processes them yields a failing input) *)
Theorem c07_unverifiable_alg_witness :
  imodel (ex_redirect_alg "" None) = RejSig
  /\ imodel (ex_redirect_alg ecdsa (Some (1, (1, Some "rs"%string, ecdsa)))) = RejSig
  /\ ~ spec icert_of iesign idsign (ex_redirect_alg "" None) Accept
  /\ ~ spec icert_of iesign idsign (ex_redirect_alg ecdsa (Some (1, (1, Some "rs"%string, ecdsa)))) Accept.
Proof. exact unverifiable_alg_witness. Qed.
Print Assumptions c07_unverifiable_alg_witness.

Theorem c07_instant_spelling_witness :
  imodel (ex_instant (1700000000 - 129600) ZUtc) = RejStale
  /\ imodel (ex_instant (1700000000 - 79200) (ZOff 840)) = RejInvalid
  /\ denoted (msg (ex_instant (1700000000 - 79200) (ZOff 840))) = Some (1700000000 - 129600)%Z
  /\ ~ spec icert_of iesign idsign (ex_instant (1700000000 - 79200) (ZOff 840)) Accept
  /\ imodel (ex_instant (1700000000 - 79200) ZUtc) = Accept
  /\ spec icert_of iesign idsign (ex_instant (1700000000 - 79200) ZUtc) Accept.
Proof. exact instant_spelling_witness. Qed.
Print Assumptions c07_instant_spelling_witness.

(* what is processed is an element of the class the entry point expects *)
Theorem c07_accepted_kind :
  forall (cert esig dsig doc : Type)
         (everify : cert -> body -> esig -> bool) (dverify : cert -> doc * option string * string -> dsig -> bool)
         (x : input cert esig dsig doc),
    parse_request everify dverify x = Accept -> b_kind (msg x) = expected x.
Proof. exact accepted_kind. Qed.
Print Assumptions c07_accepted_kind.

(* completeness: a well-transported, well-formed request that is addressed to the receiver, current,
   and signed as required with a metadata key of its sender (whose certificate passes the receiver's
   certificate validation) is processed *)
Theorem c07_complete :
  forall (key cert esig dsig doc : Type) (cert_of : key -> cert)
         (esign : key -> body -> esig) (dsign : key -> doc * option string * string -> dsig)
         (everify : cert -> body -> esig -> bool) (dverify : cert -> doc * option string * string -> dsig -> bool),
    (forall c b s, everify c b s = true <-> exists k, c = cert_of k /\ s = esign k b) ->
    (forall c o s, dverify c o s = true <-> exists k, c = cert_of k /\ s = dsign k o) ->
    (forall k k' b, esign k b = esign k' b -> k = k') ->
    forall x : input cert esig dsig doc,
      well_transported x ->
      b_kind (msg x) = expected x ->
      (forall e, env x = Some e -> good_enveloped cert_of esign x e) ->
      (requires_signed (cfg x) -> binding x <> Some BINDING_HTTP_REDIRECT -> env x <> None) ->
      (requires_signed (cfg x) -> binding x = Some BINDING_HTTP_REDIRECT ->
         passes_detached (expected x) = true /\ issuer (msg x) <> None /\
         exists k sa, sigalg x = Some sa /\ In sa SIGNER_ALGS
                      /\ signature x = Some (dsign k (origdoc x, relay_state x, sa))
                      /\ In (cert_of k) (md_certs (cfg x) (issuer_id (msg x)))) ->
      inst_ok (msg x) = true -> zone_read (izone (msg x)) = true -> version (msg x) = "2.0"%string ->
      (forall d, destination (msg x) = Some d ->
         In d (receiver_addrs (cfg x) (service_of (expected x)) (binding x))) ->
      (now x - 86400 - slack (cfg x) <= issued (msg x) < now x + 86400 + slack (cfg x))%Z ->
      parse_request everify dverify x = Accept.
Proof. exact completeness. Qed.
Print Assumptions c07_complete.

(* the receiver's address list is exactly made of its own endpoints, and is non-empty when it has any *)
Theorem c07_receiver_addrs :
  forall (cert : Type) (c : config cert) svc b,
    (forall d, In d (receiver_addrs c svc b) -> own_endpoint c svc b d)
    /\ ((exists d', own_endpoint c svc b d') -> receiver_addrs c svc b <> []).
Proof. exact receiver_addrs_exact. Qed.
Print Assumptions c07_receiver_addrs.

(* the hypotheses of the theorems above are satisfiable: the term-algebra instance used by the
   correspondence meets them, so the property holds of the model that Coq evaluates there *)
Theorem c07_instance : forall x : iinput, spec icert_of iesign idsign x (imodel x).
Proof. exact instance_sound. Qed.
Print Assumptions c07_instance.

(* the boolean spec that Coq evaluates on the implementation's recorded verdict is the stated spec *)
Theorem c07_spec_reflect : forall x v, spec_b x v = true <-> spec icert_of iesign idsign x v.
Proof. exact spec_b_iff. Qed.
Print Assumptions c07_spec_reflect.

(* non-vacuity: under a signing requirement there are requests that are processed *)
Theorem c07_nonvacuous :
  (requires_signed (cfg ex_post) /\ imodel ex_post = Accept)
  /\ (requires_signed (cfg ex_redirect) /\ imodel ex_redirect = Accept).
Proof. exact (conj accepted_post accepted_redirect). Qed.
Print Assumptions c07_nonvacuous.

(* ---------- lives (strengthening round 2) ----------
   the life of a process: several receiver objects, each with the metadata it was built from;
   requests in any order, successful metadata reloads (Entity.reload_metadata / MetadataStore.reload)
   and failed ones in between.  Every request of every life satisfies the property with respect to
   the metadata its receiver holds AT THAT MOMENT. *)
Theorem c07_life_enforces :
  forall (key cert esig dsig doc : Type) (cert_of : key -> cert)
         (esign : key -> body -> esig) (dsign : key -> doc * option string * string -> dsig)
         (everify : cert -> body -> esig -> bool) (dverify : cert -> doc * option string * string -> dsig -> bool),
    (forall c b s, everify c b s = true <-> exists k, c = cert_of k /\ s = esign k b) ->
    (forall c o s, dverify c o s = true <-> exists k, c = cert_of k /\ s = dsign k o) ->
    forall (st : nat -> mdfun cert) (ops : list (op cert esig dsig doc)),
      Forall (fun p => spec cert_of esign dsign (fst p) (snd p)) (run_life everify dverify st ops).
Proof. exact life_sound. Qed.
Print Assumptions c07_life_enforces.

(* ... where "the metadata at that moment" is: what the receiver was built with, replaced by the last
   successful reload of THAT receiver; a reload of another receiver, a failed reload and the requests
   themselves leave no trace *)
Theorem c07_life_current_md :
  forall (cert esig dsig doc : Type)
         (everify : cert -> body -> esig -> bool) (dverify : cert -> doc * option string * string -> dsig -> bool)
         (st : nat -> mdfun cert) (pre : list (op cert esig dsig doc)) (r : nat) (x : input cert esig dsig doc),
    run_life everify dverify st (pre ++ [Req r x])
    = (run_life everify dverify st pre
       ++ [(with_md x (state_after st pre r), parse_request everify dverify (with_md x (state_after st pre r)))])%list.
Proof. exact life_current_md. Qed.
Print Assumptions c07_life_current_md.

Theorem c07_state_after_reload :
  forall (cert esig dsig doc : Type) (st : nat -> mdfun cert) (pre : list (op cert esig dsig doc)) r m r',
    state_after st (pre ++ [Reload r m]) r' = if Nat.eqb r' r then m else state_after st pre r'.
Proof. exact state_after_reload. Qed.
Print Assumptions c07_state_after_reload.

Theorem c07_state_after_no_trace :
  forall (cert esig dsig doc : Type) (st : nat -> mdfun cert) (pre : list (op cert esig dsig doc)) o,
    (forall r m, o <> Reload r m) -> state_after st (pre ++ [o]) = state_after st pre.
Proof. exact state_after_no_trace. Qed.
Print Assumptions c07_state_after_no_trace.

(* key roll-over: under a signing requirement a Redirect request whose detached signature was made with
   a key that the receiver's CURRENT metadata does not list for the sender is rejected, whatever this or
   any other receiver of the process accepted before *)
Theorem c07_retired_key_rejected :
  forall (key cert esig dsig doc : Type) (cert_of : key -> cert)
         (esign : key -> body -> esig) (dsign : key -> doc * option string * string -> dsig)
         (everify : cert -> body -> esig -> bool) (dverify : cert -> doc * option string * string -> dsig -> bool),
    (forall c b s, everify c b s = true <-> exists k, c = cert_of k /\ s = esign k b) ->
    (forall c o s, dverify c o s = true <-> exists k, c = cert_of k /\ s = dsign k o) ->
    forall (st : nat -> mdfun cert) (pre : list (op cert esig dsig doc)) r (x : input cert esig dsig doc),
      requires_signed (cfg x) -> binding x = Some BINDING_HTTP_REDIRECT ->
      (forall k sa, sigalg x = Some sa -> signature x = Some (dsign k (origdoc x, relay_state x, sa)) ->
         ~ In (cert_of k) (state_after st pre r (sender (msg x)))) ->
      parse_request everify dverify (with_md x (state_after st pre r)) <> Accept.
Proof. exact retired_key_rejected. Qed.
Print Assumptions c07_retired_key_rejected.

(* the correspondence evaluates lives with Model.run_life on the term-algebra instance; a life whose
   observed verdicts pass the boolean spec satisfies the stated spec step by step *)
Theorem c07_instance_life :
  forall init ops, Forall (fun p => spec icert_of iesign idsign (fst p) (snd p)) (ilife init ops).
Proof. exact instance_life_sound. Qed.
Print Assumptions c07_instance_life.

Theorem c07_life_spec_reflect :
  forall t, tholds t = true ->
    Forall (fun c => match c_out c with
                     | Some v => spec_src icert_of iesign idsign (src (c_seen c)) (c_in c) v
                     | None => True
                     end) (cases_of t).
Proof. exact tholds_sound. Qed.
Print Assumptions c07_life_spec_reflect.

(* ---------- the requirement AS WRITTEN (strengthening, seed C07-8) ----------
   The two options of the idp section are whatever value the configuration source holds (absent, None, a
   Boolean, a number, any text); Config.load_special turns the exact texts "true" / "false" into Booleans and
   _parse_request uses the truth value of what is stored (Model.stored) and, for the certificate-only option since
   9e47ced6, what a text value says (Model.stored_ovc).  The property is restated with "the
   entity requires signed requests" read off the source: an option is on when its value SAYS so (True, a
   number other than 0, true / yes / on / 1 in any capitalisation, blanks ignored), and the certificate-only
   opt-in cannot be claimed for a value that says no (Spec.spec_src). *)

(* a value that says yes is a requirement for the code: however it is spelled, it is stored as a true value *)
Theorem c07_written_yes_is_set : forall v : cval, says_yes v -> stored v = Some true.
Proof. exact says_yes_stored. Qed.
Print Assumptions c07_written_yes_is_set.

(* so the signing requirement holds as written, with no exception: a request that must be signed and is not
   is not processed *)
Theorem c07_written_unsigned_rejected :
  forall (key cert esig dsig doc : Type) (cert_of : key -> cert)
         (esign : key -> body -> esig) (dsign : key -> doc * option string * string -> dsig)
         (everify : cert -> body -> esig -> bool) (dverify : cert -> doc * option string * string -> dsig -> bool),
    (forall c b s, everify c b s = true <-> exists k, c = cert_of k /\ s = esign k b) ->
    (forall c o s, dverify c o s = true <-> exists k, c = cert_of k /\ s = dsign k o) ->
    forall (s : source) (x : input cert esig dsig doc),
      requires_src s -> binding x <> Some BINDING_HTTP_REDIRECT -> env x = None ->
      parse_request everify dverify (load_src s x) <> Accept.
Proof. exact unsigned_rejected_src. Qed.
Print Assumptions c07_written_unsigned_rejected.

Theorem c07_written_unsigned_redirect_rejected :
  forall (key cert esig dsig doc : Type) (cert_of : key -> cert)
         (esign : key -> body -> esig) (dsign : key -> doc * option string * string -> dsig)
         (everify : cert -> body -> esig -> bool) (dverify : cert -> doc * option string * string -> dsig -> bool),
    (forall c b s, everify c b s = true <-> exists k, c = cert_of k /\ s = esign k b) ->
    (forall c o s, dverify c o s = true <-> exists k, c = cert_of k /\ s = dsign k o) ->
    forall (s : source) (x : input cert esig dsig doc),
      requires_src s -> binding x = Some BINDING_HTTP_REDIRECT -> (sigalg x = None \/ signature x = None) ->
      parse_request everify dverify (load_src s x) <> Accept.
Proof. exact unsigned_redirect_rejected_src. Qed.
Print Assumptions c07_written_unsigned_redirect_rejected.

(* the certificate-only option as the code reads it now (9e47ced6): a value that says yes opts in, and no value
   that says no does *)
Theorem c07_written_ovc_reading : forall v : cval,
  (says_yes v -> stored_ovc v = Some true) /\ (stored_ovc v = Some true -> ~ says_no v).
Proof. exact (fun v => conj (says_yes_stored_ovc v) (stored_ovc_not_no v)). Qed.
Print Assumptions c07_written_ovc_reading.

(* the whole property holds as written, for every source, every receiver and every input *)
Theorem c07_written_enforces :
  forall (key cert esig dsig doc : Type) (cert_of : key -> cert)
         (esign : key -> body -> esig) (dsign : key -> doc * option string * string -> dsig)
         (everify : cert -> body -> esig -> bool) (dverify : cert -> doc * option string * string -> dsig -> bool),
    (forall c b s, everify c b s = true <-> exists k, c = cert_of k /\ s = esign k b) ->
    (forall c o s, dverify c o s = true <-> exists k, c = cert_of k /\ s = dsign k o) ->
    forall (s : source) (x : input cert esig dsig doc),
      spec_src cert_of esign dsign s (load_src s x) (parse_request everify dverify (load_src s x)).
Proof. exact soundness_src. Qed.
Print Assumptions c07_written_enforces.

(* ... and of every request of every life *)
Theorem c07_life_written_enforces :
  forall (key cert esig dsig doc : Type) (cert_of : key -> cert)
         (esign : key -> body -> esig) (dsign : key -> doc * option string * string -> dsig)
         (everify : cert -> body -> esig -> bool) (dverify : cert -> doc * option string * string -> dsig -> bool),
    (forall c b s, everify c b s = true <-> exists k, c = cert_of k /\ s = esign k b) ->
    (forall c o s, dverify c o s = true <-> exists k, c = cert_of k /\ s = dsign k o) ->
    forall (st : nat -> mdfun cert) (ops : list (op cert esig dsig doc)),
      Forall (fun p => forall s x0, fst p = load_src s x0 -> spec_src cert_of esign dsign s (fst p) (snd p))
             (run_life everify dverify st ops).
Proof. exact life_sound_src. Qed.
Print Assumptions c07_life_written_enforces.

(* FINDING C07-F2 (fixed by 9e47ced6).  Before, the certificate-only option was read by its truth value
   (Model.load_src_v0).  The values that say no and were nevertheless read as set: exactly the non-empty texts other
   than the exact "false" that read false / no / off / 0 / blank ("False", "FALSE", "no", "0", " ") *)
Theorem c07_written_misread_class :
  forall v : cval, (says_no v /\ stored_ovc_v0 v = Some true) <-> misread_no v.
Proof. exact says_no_stored_true. Qed.
Print Assumptions c07_written_misread_class.

(* with such a text the code as it WAS violated the property as written (witness: "False"; a request whose content
   was altered after signing was processed) *)
Theorem c07_written_v0_refuted :
  exists (s : source) (x : iinput), ~ spec_src icert_of iesign idsign s (load_src_v0 s x) (imodel (load_src_v0 s x)).
Proof. exact src_v0_refuted. Qed.
Print Assumptions c07_written_v0_refuted.

(* ... and only with such a text *)
Theorem c07_written_v0_enforces :
  forall (key cert esig dsig doc : Type) (cert_of : key -> cert)
         (esign : key -> body -> esig) (dsign : key -> doc * option string * string -> dsig)
         (everify : cert -> body -> esig -> bool) (dverify : cert -> doc * option string * string -> dsig -> bool),
    (forall c b s, everify c b s = true <-> exists k, c = cert_of k /\ s = esign k b) ->
    (forall c o s, dverify c o s = true <-> exists k, c = cert_of k /\ s = dsign k o) ->
    forall (s : source) (x : input cert esig dsig doc),
      ~ misread_no (s_ovc s) ->
      spec_src cert_of esign dsign s (load_src_v0 s x) (parse_request everify dverify (load_src_v0 s x)).
Proof. exact soundness_src_v0. Qed.
Print Assumptions c07_written_v0_enforces.

(* the boolean that Coq evaluates on every observed verdict is the property as written *)
Theorem c07_written_spec_reflect :
  forall s x v, spec_src_b s x v = true <-> spec_src icert_of iesign idsign s x v.
Proof. exact spec_src_b_iff. Qed.
Print Assumptions c07_written_spec_reflect.

(* non-vacuity: the requirement spelled 'True' - unsigned rejected, signed processed *)
Theorem c07_written_nonvacuous :
  requires_src src_True
  /\ imodel (load_src src_True (Build_input ex_cfg 1700000000 AuthnRequest (Some BINDING_HTTP_POST) WBase64 1%nat
               (ex_body "https://idp.example.org/sso/post") None None None None)) = RejSig
  /\ imodel (load_src src_True ex_post) = Accept.
Proof. exact spelled_True_unsigned_rejected. Qed.
Print Assumptions c07_written_nonvacuous.

(* tie to the source TEXT of the loader (coq/gen/C07Src2c.v, re-translated on every run): the statements of
   Config.load_special between cnf[arg] and self.setattr compute Model.load_special_val for every value ... *)
Theorem c07_source2_load_special : forall v : cval,
  written v = true -> src2_load_special_value (enc_cval v) = enc_cval (load_special_val v).
Proof. exact src2_load_special_value_is_model. Qed.
Print Assumptions c07_source2_load_special.

(* ... and what Config.getattr then hands to _parse_request is None exactly when Model.stored is, and has the
   truth value Model.stored says otherwise *)
Theorem c07_source2_stored : forall v : cval,
  match stored v with
  | None => getattr_py v = PNone
  | Some t => getattr_py v <> PNone /\ py_truthy (getattr_py v) = t
  end.
Proof. exact src2_stored_is_model. Qed.
Print Assumptions c07_source2_stored.

(* ... namely the encoding of Model.load_special_val: the W / O of c07_source2_parse_request *)
Theorem c07_source2_getattr : forall v : cval, getattr_py v = enc_cval (load_special_val v).
Proof. exact getattr_py_enc. Qed.
Print Assumptions c07_source2_getattr.

(* tie to the source TEXT: Request._verify as translated from /repo's current source on this run
   (coq/gen/C07Src.v, harness/py2coq.py) computes the model's version and Destination tests, for every
   version string, Destination and receiver address list *)
Theorem c07_source_request_verify : forall iok b addrs,
  src_request_verify iok (enc_request b addrs)
  = if negb (String.eqb (version b) "2.0") then PExc "VersionMismatch"
    else if negb (dest_ok addrs b) then PExc "OtherError"
    else iok.
Proof. exact src_request_verify_is_model. Qed.
Print Assumptions c07_source_request_verify.

(* ---------- tie to the source TEXT, translator v2 (harness/py2coq2.py, Base/Py2.v) ----------
   coq/gen/C07Src2.v and coq/gen/C07Src2l.v are re-translated from /repo's current source on every run;
   external calls are universally quantified functions constrained by the hypotheses shown. *)

(* Request.sender = Model.issuer_id (AttributeError when there is no Issuer) *)
Theorem c07_source2_sender : forall (b : body) (sg : pyval) (addrs : list string) (sl : Z),
  (forall s, issuer b = Some s -> end_ascii (strip s) = true) ->
  src2_sender (enc_request_obj (enc_message b sg) addrs sl)
  = match issuer_id b with Some s => PStr s | None => PExc "AttributeError" end.
Proof. exact src2_sender_is_model. Qed.
Print Assumptions c07_source2_sender.

(* Request._do_redirect_sig_check, whatever verify_redirect_signature answers per certificate: the first
   certificate that verifies decides, certificates that raise ValueError are skipped, any other exception propagates *)
Theorem c07_source2_redirect_sig_check_loop :
  forall (cert : Type) (enc_cert : cert -> pyval), (forall ct, is_bad (enc_cert ct) = false) ->
  forall (md_certs_py : pyval -> pyval) (verify_sig : pyval -> pyval -> pyval) (vr : cert -> vres)
         (b : body) (sg : pyval) (addrs : list string) (sl : Z) (msg : pyval) (certs : list cert),
  (forall s, issuer b = Some s -> end_ascii (strip s) = true) ->
  is_bad msg = false ->
  (forall s, issuer_id b = Some s -> md_certs_py (PStr s) = PList (map (enc_pair cert enc_cert) certs)) ->
  (forall ct, verify_sig msg (enc_cert ct) = enc_vres (vr ct)) ->
  src2_redirect_sig_check md_certs_py verify_sig (enc_request_obj (enc_message b sg) addrs sl) msg
  = match issuer_id b with Some _ => sig_loop cert vr certs | None => PExc "AttributeError" end.
Proof. exact src2_redirect_sig_check_loop. Qed.
Print Assumptions c07_source2_redirect_sig_check_loop.

(* ... and with the ideal verifier of the model: Request._do_redirect_sig_check = Model.redirect_sig_ok *)
Theorem c07_source2_redirect_sig_check :
  forall (cert dsig doc : Type) (dverify : cert -> doc * option string * string -> dsig -> bool)
         (enc_cert : cert -> pyval), (forall ct, is_bad (enc_cert ct) = false) ->
  forall (md_certs_py : pyval -> pyval) (verify_sig : pyval -> pyval -> pyval) (c : config cert)
         (b : body) (sg : pyval) (addrs : list string) (sl : Z) (msg : pyval) (od : doc) (rs : option string)
         (sa : string) (g : dsig),
  (forall s, issuer b = Some s -> end_ascii (strip s) = true) ->
  is_bad msg = false ->
  (forall s, issuer_id b = Some s -> md_certs_py (PStr s) = PList (map (enc_pair cert enc_cert) (md_certs c (Some s)))) ->
  (forall ct, verify_sig msg (enc_cert ct) = PBool (supported_alg sa && dverify ct (od, rs, sa) g)) ->
  src2_redirect_sig_check md_certs_py verify_sig (enc_request_obj (enc_message b sg) addrs sl) msg
  = match issuer b with
    | Some _ => PBool (redirect_sig_ok dverify c b od rs sa g)
    | None => PExc "AttributeError"
    end.
Proof. exact src2_redirect_sig_check_is_model. Qed.
Print Assumptions c07_source2_redirect_sig_check.

(* SecurityContext.correctly_signed_message = the enveloped-signature step of Model.parse_request *)
Theorem c07_source2_correctly_signed_message :
  forall (cert esig : Type) (everify : cert -> body -> esig -> bool) (parse : pyval -> pyval -> pyval)
         (check_sig : pyval -> pyval -> pyval -> pyval -> pyval) (c : config cert) (b : body)
         (e : option (envsig cert esig)) (kind_ok : bool) (must : option bool) (ovc : bool)
         (xml mt : string) (self origdoc : pyval),
  let M := enc_message b (enc_sig cert esig e) in
  is_bad self = false -> is_bad origdoc = false ->
  (forall a, parse (PStr a) (PStr xml) = (if kind_ok then M else PNone)) ->
  (forall e', e = Some e' ->
     check_sig (PStr xml) M (enc_obool must) (PBool ovc)
     = (if check_signature everify c b e' ovc then M else PExc "SignatureError")) ->
  src2_correctly_signed_message parse check_sig self (PStr xml) (PStr mt) (enc_obool must) origdoc (PBool ovc)
  = (if negb kind_ok then PExc "TypeError"
     else if match e with
             | Some e' => check_signature everify c b e' ovc
             | None => negb (truthy must)
             end
          then M else PExc "SignatureError").
Proof. exact src2_correctly_signed_message_is_model. Qed.
Print Assumptions c07_source2_correctly_signed_message.

(* Request._loads = loads_verdict, the signature and validity steps of Model.parse_request ... *)
Theorem c07_source2_loads :
  forall (cert esig dsig doc : Type) (everify : cert -> body -> esig -> bool)
         (dverify : cert -> doc * option string * string -> dsig -> bool) (enc_doc : doc -> pyval) (enc_dsig : dsig -> pyval),
  (forall d, is_bad (enc_doc d) = false) ->
  (forall g, is_bad (enc_dsig g) = false /\ enc_dsig g <> PNone) ->
  forall (signature_check : pyval -> pyval -> pyval -> pyval -> pyval) (redirect_sig_check : pyval -> pyval -> pyval)
         (valid_instance_py : pyval -> pyval) (c : config cert) (b : body) (kind_ok : bool) (e : option (envsig cert esig))
         (bnd : option string) (od : doc) (must : option bool) (ovc : bool) (rs sa : option string) (sg : option dsig)
         (xml : string) (addrs : list string) (sl : Z) (sgv : pyval) (n1 : string),
  let M := enc_message b sgv in
  all_ascii xml = true -> is_bad sgv = false ->
  signature_check (PStr xml) (enc_doc od) (sign_post_py must bnd) (PBool ovc)
  = (if kind_ok && match e with
                   | Some e' => check_signature everify c b e' ovc
                   | None => negb (py_truthy (sign_post_py must bnd))
                   end
     then M else PExc n1) ->
  (forall s' a g, sa = Some a -> sg = Some g ->
     redirect_sig_check s' (saml_msg_dict dsig doc enc_doc enc_dsig od rs a g)
     = match issuer b with
       | Some _ => PBool (redirect_sig_ok dverify c b od rs a g)
       | None => PExc "AttributeError"
       end) ->
  valid_instance_py M = (if valid_instance b then PNone else PExc "NotValid") ->
  src2_loads signature_check redirect_sig_check valid_instance_py (enc_request_obj PNone addrs sl)
    (PStr xml) (enc_ostr bnd) (enc_doc od) (enc_obool must) (PBool ovc) (enc_ostr rs) (enc_ostr sa)
    (match sg with Some g => enc_dsig g | None => PNone end)
  = match loads_verdict cert esig dsig doc everify dverify c b kind_ok e bnd od (truthy must) ovc rs sa sg with
    | Accept => loaded xml M addrs sl
    | RejInvalid => PExc "NotValid"
    | _ => PExc "IncorrectlySigned"
    end.
Proof. exact src2_loads_is_model. Qed.
Print Assumptions c07_source2_loads.

(* ... where loads_verdict IS the part of the model between unravel and the version / Destination / IssueInstant tests *)
Theorem c07_source2_loads_split :
  forall (cert esig dsig doc : Type) (everify : cert -> body -> esig -> bool)
         (dverify : cert -> doc * option string * string -> dsig -> bool) (x : input cert esig dsig doc),
  parse_request everify dverify x =
  (let c := cfg x in
   let kind_ok := kind_eqb (b_kind (msg x)) (expected x) in
   match unravel (binding x) (enc x) (kind_ok && has_soap_parser (expected x)) with
   | UBadBinding => RejBinding
   | UFail => RejUnravel
   | UText => RejSig
   | UMsg =>
       let ovc := truthy (only_valid_cert c) in
       let must := truthy (want_signed c) || ovc in
       let pd := passes_detached (expected x) in
       match loads_verdict cert esig dsig doc everify dverify c (msg x) kind_ok (env x) (binding x) (origdoc x) must ovc
               (if pd then relay_state x else None) (if pd then sigalg x else None) (if pd then signature x else None) with
       | Accept =>
           if negb (String.eqb (version (msg x)) "2.0") then RejVersion
           else if negb (dest_ok (receiver_addrs c (service_of (expected x)) (binding x)) (msg x)) then RejDest
           else if negb (issue_instant_ok c (now x) (msg x)) then RejStale
           else Accept
       | v => v
       end
   end).
Proof. exact parse_request_split. Qed.
Print Assumptions c07_source2_loads_split.

(* Entity._parse_request: Request.loads is handed exactly Model.receiver_addrs, Model.slack and must / only_valid_cert
   as below, whatever configuration values (None, Boolean, number, text) Config.getattr answers for the two options
   - since 9e47ced6 a text value of only_valid_cert is read by what it says -; an exception of unravel / loads
   propagates; a request whose verify() is false is not returned *)
Theorem c07_source2_parse_request :
  forall (cert : Type) (endpoint_py : pyval -> pyval -> pyval -> pyval) (cfg_getattr : pyval -> pyval -> pyval)
         (unravel_py mk_request : pyval -> pyval -> pyval -> pyval) (loads_py : pyval -> list (string * pyval) -> pyval)
         (verify_py : pyval -> pyval) (c : config cert) (W O : cval) (svc mt : string) (bnd : option string)
         (enc rs sa sg : pyval) (u : string + string),
  is_bad enc = false -> is_bad rs = false -> is_bad sa = false -> is_bad sg = false ->
  (forall typ, endpoint_py (PStr svc) (enc_ostr bnd) (PStr typ) = PList (map PStr (endpoint (eps c typ svc) bnd))) ->
  cfg_getattr (PStr "want_authn_requests_signed") (PStr "idp") = enc_cval W ->
  cfg_getattr (PStr "want_authn_requests_only_with_valid_cert") (PStr "idp") = enc_cval O ->
  ascii_text O ->
  unravel_py enc (enc_ostr bnd) (PStr mt) = match u with inl n => PExc n | inr xml => PStr xml end ->
  (forall a s k, is_bad (mk_request a s k) = false) ->
  (forall r kw, loads_py r kw <> PErr) ->
  (forall r, is_bad (verify_py r) = false) ->
  src2_parse_request endpoint_py cfg_getattr unravel_py mk_request loads_py verify_py
    (enc_entity cert c) enc (enc_cls mt) (PStr svc) (enc_ostr bnd) rs sa sg
  = match u with
    | inl n => PExc n
    | inr xml =>
        let L := loads_py (mk_request (PList (map PStr (receiver_addrs c svc bnd))) (PInt (slack c)) (enc_cls mt))
                   [("xmlstr", PStr xml); ("binding", enc_ostr bnd); ("must", must_py W O);
                    ("only_valid_cert", ovc_py O); ("origdoc", enc); ("relay_state", rs); ("sigalg", sa);
                    ("signature", sg)] in
        match L with
        | PExc n => PExc n
        | _ => if py_truthy L then (if py_truthy (verify_py L) then L else PNone) else PNone
        end
    end.
Proof. exact src2_parse_request_is_model. Qed.
Print Assumptions c07_source2_parse_request.

(* for options written as w / v and stored by Config.load_special, the must= / only_valid_cert= values handed over
   are true exactly when the model's (Model.stored / Model.stored_ovc, i.e. Model.load_src) are *)
Theorem c07_source2_parse_request_must : forall w v : cval,
  py_truthy (must_py (load_special_val w) (load_special_val v)) = truthy (stored w) || truthy (stored_ovc v)
  /\ py_truthy (ovc_py (load_special_val v)) = truthy (stored_ovc v).
Proof. exact (fun w v => conj (truthy_must_py w v) (truthy_ovc_py v)). Qed.
Print Assumptions c07_source2_parse_request_must.
