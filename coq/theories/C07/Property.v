(* C07/Property.v — property theorems only. *)
From Coq Require Import String List Bool ZArith.
From Verif Require Import Base.Str Base.Py C07.Model C07.Spec C07.Proofs C07.Corr C07.Source.
From VerifGen Require Import C07Src.
Import ListNotations.

(* C07: for every receiver configuration (entity type, endpoints in every role, signing requirement,
   certificate-only opt-in, clock skew, metadata, only_use_keys_in_metadata, certificate validation),
   every request class and entry point, every binding and transport encoding, every message, every
   enveloped and detached signature state and every ideal signature scheme: a request is processed
   only if — when signatures are required — it carries the detached signature of a metadata key of
   its sender over SAMLRequest, RelayState and SigAlg (Redirect) or an enveloped signature
   (elsewhere); an enveloped signature that is present was made over the received content with a
   trusted key of the sender (or the certificate-only opt-in is set); a non-empty Destination is one of
   the receiver's own endpoints for that service and binding when it has any; Version is "2.0"; and
   IssueInstant is within a day plus skew of the clock. *)
Theorem c07_receiver_enforces :
  forall (key cert esig dsig doc : Type) (cert_of : key -> cert)
         (esign : key -> body -> esig) (dsign : key -> doc * option string * string -> dsig)
         (everify : cert -> body -> esig -> bool) (dverify : cert -> doc * option string * string -> dsig -> bool),
    (forall c b s, everify c b s = true <-> exists k, c = cert_of k /\ s = esign k b) ->
    (forall c o s, dverify c o s = true <-> exists k, c = cert_of k /\ s = dsign k o) ->
    forall x : input cert esig dsig doc, spec cert_of esign dsign x (parse_request everify dverify x).
Proof. exact soundness. Qed.
Print Assumptions c07_receiver_enforces.

(* a required enveloped signature cannot be omitted (POST, SOAP, Artifact, URI, no binding) *)
Theorem c07_unsigned_rejected :
  forall (key cert esig dsig doc : Type) (cert_of : key -> cert)
         (esign : key -> body -> esig) (dsign : key -> doc * option string * string -> dsig)
         (everify : cert -> body -> esig -> bool) (dverify : cert -> doc * option string * string -> dsig -> bool),
    (forall c b s, everify c b s = true <-> exists k, c = cert_of k /\ s = esign k b) ->
    (forall c o s, dverify c o s = true <-> exists k, c = cert_of k /\ s = dsign k o) ->
    forall x : input cert esig dsig doc,
      requires_signed (cfg x) -> binding x <> Some BINDING_HTTP_REDIRECT -> env x = None ->
      parse_request everify dverify x <> Accept.
Proof. exact unsigned_rejected. Qed.
Print Assumptions c07_unsigned_rejected.

(* ... nor the detached one on Redirect, whatever enveloped signature the request carries *)
Theorem c07_unsigned_redirect_rejected :
  forall (key cert esig dsig doc : Type) (cert_of : key -> cert)
         (esign : key -> body -> esig) (dsign : key -> doc * option string * string -> dsig)
         (everify : cert -> body -> esig -> bool) (dverify : cert -> doc * option string * string -> dsig -> bool),
    (forall c b s, everify c b s = true <-> exists k, c = cert_of k /\ s = esign k b) ->
    (forall c o s, dverify c o s = true <-> exists k, c = cert_of k /\ s = dsign k o) ->
    forall x : input cert esig dsig doc,
      requires_signed (cfg x) -> binding x = Some BINDING_HTTP_REDIRECT ->
      (sigalg x = None \/ signature x = None) -> parse_request everify dverify x <> Accept.
Proof. exact unsigned_redirect_rejected. Qed.
Print Assumptions c07_unsigned_redirect_rejected.

(* the query entry points do not take a detached signature: under a signing requirement no query
   is processed over Redirect *)
Theorem c07_query_redirect_rejected :
  forall (cert esig dsig doc : Type)
         (everify : cert -> body -> esig -> bool) (dverify : cert -> doc * option string * string -> dsig -> bool)
         (x : input cert esig dsig doc),
    requires_signed (cfg x) -> binding x = Some BINDING_HTTP_REDIRECT -> passes_detached (expected x) = false ->
    parse_request everify dverify x <> Accept.
Proof. exact query_redirect_rejected. Qed.
Print Assumptions c07_query_redirect_rejected.

(* an enveloped signature that does not verify under a trusted key is fatal even where signing is optional *)
Theorem c07_bad_enveloped_rejected :
  forall (key cert esig dsig doc : Type) (cert_of : key -> cert)
         (esign : key -> body -> esig) (dsign : key -> doc * option string * string -> dsig)
         (everify : cert -> body -> esig -> bool) (dverify : cert -> doc * option string * string -> dsig -> bool),
    (forall c b s, everify c b s = true <-> exists k, c = cert_of k /\ s = esign k b) ->
    (forall c o s, dverify c o s = true <-> exists k, c = cert_of k /\ s = dsign k o) ->
    forall (x : input cert esig dsig doc) e,
      env x = Some e -> only_valid_cert (cfg x) <> Some true ->
      (forall k, e_sig e = esign k (msg x) -> ~ trusted_cert (cfg x) (msg x) e (cert_of k)) ->
      parse_request everify dverify x <> Accept.
Proof. exact bad_enveloped_rejected. Qed.
Print Assumptions c07_bad_enveloped_rejected.

(* the detached signature names one of the supported algorithms and the message names its sender *)
Theorem c07_detached_alg_supported :
  forall (key cert esig dsig doc : Type) (cert_of : key -> cert)
         (dsign : key -> doc * option string * string -> dsig)
         (everify : cert -> body -> esig -> bool) (dverify : cert -> doc * option string * string -> dsig -> bool),
    (forall c o s, dverify c o s = true <-> exists k, c = cert_of k /\ s = dsign k o) ->
    forall x : input cert esig dsig doc,
      requires_signed (cfg x) -> binding x = Some BINDING_HTTP_REDIRECT -> parse_request everify dverify x = Accept ->
      exists sa, sigalg x = Some sa /\ In sa SIGNER_ALGS /\ issuer (msg x) <> None.
Proof. exact detached_alg_supported. Qed.
Print Assumptions c07_detached_alg_supported.

(* what is processed is an element of the class the entry point expects *)
Theorem c07_accepted_kind :
  forall (cert esig dsig doc : Type)
         (everify : cert -> body -> esig -> bool) (dverify : cert -> doc * option string * string -> dsig -> bool)
         (x : input cert esig dsig doc),
    parse_request everify dverify x = Accept -> b_kind (msg x) = expected x.
Proof. exact accepted_kind. Qed.
Print Assumptions c07_accepted_kind.

(* completeness: a well-transported, well-formed request that is addressed to the receiver, current,
   and signed as required with a metadata key of its sender (whose certificate passes the receiver's
   certificate validation) is processed *)
Theorem c07_complete :
  forall (key cert esig dsig doc : Type) (cert_of : key -> cert)
         (esign : key -> body -> esig) (dsign : key -> doc * option string * string -> dsig)
         (everify : cert -> body -> esig -> bool) (dverify : cert -> doc * option string * string -> dsig -> bool),
    (forall c b s, everify c b s = true <-> exists k, c = cert_of k /\ s = esign k b) ->
    (forall c o s, dverify c o s = true <-> exists k, c = cert_of k /\ s = dsign k o) ->
    (forall k k' b, esign k b = esign k' b -> k = k') ->
    forall x : input cert esig dsig doc,
      well_transported x ->
      b_kind (msg x) = expected x ->
      (forall e, env x = Some e -> good_enveloped cert_of esign x e) ->
      (requires_signed (cfg x) -> binding x <> Some BINDING_HTTP_REDIRECT -> env x <> None) ->
      (requires_signed (cfg x) -> binding x = Some BINDING_HTTP_REDIRECT ->
         passes_detached (expected x) = true /\ issuer (msg x) <> None /\
         exists k sa, sigalg x = Some sa /\ In sa SIGNER_ALGS
                      /\ signature x = Some (dsign k (origdoc x, relay_state x, sa))
                      /\ In (cert_of k) (md_certs (cfg x) (issuer_id (msg x)))) ->
      inst_ok (msg x) = true -> version (msg x) = "2.0"%string ->
      (forall d, destination (msg x) = Some d ->
         In d (receiver_addrs (cfg x) (service_of (expected x)) (binding x))) ->
      (now x - 86400 - slack (cfg x) <= issued (msg x) < now x + 86400 + slack (cfg x))%Z ->
      parse_request everify dverify x = Accept.
Proof. exact completeness. Qed.
Print Assumptions c07_complete.

(* the receiver's address list is exactly made of its own endpoints, and is non-empty when it has any *)
Theorem c07_receiver_addrs :
  forall (cert : Type) (c : config cert) svc b,
    (forall d, In d (receiver_addrs c svc b) -> own_endpoint c svc b d)
    /\ ((exists d', own_endpoint c svc b d') -> receiver_addrs c svc b <> []).
Proof. exact receiver_addrs_exact. Qed.
Print Assumptions c07_receiver_addrs.

(* the hypotheses of the theorems above are satisfiable: the term-algebra instance used by the
   correspondence meets them, so the property holds of the model that Coq evaluates there *)
Theorem c07_instance : forall x : iinput, spec icert_of iesign idsign x (imodel x).
Proof. exact instance_sound. Qed.
Print Assumptions c07_instance.

(* the boolean spec that Coq evaluates on the implementation's recorded verdict is the stated spec *)
Theorem c07_spec_reflect : forall x v, spec_b x v = true <-> spec icert_of iesign idsign x v.
Proof. exact spec_b_iff. Qed.
Print Assumptions c07_spec_reflect.

(* non-vacuity: under a signing requirement there are requests that are processed *)
Theorem c07_nonvacuous :
  (requires_signed (cfg ex_post) /\ imodel ex_post = Accept)
  /\ (requires_signed (cfg ex_redirect) /\ imodel ex_redirect = Accept).
Proof. exact (conj accepted_post accepted_redirect). Qed.
Print Assumptions c07_nonvacuous.

(* tie to the source TEXT: Request._verify as translated from /repo's current source on this run
   (coq/gen/C07Src.v, harness/py2coq.py) computes the model's version and Destination tests, for every
   version string, Destination and receiver address list *)
Theorem c07_source_request_verify : forall iok b addrs,
  src_request_verify iok (enc_request b addrs)
  = if negb (String.eqb (version b) "2.0") then PExc "VersionMismatch"
    else if negb (dest_ok addrs b) then PExc "OtherError"
    else iok.
Proof. exact src_request_verify_is_model. Qed.
Print Assumptions c07_source_request_verify.
