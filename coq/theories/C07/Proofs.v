(* C07/Proofs.v *)
From Coq Require Import String List Bool ZArith Lia ZifyBool.
From Verif Require Import Base.Str C07.Model C07.Spec.
Import ListNotations.
Open Scope string_scope.

(* ---------- Config.endpoint ---------- *)
Lemma endpoint_in specs b d :
  In d (endpoint specs b) -> exists e, In e specs /\ spec_covers e b d.
Proof.
  unfold endpoint.
  set (sp := flat_map _ specs). set (un := flat_map _ specs).
  assert (Hs : In d sp -> exists e, In e specs /\ spec_covers e b d).
  { unfold sp. rewrite in_flat_map. intros [e [He Hd]]. exists e. split; [exact He|].
    destruct e as [u bd|u]; [|contradiction]. cbn [spec_covers].
    destruct b as [b'|].
    - destruct (String.eqb bd b') eqn:E; [|contradiction]. apply String.eqb_eq in E. subst b'.
      destruct Hd as [ -> |[]]. split; [reflexivity|right; reflexivity].
    - destruct Hd as [ -> |[]]. split; [reflexivity|left; reflexivity]. }
  assert (Hu : In d un -> exists e, In e specs /\ spec_covers e b d).
  { unfold un. rewrite in_flat_map. intros [e [He Hd]]. exists e. split; [exact He|].
    destruct e as [u bd|u]; [contradiction|]. destruct Hd as [ -> |[]]. reflexivity. }
  destruct sp as [|s0 r]; [exact Hu|exact Hs].
Qed.

Lemma endpoint_nonempty specs b d :
  (exists e, In e specs /\ spec_covers e b d) -> endpoint specs b <> [].
Proof.
  intros [e [He Hc]]. unfold endpoint.
  set (sp := flat_map _ specs). set (un := flat_map _ specs).
  destruct e as [u bd|u]; cbn [spec_covers] in Hc.
  - destruct Hc as [ -> Hb].
    assert (Hin : In d sp).
    { unfold sp. apply in_flat_map. exists (EP d bd). split; [exact He|].
      destruct Hb as [ -> | -> ]; [left; reflexivity|]. rewrite String.eqb_refl. left; reflexivity. }
    destruct sp as [|s0 r]; [contradiction|discriminate].
  - subst u.
    assert (Hin : In d un).
    { unfold un. apply in_flat_map. exists (Bare d). split; [exact He|left; reflexivity]. }
    destruct sp as [|s0 r]; [|discriminate]. destruct un; [contradiction|discriminate].
Qed.

Lemma first_nonempty_in l d : In d (first_nonempty l) -> exists a, In a l /\ In d a.
Proof.
  induction l as [|a r IH]; cbn [first_nonempty]; [intros []|].
  destruct a as [|a0 a'].
  - intros H. destruct (IH H) as [a [Ha Hd]]. exists a. split; [right; exact Ha|exact Hd].
  - intros H. exists (a0 :: a'). split; [left; reflexivity|exact H].
Qed.

Lemma first_nonempty_nonempty l : (exists a, In a l /\ a <> []) -> first_nonempty l <> [].
Proof.
  induction l as [|a r IH]; cbn [first_nonempty]; intros [a1 [Hin Hne]]; [contradiction|].
  destruct a as [|a0 a']; [|discriminate].
  apply IH. destruct Hin as [<-|Hin]; [contradiction Hne; reflexivity|]. exists a1. auto.
Qed.

Section Addr.
  Variable cert : Type.
  Implicit Type c : config cert.

  Lemma receiver_addrs_sound c svc b d :
    In d (receiver_addrs c svc b) -> own_endpoint c svc b d.
  Proof.
    unfold receiver_addrs, own_endpoint.
    destruct (endpoint (eps c (etype c) svc) b) as [|d0 r] eqn:E.
    - destruct (String.eqb (etype c) "idp") eqn:Ei; [|intros []].
      apply String.eqb_eq in Ei. intros H. apply first_nonempty_in in H as [a [Ha Hd]].
      apply in_map_iff in Ha as [typ [<- Ht]]. apply endpoint_in in Hd as [e [He Hc]].
      exists typ, e. split; [|split; [exact He|exact Hc]].
      right. split; [exact Ei|]. cbn in Ht. intuition.
    - intros H. rewrite <- E in H. apply endpoint_in in H as [e [He Hc]].
      exists (etype c), e. split; [left; reflexivity|split; [exact He|exact Hc]].
  Qed.

  Lemma receiver_addrs_nonempty c svc b :
    (exists d', own_endpoint c svc b d') -> receiver_addrs c svc b <> [].
  Proof.
    intros [d' [ctx [e [Hr [He Hc]]]]]. unfold receiver_addrs.
    destruct (endpoint (eps c (etype c) svc) b) as [|d0 r] eqn:E; [|discriminate].
    destruct Hr as [ -> |[Hi Hctx]].
    - exfalso. apply (endpoint_nonempty (eps c (etype c) svc) b d'); [|exact E]. exists e. auto.
    - rewrite Hi. cbn [String.eqb Ascii.eqb Bool.eqb]. apply first_nonempty_nonempty.
      exists (endpoint (eps c ctx svc) b). split.
      + apply in_map_iff. exists ctx. split; [reflexivity|]. cbn. intuition.
      + apply (endpoint_nonempty _ _ d'). exists e. auto.
  Qed.

  Lemma receiver_addrs_exact c svc b :
    (forall d, In d (receiver_addrs c svc b) -> own_endpoint c svc b d)
    /\ ((exists d', own_endpoint c svc b d') -> receiver_addrs c svc b <> []).
  Proof. split; [apply receiver_addrs_sound|apply receiver_addrs_nonempty]. Qed.
End Addr.

Lemma kind_eqb_eq a b : kind_eqb a b = true <-> a = b.
Proof. destruct a, b; cbn; split; congruence. Qed.

Lemma is_empty_true s : is_empty s = true <-> s = "".
Proof. destruct s; cbn; split; congruence. Qed.

Lemma opt_str_eqb_eq (a b : option string) : opt_eqb String.eqb a b = true <-> a = b.
Proof.
  destruct a as [x|], b as [y|]; cbn; try (split; congruence).
  rewrite String.eqb_eq. split; congruence.
Qed.

Lemma truthy_iff o : truthy o = true <-> o = Some true.
Proof. destruct o as [[|]|]; cbn; split; congruence. Qed.

(* ---------- the configuration as written ---------- *)
Lemma lower_strip_empty : lower (strip "") = "".
Proof. reflexivity. Qed.

(* a value that says yes is stored as a true value: "true" becomes True, every other such text is a
   non-empty string, a number other than 0 and True are themselves *)
Lemma says_yes_stored v : says_yes v -> stored v = Some true.
Proof.
  destruct v as [| |b|z|s]; cbn [says_yes]; try contradiction.
  - intros ->. reflexivity.
  - intros Hz. unfold stored. cbn [load_special_val py_true]. destruct (Z.eqb_spec z 0); [contradiction|reflexivity].
  - intros Hin. unfold stored, load_special_val.
    destruct (String.eqb s "true") eqn:Et; [reflexivity|].
    destruct (String.eqb s "false") eqn:Ef.
    + apply String.eqb_eq in Ef. subst s. exfalso. vm_compute in Hin. intuition discriminate.
    + destruct s as [|a r]; [|reflexivity]. exfalso. vm_compute in Hin. intuition discriminate.
Qed.

(* ... and the values that say no but are stored as a true value (which is how the certificate-only option was read
   before 9e47ced6) are exactly the non-empty texts, other
   than the exact text "false", that read false / no / off / 0 / blank: the class of finding C07-F2 *)
Definition misread_no (v : cval) : Prop :=
  exists s, v = CStr s /\ s <> "" /\ s <> "false" /\ In (lower (strip s)) no_words.

Lemma says_no_stored_true v : (says_no v /\ stored v = Some true) <-> misread_no v.
Proof.
  unfold misread_no. split.
  - intros [Hn Hs]. destruct v as [| |b|z|s]; cbn [says_no] in Hn; try discriminate.
    + subst b. discriminate.
    + subst z. discriminate.
    + exists s. split; [reflexivity|]. unfold stored, load_special_val in Hs.
      destruct (String.eqb s "true") eqn:Et.
      { apply String.eqb_eq in Et. subst s. exfalso. vm_compute in Hn. intuition discriminate. }
      destruct (String.eqb s "false") eqn:Ef; [discriminate|].
      apply String.eqb_neq in Ef. destruct s as [|a r]; [discriminate|].
      split; [discriminate|]. split; [exact Ef|exact Hn].
  - intros (s & -> & Hne & Hnf & Hin). split; [exact Hin|].
    unfold stored, load_special_val.
    destruct (String.eqb s "true") eqn:Et.
    { apply String.eqb_eq in Et. subst s. exfalso. vm_compute in Hin. intuition discriminate. }
    destruct (String.eqb s "false") eqn:Ef; [apply String.eqb_eq in Ef; contradiction|].
    destruct s as [|a r]; [contradiction Hne; reflexivity|reflexivity].
Qed.

(* the certificate-only option as the code reads it now (9e47ced6) *)
Lemma says_yes_stored_ovc v : says_yes v -> stored_ovc v = Some true.
Proof.
  destruct v as [| |b|z|s]; cbn [says_yes]; try contradiction.
  - intros ->. reflexivity.
  - intros Hz. unfold stored_ovc. cbn [load_special_val py_true]. destruct (Z.eqb_spec z 0); [contradiction|reflexivity].
  - intros Hin. unfold stored_ovc, load_special_val.
    destruct (String.eqb s "true") eqn:Et; [reflexivity|].
    destruct (String.eqb s "false") eqn:Ef.
    + apply String.eqb_eq in Ef. subst s. exfalso. vm_compute in Hin. intuition discriminate.
    + f_equal. apply mem_In. exact Hin.
Qed.

Lemma yes_not_no w : In w yes_words -> ~ In w no_words.
Proof. intros Hy Hn. cbn in Hy, Hn. intuition (subst; discriminate). Qed.

(* ... is never on for a value that says no *)
Lemma stored_ovc_not_no v : stored_ovc v = Some true -> ~ says_no v.
Proof.
  destruct v as [| |b|z|s]; cbn [says_no]; try discriminate.
  - cbn. intros E ->. discriminate.
  - unfold stored_ovc. cbn [load_special_val py_true]. intros E ->. discriminate.
  - unfold stored_ovc, load_special_val.
    destruct (String.eqb s "true") eqn:Et.
    { apply String.eqb_eq in Et. subst s. intros _ Hn. vm_compute in Hn. intuition discriminate. }
    destruct (String.eqb s "false") eqn:Ef; [discriminate|].
    intros E. apply yes_not_no. apply mem_In. change yes_words with OVC_YES. congruence.
Qed.

Section Proofs.
  Variables key cert esig dsig doc : Type.
  Variable cert_of : key -> cert.
  Variable esign : key -> body -> esig.
  Variable dsign : key -> (doc * option string * string) -> dsig.
  Variable everify : cert -> body -> esig -> bool.
  Variable dverify : cert -> (doc * option string * string) -> dsig -> bool.

  (* ideal signatures: verification with a certificate succeeds exactly on signatures made, over
     exactly that content, with a key the certificate belongs to *)
  Hypothesis everify_spec : forall c b s, everify c b s = true <-> exists k, c = cert_of k /\ s = esign k b.
  Hypothesis dverify_spec : forall c o s, dverify c o s = true <-> exists k, c = cert_of k /\ s = dsign k o.

  Notation config := (config cert).
  Notation envsig := (envsig cert esig).
  Notation input := (input cert esig dsig doc).
  Notation parse := (parse_request everify dverify).

  Lemma try_certs_true cs b s last :
    fst (try_certs everify cs b s last) = true -> exists ct, In ct cs /\ everify ct b s = true.
  Proof.
    revert last. induction cs as [|c0 r IH]; intros last; cbn [try_certs]; [discriminate|].
    destruct (everify c0 b s) eqn:E.
    - intros _. exists c0. split; [left; reflexivity|exact E].
    - intros H. destruct (IH _ H) as [ct [Hin Hv]]. exists ct. split; [right; exact Hin|exact Hv].
  Qed.

  Lemma try_certs_first c0 r b s last :
    everify c0 b s = true -> try_certs everify (c0 :: r) b s last = (true, Some c0).
  Proof. intros H. cbn [try_certs]. rewrite H. reflexivity. Qed.

  Lemma candidates_trusted (c : config) b (e : envsig) ct :
    In ct (candidates c b e) -> trusted_cert c b e ct.
  Proof.
    unfold candidates, trusted_cert, sender. fold (issuer_id b).
    destruct (md_certs c (issuer_id b)) as [|c0 r] eqn:Em.
    - destruct (only_md c) eqn:Eo; [intros []|]. intros H. right. auto.
    - intros H. left. exact H.
  Qed.

  Lemma check_signature_sound (c : config) b (e : envsig) ovc :
    check_signature everify c b e ovc = true ->
    ovc = true \/ exists k, e_sig e = esign k b /\ trusted_cert c b e (cert_of k).
  Proof.
    unfold check_signature.
    destruct (candidates c b e) as [|c0 r] eqn:Ec; [discriminate|].
    destruct (negb (xsd_ok b)); [discriminate|].
    destruct (negb (e_shape_ok e)); [discriminate|].
    destruct (try_certs everify (c0 :: r) b (e_sig e) None) as [verified last] eqn:Et.
    destruct ovc; [intros _; left; reflexivity|]. rewrite orb_false_r.
    destruct verified; [|discriminate]. intros _. right.
    assert (Hf : fst (try_certs everify (c0 :: r) b (e_sig e) None) = true) by (rewrite Et; reflexivity).
    apply try_certs_true in Hf as [ct [Hin Hv]]. apply everify_spec in Hv as [k [ -> Hs]].
    exists k. split; [exact Hs|]. apply candidates_trusted. rewrite Ec. exact Hin.
  Qed.

  Lemma redirect_sig_sound (c : config) b od rs sa sg :
    redirect_sig_ok dverify c b od rs sa sg = true ->
    In sa SIGNER_ALGS /\ exists k, sg = dsign k (od, rs, sa) /\ In (cert_of k) (md_certs c (issuer_id b)).
  Proof.
    unfold redirect_sig_ok. destruct (issuer b); [|discriminate].
    rewrite andb_true_iff. intros [Ha He]. split; [apply mem_In; exact Ha|].
    apply existsb_exists in He as [ct [Hin Hv]]. apply dverify_spec in Hv as [k [ -> Hs]].
    exists k. auto.
  Qed.

  (* what an accepting run went through *)
  Lemma accept_inv (x : input) :
    parse x = Accept ->
    let c := cfg x in
    let ovc := truthy (only_valid_cert c) in
    let must := truthy (want_signed c) || ovc in
    let sign_redirect := must && opt_eqb String.eqb (binding x) (Some BINDING_HTTP_REDIRECT) in
    unravel (binding x) (enc x) (kind_eqb (b_kind (msg x)) (expected x) && has_soap_parser (expected x)) = UMsg
    /\ b_kind (msg x) = expected x
    /\ match env x with
       | None => must && negb sign_redirect = false
       | Some e => check_signature everify c (msg x) e ovc = true
       end
    /\ (sign_redirect = true ->
        passes_detached (expected x) = true /\
        exists a g, sigalg x = Some a /\ signature x = Some g
                    /\ redirect_sig_ok dverify c (msg x) (origdoc x) (relay_state x) a g = true)
    /\ valid_instance (msg x) = true
    /\ version (msg x) = "2.0"
    /\ dest_ok (receiver_addrs c (service_of (expected x)) (binding x)) (msg x) = true
    /\ issue_instant_ok c (now x) (msg x) = true.
  Proof.
    unfold parse_request. cbv zeta.
    destruct (unravel (binding x) (enc x) (kind_eqb (b_kind (msg x)) (expected x) && has_soap_parser (expected x)))
      eqn:Eu; try discriminate.
    destruct (kind_eqb (b_kind (msg x)) (expected x)) eqn:Ek; cbn [negb]; [|discriminate].
    match goal with |- (if negb ?t then _ else _) = _ -> _ => destruct t eqn:Eenv end; cbn [negb]; [|discriminate].
    match goal with |- (if ?t then _ else _) = _ -> _ => destruct t eqn:Ered end; [discriminate|].
    destruct (valid_instance (msg x)) eqn:Evi; cbn [negb]; [|discriminate].
    destruct (String.eqb (version (msg x)) "2.0") eqn:Ever; cbn [negb]; [|discriminate].
    match goal with |- (if negb ?t then _ else _) = _ -> _ => destruct t eqn:Ed end; cbn [negb]; [|discriminate].
    match goal with |- (if negb ?t then _ else _) = _ -> _ => destruct t eqn:Et end; cbn [negb]; [|discriminate].
    intros _. split; [reflexivity|]. split; [apply kind_eqb_eq; exact Ek|]. split.
    { destruct (env x) as [e|]; [exact Eenv|]. apply negb_true_iff in Eenv. exact Eenv. }
    split.
    { intros Hsr. rewrite Hsr in Ered. cbn [andb] in Ered. apply negb_false_iff in Ered.
      destruct (passes_detached (expected x)) eqn:Epd; [|discriminate]. split; [reflexivity|].
      destruct (sigalg x) as [a|]; [|discriminate]. destruct (signature x) as [g|]; [|discriminate].
      exists a, g. auto. }
    split; [reflexivity|]. split; [apply String.eqb_eq; exact Ever|]. split; reflexivity.
  Qed.

  (* ---------- soundness: the property holds for every input ---------- *)
  Theorem soundness (x : input) : spec cert_of esign dsign x (parse x).
  Proof.
    unfold spec, spec_with. intros Hv. cbv zeta.
    apply accept_inv in Hv. cbv zeta in Hv.
    destruct Hv as (Hu & Hk & Henv & Hred & Hvi & Hver & Hd & Ht).
    split; [|split; [|split; [|split]]].
    - (* required signature *)
      intros Hreq.
      assert (Hmust : truthy (want_signed (cfg x)) || truthy (only_valid_cert (cfg x)) = true).
      { destruct Hreq as [H|H]; [apply truthy_iff in H; rewrite H; reflexivity|].
        apply truthy_iff in H. rewrite H. apply orb_true_r. }
      rewrite Hmust in Henv, Hred. cbn [andb] in Henv, Hred. split.
      + intros Hb. rewrite Hb in Hred. cbn [opt_eqb] in Hred. rewrite String.eqb_refl in Hred.
        destruct (Hred eq_refl) as [_ (a & g & Ha & Hg & Hok)].
        apply redirect_sig_sound in Hok as [Hal [k [Hs Hin]]].
        exists k, a, g. unfold sender. fold (issuer_id (msg x)).
        split; [exact Ha|]. split; [exact Hg|]. split; [exact Hs|]. split; [exact Hin|exact Hal].
      + intros Hb He. rewrite He in Henv. apply negb_false_iff in Henv.
        apply opt_str_eqb_eq in Henv. contradiction.
    - (* a present enveloped signature verifies *)
      intros e He. rewrite He in Henv. apply check_signature_sound in Henv as [Ho|[k [Hs Htr]]].
      + right. apply truthy_iff. exact Ho.
      + left. exists k. auto.
    - (* addressing *)
      intros d Hdst Hne Hex. unfold dest_ok in Hd. rewrite Hdst in Hd.
      apply orb_true_iff in Hd as [Hd|Hd]; [apply is_empty_true in Hd; contradiction|].
      pose proof (receiver_addrs_nonempty cert (cfg x) _ _ Hex) as Hn.
      destruct (receiver_addrs (cfg x) (service_of (expected x)) (binding x)) as [|a0 r] eqn:Ea;
        [contradiction Hn; reflexivity|].
      apply receiver_addrs_sound. rewrite Ea. apply mem_In. exact Hd.
    - exact Hver.
    - (* the zone was one the code reads (else valid_instance refuses): the instant denoted is the one compared *)
      unfold valid_instance in Hvi. apply andb_true_iff in Hvi as [_ Hz].
      exists (issued (msg x)). split.
      + unfold denoted. destruct (izone (msg x)); try discriminate Hz; reflexivity.
      + unfold issue_instant_ok, slack in Ht. unfold skew. lia.
  Qed.

  (* ---------- consequences stated directly ---------- *)
  Lemma requires_must (c : config) :
    requires_signed c -> truthy (want_signed c) || truthy (only_valid_cert c) = true.
  Proof.
    intros [H|H]; apply truthy_iff in H; rewrite H; [reflexivity|apply orb_true_r].
  Qed.

  (* a required signature cannot be omitted *)
  Theorem unsigned_rejected (x : input) :
    requires_signed (cfg x) -> binding x <> Some BINDING_HTTP_REDIRECT -> env x = None -> parse x <> Accept.
  Proof.
    intros Hreq Hb He Hacc. pose proof (soundness x Hacc) as [H _]. cbv zeta in H.
    destruct (H Hreq) as [_ H2]. apply (H2 Hb). exact He.
  Qed.

  Theorem unsigned_redirect_rejected (x : input) :
    requires_signed (cfg x) -> binding x = Some BINDING_HTTP_REDIRECT ->
    (sigalg x = None \/ signature x = None) -> parse x <> Accept.
  Proof.
    intros Hreq Hb Hn Hacc. pose proof (soundness x Hacc) as [H _]. cbv zeta in H.
    destruct (H Hreq) as [H1 _]. destruct (H1 Hb) as (k & sa & sg & Ha & Hg & _).
    destruct Hn as [Hn|Hn]; congruence.
  Qed.

  (* ---------- the property for the configuration as written ---------- *)
  Lemma spec_with_mono (R R' C C' : Prop) (x : input) v :
    (R' -> R) -> (C -> C') ->
    spec_with cert_of esign dsign R C x v -> spec_with cert_of esign dsign R' C' x v.
  Proof.
    unfold spec_with. intros HR HC H Hv. specialize (H Hv). cbv zeta in *.
    destruct H as (H1 & H2 & H3). split; [|split; [|exact H3]].
    - intros Hr. apply H1. apply HR. exact Hr.
    - intros e He. destruct (H2 e He) as [Hl|Hr]; [left; exact Hl|right; apply HC; exact Hr].
  Qed.

  Lemma requires_src_loaded (s : source) (x : input) : requires_src s -> requires_signed (cfg (load_src s x)).
  Proof.
    unfold requires_src, requires_signed, cert_only, load_src, load_src_with. cbn [cfg want_signed only_valid_cert].
    intros [H|H]; [left; apply says_yes_stored|right; apply says_yes_stored_ovc]; exact H.
  Qed.

  Lemma cert_only_loaded (s : source) (x : input) : cert_only (cfg (load_src s x)) -> cert_only_src s.
  Proof.
    unfold cert_only, cert_only_src, load_src, load_src_with. cbn [cfg only_valid_cert]. apply stored_ovc_not_no.
  Qed.

  (* whatever holds of a receiver configured from s in the in-memory reading holds in the as-written reading *)
  Lemma spec_src_of_spec (s : source) (x : input) v :
    spec cert_of esign dsign (load_src s x) v -> spec_src cert_of esign dsign s (load_src s x) v.
  Proof.
    unfold spec, spec_src. apply spec_with_mono; [apply requires_src_loaded|apply cert_only_loaded].
  Qed.

  Theorem soundness_src (s : source) (x : input) :
    spec_src cert_of esign dsign s (load_src s x) (parse (load_src s x)).
  Proof. apply spec_src_of_spec, soundness. Qed.

  (* ---- before 9e47ced6 (finding C07-F2): the same held only outside the misread class *)
  Definition src_guard (s : source) : Prop := ~ misread_no (s_ovc s).

  Lemma requires_src_loaded_v0 (s : source) (x : input) : requires_src s -> requires_signed (cfg (load_src_v0 s x)).
  Proof.
    unfold requires_src, requires_signed, cert_only, load_src_v0, load_src_with, stored_ovc_v0.
    cbn [cfg want_signed only_valid_cert].
    intros [H|H]; [left|right]; apply says_yes_stored; exact H.
  Qed.

  Lemma cert_only_loaded_v0 (s : source) (x : input) :
    src_guard s -> cert_only (cfg (load_src_v0 s x)) -> cert_only_src s.
  Proof.
    unfold src_guard, cert_only, cert_only_src, load_src_v0, load_src_with, stored_ovc_v0. cbn [cfg only_valid_cert].
    intros Hg Hst Hno. apply Hg. apply says_no_stored_true. split; [exact Hno|exact Hst].
  Qed.

  Theorem soundness_src_v0 (s : source) (x : input) :
    src_guard s -> spec_src cert_of esign dsign s (load_src_v0 s x) (parse (load_src_v0 s x)).
  Proof.
    intros Hg. generalize (soundness (load_src_v0 s x)). unfold spec, spec_src. apply spec_with_mono.
    - apply requires_src_loaded_v0.
    - apply cert_only_loaded_v0. exact Hg.
  Qed.

  (* the signing requirement itself needs no guard: however the requirement is spelled, a request that must
     be signed and is not is not processed *)
  Theorem unsigned_rejected_src (s : source) (x : input) :
    requires_src s -> binding x <> Some BINDING_HTTP_REDIRECT -> env x = None -> parse (load_src s x) <> Accept.
  Proof.
    intros Hreq Hb He. apply (unsigned_rejected (load_src s x)); [apply requires_src_loaded; exact Hreq|exact Hb|exact He].
  Qed.

  Theorem unsigned_redirect_rejected_src (s : source) (x : input) :
    requires_src s -> binding x = Some BINDING_HTTP_REDIRECT ->
    (sigalg x = None \/ signature x = None) -> parse (load_src s x) <> Accept.
  Proof.
    intros Hreq Hb Hn. apply (unsigned_redirect_rejected (load_src s x)); [apply requires_src_loaded; exact Hreq|exact Hb|exact Hn].
  Qed.

  (* the query entry points never see a detached signature: under a signing requirement nothing
     arrives over Redirect *)
  Theorem query_redirect_rejected (x : input) :
    requires_signed (cfg x) -> binding x = Some BINDING_HTTP_REDIRECT ->
    passes_detached (expected x) = false -> parse x <> Accept.
  Proof.
    intros Hreq Hb Hpd Hacc. apply accept_inv in Hacc. cbv zeta in Hacc.
    destruct Hacc as (_ & _ & _ & Hred & _).
    rewrite (requires_must _ Hreq), Hb in Hred. cbn [andb opt_eqb] in Hred. rewrite String.eqb_refl in Hred.
    destruct (Hred eq_refl) as [Hp _]. congruence.
  Qed.

  (* a signature that no candidate certificate verifies is fatal even where signing is optional *)
  Theorem bad_enveloped_rejected (x : input) e :
    env x = Some e -> only_valid_cert (cfg x) <> Some true ->
    (forall k, e_sig e = esign k (msg x) -> ~ trusted_cert (cfg x) (msg x) e (cert_of k)) ->
    parse x <> Accept.
  Proof.
    intros He Hovc Hbad Hacc. pose proof (soundness x Hacc) as (_ & H & _). cbv zeta in H.
    destruct (H e He) as [[k [Hs Ht]]|Hc]; [exact (Hbad k Hs Ht)|contradiction].
  Qed.

  (* the detached signature names a supported algorithm and the message names its sender *)
  Theorem detached_alg_supported (x : input) :
    requires_signed (cfg x) -> binding x = Some BINDING_HTTP_REDIRECT -> parse x = Accept ->
    exists sa, sigalg x = Some sa /\ In sa SIGNER_ALGS /\ issuer (msg x) <> None.
  Proof.
    intros Hreq Hb Hacc. apply accept_inv in Hacc. cbv zeta in Hacc.
    destruct Hacc as (_ & _ & _ & Hred & _).
    rewrite (requires_must _ Hreq), Hb in Hred. cbn [andb opt_eqb] in Hred. rewrite String.eqb_refl in Hred.
    destruct (Hred eq_refl) as [_ (a & g & Ha & Hg & Hok)]. exists a. split; [exact Ha|].
    pose proof (redirect_sig_sound _ _ _ _ _ _ Hok) as [Hin _]. split; [exact Hin|].
    unfold redirect_sig_ok in Hok. destruct (issuer (msg x)); [discriminate|discriminate].
  Qed.

  (* a SigAlg that names no signature algorithm (Spec.sig_alg) never passes for a required signature: nothing is
     "not complained about" because it could not be verified *)
  Theorem unverifiable_alg_rejected (x : input) :
    requires_signed (cfg x) -> binding x = Some BINDING_HTTP_REDIRECT ->
    (forall sa, sigalg x = Some sa -> ~ sig_alg sa) -> parse x <> Accept.
  Proof.
    intros Hreq Hb Hn Hacc. destruct (detached_alg_supported x Hreq Hb Hacc) as (sa & Ha & Hin & _).
    exact (Hn sa Ha Hin).
  Qed.

  (* an IssueInstant written with a numeric offset - legal or not - or with anything else that is no 'Z' after the
     seconds is never processed: the code reads no offset, and it refuses what it would misread *)
  Theorem zone_offset_rejected (x : input) : zone_read (izone (msg x)) = false -> parse x <> Accept.
  Proof.
    intros Hz Hacc. apply accept_inv in Hacc. cbv zeta in Hacc.
    destruct Hacc as (_ & _ & _ & _ & Hvi & _). unfold valid_instance in Hvi.
    rewrite Hz, andb_false_r in Hvi. discriminate.
  Qed.

  (* what is processed denotes an instant - the written date and time, in UTC - at most a day plus skew off
     (the lower edge included, the upper not) *)
  Theorem accepted_instant (x : input) :
    parse x = Accept ->
    denoted (msg x) = Some (issued (msg x))
    /\ (now x - 86400 - skew (cfg x) <= issued (msg x) < now x + 86400 + skew (cfg x))%Z.
  Proof.
    intros Hacc. apply accept_inv in Hacc. cbv zeta in Hacc.
    destruct Hacc as (_ & _ & _ & _ & Hvi & _ & _ & Ht). unfold valid_instance in Hvi.
    apply andb_true_iff in Hvi as [_ Hz]. split.
    - unfold denoted. destruct (izone (msg x)); try discriminate Hz; reflexivity.
    - unfold issue_instant_ok, slack in Ht. unfold skew. lia.
  Qed.

  (* what is processed is an element of the class the entry point expects, decoded by the rule of
     the binding *)
  Theorem accepted_kind (x : input) : parse x = Accept -> b_kind (msg x) = expected x.
  Proof. intros H. apply accept_inv in H. cbv zeta in H. tauto. Qed.

  (* ---------- completeness: a valid request is accepted ---------- *)
  Definition well_transported (x : input) : Prop :=
    unravel (binding x) (enc x) (has_soap_parser (expected x)) = UMsg.

  Definition good_enveloped (x : input) (e : envsig) : Prop :=
    e_shape_ok e = true /\ xsd_ok (msg x) = true
    /\ exists k, e_sig e = esign k (msg x) /\ In (cert_of k) (md_certs (cfg x) (issuer_id (msg x)))
                 /\ cert_valid (cfg x) (cert_of k) = true.

  Lemma try_certs_good cs b s last k :
    s = esign k b -> In (cert_of k) cs ->
    (forall ct, In ct cs -> everify ct b s = true -> ct = cert_of k) ->
    try_certs everify cs b s last = (true, Some (cert_of k)).
  Proof.
    intros Hs. revert last. induction cs as [|c0 r IH]; intros last Hin Huniq; [contradiction|].
    cbn [try_certs]. destruct (everify c0 b s) eqn:E.
    - rewrite (Huniq c0 (or_introl eq_refl) E). reflexivity.
    - destruct Hin as [ -> |Hin].
      + assert (everify (cert_of k) b s = true) by (apply everify_spec; exists k; auto). congruence.
      + apply IH; [exact Hin|]. intros ct Hct. apply Huniq. right; exact Hct.
  Qed.

  (* a signature identifies the key that made it (needed only to name the certificate the
     verification loop stops at, whose validity CertHandler.verify_cert then examines) *)
  Hypothesis esign_inj : forall k k' b, esign k b = esign k' b -> k = k'.

  Lemma check_signature_complete (x : input) e ovc :
    good_enveloped x e -> check_signature everify (cfg x) (msg x) e ovc = true.
  Proof.
    intros (Hsh & Hxsd & k & Hs & Hin & Hcv). unfold check_signature, candidates.
    destruct (md_certs (cfg x) (issuer_id (msg x))) as [|c0 r] eqn:Em; [contradiction|].
    rewrite Hxsd, Hsh. cbn [negb].
    rewrite (try_certs_good (c0 :: r) (msg x) (e_sig e) None k Hs Hin).
    - cbn [orb]. exact Hcv.
    - intros ct _ Hv. apply everify_spec in Hv as [k' [ -> Hs']]. rewrite Hs in Hs'.
      apply esign_inj in Hs'. subst. reflexivity.
  Qed.

  Theorem completeness (x : input) :
    well_transported x ->
    b_kind (msg x) = expected x ->
    (* signatures *)
    (forall e, env x = Some e -> good_enveloped x e) ->
    (requires_signed (cfg x) -> binding x <> Some BINDING_HTTP_REDIRECT -> env x <> None) ->
    (requires_signed (cfg x) -> binding x = Some BINDING_HTTP_REDIRECT ->
       passes_detached (expected x) = true /\ issuer (msg x) <> None /\
       exists k sa, sigalg x = Some sa /\ In sa SIGNER_ALGS
                    /\ signature x = Some (dsign k (origdoc x, relay_state x, sa))
                    /\ In (cert_of k) (md_certs (cfg x) (issuer_id (msg x)))) ->
    (* well-formed, addressed to the receiver, current *)
    inst_ok (msg x) = true -> zone_read (izone (msg x)) = true -> version (msg x) = "2.0" ->
    (forall d, destination (msg x) = Some d ->
       In d (receiver_addrs (cfg x) (service_of (expected x)) (binding x))) ->
    (now x - 86400 - slack (cfg x) <= issued (msg x) < now x + 86400 + slack (cfg x))%Z ->
    parse x = Accept.
  Proof.
    intros Hw Hk Henv Hpost Hred Hinst Hzone Hver Hdst Ht.
    unfold parse_request. cbv zeta.
    assert (Ek : kind_eqb (b_kind (msg x)) (expected x) = true) by (apply kind_eqb_eq; exact Hk).
    rewrite Ek. unfold well_transported in Hw. cbn [andb]. rewrite Hw. cbn [negb].
    set (ovc := truthy (only_valid_cert (cfg x))).
    set (must := truthy (want_signed (cfg x)) || ovc).
    assert (Hmust : must = true -> requires_signed (cfg x)).
    { unfold must, ovc. intros H. apply orb_true_iff in H as [H|H]; apply truthy_iff in H; [left|right]; exact H. }
    (* enveloped *)
    assert (E1 : match env x with
                 | Some e => check_signature everify (cfg x) (msg x) e ovc
                 | None => negb (must && negb (must && opt_eqb String.eqb (binding x) (Some BINDING_HTTP_REDIRECT)))
                 end = true).
    { destruct (env x) as [e|] eqn:Ee.
      - apply check_signature_complete. apply Henv. reflexivity.
      - destruct must eqn:Em; [|reflexivity]. cbn [andb].
        destruct (opt_eqb String.eqb (binding x) (Some BINDING_HTTP_REDIRECT)) eqn:Eb; [reflexivity|].
        exfalso. apply (Hpost (Hmust eq_refl)); [|reflexivity].
        intros Hb. apply opt_str_eqb_eq in Hb. congruence. }
    rewrite E1. cbn [negb].
    (* detached *)
    assert (E2 : must && opt_eqb String.eqb (binding x) (Some BINDING_HTTP_REDIRECT)
                 && negb match (if passes_detached (expected x) then sigalg x else None),
                               (if passes_detached (expected x) then signature x else None) with
                         | Some a, Some g => redirect_sig_ok dverify (cfg x) (msg x) (origdoc x)
                                               (if passes_detached (expected x) then relay_state x else None) a g
                         | _, _ => false
                         end = false).
    { destruct must eqn:Em; [|reflexivity]. cbn [andb].
      destruct (opt_eqb String.eqb (binding x) (Some BINDING_HTTP_REDIRECT)) eqn:Eb; [|reflexivity].
      cbn [andb]. apply negb_false_iff. apply opt_str_eqb_eq in Eb.
      destruct (Hred (Hmust eq_refl) Eb) as (Hpd & Hiss & k & sa & Hsa & Hal & Hsg & Hin).
      rewrite Hpd, Hsa, Hsg. unfold redirect_sig_ok.
      destruct (issuer (msg x)); [|contradiction Hiss; reflexivity].
      apply andb_true_iff. split; [apply mem_In; exact Hal|].
      apply existsb_exists. exists (cert_of k). split; [exact Hin|].
      apply dverify_spec. exists k. auto. }
    rewrite E2.
    unfold valid_instance. rewrite Hinst, Hzone, Hver. cbn [is_empty negb andb String.eqb Ascii.eqb Bool.eqb].
    assert (E3 : dest_ok (receiver_addrs (cfg x) (service_of (expected x)) (binding x)) (msg x) = true).
    { unfold dest_ok. destruct (destination (msg x)) as [d|] eqn:Ed; [|reflexivity].
      apply orb_true_iff. right. specialize (Hdst d eq_refl).
      destruct (receiver_addrs (cfg x) (service_of (expected x)) (binding x)); [reflexivity|].
      apply mem_In. exact Hdst. }
    rewrite E3. cbn [negb].
    assert (E4 : issue_instant_ok (cfg x) (now x) (msg x) = true) by (clear - Ht; unfold issue_instant_ok; lia).
    rewrite E4. reflexivity.
  Qed.

  (* ---------- lives: receivers in one process, metadata reloads ---------- *)
  Notation op := (op cert esig dsig doc).
  Notation life := (run_life everify dverify).

  Lemma run_life_app st (a b : list op) :
    life st (a ++ b) = (life st a ++ life (state_after st a) b)%list.
  Proof.
    revert st. induction a as [|o a IH]; intros st; [reflexivity|].
    destruct o as [r x|r m|r]; cbn [app run_life state_after]; rewrite IH; reflexivity.
  Qed.

  Lemma state_after_app st (a b : list op) : state_after st (a ++ b) = state_after (state_after st a) b.
  Proof.
    revert st. induction a as [|o a IH]; intros st; [reflexivity|].
    destruct o as [r x|r m|r]; cbn [app state_after]; apply IH.
  Qed.

  (* every request of a life is judged by parse_request against the metadata its receiver holds at
     that moment: the one it was built with or the one of the last successful reload OF THAT receiver *)
  Theorem life_current_md st (pre : list op) r x :
    life st (pre ++ [Req r x])
    = (life st pre ++ [(with_md x (state_after st pre r), parse (with_md x (state_after st pre r)))])%list.
  Proof. rewrite run_life_app. reflexivity. Qed.

  Theorem state_after_reload st (pre : list op) r m r' :
    state_after st (pre ++ [Reload r m]) r' = if Nat.eqb r' r then m else state_after st pre r'.
  Proof. rewrite state_after_app. reflexivity. Qed.

  Theorem state_after_no_trace st (pre : list op) o :
    (forall r m, o <> Reload r m) -> state_after st (pre ++ [o]) = state_after st pre.
  Proof.
    intros Ho. rewrite state_after_app. destruct o as [r x|r m|r]; [reflexivity| |reflexivity].
    exfalso. apply (Ho r m). reflexivity.
  Qed.

  (* the property holds of every request of every life *)
  Theorem life_sound st (ops : list op) :
    Forall (fun p => spec cert_of esign dsign (fst p) (snd p)) (life st ops).
  Proof.
    revert st. induction ops as [|o t IH]; intros st; [constructor|].
    destruct o as [r x|r m|r]; cbn [run_life]; [|apply IH|apply IH].
    constructor; [apply soundness|apply IH].
  Qed.

  (* ... also in the as-written reading, for every request whose receiver was configured from a source
     outside the finding class (with_md and load_src commute: metadata and options are separate fields) *)
  Lemma with_md_load_src (s : source) (x : input) m : with_md (load_src s x) m = load_src s (with_md x m).
  Proof. reflexivity. Qed.

  Theorem life_sound_src st (ops : list op) :
    Forall (fun p => forall s x0, fst p = load_src s x0 -> spec_src cert_of esign dsign s (fst p) (snd p))
           (life st ops).
  Proof.
    pose proof (life_sound st ops) as H. revert H. apply Forall_impl.
    intros [x v] Hs s x0 E. cbn [fst snd] in *. subst x. apply spec_src_of_spec; assumption.
  Qed.

  Lemma md_certs_with_md (x : input) m : md_certs (cfg (with_md x m)) = m.
  Proof. reflexivity. Qed.

  (* key roll-over: once receiver r has reloaded metadata m, a Redirect request to r under a signing
     requirement whose detached signature was made with a key that m does not list for the sender is
     rejected — whatever was accepted before, on this receiver or on any other *)
  Theorem retired_key_rejected st (pre : list op) r x :
    requires_signed (cfg x) -> binding x = Some BINDING_HTTP_REDIRECT ->
    (forall k sa, sigalg x = Some sa -> signature x = Some (dsign k (origdoc x, relay_state x, sa)) ->
       ~ In (cert_of k) (state_after st pre r (sender (msg x)))) ->
    parse (with_md x (state_after st pre r)) <> Accept.
  Proof.
    intros Hreq Hb Hk Hacc.
    pose proof (soundness _ Hacc) as [H _]. cbv zeta in H.
    destruct (H Hreq) as [H1 _]. destruct (H1 Hb) as (k & sa & sg & Ha & Hg & Hs & Hm & _).
    subst sg. apply (Hk k sa Ha Hg). exact Hm.
  Qed.
End Proofs.

Arguments well_transported {cert esig dsig doc}.
Arguments good_enveloped {key cert esig dsig doc}.
