(* C07/Source2.v — tie of the model to the source TEXT through translator v2 (harness/py2coq2.py,
   Base/Py2.v).  coq/gen/C07Src2.v and coq/gen/C07Src2l.v are re-generated from /repo's current source on
   every run; each theorem here says: the translated function, applied to the encoding of the model's
   input, is the encoding of what the model function it mirrors answers — for ALL inputs.  External
   calls (XML parsing, xmlsec1, RSA, metadata / configuration lookups, object construction) are Section
   variables with hypotheses; every Section ends with an Example showing the hypotheses satisfiable.

     Request.sender                           <->  Model.issuer_id
     Request._do_redirect_sig_check           <->  Model.redirect_sig_ok
     SecurityContext.correctly_signed_message <->  the enveloped-signature step of Model.parse_request
     Request._loads                           <->  loads_verdict (the signature + validity steps of Model.parse_request)
     Entity._parse_request                    <->  Model.receiver_addrs, Model.slack, must / only_valid_cert, verify() honoured *)
From Coq Require Import String Ascii List Bool ZArith Arith Lia.
From Verif Require Import Base.Str Base.Py Base.Py2 C07.Model.
From VerifGen Require Import C07Src2 C07Src2l.
Import ListNotations.
Open Scope string_scope.

(* ------------------------------------------------------------------ encodings *)
Definition enc_ostr (o : option string) : pyval := match o with Some s => PStr s | None => PNone end.
Definition enc_obool (o : option bool) : pyval := match o with Some b => PBool b | None => PNone end.

(* saml.Issuer / absent *)
Definition enc_issuer (o : option string) : pyval :=
  match o with Some s => PObj [("__class__", PStr "Issuer"); ("text", PStr s)] | None => PNone end.

(* the parsed protocol message; [sg]: its ds:Signature child (an object) or None *)
Definition enc_message (b : body) (sg : pyval) : pyval :=
  PObj [("__class__", PStr "Message"); ("version", PStr (version b)); ("destination", enc_ostr (destination b));
        ("issuer", enc_issuer (issuer b)); ("signature", sg)].

Definition enc_sec : pyval := PObj [("__class__", PStr "SecurityContext"); ("sec_backend", PNone)].

(* a saml2.request.Request object *)
Definition enc_request_obj (msg : pyval) (addrs : list string) (slack : Z) : pyval :=
  PObj [("__class__", PStr "Request"); ("sec", enc_sec); ("receiver_addrs", PList (map PStr addrs));
        ("timeslack", PInt slack); ("xmlstr", PStr ""); ("message", msg)].

(* ================================================================== Request.sender *)
Theorem src2_sender_is_model : forall b sg addrs sl,
  (forall s, issuer b = Some s -> end_ascii (strip s) = true) ->
  src2_sender (enc_request_obj (enc_message b sg) addrs sl)
  = match issuer_id b with Some s => PStr s | None => PExc "AttributeError" end.
Proof.
  intros b sg addrs sl Hasc. unfold src2_sender, issuer_id, enc_request_obj, enc_message.
  destruct (issuer b) as [s|] eqn:Ei; cbn [option_map enc_issuer].
  - cbn. unfold guard_ends. rewrite (Hasc s eq_refl). reflexivity.
  - reflexivity.
Qed.

Example sender_hyp_sat : forall s, Some "https://sp.example.org/sp.xml" = Some s -> end_ascii (strip s) = true.
Proof. intros s E. inversion E. reflexivity. Qed.

(* ================================================================== Request._do_redirect_sig_check *)
Section Redirect.
  Variables cert dsig doc : Type.
  Variable dverify : cert -> (doc * option string * string) -> dsig -> bool.
  (* how a certificate of the model appears to the code (the PEM body metadata.certs hands out) *)
  Variable enc_cert : cert -> pyval.
  Hypothesis enc_cert_good : forall ct, is_bad (enc_cert ct) = false.
  (* externals *)
  Variable md_certs_py : pyval -> pyval.               (* self.sec.metadata.certs(issuer, "any", "signing") *)
  Variable verify_sig : pyval -> pyval -> pyval.       (* verify_redirect_signature(_saml_msg, backend, cert) *)

  Definition enc_pair (ct : cert) : pyval := PList [PStr "cert"; enc_cert ct].

  (* what verify_redirect_signature answered for one certificate *)
  Inductive vres := VOk (ok : bool) | VNone | VValueError | VOther (n : string).
  Definition enc_vres (r : vres) : pyval :=
    match r with VOk b => PBool b | VNone => PNone | VValueError => PExc "ValueError" | VOther n => PExc n end.

  (* the loop of _do_redirect_sig_check, as a function of the per-certificate answers *)
  Fixpoint sig_loop (vr : cert -> vres) (l : list cert) : pyval :=
    match l with
    | [] => PBool false
    | ct :: r => match vr ct with
                 | VOk true => PBool true
                 | VOk false | VNone | VValueError => sig_loop vr r
                 | VOther n => if exc_matches n ["ValueError"; "UnicodeDecodeError"; "UnicodeEncodeError"; "UnicodeError"]
                               then sig_loop vr r else PExc n
                 end
    end.

  Definition loop_body (self msg : pyval) : list pyval -> pyval -> ctl2 :=
    fun st_4 x_5 => match st_4 with [v_verified; v_exc] =>
    (match p2_unpack 2 x_5 with
    | PList [v_cert_name; v_cert] => (match p2_branch (py_bind msg (fun a_9 => (py_bind (p2_attr_x (p2_attr_x self "sec") "sec_backend") (fun a_10 => (py_bind v_cert (fun a_11 => (verify_sig a_9 a_11))))))) with
    | BTrue => (let v_verified := (PBool true) in
    (BrkS [v_verified; v_exc]))
    | BFalse => (NextS [v_verified; v_exc])
    | BExc n_12 => (if exc_matches n_12 ["ValueError"; "UnicodeDecodeError"; "UnicodeEncodeError"; "UnicodeError"]
    then (let v_exc := PExc n_12 in
    (let v_exc := PErr in (NextS [v_verified; v_exc])))
    else (ExcS n_12 [v_verified; v_exc]))
    | BErr => (RetS PErr)
    end)
    | PExc n_13 => (ExcS n_13 [v_verified; v_exc])
    | _ => (RetS PErr)
    end)
   | _ => RetS PErr end.

  Lemma loop_run (vr : cert -> vres) self msg l e :
    is_bad msg = false ->
    p2_attr_x (p2_attr_x self "sec") "sec_backend" = PNone ->
    (forall ct, verify_sig msg (enc_cert ct) = enc_vres (vr ct)) ->
    match pyfor2 (map enc_pair l) [PBool false; e] (loop_body self msg) with
    | NextS [v; _] | BrkS [v; _] => v
    | ExcS n [_; _] => PExc n
    | RetS r => r
    | _ => PErr
    end = sig_loop vr l.
  Proof.
    intros Hm Hs Hv. revert e. induction l as [|ct r IH]; intros e; [reflexivity|].
    cbn [map pyfor2 sig_loop]. unfold loop_body at 1. unfold enc_pair at 1. cbn [p2_unpack length Nat.eqb].
    rewrite (py_bind_good msg) by exact Hm. rewrite Hs. cbn [py_bind].
    rewrite (py_bind_good (enc_cert ct)) by apply enc_cert_good. rewrite Hv.
    destruct (vr ct) as [[|]| | |n]; cbn [enc_vres p2_branch py_truthy].
    - reflexivity.
    - apply IH.
    - apply IH.
    - cbn [exc_matches mem String.eqb Ascii.eqb Bool.eqb orb]. apply IH.
    - destruct (exc_matches n _) eqn:En; [apply IH|reflexivity].
  Qed.

  (* general form: any answers of the verifier *)
  Theorem src2_redirect_sig_check_loop : forall (vr : cert -> vres) b sg addrs sl msg (certs : list cert),
    (forall s, issuer b = Some s -> end_ascii (strip s) = true) ->
    is_bad msg = false ->
    (forall s, issuer_id b = Some s -> md_certs_py (PStr s) = PList (map enc_pair certs)) ->
    (forall ct, verify_sig msg (enc_cert ct) = enc_vres (vr ct)) ->
    src2_redirect_sig_check md_certs_py verify_sig (enc_request_obj (enc_message b sg) addrs sl) msg
    = match issuer_id b with None => PExc "AttributeError" | Some _ => sig_loop vr certs end.
  Proof.
    intros vr b sg addrs sl msg certs Hasc Hm Hmd Hv. unfold src2_redirect_sig_check.
    rewrite (src2_sender_is_model b sg addrs sl Hasc).
    destruct (issuer_id b) as [s|] eqn:Ei; [|reflexivity].
    cbn [py_bind]. rewrite (Hmd s eq_refl). cbn [py_bind p2_iter_check p2_iterable py_iter2].
    fold (loop_body (enc_request_obj (enc_message b sg) addrs sl) msg).
    rewrite <- (loop_run vr (enc_request_obj (enc_message b sg) addrs sl) msg certs PErr Hm eq_refl Hv).
    destruct (pyfor2 _ _ _) as [[|v [|w [|]]]|[|v [|w [|]]]|r|n [|v [|w [|]]]]; reflexivity.
  Qed.

  (* the model's instance: the verifier answers "supported algorithm and the signature verifies" *)
  Lemma sig_loop_ok (f : cert -> bool) l : sig_loop (fun ct => VOk (f ct)) l = PBool (existsb f l).
  Proof. induction l as [|ct r IH]; [reflexivity|]. cbn [sig_loop existsb]. destruct (f ct); [reflexivity|exact IH]. Qed.

  Lemma existsb_andb_const (a : bool) (f : cert -> bool) l : existsb (fun ct => a && f ct) l = a && existsb f l.
  Proof. induction l as [|x r IH]; cbn [existsb]; [destruct a; reflexivity|]. rewrite IH. destruct a, (f x); reflexivity. Qed.

  Theorem src2_redirect_sig_check_is_model : forall (c : config cert) b sg addrs sl msg od rs sa g,
    (forall s, issuer b = Some s -> end_ascii (strip s) = true) ->
    is_bad msg = false ->
    (forall s, issuer_id b = Some s -> md_certs_py (PStr s) = PList (map enc_pair (md_certs c (Some s)))) ->
    (forall ct, verify_sig msg (enc_cert ct) = PBool (supported_alg sa && dverify ct (od, rs, sa) g)) ->
    src2_redirect_sig_check md_certs_py verify_sig (enc_request_obj (enc_message b sg) addrs sl) msg
    = match issuer b with
      | None => PExc "AttributeError"
      | Some _ => PBool (redirect_sig_ok dverify c b od rs sa g)
      end.
  Proof.
    intros c b sg addrs sl msg od rs sa g Hasc Hm Hmd Hv.
    case_eq (issuer b); [intros s0 Ei|intros Ei].
    - assert (Eid : issuer_id b = Some (strip s0)) by (unfold issuer_id; rewrite Ei; reflexivity).
      rewrite (src2_redirect_sig_check_loop
                 (fun ct => VOk (supported_alg sa && dverify ct (od, rs, sa) g)) b sg addrs sl msg
                 (md_certs c (Some (strip s0))) Hasc Hm).
      + rewrite Eid, sig_loop_ok, existsb_andb_const. unfold redirect_sig_ok. rewrite Ei, Eid. reflexivity.
      + intros s Hs. rewrite Eid in Hs. inversion Hs; subst. apply Hmd. exact Eid.
      + intros ct. cbn [enc_vres]. apply Hv.
    - assert (Eid : issuer_id b = None) by (unfold issuer_id; rewrite Ei; reflexivity).
      rewrite (src2_redirect_sig_check_loop
                 (fun ct => VOk (supported_alg sa && dverify ct (od, rs, sa) g)) b sg addrs sl msg [] Hasc Hm).
      + rewrite Eid. reflexivity.
      + intros s Hs. rewrite Eid in Hs. discriminate.
      + intros ct. cbn [enc_vres]. apply Hv.
  Qed.
End Redirect.

Example redirect_hyps_sat :
  let enc_cert := fun n : nat => PInt (Z.of_nat n) in
  let c := Build_config "idp" (fun _ _ => []) (Some true) None None true (fun _ => [1; 2]%nat) (fun _ => true) in
  let b := Build_body AuthnRequest "2.0" None 0 ZUtc (Some " https://sp.example.org/sp.xml ") true true 0 in
  let sa := "http://www.w3.org/2001/04/xmldsig-more#rsa-sha256" in
  let dverify := fun (ct : nat) (_ : nat * option string * string) (_ : nat) => Nat.eqb ct 2 in
  let md := fun _ : pyval => PList (map (enc_pair nat enc_cert) [1; 2]%nat) in
  let vs := fun (_ v : pyval) => match v with PInt z => PBool (supported_alg sa && Z.eqb z 2) | _ => PErr end in
  let msg := PObj [("SAMLRequest", PStr "x")] in
  (forall ct, is_bad (enc_cert ct) = false)
  /\ (forall s, issuer b = Some s -> end_ascii (strip s) = true)
  /\ (forall s, issuer_id b = Some s -> md (PStr s) = PList (map (enc_pair nat enc_cert) (md_certs c (Some s))))
  /\ (forall ct, vs msg (enc_cert ct) = PBool (supported_alg sa && dverify ct (0%nat, None, sa) 0%nat))
  /\ src2_redirect_sig_check md vs (enc_request_obj (enc_message b PNone) [] 0) msg = PBool true.
Proof.
  cbv zeta. split; [reflexivity|]. split; [intros s E; inversion E; reflexivity|]. split; [reflexivity|].
  split; [|vm_compute; reflexivity].
  intros ct. cbn [andb]. f_equal. f_equal. destruct (Nat.eqb ct 2) eqn:E.
  - apply Nat.eqb_eq in E. subst. reflexivity.
  - apply Z.eqb_neq. apply Nat.eqb_neq in E. lia.
Qed.

(* ================================================================== SecurityContext.correctly_signed_message *)
Section SignedMessage.
  Variables cert esig : Type.
  Variable everify : cert -> body -> esig -> bool.
  (* externals: <msgtype>_from_string (None when the text is not an element of that class) and
     SecurityContext._check_signature(decoded_xml, msg, class_name(msg), origdoc, must=, only_valid_cert=) *)
  Variable parse : pyval -> pyval -> pyval.
  Variable check_sig : pyval -> pyval -> pyval -> pyval -> pyval.

  Definition enc_sig (e : option (envsig cert esig)) : pyval :=
    match e with Some _ => PObj [("__class__", PStr "Signature")] | None => PNone end.

  Theorem src2_correctly_signed_message_is_model :
    forall (c : config cert) (b : body) (e : option (envsig cert esig)) (kind_ok : bool) (must : option bool) (ovc : bool)
           (xml mt : string) (self origdoc : pyval),
    let M := enc_message b (enc_sig e) in
    is_bad self = false -> is_bad origdoc = false ->
    (forall a, parse (PStr a) (PStr xml) = if kind_ok then M else PNone) ->
    (forall e', e = Some e' ->
       check_sig (PStr xml) M (enc_obool must) (PBool ovc)
       = if check_signature everify c b e' ovc then M else PExc "SignatureError") ->
    src2_correctly_signed_message parse check_sig self (PStr xml) (PStr mt) (enc_obool must) origdoc (PBool ovc)
    = if negb kind_ok then PExc "TypeError"
      else if match e with
              | None => negb (truthy must)
              | Some e' => check_signature everify c b e' ovc
              end
           then M else PExc "SignatureError".
  Proof.
    intros c b e kind_ok must ovc xml mt self origdoc M Hself Horig Hparse Hchk.
    unfold src2_correctly_signed_message.
    cbn [p2_str s1 py_bind p2_fconcat]. rewrite Hparse.
    destruct kind_ok; cbn [negb].
    2:{ reflexivity. }
    subst M. destruct e as [e'|]; cbn [enc_sig].
    - specialize (Hchk e' eq_refl). cbn [enc_sig] in Hchk. unfold enc_message in *.
      cbn. rewrite (py_bind_good origdoc) by exact Horig.
      destruct must as [[|]|]; cbn [enc_obool py_bind] in *; rewrite Hchk; reflexivity.
    - destruct must as [[|]|]; reflexivity.
  Qed.
End SignedMessage.

Example signed_message_hyps_sat :
  let c := Build_config "idp" (fun _ _ => []) (Some true) None None true (fun _ => [1%nat]) (fun _ => true) in
  let b := Build_body AuthnRequest "2.0" None 0 ZUtc (Some "https://sp.example.org/sp.xml") true true 0 in
  let ev := fun (ct : nat) (_ : body) (s : nat) => Nat.eqb ct s in
  let e := Some (Build_envsig 1%nat true ([] : list nat)) in
  let M := enc_message b (enc_sig nat nat e) in
  let parse := fun _ _ : pyval => M in
  let chk := fun _ m _ _ : pyval => m in
  (forall a, parse (PStr a) (PStr "<x/>") = if true then M else PNone)
  /\ (forall e', e = Some e' ->
        chk (PStr "<x/>") M (enc_obool (Some true)) (PBool false)
        = if check_signature ev c b e' false then M else PExc "SignatureError")
  /\ src2_correctly_signed_message parse chk PNone (PStr "<x/>") (PStr "authn_request") (PBool true) PNone (PBool false) = M.
Proof.
  cbv zeta. split; [reflexivity|]. split; [intros e' E; inversion E; reflexivity|vm_compute; reflexivity].
Qed.

(* ================================================================== Request._loads *)
Lemma substring_all s : substring 0 (String.length s) s = s.
Proof. induction s as [|a s IH]; [reflexivity|]. cbn [String.length substring]. rewrite IH. reflexivity. Qed.

Lemma p2_slice_copy s : all_ascii s = true -> p2_slice (PStr s) PNone PNone = PStr s.
Proof.
  intros H. cbn. rewrite H, Nat.sub_0_r, substring_all. reflexivity.
Qed.

Section Loads.
  Variables cert esig dsig doc : Type.
  Variable everify : cert -> body -> esig -> bool.
  Variable dverify : cert -> (doc * option string * string) -> dsig -> bool.
  (* how the SAMLRequest parameter and the Signature parameter appear to the code *)
  Variable enc_doc : doc -> pyval.
  Variable enc_dsig : dsig -> pyval.
  Hypothesis enc_doc_good : forall d, is_bad (enc_doc d) = false.
  Hypothesis enc_dsig_good : forall g, is_bad (enc_dsig g) = false /\ enc_dsig g <> PNone.
  (* externals: self.signature_check(xmldata, origdoc=, must=, only_valid_cert=) (= correctly_signed_<class>),
     self._do_redirect_sig_check(_saml_msg), validate.valid_instance(message) *)
  Variable signature_check : pyval -> pyval -> pyval -> pyval -> pyval.
  Variable redirect_sig_check : pyval -> pyval -> pyval.
  Variable valid_instance_py : pyval -> pyval.

  (* the signature and validity steps of Model.parse_request, as one function of what Request._loads is handed *)
  Definition loads_verdict (c : config cert) (b : body) (kind_ok : bool) (e : option (envsig cert esig))
      (bnd : option string) (od : doc) (must ovc : bool) (rs sa : option string) (sg : option dsig) : verdict :=
    let sign_redirect := must && opt_eqb String.eqb bnd (Some BINDING_HTTP_REDIRECT) in
    let sign_post := must && negb sign_redirect in
    if negb kind_ok then RejSig
    else if negb (match e with
                  | None => negb sign_post
                  | Some e' => check_signature everify c b e' ovc
                  end) then RejSig
    else if sign_redirect && negb (match sa, sg with
                                   | Some a, Some g => redirect_sig_ok dverify c b od rs a g
                                   | _, _ => false
                                   end) then RejSig
    else if negb (valid_instance b) then RejInvalid
    else Accept.

  (* ... which is what parse_request does between unravel and _verify *)
  Lemma parse_request_split (x : input cert esig dsig doc) :
    parse_request everify dverify x =
    let c := cfg x in
    let kind_ok := kind_eqb (b_kind (msg x)) (expected x) in
    match unravel (binding x) (enc x) (kind_ok && has_soap_parser (expected x)) with
    | UBadBinding => RejBinding
    | UFail => RejUnravel
    | UText => RejSig
    | UMsg =>
      let ovc := truthy (only_valid_cert c) in
      let must := truthy (want_signed c) || ovc in
      let pd := passes_detached (expected x) in
      match loads_verdict c (msg x) kind_ok (env x) (binding x) (origdoc x) must ovc
              (if pd then relay_state x else None) (if pd then sigalg x else None) (if pd then signature x else None) with
      | Accept =>
          if negb (String.eqb (version (msg x)) "2.0") then RejVersion
          else if negb (dest_ok (receiver_addrs c (service_of (expected x)) (binding x)) (msg x)) then RejDest
          else if negb (issue_instant_ok c (now x) (msg x)) then RejStale
          else Accept
      | v => v
      end
    end.
  Proof.
    unfold parse_request, loads_verdict. cbv zeta.
    destruct (unravel _ _ _); try reflexivity.
    destruct (negb (kind_eqb (b_kind (msg x)) (expected x))); [reflexivity|].
    match goal with |- (if negb ?t then _ else _) = _ => destruct t end; cbn [negb]; [|reflexivity].
    match goal with |- (if ?t then _ else _) = _ => destruct t end; [reflexivity|].
    destruct (negb (valid_instance (msg x))); reflexivity.
  Qed.

  Definition sign_redirect_b (must : option bool) (bnd : option string) : bool :=
    truthy must && opt_eqb String.eqb bnd (Some BINDING_HTTP_REDIRECT).
  (* the value of `must and not sign_redirect` *)
  Definition sign_post_py (must : option bool) (bnd : option string) : pyval :=
    if truthy must then PBool (negb (sign_redirect_b must bnd)) else enc_obool must.

  Definition saml_msg_dict (od : doc) (rs : option string) (a : string) (g : dsig) : pyval :=
    PObj ([("SAMLRequest", enc_doc od); ("Signature", enc_dsig g); ("SigAlg", PStr a)]
          ++ match rs with Some r => [("RelayState", PStr r)] | None => [] end).

  Definition loaded (xml : string) (M : pyval) (addrs : list string) (sl : Z) : pyval :=
    PObj [("__class__", PStr "Request"); ("sec", enc_sec); ("receiver_addrs", PList (map PStr addrs));
          ("timeslack", PInt sl); ("xmlstr", PStr xml); ("message", M)].

  Lemma truthy_sign_post must bnd :
    py_truthy (sign_post_py must bnd) = truthy must && negb (sign_redirect_b must bnd).
  Proof. unfold sign_post_py. destruct must as [[|]|]; reflexivity. Qed.

  Theorem src2_loads_is_model :
    forall (c : config cert) (b : body) (kind_ok : bool) (e : option (envsig cert esig)) (bnd : option string) (od : doc)
           (must : option bool) (ovc : bool) (rs sa : option string) (sg : option dsig)
           (xml : string) (addrs : list string) (sl : Z) (sgv : pyval) (n1 : string),
    let M := enc_message b sgv in
    all_ascii xml = true -> is_bad sgv = false ->
    (* correctly_signed_<class> answers the message or raises (Source2: src2_correctly_signed_message_is_model) *)
    signature_check (PStr xml) (enc_doc od) (sign_post_py must bnd) (PBool ovc)
      = (if kind_ok && match e with
                       | None => negb (py_truthy (sign_post_py must bnd))
                       | Some e' => check_signature everify c b e' ovc
                       end
         then M else PExc n1) ->
    (* _do_redirect_sig_check answers as in src2_redirect_sig_check_is_model *)
    (forall s' a g, sa = Some a -> sg = Some g ->
       redirect_sig_check s' (saml_msg_dict od rs a g)
       = match issuer b with None => PExc "AttributeError" | Some _ => PBool (redirect_sig_ok dverify c b od rs a g) end) ->
    valid_instance_py M = (if valid_instance b then PNone else PExc "NotValid") ->
    src2_loads signature_check redirect_sig_check valid_instance_py
      (enc_request_obj PNone addrs sl) (PStr xml) (enc_ostr bnd) (enc_doc od) (enc_obool must) (PBool ovc)
      (enc_ostr rs) (enc_ostr sa) (match sg with Some g => enc_dsig g | None => PNone end)
    = match loads_verdict c b kind_ok e bnd od (truthy must) ovc rs sa sg with
      | Accept => loaded xml M addrs sl
      | RejInvalid => PExc "NotValid"
      | _ => PExc "IncorrectlySigned"
      end.
  Proof.
    intros c b kind_ok e bnd od must ovc rs sa sg xml addrs sl sgv n1 M Hasc Hsgv Hsc Hrc Hvi.
    unfold src2_loads. rewrite (p2_slice_copy xml Hasc). cbn [py_bind].
    unfold enc_request_obj at 1. cbn [p2_setattr s2 py_bind is_obj String.eqb Ascii.eqb Bool.eqb andb attr_name_ok negb set_assoc].
    (* sign_redirect / sign_post as the code computes them *)
    assert (Esr : p2_and (enc_obool must) (p2_eq (enc_ostr bnd) (PStr "urn:oasis:names:tc:SAML:2.0:bindings:HTTP-Redirect"))
                  = if truthy must then PBool (sign_redirect_b must bnd) else enc_obool must).
    { unfold sign_redirect_b. destruct must as [[|]|]; cbn [enc_obool p2_and py_truthy truthy andb]; try reflexivity.
      destruct bnd as [s|]; reflexivity. }
    rewrite Esr.
    assert (Eg : is_bad (if truthy must then PBool (sign_redirect_b must bnd) else enc_obool must) = false)
      by (destruct must as [[|]|]; reflexivity).
    rewrite (py_bind_good _ _ Eg).
    assert (Esp : p2_and (enc_obool must) (p2_not (if truthy must then PBool (sign_redirect_b must bnd) else enc_obool must))
                  = sign_post_py must bnd).
    { unfold sign_post_py. destruct must as [[|]|]; reflexivity. }
    rewrite Esp.
    assert (Egp : is_bad (sign_post_py must bnd) = false) by (unfold sign_post_py; destruct must as [[|]|]; reflexivity).
    rewrite (py_bind_good _ _ Egp).
    cbv zeta. cbn [py_bind].
    rewrite (py_bind_good (enc_doc od)) by apply enc_doc_good.
    rewrite (py_bind_good (sign_post_py must bnd)) by exact Egp. cbn [py_bind].
    rewrite Hsc. unfold loads_verdict. cbv zeta.
    rewrite truthy_sign_post. fold (sign_redirect_b must bnd).
    set (SR := sign_redirect_b must bnd).
    assert (Etr : py_truthy (if truthy must then PBool SR else enc_obool must) = SR).
    { unfold SR, sign_redirect_b. destruct must as [[|]|]; reflexivity. }
    destruct kind_ok; cbn [andb negb].
    2:{ reflexivity. }
    match goal with |- context [if ?t then M else PExc n1] => destruct t eqn:Eenv end.
    2:{ reflexivity. }
    cbn [negb].
    (* the message is stored *)
    assert (HM : is_bad M = false) by reflexivity.
    rewrite (py_bindh_good _ M) by exact HM.
    subst M. unfold enc_message at 1.
    cbn [p2_setattr s2 py_bind py_bindh p2_bind is_obj String.eqb Ascii.eqb Bool.eqb andb attr_name_ok negb set_assoc].
    fold (enc_message b sgv). fold (loaded xml (enc_message b sgv) addrs sl).
    subst SR. rewrite (p2_branch_good _ Eg), Etr.
    (* valid_instance and the final test, shared by both paths *)
    assert (Ktail : (match p2_branch (p2_not (p2_attr (loaded xml (enc_message b sgv) addrs sl) "message")) with
                     | BTrue => PExc "IncorrectlySigned"
                     | BFalse => py_bindh (fun n_5 => if exc_matches n_5 ["NotValid"] then PExc n_5 else PExc n_5)
                                   (py_bind (p2_attr (loaded xml (enc_message b sgv) addrs sl) "message")
                                      (fun a_4 => valid_instance_py a_4))
                                   (fun _ => loaded xml (enc_message b sgv) addrs sl)
                     | BExc n_7 => PExc n_7
                     | BErr => PErr
                     end)
                    = if negb (valid_instance b) then PExc "NotValid" else loaded xml (enc_message b sgv) addrs sl).
    { unfold loaded at 1 2. cbn [p2_attr p2_attr_gen s1 py_bind is_obj String.eqb Ascii.eqb Bool.eqb assoc_py].
      unfold enc_message at 1. cbn [p2_not s1 py_bind py_truthy negb p2_branch].
      fold (enc_message b sgv). rewrite (py_bind_good (enc_message b sgv)) by reflexivity.
      rewrite Hvi. destruct (valid_instance b); reflexivity. }
    destruct (sign_redirect_b must bnd) eqn:ESR; cbn [andb].
    2:{ cbv zeta. rewrite Ktail. destruct (negb (valid_instance b)); reflexivity. }
    destruct sa as [a|]; cbn [enc_ostr p2_is_none s1 py_bind p2_or py_truthy p2_branch].
    2:{ reflexivity. }
    destruct sg as [g|].
    2:{ reflexivity. }
    destruct (enc_dsig_good g) as [Hg1 Hg2].
    assert (Eng : p2_is_none (enc_dsig g) = PBool false).
    { rewrite (p2_is_none_good _ Hg1). destruct (enc_dsig g); try reflexivity. contradiction Hg2; reflexivity. }
    rewrite Eng. cbn [py_truthy p2_branch].
    unfold p2_mkdict. cbn [map snd].
    assert (Efb : first_bad [enc_doc od; enc_dsig g; PStr a] = None).
    { cbn [first_bad]. pose proof (enc_doc_good od) as Hd. destruct (enc_doc od); try discriminate Hd;
        destruct (enc_dsig g); try discriminate Hg1; reflexivity. }
    rewrite Efb. cbn [py_bind].
    specialize (Hrc (loaded xml (enc_message b sgv) addrs sl) a g eq_refl eq_refl).
    destruct rs as [r|]; cbn [enc_ostr p2_is_not_none s1 py_bind p2_branch py_truthy].
    - cbn [p2_setitem s3 py_bind is_obj String.eqb Ascii.eqb Bool.eqb dict_key_ok negb set_assoc].
      unfold saml_msg_dict in Hrc. cbn [app] in Hrc.
      change (py_bind (PObj [("SAMLRequest", enc_doc od); ("Signature", enc_dsig g); ("SigAlg", PStr a); ("RelayState", PStr r)])
                (fun a_12 => redirect_sig_check (loaded xml (enc_message b sgv) addrs sl) a_12))
        with (redirect_sig_check (loaded xml (enc_message b sgv) addrs sl)
                (PObj [("SAMLRequest", enc_doc od); ("Signature", enc_dsig g); ("SigAlg", PStr a); ("RelayState", PStr r)])).
      rewrite Hrc. destruct (issuer b) as [i|] eqn:Ei.
      + assert (Er : redirect_sig_ok dverify c b od (Some r) a g = redirect_sig_ok dverify c b od (Some r) a g) by reflexivity.
        destruct (redirect_sig_ok dverify c b od (Some r) a g) eqn:Eok;
          cbn [py_bindh p2_bind p2_not s1 py_bind py_truthy negb p2_branch].
        * rewrite Ktail. destruct (negb (valid_instance b)); reflexivity.
        * reflexivity.
      + assert (Eok : redirect_sig_ok dverify c b od (Some r) a g = false) by (unfold redirect_sig_ok; rewrite Ei; reflexivity).
        rewrite Eok. reflexivity.
    - unfold saml_msg_dict in Hrc. cbn [app] in Hrc.
      change (py_bind (PObj [("SAMLRequest", enc_doc od); ("Signature", enc_dsig g); ("SigAlg", PStr a)])
                (fun a_12 => redirect_sig_check (loaded xml (enc_message b sgv) addrs sl) a_12))
        with (redirect_sig_check (loaded xml (enc_message b sgv) addrs sl)
                (PObj [("SAMLRequest", enc_doc od); ("Signature", enc_dsig g); ("SigAlg", PStr a)])).
      rewrite Hrc. destruct (issuer b) as [i|] eqn:Ei.
      + destruct (redirect_sig_ok dverify c b od None a g) eqn:Eok;
          cbn [py_bindh p2_bind p2_not s1 py_bind py_truthy negb p2_branch].
        * rewrite Ktail. destruct (negb (valid_instance b)); reflexivity.
        * reflexivity.
      + assert (Eok : redirect_sig_ok dverify c b od None a g = false) by (unfold redirect_sig_ok; rewrite Ei; reflexivity).
        rewrite Eok. reflexivity.
  Qed.
End Loads.

Example loads_hyps_sat :
  let c := Build_config "idp" (fun _ _ => []) (Some true) None None true (fun _ => [1%nat]) (fun _ => true) in
  let b := Build_body AuthnRequest "2.0" None 0 ZUtc (Some "https://sp.example.org/sp.xml") true true 0 in
  let ev := fun (ct : nat) (_ : body) (s : nat) => Nat.eqb ct s in
  let dv := fun (ct : nat) (_ : nat * option string * string) (s : nat) => Nat.eqb ct s in
  let enc_doc := fun n : nat => PInt (Z.of_nat n) in
  let enc_dsig := fun n : nat => PStr (String (ascii_of_nat (48 + n)) "") in
  let sa := "http://www.w3.org/2001/04/xmldsig-more#rsa-sha256" in
  let M := enc_message b PNone in
  let sc := fun _ _ _ _ : pyval => M in
  let rc := fun _ _ : pyval => PBool true in
  let vi := fun _ : pyval => PNone in
  (forall d, is_bad (enc_doc d) = false)
  /\ (forall g, is_bad (enc_dsig g) = false /\ enc_dsig g <> PNone)
  /\ sc (PStr "<x/>") (enc_doc 0%nat) (sign_post_py (Some true) (Some BINDING_HTTP_REDIRECT)) (PBool false)
     = (if true && negb (py_truthy (sign_post_py (Some true) (Some BINDING_HTTP_REDIRECT))) then M else PExc "SignatureError")
  /\ (forall s' a g, Some sa = Some a -> Some 1%nat = Some g ->
        rc s' (saml_msg_dict nat nat enc_doc enc_dsig 0%nat None a g)
        = match issuer b with None => PExc "AttributeError" | Some _ => PBool (redirect_sig_ok dv c b 0%nat None a g) end)
  /\ vi M = (if valid_instance b then PNone else PExc "NotValid")
  /\ src2_loads sc rc vi (enc_request_obj PNone [] 0) (PStr "<x/>") (PStr BINDING_HTTP_REDIRECT) (enc_doc 0%nat) (PBool true)
       (PBool false) PNone (PStr sa) (enc_dsig 1%nat)
     = loaded "<x/>" M [] 0.
Proof.
  cbv zeta. split; [reflexivity|]. split; [intros g; split; [reflexivity|discriminate]|]. split; [reflexivity|].
  split; [intros s' a g Ea Eg; inversion Ea; inversion Eg; subst; vm_compute; reflexivity|].
  split; [reflexivity|vm_compute; reflexivity].
Qed.

Ltac name_let K :=
  lazymatch goal with |- (let k := ?F in @?M k) = ?R => pose (K := F); change (M K = R); cbv beta end.

Ltac zeta_head :=
  lazymatch goal with |- (let k := ?F in @?M k) = ?R => change (M F = R); cbv beta end.

(* ================================================================== Entity._parse_request *)
Section ParseRequest.
  Variable cert : Type.
  (* externals: Config.endpoint(service, binding, context), Config.getattr(name, "idp"), Entity.unravel,
     request_cls(sec, receiver_addresses, attribute_converters, timeslack=), Request.loads(...), Request.verify() *)
  Variable endpoint_py : pyval -> pyval -> pyval -> pyval.
  Variable cfg_getattr : pyval -> pyval -> pyval.
  Variable unravel_py : pyval -> pyval -> pyval -> pyval.
  Variable mk_request : pyval -> pyval -> pyval -> pyval.
  Variable loads_py : pyval -> list (string * pyval) -> pyval.
  Variable verify_py : pyval -> pyval.

  Definition enc_oz (o : option Z) : pyval := match o with Some z => PInt z | None => PNone end.

  Definition enc_entity (c : config cert) : pyval :=
    PObj [("__class__", PStr "Entity"); ("entity_type", PStr (etype c));
          ("config", PObj [("__class__", PStr "Config"); ("accepted_time_diff", enc_oz (time_diff c));
                           ("attribute_converters", PNone)]);
          ("sec", enc_sec)].

  Definition enc_cls (mt : string) : pyval := PObj [("__class__", PStr "type"); ("msgtype", PStr mt)].

  (* what Config.getattr answers for an option: a configuration value (Model.cval; an option that was never stored
     and a stored None both read None) *)
  Definition enc_cval (v : cval) : pyval :=
    match v with
    | CAbsent | CNone => PNone
    | CBool b => PBool b
    | CInt z => PInt z
    | CStr s => PStr s
    end.

  Lemma enc_cval_good v : is_bad (enc_cval v) = false.
  Proof. destruct v; reflexivity. Qed.

  (* the translator's str.strip() / str.lower() refuse a text with a non-ASCII byte (Unicode whitespace and case
     mapping are not modelled) *)
  Definition ascii_text (v : cval) : Prop :=
    match v with CStr s => end_ascii (strip s) = true /\ all_ascii (strip s) = true | _ => True end.

  (* the values handed to Request.loads as only_valid_cert= and must= (9e47ced6: a text is read by what it says) *)
  Definition ovc_py (O : cval) : pyval :=
    match O with
    | CStr s => PBool (mem (lower (strip s)) OVC_YES)
    | CAbsent | CNone => PBool false
    | _ => enc_cval O
    end.
  Definition must_py (W O : cval) : pyval := if py_truthy (ovc_py O) then PBool true else enc_cval W.

  Lemma ovc_py_good O : is_bad (ovc_py O) = false.
  Proof. destruct O; reflexivity. Qed.

  (* for the values Config.load_special stores, they are true exactly when the model's are *)
  Lemma truthy_ovc_py v : py_truthy (ovc_py (load_special_val v)) = truthy (stored_ovc v).
  Proof.
    unfold stored_ovc. destruct (load_special_val v) as [| |b|z|s]; cbn [ovc_py enc_cval py_truthy truthy py_true]; try reflexivity.
    - destruct b; reflexivity.
    - destruct (negb (z =? 0)%Z); reflexivity.
    - destruct (mem (lower (strip s)) OVC_YES); reflexivity.
  Qed.
  Lemma truthy_must_py w v :
    py_truthy (must_py (load_special_val w) (load_special_val v)) = truthy (stored w) || truthy (stored_ovc v).
  Proof.
    unfold must_py. rewrite truthy_ovc_py. destruct (truthy (stored_ovc v)); [rewrite orb_true_r; reflexivity|].
    rewrite orb_false_r. unfold stored. destruct (load_special_val w) as [| |b|z|s]; cbn [enc_cval py_truthy truthy py_true]; try reflexivity.
    - destruct b; reflexivity.
    - destruct (negb (z =? 0)%Z); reflexivity.
    - destruct (negb (is_empty s)); reflexivity.
  Qed.

  Lemma p2_in_ovc_yes x :
    p2_in (PStr x) (p2_mklist [PStr "true"; PStr "yes"; PStr "on"; PStr "1"]) = PBool (mem x OVC_YES).
  Proof.
    cbn. destruct (String.eqb x "true"); [reflexivity|]. destruct (String.eqb x "yes"); [reflexivity|].
    destruct (String.eqb x "on"); [reflexivity|]. destruct (String.eqb x "1"); reflexivity.
  Qed.

  Theorem src2_parse_request_is_model :
    forall (c : config cert) (W O : cval) (svc mt : string) (bnd : option string) (enc rs sa sg : pyval) (u : string + string),
    is_bad enc = false -> is_bad rs = false -> is_bad sa = false -> is_bad sg = false ->
    (forall typ, endpoint_py (PStr svc) (enc_ostr bnd) (PStr typ) = PList (map PStr (endpoint (eps c typ svc) bnd))) ->
    cfg_getattr (PStr "want_authn_requests_signed") (PStr "idp") = enc_cval W ->
    cfg_getattr (PStr "want_authn_requests_only_with_valid_cert") (PStr "idp") = enc_cval O ->
    ascii_text O ->
    unravel_py enc (enc_ostr bnd) (PStr mt) = match u with inl n => PExc n | inr xml => PStr xml end ->
    (forall a s k, is_bad (mk_request a s k) = false) ->
    (forall r kw, loads_py r kw <> PErr) ->
    (forall r, is_bad (verify_py r) = false) ->
    src2_parse_request endpoint_py cfg_getattr unravel_py mk_request loads_py verify_py
      (enc_entity c) enc (enc_cls mt) (PStr svc) (enc_ostr bnd) rs sa sg
    = match u with
      | inl n => PExc n
      | inr xml =>
          let L := loads_py (mk_request (PList (map PStr (receiver_addrs c svc bnd))) (PInt (slack c)) (enc_cls mt))
                     [("xmlstr", PStr xml); ("binding", enc_ostr bnd); ("must", must_py W O); ("only_valid_cert", ovc_py O);
                      ("origdoc", enc); ("relay_state", rs); ("sigalg", sa); ("signature", sg)] in
          match L with
          | PExc n => PExc n
          | _ => if py_truthy L then (if py_truthy (verify_py L) then L else PNone) else PNone
          end
      end.
  Proof.
    intros c W O svc mt bnd enc rs sa sg u Henc Hrs Hsa Hsg Hep Hws Hovc Hasc HU HR HL HV.
    cbv delta [src2_parse_request]. cbv beta.
    do 7 (lazymatch goal with |- (let k := ?F in @?M k) = ?R => change (M F = R); cbv beta end).
    change (p2_attr_x (enc_entity c) "entity_type") with (PStr (etype c)).
    change (p2_attr_x (PObj [("__class__", PStr "Logger"); ("debug", PNone)]) "debug") with PNone.
    change (p2_attr_x (p2_attr_x (enc_entity c) "config") "accepted_time_diff") with (enc_oz (time_diff c)).
    change (p2_attr_x (p2_attr_x (enc_entity c) "config") "attribute_converters") with PNone.
    change (p2_attr_x (enc_entity c) "sec") with enc_sec.
    change (p2_attr_x (enc_cls mt) "msgtype") with (PStr mt).
    assert (Eb : is_bad (enc_ostr bnd) = false) by (destruct bnd; reflexivity).
    set (B := enc_ostr bnd) in *.
    rewrite (py_bind_good PNone) by reflexivity. cbv beta.
    rewrite (py_bind_good (PStr svc)) by reflexivity. cbv beta.
    rewrite (py_bind_good B _ Eb). cbv beta.
    rewrite (py_bind_good (PStr (etype c))) by reflexivity. cbv beta.
    rewrite Hep. rewrite (py_bind_good (PList _)) by reflexivity. cbv beta.
    name_let K43.
    (* ---- everything after the receiver addresses are known *)
    assert (HK43 : forall l,
      K43 (PList (map PStr l))
      = match u with
        | inl n => PExc n
        | inr xml =>
            let L := loads_py (mk_request (PList (map PStr l)) (PInt (slack c)) (enc_cls mt))
                       [("xmlstr", PStr xml); ("binding", B); ("must", must_py W O); ("only_valid_cert", ovc_py O);
                        ("origdoc", enc); ("relay_state", rs); ("sigalg", sa); ("signature", sg)] in
            match L with
            | PExc n => PExc n
            | _ => if py_truthy L then (if py_truthy (verify_py L) then L else PNone) else PNone
            end
        end).
    { intros l. cbv delta [K43]. cbv beta. clear K43.
      name_let K31. name_let H29.
      (* ---- everything after the clock skew is known *)
      assert (HK31 : forall z,
        K31 (PInt z)
        = match u with
          | inl n => PExc n
          | inr xml =>
              let L := loads_py (mk_request (PList (map PStr l)) (PInt z) (enc_cls mt))
                         [("xmlstr", PStr xml); ("binding", B); ("must", must_py W O); ("only_valid_cert", ovc_py O);
                          ("origdoc", enc); ("relay_state", rs); ("sigalg", sa); ("signature", sg)] in
              match L with
              | PExc n => PExc n
              | _ => if py_truthy L then (if py_truthy (verify_py L) then L else PNone) else PNone
              end
          end).
      { intros z. cbv delta [K31]. cbv beta. clear K31 H29.
        rewrite (py_bind_good enc_sec) by reflexivity. cbv beta.
        rewrite (py_bind_good (PList _)) by reflexivity. cbv beta.
        rewrite (py_bind_good PNone) by reflexivity. cbv beta.
        rewrite (py_bind_good (PInt z)) by reflexivity. cbv beta.
        rewrite (py_bind_good (mk_request _ _ _)) by apply HR. cbv beta.
        rewrite (py_bind_good enc _ Henc). cbv beta.
        rewrite (py_bind_good B _ Eb). cbv beta.
        rewrite (py_bind_good (PStr mt)) by reflexivity. cbv beta.
        rewrite HU. destruct u as [n|xml]; [reflexivity|].
        rewrite (py_bind_good (PStr xml)) by reflexivity. cbv beta.
        rewrite Hws, Hovc.
        rewrite (py_bind_good (enc_cval W)) by apply enc_cval_good. cbv beta.
        rewrite (py_bind_good (enc_cval O)) by apply enc_cval_good. cbv beta.
        name_let K29.
        (* ---- everything after a text value of only_valid_cert has been read *)
        assert (HK29 : forall v, is_bad v = false ->
          K29 v
          = let d := match v with PNone => PBool false | _ => v end in
            let L := loads_py (mk_request (PList (map PStr l)) (PInt z) (enc_cls mt))
                       [("xmlstr", PStr xml); ("binding", B);
                        ("must", if py_truthy d then PBool true else enc_cval W); ("only_valid_cert", d);
                        ("origdoc", enc); ("relay_state", rs); ("sigalg", sa); ("signature", sg)] in
            match L with
            | PExc n => PExc n
            | _ => if py_truthy L then (if py_truthy (verify_py L) then L else PNone) else PNone
            end).
        { intros v0 Hv0. cbv delta [K29]. cbv beta. clear K29.
        name_let K27.
        (* ---- everything after only_valid_cert has its default *)
        assert (HK27 : forall t, is_bad t = false ->
          K27 t
          = let L := loads_py (mk_request (PList (map PStr l)) (PInt z) (enc_cls mt))
                       [("xmlstr", PStr xml); ("binding", B);
                        ("must", if py_truthy t then PBool true else enc_cval W); ("only_valid_cert", t);
                        ("origdoc", enc); ("relay_state", rs); ("sigalg", sa); ("signature", sg)] in
            match L with
            | PExc n => PExc n
            | _ => if py_truthy L then (if py_truthy (verify_py L) then L else PNone) else PNone
            end).
        { intros t Ht. cbv delta [K27]. cbv beta. clear K27.
          name_let K25.
          assert (HK25 : forall m, is_bad m = false ->
            K25 m
            = let L := loads_py (mk_request (PList (map PStr l)) (PInt z) (enc_cls mt))
                         [("xmlstr", PStr xml); ("binding", B); ("must", m); ("only_valid_cert", t);
                          ("origdoc", enc); ("relay_state", rs); ("sigalg", sa); ("signature", sg)] in
              match L with
              | PExc n => PExc n
              | _ => if py_truthy L then (if py_truthy (verify_py L) then L else PNone) else PNone
              end).
          { intros m Hm. cbv delta [K25]. cbv beta. clear K25.
            rewrite (py_bind_good (PStr xml)) by reflexivity. cbv beta.
            rewrite (py_bind_good B _ Eb). cbv beta.
            rewrite (py_bind_good enc _ Henc). cbv beta.
            rewrite (py_bind_good m _ Hm). cbv beta.
            rewrite (py_bind_good t _ Ht). cbv beta.
            rewrite (py_bind_good rs _ Hrs). cbv beta.
            rewrite (py_bind_good sa _ Hsa). cbv beta.
            rewrite (py_bind_good sg _ Hsg). cbv beta.
            cbv zeta.
            pose proof (HL (mk_request (PList (map PStr l)) (PInt z) (enc_cls mt))
                          [("xmlstr", PStr xml); ("binding", B); ("must", m); ("only_valid_cert", t);
                           ("origdoc", enc); ("relay_state", rs); ("sigalg", sa); ("signature", sg)]) as HnE.
            set (L := loads_py _ _) in *.
            pose proof (HV L) as HVL.
            assert (Hgen : forall L0 (V : pyval -> pyval), L0 <> PErr -> is_bad (V L0) = false ->
              py_bind L0 (fun v__request0 =>
                match p2_branch v__request0 with
                | BTrue => match p2_branch (p2_not (V v__request0)) with
                           | BTrue => PNone
                           | BFalse => match p2_branch (p2_not v__request0) with
                                       | BTrue => PNone | BFalse => v__request0 | BExc n_19 => PExc n_19 | BErr => PErr end
                           | BExc n_22 => PExc n_22
                           | BErr => PErr
                           end
                | BFalse => match p2_branch (p2_not v__request0) with
                            | BTrue => PNone | BFalse => v__request0 | BExc n_19 => PExc n_19 | BErr => PErr end
                | BExc n_23 => PExc n_23
                | BErr => PErr
                end)
              = match L0 with
                | PExc n => PExc n
                | _ => if py_truthy L0 then (if py_truthy (V L0) then L0 else PNone) else PNone
                end).
            { intros L0 V HL0 HV0.
              destruct L0; try (contradiction HL0; reflexivity); try reflexivity;
                cbn [py_bind]; rewrite (p2_not_good _ HV0); rewrite p2_branch_good by reflexivity;
                (match goal with |- context [py_truthy (V ?v)] => destruct (py_truthy v) eqn:Et end;
                 [cbn [p2_branch py_truthy]; destruct (py_truthy (V _)); cbn [negb];
                  [rewrite p2_not_good by reflexivity; rewrite Et; reflexivity|reflexivity]
                 |rewrite p2_not_good by reflexivity; rewrite Et; reflexivity]). }
            cbv beta. exact (Hgen L verify_py HnE HVL). }
          rewrite (p2_branch_good t Ht). destruct (py_truthy t).
          - rewrite HK25 by reflexivity. reflexivity.
          - rewrite HK25 by apply enc_cval_good. reflexivity. }
        destruct v0; try discriminate Hv0; cbn [p2_is_none s1 py_bind p2_branch py_truthy];
          rewrite HK27 by reflexivity; reflexivity. }
        (* ---- a text value is read by what it says *)
        destruct O as [| |ob|oz|os].
        - change (p2_branch (p2_isinstance (enc_cval CAbsent) ["str"] [])) with BFalse. rewrite HK29 by reflexivity. reflexivity.
        - change (p2_branch (p2_isinstance (enc_cval CNone) ["str"] [])) with BFalse. rewrite HK29 by reflexivity. reflexivity.
        - change (p2_branch (p2_isinstance (enc_cval (CBool ob)) ["str"] [])) with BFalse. rewrite HK29 by reflexivity. reflexivity.
        - change (p2_branch (p2_isinstance (enc_cval (CInt oz)) ["str"] [])) with BFalse. rewrite HK29 by reflexivity. reflexivity.
        - change (p2_branch (p2_isinstance (enc_cval (CStr os)) ["str"] [])) with BTrue.
          destruct Hasc as [He Ha].
          change (p2_strip (enc_cval (CStr os))) with (guard_ends (strip os)). unfold guard_ends. rewrite He.
          change (p2_lower (PStr (strip os))) with (if all_ascii (strip os) then PStr (lower (strip os)) else PErr). rewrite Ha.
          rewrite p2_in_ovc_yes. rewrite (py_bind_good (PBool _)) by reflexivity. cbv beta.
          rewrite HK29 by reflexivity. reflexivity. }
      unfold slack. destruct (time_diff c) as [z|].
      - destruct z; cbn [enc_oz py_bindh p2_bind p2_not s1 py_bind py_truthy negb p2_branch Z.eqb];
          rewrite HK31; reflexivity.
      - cbn [enc_oz py_bindh p2_bind p2_not s1 py_bind py_truthy negb p2_branch]. rewrite HK31. reflexivity. }
    unfold receiver_addrs. rewrite p2_eq_str.
    destruct (endpoint (eps c (etype c) svc) bnd) as [|o1 ol].
    2:{ cbn [map p2_not s1 py_bind py_truthy negb p2_and p2_branch].
        change (PList (PStr o1 :: map PStr ol)) with (PList (map PStr (o1 :: ol))). rewrite HK43. reflexivity. }
    cbn [map p2_not s1 py_bind py_truthy negb p2_and].
    destruct (String.eqb (etype c) "idp") eqn:Eidp; cbn [p2_branch py_truthy].
    2:{ change (PList []) with (PList (map PStr [])). rewrite HK43. reflexivity. }
    cbn [p2_mklist first_bad p2_iter_check p2_iterable py_bind py_iter2 pyfor2 map first_nonempty].
    rewrite (py_bind_good B _ Eb). cbv beta. rewrite (Hep "aa").
    destruct (endpoint (eps c "aa" svc) bnd) as [|a1 al]; cbn [map py_bindS p2_bind p2_branch py_truthy].
    2:{ change (PList (PStr a1 :: map PStr al)) with (PList (map PStr (a1 :: al))). rewrite HK43. reflexivity. }
    rewrite (py_bind_good B _ Eb). cbv beta. rewrite (Hep "aq").
    destruct (endpoint (eps c "aq" svc) bnd) as [|q1 ql]; cbn [map py_bindS p2_bind p2_branch py_truthy].
    2:{ change (PList (PStr q1 :: map PStr ql)) with (PList (map PStr (q1 :: ql))). rewrite HK43. reflexivity. }
    rewrite (py_bind_good B _ Eb). cbv beta. rewrite (Hep "pdp").
    destruct (endpoint (eps c "pdp" svc) bnd) as [|p1 pl]; cbn [map py_bindS p2_bind p2_branch py_truthy].
    2:{ change (PList (PStr p1 :: map PStr pl)) with (PList (map PStr (p1 :: pl))). rewrite HK43. reflexivity. }
    change (PList []) with (PList (map PStr [])). rewrite HK43. reflexivity.
  Qed.
End ParseRequest.

Example parse_request_hyps_sat :
  let c := Build_config "idp"
             (fun ctx svc => if String.eqb ctx "aq" then [EP "https://idp.example.org/aq" BINDING_SOAP] else [])
             None (Some true) (Some 60%Z) true (fun _ => ([] : list nat)) (fun _ => true) in
  let ep := fun _ _ typ : pyval => match typ with
                                   | PStr t => PList (map PStr (endpoint (eps c t "authn_query_service") (Some BINDING_SOAP)))
                                   | _ => PErr
                                   end in
  let ga := fun n _ : pyval => match n with
                               | PStr "want_authn_requests_signed" => PNone
                               | _ => PStr " Yes "
                               end in
  let ur := fun _ _ _ : pyval => PStr "<x/>" in
  let mk := fun a s _ : pyval => PObj [("__class__", PStr "Request"); ("receiver_addrs", a); ("timeslack", s)] in
  let ld := fun (r : pyval) (kw : list (string * pyval)) => PObj (("__class__", PStr "Loaded") :: ("request", r) :: kw) in
  let vf := fun _ : pyval => PBool true in
  (forall typ, ep (PStr "authn_query_service") (enc_ostr (Some BINDING_SOAP)) (PStr typ)
               = PList (map PStr (endpoint (eps c typ "authn_query_service") (Some BINDING_SOAP))))
  /\ ga (PStr "want_authn_requests_signed") (PStr "idp") = enc_cval CNone
  /\ ga (PStr "want_authn_requests_only_with_valid_cert") (PStr "idp") = enc_cval (CStr " Yes ")
  /\ ascii_text (CStr " Yes ")
  /\ (forall a s k, is_bad (mk a s k) = false) /\ (forall r kw, ld r kw <> PErr) /\ (forall r, is_bad (vf r) = false)
  /\ src2_parse_request ep ga ur mk ld vf (enc_entity nat c) (PStr "e") (enc_cls "authn_query") (PStr "authn_query_service")
       (PStr BINDING_SOAP) PNone PNone PNone
     = ld (mk (PList [PStr "https://idp.example.org/aq"]) (PInt 60) (enc_cls "authn_query"))
          [("xmlstr", PStr "<x/>"); ("binding", PStr BINDING_SOAP); ("must", PBool true); ("only_valid_cert", PBool true);
           ("origdoc", PStr "e"); ("relay_state", PNone); ("sigalg", PNone); ("signature", PNone)].
Proof.
  cbv zeta. split; [reflexivity|]. split; [reflexivity|]. split; [reflexivity|]. split; [split; reflexivity|]. split; [reflexivity|].
  split; [discriminate|]. split; [reflexivity|vm_compute; reflexivity].
Qed.
