(* C20/Corr.v — correspondence runner on the term-algebra instance.
   A case = abstract input (entities' keys, gate set, thread programs, schedule) + what the real
   threads produced under that schedule: per thread and call the result (a signature is identified
   against reference signatures made with the `cryptography` package for every key x digest x
   octets of the case, and carries the vector "verifies under entity e's certificate"), the global
   sequence of gate arrivals, and whether the schedule ran every thread to its end. *)
From Coq Require Import List Bool Arith.
From Verif Require Import Base.Str Base.Run C20.Model C20.Spec C20.Proofs.
Import ListNotations.

Inductive xres := XSig (p : payload) (s : tsig) (vm : list bool) | XVer (b : bool) | XRaise | XNone.

Definition xres_eqb (a b : xres) : bool :=
  match a, b with
  | XSig p s vm, XSig p' s' vm' => payload_eqb p p' && tsig_eqb s s' && list_eqb Bool.eqb vm vm'
  | XVer x, XVer y => Bool.eqb x y
  | XRaise, XRaise => true
  | XNone, XNone => true
  | _, _ => false
  end.

Definition to_x (ks : list nat) (r : result tsig) : xres :=
  match r with
  | RSig p s => XSig p s (map (fun k => tverify k (snd p) p s) ks)
  | RVer b => XVer b
  | RRaise => XRaise
  | RNone => XNone
  end.

Definition x_obs (r : xres) : obs :=
  match r with XSig _ _ vm => OSig vm | XVer b => OVer b | XRaise => ORaise | XNone => ONone end.

Definition ev_eqb (a b : nat * gate) : bool := Nat.eqb (fst a) (fst b) && gate_eqb (snd a) (snd b).

Record observed := { o_outs : list (list xres); o_trace : list (nat * gate); o_complete : bool }.

Definition case := (input tsig * observed)%type.

Definition mk (ks : list nat) (g : list gate) (ps : list (nat * list (op tsig))) (s : list nat)
  (oo : list (list xres)) (tr : list (nat * gate)) (complete : bool) : case :=
  ({| keys := ks; gon := g; progs := ps; sched := s |},
   {| o_outs := oo; o_trace := tr; o_complete := complete |}).

Definition outs_x (ks : list nat) (st : state tsig) : list (list xres) := map (map (to_x ks)) (outs tsig st).
Definition same_outs (a b : list (list xres)) : bool := list_eqb (list_eqb xres_eqb) a b.

Definition agrees (c : case) : bool :=
  let x := fst c in let o := snd c in let st := tfinal x in
  same_outs (outs_x (keys x) st) (o_outs o)
  && list_eqb ev_eqb (trace st) (o_trace o)
  && Bool.eqb (finished tsig st) (o_complete o).

Definition holds (c : case) : bool := spec_b tsig tverify (fst c) (map (map x_obs) (o_outs (snd c))).

(* finding class 1 (fixed by c928ba99): the observed results are exactly those of the old code
   (key stored on the shared signer object) and not those of the current one *)
Definition cls (c : case) : nat :=
  let x := fst c in let o := snd c in
  if same_outs (outs_x (keys x) (tfinal_v0 x)) (o_outs o) && negb (same_outs (outs_x (keys x) (tfinal x)) (o_outs o))
  then 1 else 0.

Definition run := run_cases agrees holds cls.

Definition explain (c : case) :=
  let x := fst c in
  (outs_x (keys x) (tfinal x), trace (tfinal x), finished tsig (tfinal x), outs_x (keys x) (tfinal_v0 x), holds c).

(* Cases run with line- or bytecode-granular scheduling points (sys.settrace in the workers): those
   points are not named by the model, so only the results are compared.  By c20_complete_results the
   model's results of a finished run do not depend on the schedule (nor on the gate set): the model
   is evaluated without gates, one segment per thread. *)
Definition mk_fine (ks : list nat) (ps : list (nat * list (op tsig))) (oo : list (list xres)) (complete : bool) : case :=
  mk ks [] ps (seq 0 (length ps)) oo [] complete.
