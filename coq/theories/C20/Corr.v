(* C20/Corr.v — correspondence runner on the term-algebra instance.
   A case = abstract input (entities' keys, gate set, thread programs, schedule) + what the real
   threads produced under that schedule: per thread and call the result (a signature is identified
   against reference signatures made with the `cryptography` package for every key x digest x
   octets of the case, and carries the vector "verifies under entity e's certificate"), the global
   sequence of gate arrivals, and whether the schedule ran every thread to its end. *)
From Coq Require Import List Bool Arith.
From Verif Require Import Base.Str Base.Run C20.Model C20.Spec C20.Proofs.
Import ListNotations.

Inductive xres := XSig (p : payload) (s : tsig) (vm : list bool) | XVer (b : bool) | XRaise | XNone.

Definition xres_eqb (a b : xres) : bool :=
  match a, b with
  | XSig p s vm, XSig p' s' vm' => payload_eqb p p' && tsig_eqb s s' && list_eqb Bool.eqb vm vm'
  | XVer x, XVer y => Bool.eqb x y
  | XRaise, XRaise => true
  | XNone, XNone => true
  | _, _ => false
  end.

Definition to_x (ks : list nat) (r : result tsig) : xres :=
  match r with
  | RSig p s => XSig p s (map (fun k => tverify k (snd p) p s) ks)
  | RVer b => XVer b
  | RRaise => XRaise
  | RNone => XNone
  end.

Definition x_obs (r : xres) : obs :=
  match r with XSig _ _ vm => OSig vm | XVer b => OVer b | XRaise => ORaise | XNone => ONone end.

Definition ev_eqb (a b : nat * gate) : bool := Nat.eqb (fst a) (fst b) && gate_eqb (snd a) (snd b).

(* o_certs: per entity the key pair of the certificate it publishes (SecurityContext.my_cert
   identified against the certificates of the fixture key pairs) *)
Record observed := { o_outs : list (list xres); o_trace : list (nat * gate); o_complete : bool; o_certs : list nat }.

(* how the model is run for the case: OS workers (None: one fresh OS thread per job, the schedule names
   jobs), and what the model says about the entities: the key pair each signs with and the key pair of
   the certificate each publishes.  The `keys` of the input proper are the certificates the property
   speaks of: given directly, or `published d` of a deployment d. *)
Record setting := { s_workers : option (list (list nat)); s_keys : list nat; s_certs : list nat;
                     s_src : option (list dstep) }.

Definition case := (input tsig * setting * observed)%type.
Definition c_in (c : case) : input tsig := fst (fst c).
Definition c_set (c : case) : setting := snd (fst c).
Definition c_obs (c : case) : observed := snd c.

Definition mk (ks : list nat) (g : list gate) (ps : list (nat * list (op tsig))) (s : list nat)
  (oo : list (list xres)) (tr : list (nat * gate)) (complete : bool) : case :=
  ({| keys := ks; gon := g; progs := ps; sched := s |},
   {| s_workers := None; s_keys := ks; s_certs := ks; s_src := None |},
   {| o_outs := oo; o_trace := tr; o_complete := complete; o_certs := ks |}).

(* deployment d (main thread: install key pairs at paths, build entities, run jobs), OS workers ws
   (worker 0 = the main thread), schedule over workers; trace events name the JOB that met the gate *)
Definition mk_pool (d : list dstep) (g : list gate) (ps : list (nat * list (op tsig))) (ws : list (list nat))
  (s : list nat) (oo : list (list xres)) (tr : list (nat * gate)) (complete : bool) (certs : list nat) : case :=
  ({| keys := published d; gon := g; progs := ps; sched := s |},
   {| s_workers := Some ws; s_keys := deploy_keys d; s_certs := deploy_certs d; s_src := None |},
   {| o_outs := oo; o_trace := tr; o_complete := complete; o_certs := certs |}).

(* configuration SOURCES (dict, config_factory, Config object, python FILE loaded through load_file / config_factory /
   config_file=): like mk_pool, but "the certificate of the entity" is no longer taken from the strict reading of the
   script (published d): every entity must hold a certificate its OWN source accounts for (Spec.own_source over
   Spec.accounted d; 0 = the slot has no entity), and the signatures must verify under the certificates of exactly the
   entities that hold the caller's pair (spec_b over the certificates the entities hold) *)
Definition mk_src (d : list dstep) (g : list gate) (ps : list (nat * list (op tsig))) (ws : list (list nat))
  (s : list nat) (oo : list (list xres)) (tr : list (nat * gate)) (complete : bool) (certs : list nat) : case :=
  ({| keys := certs; gon := g; progs := ps; sched := s |},
   {| s_workers := Some ws; s_keys := deploy_keys d; s_certs := deploy_certs d; s_src := Some d |},
   {| o_outs := oo; o_trace := tr; o_complete := complete; o_certs := certs |}).

Definition outs_x (ks : list nat) (st : state tsig) : list (list xres) := map (map (to_x ks)) (outs tsig st).
Definition same_outs (a b : list (list xres)) : bool := list_eqb (list_eqb xres_eqb) a b.

(* the model's input: the entities sign with the keys the model says they loaded *)
Definition m_in (c : case) : input tsig :=
  {| keys := s_keys (c_set c); gon := gon (c_in c); progs := progs (c_in c); sched := sched (c_in c) |}.

Definition mfinal (c : case) : state tsig :=
  match s_workers (c_set c) with None => tfinal (m_in c) | Some ws => twfinal (m_in c) ws end.
Definition mfinal_v0 (c : case) : state tsig :=
  match s_workers (c_set c) with None => tfinal_v0 (m_in c) | Some ws => twfinal_v0 (m_in c) ws end.

Definition agrees (c : case) : bool :=
  let o := c_obs c in let st := mfinal c in
  same_outs (outs_x (s_certs (c_set c)) st) (o_outs o)
  && list_eqb ev_eqb (trace st) (o_trace o)
  && Bool.eqb (finished tsig st) (o_complete o)
  && list_eqb Nat.eqb (s_certs (c_set c)) (o_certs o).

Definition holds (c : case) : bool :=
  spec_b tsig tverify (c_in c) (map (map x_obs) (o_outs (c_obs c)))
  && match s_src (c_set c) with
     | None => true
     | Some d => own_source_b (accounted d) (o_certs (c_obs c))
     end.

(* finding class 1 (fixed by c928ba99): the observed results are exactly those of the old code
   (key stored on the shared signer object) and not those of the current one.
   finding class 3 (fixed by 581b4f03): the entities hold exactly the certificates the loader BEFORE that commit gives
   them (a configuration file that does not exist answered by another directory's module) and not those of the
   current one.
   finding class 2 (fixed by ca0d12ee): ... exactly the certificates the loader before ca0d12ee gives them (a
   configuration file answered by the module of the same base name loaded from another directory) *)
Definition cls (c : case) : nat :=
  let o := c_obs c in let ks := s_certs (c_set c) in
  if same_outs (outs_x ks (mfinal_v0 c)) (o_outs o) && negb (same_outs (outs_x ks (mfinal c)) (o_outs o))
  then 1
  else match s_src (c_set c) with
       | None => 0
       | Some d =>
           if list_eqb Nat.eqb (deploy_certs d) (o_certs o) then 0
           else if list_eqb Nat.eqb (deploy_certs_v1 d) (o_certs o) then 3
           else if list_eqb Nat.eqb (deploy_certs_v0 d) (o_certs o) then 2
           else 0
       end.

Definition run := run_cases agrees holds cls.

Definition explain (c : case) :=
  (outs_x (s_certs (c_set c)) (mfinal c), trace (mfinal c), finished tsig (mfinal c),
   (keys (c_in c), s_keys (c_set c), s_certs (c_set c)), outs_x (s_certs (c_set c)) (mfinal_v0 c), holds c,
   match s_src (c_set c) with Some d => (accounted d, published d, (deploy_certs_v1 d, deploy_certs_v0 d), bare_present d, no_reedit d)
                            | None => ([], [], ([], []), true, true) end).

(* Cases run with line- or bytecode-granular scheduling points (sys.settrace in the workers): those
   points are not named by the model, so only the results are compared.  By c20_complete_results the
   model's results of a finished run do not depend on the schedule (nor on the gate set): the model
   is evaluated without gates, one segment per thread. *)
Definition mk_fine (ks : list nat) (ps : list (nat * list (op tsig))) (oo : list (list xres)) (complete : bool) : case :=
  mk ks [] ps (seq 0 (length ps)) oo [] complete.
