(* C20/Proofs.v *)
From Coq Require Import List Bool Arith Lia.
From Verif Require Import Base.Str C20.Model C20.Spec.
Import ListNotations.

(* ---------- lists ---------- *)
Lemma upd_length {A} n (x : A) l : length (upd n x l) = length l.
Proof.
  revert n; induction l as [|a r IH]; intros [|n]; cbn; auto.
Qed.

Lemma nth_error_upd_same {A} n (x : A) l :
  nth_error (upd n x l) n = match nth_error l n with Some _ => Some x | None => None end.
Proof.
  revert n; induction l as [|a r IH]; intros [|n]; cbn; auto.
Qed.

Lemma nth_error_upd_other {A} n m (x : A) l : n <> m -> nth_error (upd n x l) m = nth_error l m.
Proof.
  revert n m; induction l as [|a r IH]; intros [|n] [|m] H; cbn; auto; try congruence.
Qed.

Lemma all2_nth {A B} (P : A -> B -> Prop) l m :
  (forall i a b, nth_error l i = Some a -> nth_error m i = Some b -> P a b) -> all2 P l m.
Proof.
  revert m; induction l as [|a l IH]; intros [|b m] H; cbn; auto.
  split.
  - apply (H 0); reflexivity.
  - apply IH. intros i a' b' Ha Hb. apply (H (S i)); assumption.
Qed.

Lemma all2b_iff {A B} (p : A -> B -> bool) (P : A -> B -> Prop) :
  (forall a b, p a b = true <-> P a b) -> forall l m, all2b p l m = true <-> all2 P l m.
Proof.
  intros H. induction l as [|a l IH]; intros [|b m]; cbn; try tauto.
  rewrite andb_true_iff, H, IH. tauto.
Qed.

Lemma all2b_iff_in {A B} (p : A -> B -> bool) (P : A -> B -> Prop) l :
  (forall a b, In a l -> (p a b = true <-> P a b)) -> forall m, all2b p l m = true <-> all2 P l m.
Proof.
  induction l as [|a l IH]; intros H [|b m]; cbn; try tauto.
  rewrite andb_true_iff, (H a b (or_introl eq_refl)), IH; [tauto|].
  intros a' b' Hin. apply H. right; exact Hin.
Qed.

(* f applied n times, first application innermost *)
Fixpoint iter {A} (n : nat) (f : A -> A) (x : A) : A :=
  match n with 0 => x | S k => iter k f (f x) end.

Ltac brk :=
  repeat (match goal with
          | |- context [match ?x with _ => _ end] => destruct x eqn:?
          end); try reflexivity.

Section Proofs.
  Variable sigv : Type.
  Variable sign : nat -> nat -> payload -> sigv.
  Variable verify : nat -> nat -> payload -> sigv -> bool.
  Variable key_of : nat -> nat.

  Notation exec := (exec sigv sign verify key_of).
  Notation seg := (seg sigv sign verify key_of).
  Notation step := (step sigv sign verify key_of).
  Notation run := (run sigv sign verify key_of).
  Notation local := (local sigv).
  Notation instr := (instr sigv).
  Notation thread := (thread sigv).
  Notation state := (state sigv).

  (* ---------- the code as it is now never writes the shared table ---------- *)
  Lemma exec_shared sh0 l i : fst (exec true sh0 l i) = sh0.
  Proof. destruct i; unfold Model.exec; brk. Qed.

  Definition x1 (sh0 : shared) (l : local) (i : instr) : local := snd (exec true sh0 l i).

  Lemma exec_eq sh0 l i : exec true sh0 l i = (sh0, x1 sh0 l i).
  Proof. unfold x1. pose proof (exec_shared sh0 l i) as H. destruct (exec true sh0 l i); cbn in *; subst; reflexivity. Qed.

  (* a thread running alone on the table sh0: one segment *)
  Fixpoint segA (sh0 : shared) (l : local) (prog : list instr) : thread :=
    match prog with
    | [] => (l, [])
    | IGate g :: r => if skip l then segA sh0 l r else (l, r)
    | i :: r => segA sh0 (x1 sh0 l i) r
    end.

  Lemma seg_alone sh0 l prog :
    exists g, seg true sh0 l prog = (sh0, fst (segA sh0 l prog), snd (segA sh0 l prog), g).
  Proof.
    revert l; induction prog as [|i r IH]; intros l.
    - exists None. reflexivity.
    - destruct i; cbn [Model.seg segA]; try (rewrite exec_eq; apply IH).
      destruct (skip l); [apply IH|]. exists (Some g). reflexivity.
  Qed.

  Definition segT (sh0 : shared) (th : thread) : thread := segA sh0 (fst th) (snd th).

  Lemma step_shared t st : sh (step t st) = sh st.
  Proof.
    unfold Model.step, step_gen. destruct (nth_error (ths st) t) as [[l prog]|]; [|reflexivity].
    destruct (seg_alone (sh st) l prog) as [g E]. rewrite E. reflexivity.
  Qed.

  Lemma step_ths t st :
    ths (step t st) = match nth_error (ths st) t with
                      | Some th => upd t (segT (sh st) th) (ths st)
                      | None => ths st
                      end.
  Proof.
    unfold Model.step, step_gen. destruct (nth_error (ths st) t) as [[l prog]|]; [|reflexivity].
    destruct (seg_alone (sh st) l prog) as [g E]. rewrite E. cbn. unfold segT. cbn.
    destruct (segA (sh st) l prog); reflexivity.
  Qed.

  Lemma run_cons t sched st : run (t :: sched) st = run sched (step t st).
  Proof. reflexivity. Qed.

  Lemma run_shared sched st : sh (run sched st) = sh st.
  Proof.
    revert st; induction sched as [|t r IH]; intros st; [reflexivity|].
    rewrite run_cons, IH. apply step_shared.
  Qed.

  Lemma run_length sched st : length (ths (run sched st)) = length (ths st).
  Proof.
    revert st; induction sched as [|u s IH]; intros st; [reflexivity|]. rewrite run_cons, IH, step_ths.
    destruct (nth_error (ths st) u); [apply upd_length|reflexivity].
  Qed.

  Lemma step_nth t u st :
    nth_error (ths (step u st)) t =
    if Nat.eqb u t then option_map (segT (sh st)) (nth_error (ths st) t) else nth_error (ths st) t.
  Proof.
    rewrite step_ths. destruct (Nat.eqb u t) eqn:E.
    - apply Nat.eqb_eq in E. subst u. destruct (nth_error (ths st) t) as [th|] eqn:N.
      + rewrite nth_error_upd_same, N. reflexivity.
      + rewrite N. reflexivity.
    - apply Nat.eqb_neq in E. destruct (nth_error (ths st) u); [|reflexivity].
      apply nth_error_upd_other. exact E.
  Qed.

  Fixpoint occ (t : nat) (sched : list nat) : nat :=
    match sched with
    | [] => 0
    | u :: r => (if Nat.eqb u t then 1 else 0) + occ t r
    end.

  (* the state of a thread after ANY schedule is what it reaches running alone for as many
     segments as the schedule gives it: other threads have no influence on it *)
  Lemma thread_independent sched st t :
    nth_error (ths (run sched st)) t =
    option_map (fun th => iter (occ t sched) (segT (sh st)) th) (nth_error (ths st) t).
  Proof.
    revert st; induction sched as [|u r IH]; intros st.
    - cbn. destruct (nth_error (ths st) t); reflexivity.
    - rewrite run_cons, IH, step_shared, step_nth. cbn [occ].
      destruct (Nat.eqb u t).
      + destruct (nth_error (ths st) t) as [th|]; [|reflexivity]. cbn [option_map].
        reflexivity.
      + reflexivity.
  Qed.

  Lemma schedule_independent s1 s2 st t :
    occ t s1 = occ t s2 -> nth_error (ths (run s1 st)) t = nth_error (ths (run s2 st)) t.
  Proof. intros H. rewrite !thread_independent, H. reflexivity. Qed.

  (* ---------- OS worker threads serving several jobs: a worker schedule is a job schedule ---------- *)
  Notation run_gen := (run_gen sigv sign verify key_of).
  Notation wseg_gen := (wseg_gen sigv sign verify key_of).
  Notation wstep_gen := (wstep_gen sigv sign verify key_of).
  Notation wrun_gen := (wrun_gen sigv sign verify key_of).

  Lemma run_gen_app fixed a b st : run_gen fixed (a ++ b) st = run_gen fixed b (run_gen fixed a st).
  Proof. unfold Model.run_gen. apply fold_left_app. Qed.

  Lemma wseg_is_run fixed jobs st : exists l, wseg_gen fixed jobs st = run_gen fixed l st.
  Proof.
    revert st; induction jobs as [|j r IH]; intros st; cbn [Model.wseg_gen].
    - exists []. reflexivity.
    - destruct (nth_error (ths st) j) as [[l [|i p]]|]; try apply IH.
      cbn zeta. destruct (Nat.eqb _ _).
      + destruct (IH (step_gen sigv sign verify key_of fixed j st)) as [l' E]. exists (j :: l'). rewrite E. reflexivity.
      + exists [j]. reflexivity.
  Qed.

  Lemma wstep_is_run fixed ws w st : exists l, wstep_gen fixed ws w st = run_gen fixed l st.
  Proof.
    unfold Model.wstep_gen. destruct (nth_error ws w) as [jobs|]; [apply wseg_is_run|]. exists []. reflexivity.
  Qed.

  (* every schedule of OS workers, whatever jobs each of them serves and in whichever order, is a
     schedule of the jobs: nothing new can happen *)
  Lemma wrun_is_run fixed ws wsched st : exists l, wrun_gen fixed ws wsched st = run_gen fixed l st.
  Proof.
    revert st; induction wsched as [|w r IH]; intros st.
    - exists []. reflexivity.
    - unfold Model.wrun_gen. cbn [fold_left]. fold (wrun_gen fixed ws r (wstep_gen fixed ws w st)).
      destruct (wstep_is_run fixed ws w st) as [l1 E1]. rewrite E1.
      destruct (IH (run_gen fixed l1 st)) as [l2 E2]. rewrite E2.
      exists (l1 ++ l2). rewrite run_gen_app. reflexivity.
  Qed.

  (* ---------- running a thread to the end ---------- *)
  Definition exec_all (sh0 : shared) (th : thread) : local := fold_left (x1 sh0) (snd th) (fst th).

  Lemma x1_gate sh0 l g : x1 sh0 l (IGate g) = l.
  Proof. unfold x1. cbn. destruct (skip l); reflexivity. Qed.

  Lemma exec_all_segA sh0 l prog : exec_all sh0 (segA sh0 l prog) = exec_all sh0 (l, prog).
  Proof.
    unfold exec_all. cbn [fst snd]. revert l; induction prog as [|i r IH]; intros l; [reflexivity|].
    destruct i; cbn [segA fold_left]; try apply IH.
    rewrite x1_gate. destruct (skip l); [apply IH|reflexivity].
  Qed.

  Lemma exec_all_iter sh0 n th : exec_all sh0 (iter n (segT sh0) th) = exec_all sh0 th.
  Proof.
    revert th; induction n as [|n IH]; intros th; [reflexivity|]. cbn [iter]. rewrite IH. unfold segT.
    rewrite exec_all_segA. destruct th; reflexivity.
  Qed.

  Lemma x1_out sh0 l i : exists r, out (x1 sh0 l i) = out l ++ r.
  Proof.
    unfold x1. destruct i; unfold Model.exec; brk; cbn [snd out abort push set_signer end_op];
      try (exists []; rewrite app_nil_r; reflexivity); eexists; reflexivity.
  Qed.

  Lemma exec_all_out sh0 th : exists r, out (exec_all sh0 th) = out (fst th) ++ r.
  Proof.
    destruct th as [l prog]. unfold exec_all. cbn [fst snd]. revert l; induction prog as [|i p IH]; intros l.
    - exists []. cbn. rewrite app_nil_r. reflexivity.
    - cbn [fold_left]. destruct (IH (x1 sh0 l i)) as [r Hr]. destruct (x1_out sh0 l i) as [r' Hr'].
      exists (r' ++ r). rewrite Hr, Hr', app_assoc. reflexivity.
  Qed.

  (* ---------- the entry points, run to the end on the table created at import ---------- *)
  Definition asked (own : nat) (vk : vkey) : nat :=
    match vk with VCert e => key_of e | VKey k => k | VOwn => key_of own end.

  (* what a call yields when its entity is alone in the process *)
  Definition op_result (own : nat) (o : op sigv) : result sigv :=
    match o with
    | OSign a m => if allowed a then RSig (m, a) (sign (key_of own) a (m, a)) else RRaise
    | OVerify p s vk => if allowed (snd p) then RVer (verify (asked own vk) (snd p) p s) else RNone
    end.

  Lemma find_init a :
    find_alg init_shared a = if allowed a then Some {| sdigest := a; skey := None |} else None.
  Proof. do 5 (destruct a as [|a]; [reflexivity|]). reflexivity. Qed.

  Lemma fold_gt sh0 gon g r l : fold_left (x1 sh0) (gt sigv gon g ++ r) l = fold_left (x1 sh0) r l.
  Proof.
    unfold gt. destruct (existsb (gate_eqb g) gon); [|reflexivity]. cbn [app fold_left].
    rewrite x1_gate. reflexivity.
  Qed.

  Definition done (l : local) (r : result sigv) : local :=
    {| owner := owner l; signer := None; skip := false; out := out l ++ [r] |}.

  Local Arguments allowed : simpl never.
  Local Arguments find_alg : simpl never.

  Lemma exec_op gon o rest l :
    skip l = false ->
    fold_left (x1 init_shared) (compile sigv key_of gon o ++ rest) l =
    fold_left (x1 init_shared) rest (done l (op_result (owner l) o)).
  Proof.
    intros Hs. destruct l as [ow sg sk ou]. cbn in Hs. subst sk.
    destruct o as [a m|p s vk]; unfold compile; rewrite <- !app_assoc; cbn [app].
    - cbn [fold_left]. unfold x1 at 2. cbn. unfold op_result. cbn [owner].
      destruct (allowed a) eqn:Ea; cbn [snd].
      + rewrite fold_gt. cbn [fold_left]. unfold x1 at 2. cbn. rewrite find_init, Ea. cbn.
        rewrite fold_gt. cbn [fold_left]. unfold x1 at 2. cbn.
        rewrite fold_gt. cbn [fold_left]. unfold x1 at 2. cbn.
        rewrite fold_gt. cbn [fold_left]. unfold x1 at 2. cbn. reflexivity.
      + rewrite fold_gt. cbn [fold_left]. unfold x1 at 2. cbn.
        rewrite fold_gt. cbn [fold_left]. unfold x1 at 2. cbn.
        rewrite fold_gt. cbn [fold_left]. unfold x1 at 2. cbn.
        rewrite fold_gt. cbn [fold_left]. unfold x1 at 2. cbn. reflexivity.
    - rewrite fold_gt. cbn [fold_left]. unfold x1 at 2. cbn. rewrite find_init.
      unfold op_result. cbn [owner]. destruct (allowed (snd p)) eqn:Ea; cbn.
      + rewrite fold_gt. cbn [fold_left]. unfold x1 at 2. cbn. rewrite find_init, Ea. cbn.
        rewrite fold_gt. cbn [fold_left]. unfold x1 at 2. cbn.
        rewrite fold_gt. cbn [fold_left]. unfold x1 at 2. cbn.
        destruct vk; reflexivity.
      + rewrite fold_gt. cbn [fold_left]. unfold x1 at 2. cbn. rewrite find_init, Ea. cbn.
        rewrite fold_gt. cbn [fold_left]. unfold x1 at 2. cbn.
        rewrite fold_gt. cbn [fold_left]. unfold x1 at 2. cbn. reflexivity.
  Qed.

  Lemma exec_ops gon ops l :
    skip l = false ->
    let l' := fold_left (x1 init_shared) (flat_map (compile sigv key_of gon) ops) l in
    out l' = out l ++ map (op_result (owner l)) ops /\ skip l' = false /\ owner l' = owner l.
  Proof.
    revert l; induction ops as [|o r IH]; intros l Hs; cbn [flat_map map].
    - cbn. rewrite app_nil_r. auto.
    - cbn zeta. rewrite exec_op by exact Hs.
      destruct (IH (done l (op_result (owner l) o)) eq_refl) as (H1 & H2 & H3).
      cbn zeta in H1, H2, H3. rewrite H1, H2, H3. cbn [done out owner]. rewrite <- app_assoc. auto.
  Qed.

  Lemma nth_error_prefix {A} (l r : list A) i x : nth_error l i = Some x -> nth_error (l ++ r) i = Some x.
  Proof.
    intros H. rewrite nth_error_app1; [exact H|]. apply nth_error_Some. congruence.
  Qed.

  (* per-thread results after ANY schedule: a prefix of what the entity alone would get, all of it
     once the thread has finished *)
  Lemma thread_results gon progs sched t own ops :
    nth_error progs t = Some (own, ops) ->
    exists l p, nth_error (ths (run sched (init_state sigv key_of gon progs))) t = Some (l, p)
      /\ (exists r, map (op_result own) ops = out l ++ r)
      /\ (p = [] -> out l = map (op_result own) ops).
  Proof.
    intros Hn. rewrite thread_independent. cbn [init_state ths sh].
    rewrite nth_error_map, Hn. cbn [option_map].
    set (th0 := mk_thread sigv key_of gon (own, ops)).
    set (th := iter _ _ th0).
    assert (E : exec_all init_shared th = exec_all init_shared th0) by apply exec_all_iter.
    assert (O : out (exec_all init_shared th0) = map (op_result own) ops).
    { unfold exec_all, th0, mk_thread. cbn [fst snd].
      destruct (exec_ops gon ops (init_local sigv own) eq_refl) as (H1 & _). exact H1. }
    destruct th as [l p] eqn:Eth. exists l, p. split; [reflexivity|]. split.
    - destruct (exec_all_out init_shared (l, p)) as [r Hr]. exists r. rewrite <- O, <- E. exact Hr.
    - intros ->. rewrite <- O, <- E. reflexivity.
  Qed.

  (* ---------- arbitrary instruction programs: every signature is made with the thread's own key,
     for ANY content of the shared table ---------- *)
  Definition sig_ok (k : nat) (r : result sigv) : Prop :=
    match r with RSig p s => exists d, s = sign k d p | _ => True end.

  Definition linv (l : local) : Prop :=
    (forall h, signer l = Some h -> exists o, h = HOwn o /\ skey o = Some (key_of (owner l)))
    /\ Forall (sig_ok (key_of (owner l))) (out l).

  Definition plain_get (i : instr) : Prop := match i with IGet _ (Some _) => False | _ => True end.

  Lemma x1_owner sh0 l i : owner (x1 sh0 l i) = owner l.
  Proof. unfold x1. destruct i; unfold Model.exec; brk. Qed.

  Lemma x1_inv sh0 l i : plain_get i -> linv l -> linv (x1 sh0 l i).
  Proof.
    intros Hp [Hs Ho]. unfold linv. rewrite x1_owner. unfold x1.
    destruct i; unfold Model.exec; brk; cbn [snd signer out abort push set_signer end_op owner];
      try solve [split; [exact Hs|exact Ho]];
      try solve [split; [intros h' E'; apply Hs; congruence|exact Ho]];
      try solve [split; [exact Hs|apply Forall_app; split; [exact Ho|repeat constructor]]];
      try solve [split; [intros h' E'; apply Hs; congruence|apply Forall_app; split; [exact Ho|repeat constructor]]];
      try solve [split; [intros h; discriminate|exact Ho]].
    - (* IGet, known algorithm *)
      destruct sigkey; [contradiction|]. split; [|exact Ho].
      intros h [= <-]. eexists; split; reflexivity.
    - (* ISign *)
      split; [exact Hs|]. apply Forall_app; split; [exact Ho|]. constructor; [|constructor].
      cbn. match goal with H : deref _ _ = Some ?o |- _ => rename H into Hd end.
      destruct (signer l) as [[o'|a]|] eqn:Es; cbn in Hd; try discriminate.
      + injection Hd as <-. destruct (Hs _ eq_refl) as (o2 & [= <-] & Hk).
        match goal with H : skey _ = Some ?n |- _ => rewrite Hk in H; injection H as <- end.
        eexists; reflexivity.
      + destruct (Hs _ eq_refl) as (o2 & [=] & _).
  Qed.

  Lemma segA_inv sh0 l prog :
    Forall plain_get prog -> linv l ->
    linv (fst (segA sh0 l prog)) /\ Forall plain_get (snd (segA sh0 l prog))
    /\ owner (fst (segA sh0 l prog)) = owner l.
  Proof.
    revert l; induction prog as [|i r IH]; intros l Hp Hl; [cbn; auto|].
    inversion Hp as [|? ? Hi Hr]; subst.
    assert (G : forall j, j = i -> linv (fst (segA sh0 (x1 sh0 l j) r)) /\
                 Forall plain_get (snd (segA sh0 (x1 sh0 l j) r)) /\
                 owner (fst (segA sh0 (x1 sh0 l j) r)) = owner l).
    { intros j ->. rewrite <- (x1_owner sh0 l i). apply IH; [exact Hr|apply x1_inv; assumption]. }
    destruct i; cbn [segA]; try (apply G; reflexivity).
    destruct (skip l); [apply IH; assumption|]. cbn. auto.
  Qed.

  Definition tinv (th : thread) : Prop := linv (fst th) /\ Forall plain_get (snd th).

  Lemma iter_inv sh0 n th : tinv th -> tinv (iter n (segT sh0) th) /\ owner (fst (iter n (segT sh0) th)) = owner (fst th).
  Proof.
    revert th; induction n as [|n IH]; intros th Ht; [cbn; auto|].
    cbn [iter]. destruct Ht as [H1 H2]. destruct (segA_inv sh0 (fst th) (snd th) H2 H1) as (A & B & C).
    destruct (IH (segT sh0 th)) as [D E]; [split; assumption|]. split; [exact D|].
    rewrite E. exact C.
  Qed.

  (* the hypothesis of own_key_any_program is satisfiable: the compiled entry points, except a
     verification that names an explicit sigkey, make threads that satisfy it *)
  Definition no_sigkey (o : op sigv) : Prop := match o with OVerify _ _ (VKey _) => False | _ => True end.

  Lemma gt_plain gon g : Forall plain_get (gt sigv gon g).
  Proof. unfold gt. destruct (existsb (gate_eqb g) gon); repeat constructor. Qed.

  Lemma compile_plain gon o : no_sigkey o -> Forall plain_get (compile sigv key_of gon o).
  Proof.
    intros H. destruct o as [a m|q s vk]; unfold compile;
      repeat first [apply Forall_app; split | apply gt_plain | constructor; [|] | constructor]; try exact I.
    destruct vk; [exact I|contradiction|exact I].
  Qed.

  Lemma init_tinv gon progs :
    (forall t o, In t progs -> In o (snd t) -> no_sigkey o) ->
    forall th, In th (ths (init_state sigv key_of gon progs)) -> tinv th.
  Proof.
    intros H th Hin. cbn [init_state ths] in Hin. apply in_map_iff in Hin as [[own ops] [<- Hin]].
    unfold mk_thread, tinv. cbn [fst snd]. split.
    - split; [intros h; discriminate|constructor].
    - apply Forall_forall. intros i Hi. apply in_flat_map in Hi as [o [Ho Hi]].
      pose proof (compile_plain gon o (H _ _ Hin Ho)) as F. rewrite Forall_forall in F. apply F, Hi.
  Qed.

  Lemma own_key_any_program sched st t l p :
    (forall th, In th (ths st) -> tinv th) ->
    nth_error (ths (run sched st)) t = Some (l, p) ->
    exists l0 p0, nth_error (ths st) t = Some (l0, p0) /\ owner l = owner l0 /\
      forall q s, In (RSig q s) (out l) -> exists d, s = sign (key_of (owner l0)) d q.
  Proof.
    intros Hall Hn. rewrite thread_independent in Hn.
    destruct (nth_error (ths st) t) as [[l0 p0]|] eqn:N; [|discriminate]. cbn in Hn.
    exists l0, p0. split; [reflexivity|].
    destruct (iter_inv (sh st) (occ t sched) (l0, p0)) as [[[_ Ho] _] Hw].
    { apply Hall. eapply nth_error_In; exact N. }
    injection Hn as Hn. rewrite Hn in Ho, Hw. cbn [fst] in Ho, Hw. split; [exact Hw|].
    intros q s Hin. rewrite Forall_forall in Ho. specialize (Ho _ Hin). cbn in Ho.
    rewrite Hw in Ho. exact Ho.
  Qed.

End Proofs.

(* ---------- the boolean spec is the stated spec (any verify) ---------- *)
Lemma own_key_vector_b_iff ks own vm : own_key_vector_b ks own vm = true <-> own_key_vector ks own vm.
Proof.
  unfold own_key_vector_b, own_key_vector.
  rewrite (list_eqb_eq Bool.eqb) by (intros a b; apply Bool.eqb_true_iff). split.
  - intros ->. split; [apply map_length|]. intros e He.
    rewrite (nth_indep _ false (Nat.eqb 0 (kof ks own))) by (rewrite map_length; exact He).
    rewrite (map_nth (fun k => Nat.eqb k (kof ks own))). unfold kof at 2. apply Nat.eqb_eq.
  - intros [Hl H]. apply (nth_ext _ _ false false); [rewrite map_length; exact Hl|].
    intros e He. rewrite Hl in He. specialize (H e He).
    rewrite (nth_indep (map _ _) false (Nat.eqb 0 (kof ks own))) by (rewrite map_length; exact He).
    rewrite (map_nth (fun k => Nat.eqb k (kof ks own))). fold (kof ks e).
    destruct (nth e vm false); destruct (Nat.eqb (kof ks e) (kof ks own)) eqn:E; try reflexivity.
    + apply Nat.eqb_neq in E. exfalso. apply E, H. reflexivity.
    + apply Nat.eqb_eq in E. apply H in E. discriminate.
Qed.

Lemma spec_b_iff sigv verify (x : input sigv) o : spec_b sigv verify x o = true <-> spec sigv verify x o.
Proof.
  unfold spec_b, spec. apply all2b_iff. intros [own ops] os. cbn [fst snd]. apply all2b_iff.
  intros op r. destruct op, r; cbn; try tauto.
  - apply own_key_vector_b_iff.
  - rewrite Bool.eqb_true_iff. tauto.
Qed.

(* ---------- the property, under ideal signatures ---------- *)
Section Main.
  Variable sigv : Type.
  Variable sign : nat -> nat -> payload -> sigv.
  Variable verify : nat -> nat -> payload -> sigv -> bool.
  Hypothesis verify_ideal : forall k d p k' d' p',
    verify k' d' p' (sign k d p) = true <-> k' = k /\ d' = d /\ p' = p.

  Definition final (x : input sigv) : state sigv :=
    run sigv sign verify (kof (keys x)) (sched x) (init_state sigv (kof (keys x)) (gon x) (progs x)).

  Lemma op_result_ok ks own (o : op sigv) :
    ok_result sigv verify ks own o (observe sigv verify ks (op_result sigv sign verify (kof ks) own o)).
  Proof.
    destruct o as [a m|p s vk]; unfold op_result.
    - destruct (allowed a); cbn; [|exact I]. split; [apply map_length|]. intros e He.
      rewrite (nth_indep _ false (verify 0 a (m, a) (sign (kof ks own) a (m, a)))) by (rewrite map_length; exact He).
      rewrite (map_nth (fun k => verify k a (m, a) (sign (kof ks own) a (m, a)))).
      rewrite verify_ideal. unfold kof at 2. tauto.
    - destruct (allowed (snd p)); cbn; [|exact I]. destruct vk; reflexivity.
  Qed.

  (* for every number of threads, every program of calls, every gate set and EVERY schedule
     (complete or not, fair or not): every result obtained so far satisfies the property *)
  Lemma own_key_holds (x : input sigv) :
    spec sigv verify x (observe_all sigv verify (keys x) (outs sigv (final x))).
  Proof.
    unfold spec. apply all2_nth. intros t [own ops] os Hp Ho. cbn [fst snd].
    unfold observe_all, outs in Ho. rewrite !nth_error_map in Ho.
    destruct (thread_results sigv sign verify (kof (keys x)) (gon x) (progs x) (sched x) t own ops Hp)
      as (l & p & Hn & [r Hr] & _).
    fold (final x) in Hn. unfold thread in *. rewrite Hn in Ho. cbn in Ho. injection Ho as <-.
    apply all2_nth. intros i o b Hi Hb. rewrite nth_error_map in Hb.
    destruct (nth_error (out l) i) as [r0|] eqn:E; [|discriminate]. cbn in Hb. injection Hb as <-.
    pose proof (nth_error_prefix _ r _ _ E) as E2. rewrite <- Hr, nth_error_map, Hi in E2.
    cbn in E2. injection E2 as <-. apply op_result_ok.
  Qed.

  (* a finished thread has exactly the results its entity would get alone in the process:
     the results do not depend on the schedule *)
  Lemma finished_results (x : input sigv) t own ops l :
    nth_error (progs x) t = Some (own, ops) ->
    nth_error (ths (final x)) t = Some (l, []) ->
    out l = map (op_result sigv sign verify (kof (keys x)) own) ops.
  Proof.
    intros Hp Hn.
    destruct (thread_results sigv sign verify (kof (keys x)) (gon x) (progs x) (sched x) t own ops Hp)
      as (l' & p' & Hn' & _ & Hf).
    fold (final x) in Hn'. rewrite Hn in Hn'. injection Hn' as <- <-. apply Hf. reflexivity.
  Qed.

  Lemma final_length (x : input sigv) : length (ths (final x)) = length (progs x).
  Proof.
    unfold final. rewrite run_length. cbn. apply map_length.
  Qed.

  Lemma complete_outs (x : input sigv) :
    finished sigv (final x) = true ->
    outs sigv (final x) =
    map (fun th => map (op_result sigv sign verify (kof (keys x)) (fst th)) (snd th)) (progs x).
  Proof.
    intros Hf. apply nth_ext with (d := []) (d' := []).
    - unfold outs. rewrite !map_length. apply final_length.
    - intros t Ht. unfold outs in *. rewrite map_length in Ht.
      destruct (nth_error (ths (final x)) t) as [[l p]|] eqn:N.
      2:{ apply nth_error_None in N. exfalso. apply (Nat.lt_irrefl t). eapply Nat.lt_le_trans; eassumption. }
      rewrite final_length in Ht. apply nth_error_Some in Ht.
      destruct (nth_error (progs x) t) as [[own ops]|] eqn:P; [|congruence].
      erewrite (nth_error_nth _ _ _ (map_nth_error _ _ _ N)).
      erewrite (nth_error_nth _ _ _ (map_nth_error _ _ _ P)). cbn [fst snd].
      assert (p = []).
      { unfold finished in Hf. rewrite forallb_forall in Hf. specialize (Hf _ (nth_error_In _ _ N)).
        cbn in Hf. destruct p; [reflexivity|discriminate]. }
      subst p. eapply finished_results; eassumption.
  Qed.

  (* ---------- worker pools: OS threads that serve jobs of several entities ---------- *)
  Definition wfinal (x : input sigv) (ws : list (list nat)) : state sigv :=
    wrun sigv sign verify (kof (keys x)) ws (sched x) (init_state sigv (kof (keys x)) (gon x) (progs x)).

  Definition resched (x : input sigv) (s : list nat) : input sigv :=
    {| keys := keys x; gon := gon x; progs := progs x; sched := s |}.

  Lemma wfinal_final (x : input sigv) ws : exists s, wfinal x ws = final (resched x s).
  Proof.
    unfold wfinal, wrun.
    destruct (wrun_is_run sigv sign verify (kof (keys x)) true ws (sched x)
                (init_state sigv (kof (keys x)) (gon x) (progs x))) as [s E].
    exists s. rewrite E. reflexivity.
  Qed.

  Lemma pool_holds (x : input sigv) ws :
    spec sigv verify x (observe_all sigv verify (keys x) (outs sigv (wfinal x ws))).
  Proof. destruct (wfinal_final x ws) as [s ->]. exact (own_key_holds (resched x s)). Qed.

  Lemma pool_complete_outs (x : input sigv) ws :
    finished sigv (wfinal x ws) = true ->
    outs sigv (wfinal x ws) =
    map (fun th => map (op_result sigv sign verify (kof (keys x)) (fst th)) (snd th)) (progs x).
  Proof. destruct (wfinal_final x ws) as [s ->]. exact (complete_outs (resched x s)). Qed.

  (* arbitrary instruction programs, arbitrary shared table, any schedule: a signature produced by
     thread t verifies only under the key of t's entity *)
  Lemma own_key_verifies key_of sched (st : state sigv) t l p :
    (forall th, In th (ths st) -> tinv sigv sign key_of th) ->
    nth_error (ths (run sigv sign verify key_of sched st)) t = Some (l, p) ->
    forall q s, In (RSig q s) (out l) ->
      (exists d, verify (key_of (owner l)) d q s = true) /\
      (forall k' d' q', verify k' d' q' s = true -> k' = key_of (owner l) /\ q' = q).
  Proof.
    intros Hall Hn q s Hin.
    destruct (own_key_any_program sigv sign verify key_of sched st t l p Hall Hn) as (l0 & p0 & _ & Ho & Hs).
    destruct (Hs q s Hin) as [d ->]. rewrite <- Ho. split.
    - exists d. apply verify_ideal. auto.
    - intros k' d' q' Hv. apply verify_ideal in Hv. tauto.
  Qed.
End Main.

(* ---------- deployments: the key an entity signs with is the key of the certificate it publishes,
   namely the pair installed at its path when it was built ---------- *)
Lemma nth_error_snoc {A} (l : list A) x c :
  nth_error (l ++ [x]) c = if Nat.eqb (length l) c then Some x else nth_error l c.
Proof.
  revert c. induction l as [|a l IH]; intros [|c]; cbn; try reflexivity.
  - destruct c; reflexivity.
  - apply IH.
Qed.

(* key and certificate are read from the files ONE configuration names, at one moment: whatever the loader
   (current or old) handed back, an entity's backend key and its certificate are one pair *)
Lemma build_at_pair fs p k c : build_at fs p = Some (k, c) -> k = c /\ fread fs p = Some k.
Proof. unfold build_at. destruct (fread fs p); [intros [= <- <-]; auto|discriminate]. Qed.

Lemma build_slot_pair fs oc : fst (build_slot fs oc) = snd (build_slot fs oc).
Proof.
  unfold build_slot. destruct oc as [p|]; [|reflexivity].
  destruct (build_at fs p) as [[k c]|] eqn:B; [|reflexivity]. apply build_at_pair in B as [-> _]. reflexivity.
Qed.

Lemma loaded_fst_snd v d : forall fs cf ld,
  map fst (loaded_gen v fs cf ld d) = map snd (loaded_gen v fs cf ld d).
Proof.
  assert (O : forall fs p l l', map (@fst nat nat) l = map snd l' ->
             map fst (ocons (build_at fs p) l) = map snd (ocons (build_at fs p) l')).
  { intros fs p l l' H. destruct (build_at fs p) as [[k c]|] eqn:B; cbn [ocons map fst snd]; [|exact H].
    apply build_at_pair in B as [-> _]. rewrite H. reflexivity. }
  induction d as [|s r IH]; intros fs cf ld; [reflexivity|].
  destruct s as [p k st how|p|j|p how par|c|c|dr b p|dr b|dr b a sp|p|dr b p]; cbn [loaded_gen]; try apply IH; try (apply O, IH).
  - destruct (Nat.eqb how 3); apply IH.
  - destruct (nth_error cf c); [apply O|]; apply IH.
  - destruct (load_module v ld dr b (is_bare sp)) as [oc ld']. cbn [map]. rewrite build_slot_pair, IH. reflexivity.
Qed.

Lemma deploy_keys_certs d : deploy_keys d = deploy_certs d.
Proof. apply loaded_fst_snd. Qed.

Lemma deploy_keys_certs_v0 d : deploy_keys_v0 d = deploy_certs_v0 d.
Proof. apply loaded_fst_snd. Qed.

Lemma deploy_keys_certs_v1 d : deploy_keys_v1 d = deploy_certs_v1 d.
Proof. apply loaded_fst_snd. Qed.

Lemma deploy_keys_certs_both d :
  deploy_keys d = deploy_certs d /\ deploy_keys_v1 d = deploy_certs_v1 d /\ deploy_keys_v0 d = deploy_certs_v0 d.
Proof. split; [apply deploy_keys_certs|split; [apply deploy_keys_certs_v1|apply deploy_keys_certs_v0]]. Qed.

(* ---------- the model's state against the script read backwards (Spec) ---------- *)
Lemma src_now_versions dr b before p : src_now dr b before = Some p -> In p (src_versions dr b before).
Proof.
  induction before as [|s r IH]; [discriminate|].
  destruct s; cbn [src_now src_versions]; try exact IH.
  - destruct (same_file dr b dir base); [intros [= ->]; left; reflexivity|exact IH].
  - destruct (same_file dr b dir base); [discriminate|exact IH].
  - destruct (same_file dr b dir base); [intros H; right; apply IH, H|exact IH].
Qed.

Lemma pkg_now_versions dr b before p : pkg_now dr b before = Some p -> In p (src_versions dr b before).
Proof.
  induction before as [|s r IH]; [discriminate|].
  destruct s; cbn [pkg_now src_versions]; try exact IH.
  - destruct (same_file dr b dir base); [intros H; right; apply IH, H|exact IH].
  - destruct (same_file dr b dir base); [intros [= ->]; left; reflexivity|exact IH].
Qed.

Lemma path_find_read c k sp b d1 pk1 c1 :
  path_find c k sp b = Some (d1, pk1, c1) -> cf_read (if pk1 then k else c) d1 b = Some c1.
Proof.
  induction sp as [|d r IH]; [discriminate|]. cbn [path_find].
  destruct (cf_read k d b) eqn:E; [intros [= <- <- <-]; exact E|].
  destruct (cf_read c d b) eqn:E2; [intros [= <- <- <-]; exact E2|exact IH].
Qed.

Definition st_files (ld : lstate) (before : list dstep) : Prop :=
  (forall d b, cf_read (cfiles ld) d b = src_now d b before) /\
  (forall d b, cf_read (pkgs ld) d b = pkg_now d b before).

Lemma st_files_write ld before dr b p :
  st_files ld before -> st_files (cf_write ld dr b (Some p)) (DWrite dr b p :: before).
Proof.
  intros [H1 H2]. split; [|exact H2].
  intros d b'. cbn [cf_write cfiles cf_read src_now]. unfold same_file. destruct (_ && _); [reflexivity|apply H1].
Qed.

Lemma st_files_unlink ld before dr b :
  st_files ld before -> st_files (cf_write ld dr b None) (DUnlink dr b :: before).
Proof.
  intros [H1 H2]. split; [|exact H2].
  intros d b'. cbn [cf_write cfiles cf_read src_now]. unfold same_file. destruct (_ && _); [reflexivity|apply H1].
Qed.

Lemma st_files_pkg ld before dr b p :
  st_files ld before -> st_files (pkg_write ld dr b p) (DWritePkg dr b p :: before).
Proof.
  intros [H1 H2]. split; [exact H1|].
  intros d b'. cbn [pkg_write pkgs cf_read pkg_now]. unfold same_file. destruct (_ && _); [reflexivity|apply H2].
Qed.

Lemma load_module_files v ld dr b bare :
  cfiles (snd (load_module v ld dr b bare)) = cfiles ld /\ pkgs (snd (load_module v ld dr b bare)) = pkgs ld.
Proof.
  unfold load_module. destruct (mod_find (mods ld) b); [split; reflexivity|]. destruct (path_find _ _ _ b); split; reflexivity.
Qed.

Lemma st_files_load v ld before dr b bare s :
  st_files ld before ->
  (forall x y, src_now x y (s :: before) = src_now x y before) ->
  (forall x y, pkg_now x y (s :: before) = pkg_now x y before) ->
  st_files (snd (load_module v ld dr b bare)) (s :: before).
Proof.
  intros [H1 H2] E1 E2. destruct (load_module_files v ld dr b bare) as [F1 F2]. unfold st_files. rewrite F1, F2.
  split; intros x y; [rewrite E1; apply H1|rewrite E2; apply H2].
Qed.

(* the file or package a module came from, as the state holds it *)
Definition origin (ld : lstate) (pk : bool) : cfsys := if pk then pkgs ld else cfiles ld.

Lemma origin_versions ld before pk d b c :
  st_files ld before -> cf_read (origin ld pk) d b = Some c -> In c (src_versions d b before).
Proof.
  intros [H1 H2]. destruct pk; cbn [origin]; [rewrite H2; apply pkg_now_versions|rewrite H1; apply src_now_versions].
Qed.

(* what sys.modules holds is, for every module, something its OWN file / package has said *)
Definition st_mods (ld : lstate) (before : list dstep) : Prop :=
  forall b d0 pk0 c0, mod_find (mods ld) b = Some (d0, pk0, c0) -> In c0 (src_versions d0 b before).

(* ... and, as long as nothing is touched after a load of its base name, what it still says *)
Definition st_mods_fresh (ld : lstate) (before : list dstep) : Prop :=
  forall b d0 pk0 c0, mod_find (mods ld) b = Some (d0, pk0, c0) ->
    cf_read (origin ld pk0) d0 b = Some c0 /\ base_loaded b before = true.

(* the third branch of _load (581b4f03) and the second (ca0d12ee): whatever import_module found, as long as it is
   something ITS source has said, what is handed back is something the source ASKED FOR has said - a bare name
   must name a file that is there *)
Lemma answer_own ld before dr b bare d0 pk0 c0 p :
  st_files ld before -> In c0 (src_versions d0 b before) ->
  (bare = true -> present (src_now dr b before) = true) ->
  answer V2 ld dr b bare (d0, pk0, c0) = Some p -> In p (src_versions dr b before).
Proof.
  intros HF Hc Hb. unfold answer. destruct HF as [H1 H2]. rewrite H1.
  destruct (src_now dr b before) as [cnow|] eqn:N.
  - destruct (negb pk0 && Nat.eqb d0 dr) eqn:E.
    + apply andb_true_iff in E as [_ E]. apply Nat.eqb_eq in E. subst d0. intros [= <-]. exact Hc.
    + destruct (cf_read _ d0 b); [|discriminate]. intros [= <-]. apply src_now_versions, N.
  - destruct bare; [specialize (Hb eq_refl); discriminate|]. cbn [orb].
    destruct (Nat.eqb d0 dr) eqn:E; [|discriminate]. apply Nat.eqb_eq in E. subst d0. intros [= <-]. exact Hc.
Qed.

(* one load: the CONFIG handed back is one the source asked for has said (or the load raises) *)
Lemma load_module_own ld before dr b bare :
  st_files ld before -> st_mods ld before ->
  (bare = true -> present (src_now dr b before) = true) ->
  (forall p, fst (load_module V2 ld dr b bare) = Some p -> In p (src_versions dr b before))
  /\ st_mods (snd (load_module V2 ld dr b bare)) before.
Proof.
  intros HF HM Hb. unfold load_module. destruct (mod_find (mods ld) b) as [[[d0 pk0] c0]|] eqn:M.
  - cbn [fst snd]. split; [|intros b' d' pk' c' H; apply (HM b' d' pk' c'); exact H].
    intros p. apply (answer_own ld before dr b bare d0 pk0 c0 p HF (HM b d0 pk0 c0 M) Hb).
  - destruct (path_find (cfiles ld) (pkgs ld) (dr :: spath ld) b) as [[[d1 pk1] c1]|] eqn:P; cbn [fst snd].
    + assert (Hc : In c1 (src_versions d1 b before)).
      { apply path_find_read in P. apply (origin_versions ld before pk1 d1 b c1 HF). destruct pk1; exact P. }
      split; [intros p; apply (answer_own ld before dr b bare d1 pk1 c1 p HF Hc Hb)|].
      intros b' d' pk' c'. cbn [with_path mods mod_find]. destruct (Nat.eqb b b') eqn:E.
      * apply Nat.eqb_eq in E. subst b'. intros [= <- <- <-]. exact Hc.
      * apply HM.
    + split; [discriminate|]. intros b' d' pk' c' H. apply (HM b' d' pk' c'). exact H.
Qed.

Lemma answer_fresh ld before dr b bare d0 pk0 c0 pn :
  st_files ld before -> cf_read (origin ld pk0) d0 b = Some c0 -> src_now dr b before = Some pn ->
  answer V2 ld dr b bare (d0, pk0, c0) = Some pn.
Proof.
  intros [H1 H2] R N. unfold answer. rewrite H1, N. destruct pk0; cbn [negb andb origin] in *.
  - rewrite R. reflexivity.
  - destruct (Nat.eqb d0 dr) eqn:E.
    + apply Nat.eqb_eq in E. subst d0. rewrite H1, N in R. symmetry. exact R.
    + rewrite R. reflexivity.
Qed.

(* one load, files_present and no_reedit: the CONFIG handed back is what the file asked for says NOW *)
Lemma load_module_fresh ld before dr b a sp pn :
  st_files ld before -> st_mods_fresh ld before -> src_now dr b before = Some pn ->
  fst (load_module V2 ld dr b (is_bare sp)) = Some pn
  /\ st_mods_fresh (snd (load_module V2 ld dr b (is_bare sp))) (DLoadFile dr b a sp :: before).
Proof.
  intros HF HM Hn. unfold load_module. destruct (mod_find (mods ld) b) as [[[d0 pk0] c0]|] eqn:M.
  - cbn [fst snd]. destruct (HM b d0 pk0 c0 M) as [R0 _]. split.
    + apply (answer_fresh ld before dr b _ d0 pk0 c0 pn HF R0 Hn).
    + intros b' d' pk' c' H. cbn [with_path mods] in H. destruct (HM b' d' pk' c' H) as [R1 L1]. split; [exact R1|].
      cbn [base_loaded]. rewrite L1. apply orb_true_r.
  - destruct (path_find (cfiles ld) (pkgs ld) (dr :: spath ld) b) as [[[d1 pk1] c1]|] eqn:P; cbn [fst snd].
    + assert (R : cf_read (origin ld pk1) d1 b = Some c1) by (apply path_find_read in P; destruct pk1; exact P).
      split; [apply (answer_fresh ld before dr b _ d1 pk1 c1 pn HF R Hn)|].
      intros b' d' pk' c'. cbn [with_path mods mod_find base_loaded]. destruct (Nat.eqb b b') eqn:E.
      * apply Nat.eqb_eq in E. subst b'. intros [= <- <- <-]. split; [exact R|reflexivity].
      * intros H. destruct (HM b' d' pk' c' H) as [R1 L1]. rewrite L1. split; [exact R1|reflexivity].
    + (* the file is there and dr is searched first: something is found *)
      exfalso. cbn [path_find] in P. destruct HF as [H1 _]. rewrite H1, Hn in P.
      destruct (cf_read (pkgs ld) dr b); discriminate.
Qed.

Lemma st_mods_fresh_touch ld ld' before b s :
  st_mods_fresh ld before -> base_loaded b before = false ->
  (forall b', base_loaded b' (s :: before) = base_loaded b' before) ->
  mods ld' = mods ld ->
  (forall pk d' b', b' <> b -> cf_read (origin ld' pk) d' b' = cf_read (origin ld pk) d' b') ->
  st_mods_fresh ld' (s :: before).
Proof.
  intros HM Hb Hs Em Er b' d' pk' c' H. rewrite Em in H. destruct (HM b' d' pk' c' H) as [R L]. rewrite Hs. split; [|exact L].
  rewrite Er; [exact R|]. intros ->. congruence.
Qed.

Lemma cf_read_other c dr b v d' b' : b' <> b -> cf_read (((dr, b), v) :: c) d' b' = cf_read c d' b'.
Proof.
  intros N. cbn [cf_read]. destruct (Nat.eqb dr d' && Nat.eqb b b') eqn:E; [|reflexivity].
  apply andb_true_iff in E as [_ E]. apply Nat.eqb_eq in E. congruence.
Qed.

Lemma build_slot_spec fs before p :
  (forall q, fread fs q = last_install q before) ->
  build_slot fs (Some p) = (slot (last_install p before), slot (last_install p before)).
Proof. intros H. unfold build_slot, build_at. rewrite H. destruct (last_install p before); reflexivity. Qed.

Ltac side Hs Fs Ms := first [assumption | apply Hs; reflexivity | apply Fs; intros; split; reflexivity | apply Ms; reflexivity].

(* STRICT: as long as every file asked for exists and no file is touched after a load of its name, the pair an
   entity signs with and the certificate it publishes are the pair its own configuration names when it is built *)
Lemma loaded_published_gen d : forall fs cf ld before,
  (forall p, fread fs p = last_install p before) ->
  (forall c, nth_error cf c = conf_path c before) ->
  length cf = nconf before ->
  st_files ld before -> st_mods_fresh ld before ->
  files_present_from before d = true -> no_reedit_from before d = true ->
  map fst (loaded fs cf ld d) = certs_from before d /\ map snd (loaded fs cf ld d) = certs_from before d.
Proof.
  unfold loaded.
  induction d as [|s r IH]; intros fs cf ld before H HC HL HF HM GP GE; [split; reflexivity|].
  assert (Hs : forall s', (forall q, last_install q (s' :: before) = last_install q before) ->
                          forall q, fread fs q = last_install q (s' :: before)) by (intros s' E q; rewrite E; apply H).
  assert (Fs : forall s', (forall x y, src_now x y (s' :: before) = src_now x y before /\
                                       pkg_now x y (s' :: before) = pkg_now x y before) -> st_files ld (s' :: before)).
  { intros s' E. destruct HF as [H1 H2]. split; intros x y; destruct (E x y) as [E1 E2]; [rewrite E1; apply H1|rewrite E2; apply H2]. }
  assert (Ms : forall s', (forall b', base_loaded b' (s' :: before) = base_loaded b' before) -> st_mods_fresh ld (s' :: before)).
  { intros s' E b' d' pk' c' M. destruct (HM b' d' pk' c' M) as [R L]. rewrite E. auto. }
  destruct s as [p k st how|p|j|p how par|c|c|dr b p|dr b|dr b a sp|p|dr b p]; cbn [loaded_gen certs_from];
    cbn [files_present_from no_reedit_from] in GP, GE.
  - apply IH; try side Hs Fs Ms.
    intros q. cbn [fread last_install]. destruct (Nat.eqb p q); [reflexivity|apply H].
  - unfold build_at. rewrite H.
    destruct (IH fs cf ld (DCreate p :: before)) as [A B]; try side Hs Fs Ms.
    destruct (last_install p before); cbn [ocons map fst snd]; [rewrite A, B; split; reflexivity|split; assumption].
  - apply IH; try side Hs Fs Ms.
  - destruct (Nat.eqb how 3) eqn:E3.
    + apply IH; try side Hs Fs Ms; [|rewrite upd_length; cbn [nconf]; rewrite E3; exact HL].
      intros c. cbn [conf_path]. rewrite E3. destruct (Nat.eqb par c) eqn:E.
      * apply Nat.eqb_eq in E. subst c. rewrite nth_error_upd_same, HC. reflexivity.
      * apply Nat.eqb_neq in E. rewrite nth_error_upd_other by exact E. apply HC.
    + apply IH; try side Hs Fs Ms; [|rewrite app_length; cbn [nconf length]; rewrite E3, HL; apply Nat.add_1_r].
      intros c. cbn [conf_path]. rewrite E3, nth_error_snoc, HL. destruct (Nat.eqb (nconf before) c); [reflexivity|apply HC].
  - rewrite HC.
    destruct (IH fs cf ld (DBuild c :: before)) as [A B]; try side Hs Fs Ms.
    destruct (conf_path c before) as [p|]; cbn [cert_at]; [|split; assumption].
    unfold build_at. rewrite H.
    destruct (last_install p before); cbn [ocons map fst snd]; [rewrite A, B; split; reflexivity|split; assumption].
  - apply IH; try side Hs Fs Ms.
  - apply andb_true_iff in GE as [Gb GE]. apply negb_true_iff in Gb.
    apply IH; try side Hs Fs Ms; [apply st_files_write; exact HF|].
    apply (st_mods_fresh_touch ld _ before b _ HM Gb); [reflexivity|reflexivity|].
    intros pk d' b' N. destruct pk; cbn [origin cf_write cfiles pkgs]; [reflexivity|apply cf_read_other, N].
  - apply andb_true_iff in GE as [Gb GE]. apply negb_true_iff in Gb.
    apply IH; try side Hs Fs Ms; [apply st_files_unlink; exact HF|].
    apply (st_mods_fresh_touch ld _ before b _ HM Gb); [reflexivity|reflexivity|].
    intros pk d' b' N. destruct pk; cbn [origin cf_write cfiles pkgs]; [reflexivity|apply cf_read_other, N].
  - apply andb_true_iff in GP as [Gn GP]. destruct (src_now dr b before) as [pn|] eqn:N; [|discriminate].
    destruct (load_module_fresh ld before dr b a sp pn HF HM N) as [L1 L2].
    pose proof (st_files_load V2 ld before dr b (is_bare sp) (DLoadFile dr b a sp) HF
                  (fun _ _ => eq_refl) (fun _ _ => eq_refl)) as L3.
    destruct (load_module V2 ld dr b (is_bare sp)) as [oc ld']. cbn [fst snd] in L1, L2, L3. subst oc.
    rewrite (build_slot_spec fs before pn H). cbn [map fst snd cert_at].
    destruct (IH fs cf ld' (DLoadFile dr b a sp :: before)) as [A B]; try side Hs Fs Ms.
    rewrite A, B. split; reflexivity.
  - unfold build_at. rewrite H.
    destruct (IH fs cf ld (DFactory p :: before)) as [A B]; try side Hs Fs Ms.
    destruct (last_install p before); cbn [ocons map fst snd]; [rewrite A, B; split; reflexivity|split; assumption].
  - apply andb_true_iff in GE as [Gb GE]. apply negb_true_iff in Gb.
    apply IH; try side Hs Fs Ms; [apply st_files_pkg; exact HF|].
    apply (st_mods_fresh_touch ld _ before b _ HM Gb); [reflexivity|reflexivity|].
    intros pk d' b' N. destruct pk; cbn [origin pkg_write cfiles pkgs]; [apply cf_read_other, N|reflexivity].
Qed.

Lemma deploy_published d :
  files_present d = true -> no_reedit d = true -> deploy_keys d = published d /\ deploy_certs d = published d.
Proof.
  intros GP GE. apply loaded_published_gen; try assumption;
    [intros p; reflexivity|intros [|c]; reflexivity|reflexivity|split; intros x y; reflexivity|intros b d0 pk0 c0; discriminate].
Qed.

(* scripts without configuration files (all of rounds 1-4) meet both hypotheses *)
Fixpoint no_files (d : list dstep) : bool :=
  match d with
  | [] => true
  | (DWrite _ _ _ | DUnlink _ _ | DLoadFile _ _ _ _ | DWritePkg _ _ _) :: _ => false
  | _ :: r => no_files r
  end.

Lemma no_files_guards d : no_files d = true -> forall before,
  files_present_from before d = true /\ no_reedit_from before d = true.
Proof.
  induction d as [|s r IH]; intros H before; [split; reflexivity|].
  destruct s; cbn [no_files] in H; try discriminate; cbn [files_present_from no_reedit_from]; apply IH; exact H.
Qed.

Lemma deploy_published_no_files d : no_files d = true -> deploy_keys d = published d /\ deploy_certs d = published d.
Proof. intros H. destruct (no_files_guards d H []) as [A B]. apply deploy_published; assumption. Qed.

(* OWN SOURCE: files that exist or not, packages, edited since they were first loaded or not - the certificate (= the
   key pair, deploy_keys_certs) of every entity is one its own configuration source accounts for; the one hypothesis
   left: a file asked for by its BARE name (no directory given) is there *)
Lemma loaded_own_source_gen d : forall fs cf ld before,
  (forall p, fread fs p = last_install p before) ->
  (forall c, nth_error cf c = conf_path c before) ->
  length cf = nconf before ->
  st_files ld before -> st_mods ld before ->
  bare_present_from before d = true ->
  own_source (accounted_from before d) (map snd (loaded fs cf ld d)).
Proof.
  unfold loaded.
  induction d as [|s r IH]; intros fs cf ld before H HC HL HF HM GP; [exact I|].
  assert (Hs : forall s', (forall q, last_install q (s' :: before) = last_install q before) ->
                          forall q, fread fs q = last_install q (s' :: before)) by (intros s' E q; rewrite E; apply H).
  assert (Fs : forall s', (forall x y, src_now x y (s' :: before) = src_now x y before /\
                                       pkg_now x y (s' :: before) = pkg_now x y before) -> st_files ld (s' :: before)).
  { intros s' E. destruct HF as [H1 H2]. split; intros x y; destruct (E x y) as [E1 E2]; [rewrite E1; apply H1|rewrite E2; apply H2]. }
  assert (Ms : forall s', (forall x y, src_versions x y (s' :: before) = src_versions x y before) -> st_mods ld (s' :: before)).
  { intros s' E b' d' pk' c' M. rewrite E. apply (HM b' d' pk' c' M). }
  assert (O : forall p s', (forall q, last_install q (s' :: before) = last_install q before) ->
              (forall x y, src_now x y (s' :: before) = src_now x y before /\ pkg_now x y (s' :: before) = pkg_now x y before) ->
              (forall x y, src_versions x y (s' :: before) = src_versions x y before) ->
              (forall c, conf_path c (s' :: before) = conf_path c before) -> nconf (s' :: before) = nconf before ->
              bare_present_from (s' :: before) r = true ->
              own_source (ocons (option_map (fun k => [k]) (last_install p before)) (accounted_from (s' :: before) r))
                         (map snd (ocons (build_at fs p) (loaded_gen V2 fs cf ld r)))).
  { intros p s' E1 E2 E3 E4 E5 G. unfold build_at. rewrite H.
    assert (R : own_source (accounted_from (s' :: before) r) (map snd (loaded_gen V2 fs cf ld r))).
    { apply IH; [apply Hs, E1|intros c; rewrite E4; apply HC|rewrite E5; exact HL|apply Fs, E2|apply Ms, E3|exact G]. }
    destruct (last_install p before) as [k|]; cbn [ocons option_map map snd own_source]; [|exact R].
    split; [right; left; reflexivity|exact R]. }
  destruct s as [p k st how|p|j|p how par|c|c|dr b p|dr b|dr b a sp|p|dr b p]; cbn [loaded_gen accounted_from];
    cbn [bare_present_from] in GP.
  - apply IH; try side Hs Fs Ms.
    intros q. cbn [fread last_install]. destruct (Nat.eqb p q); [reflexivity|apply H].
  - apply O; try reflexivity; [intros; split; reflexivity|exact GP].
  - apply IH; try side Hs Fs Ms.
  - destruct (Nat.eqb how 3) eqn:E3.
    + apply IH; try side Hs Fs Ms; [|rewrite upd_length; cbn [nconf]; rewrite E3; exact HL].
      intros c. cbn [conf_path]. rewrite E3. destruct (Nat.eqb par c) eqn:E.
      * apply Nat.eqb_eq in E. subst c. rewrite nth_error_upd_same, HC. reflexivity.
      * apply Nat.eqb_neq in E. rewrite nth_error_upd_other by exact E. apply HC.
    + apply IH; try side Hs Fs Ms; [|rewrite app_length; cbn [nconf length]; rewrite E3, HL; apply Nat.add_1_r].
      intros c. cbn [conf_path]. rewrite E3, nth_error_snoc, HL. destruct (Nat.eqb (nconf before) c); [reflexivity|apply HC].
  - rewrite HC. destruct (conf_path c before) as [p|]; cbn [cert_at].
    + apply O; try reflexivity; [intros; split; reflexivity|exact GP].
    + cbn [option_map ocons]. apply IH; try side Hs Fs Ms.
  - apply IH; try side Hs Fs Ms.
  - apply IH; try side Hs Fs Ms; [apply st_files_write; exact HF|].
    intros b' d' pk' c' M. cbn [cf_write mods] in M. specialize (HM b' d' pk' c' M). cbn [src_versions].
    destruct (same_file d' b' dr b); [right|]; exact HM.
  - apply IH; try side Hs Fs Ms. apply st_files_unlink; exact HF.
  - apply andb_true_iff in GP as [Gn GP].
    assert (Hb : is_bare sp = true -> present (src_now dr b before) = true).
    { intros E. rewrite E in Gn. exact Gn. }
    destruct (load_module_own ld before dr b (is_bare sp) HF HM Hb) as [L1 L2].
    pose proof (st_files_load V2 ld before dr b (is_bare sp) (DLoadFile dr b a sp) HF
                  (fun _ _ => eq_refl) (fun _ _ => eq_refl)) as L3.
    destruct (load_module V2 ld dr b (is_bare sp)) as [oc ld']. cbn [fst snd] in L1, L2, L3. cbn [map own_source]. split.
    + destruct oc as [p|]; [|left; reflexivity]. specialize (L1 p eq_refl).
      rewrite (build_slot_spec fs before p H). cbn [snd].
      destruct (last_install p before) as [k|] eqn:LI; [|left; reflexivity]. right.
      apply in_flat_map. exists p. split; [exact L1|]. rewrite LI. left. reflexivity.
    + apply IH; try side Hs Fs Ms.
  - apply O; try reflexivity; [intros; split; reflexivity|exact GP].
  - apply IH; try side Hs Fs Ms; [apply st_files_pkg; exact HF|].
    intros b' d' pk' c' M. cbn [pkg_write mods] in M. specialize (HM b' d' pk' c' M). cbn [src_versions].
    destruct (same_file d' b' dr b); [right|]; exact HM.
Qed.

Lemma deploy_own_source d : bare_present d = true -> own_source (accounted d) (deploy_certs d).
Proof.
  intros GP. apply loaded_own_source_gen; try assumption;
    [intros p; reflexivity|intros [|c]; reflexivity|reflexivity|split; intros x y; reflexivity|intros b d0 pk0 c0; discriminate].
Qed.

Lemma deploy_own_source_keys d : bare_present d = true -> own_source (accounted d) (deploy_keys d).
Proof. intros H. rewrite deploy_keys_certs. apply deploy_own_source, H. Qed.

(* a script that gives a directory with every file name meets the hypothesis *)
Fixpoint no_bare (d : list dstep) : bool :=
  match d with
  | [] => true
  | DLoadFile _ _ _ sp :: r => negb (is_bare sp) && no_bare r
  | _ :: r => no_bare r
  end.

Lemma no_bare_present d : no_bare d = true -> forall before, bare_present_from before d = true.
Proof.
  induction d as [|s r IH]; intros H before; [reflexivity|].
  destruct s; cbn [no_bare] in H; cbn [bare_present_from]; try (apply IH; exact H).
  apply andb_true_iff in H as [H1 H2]. rewrite H1. cbn [orb andb]. apply IH, H2.
Qed.

Lemma deploy_own_source_no_bare d : no_bare d = true -> own_source (accounted d) (deploy_keys d).
Proof. intros H. apply deploy_own_source_keys. apply no_bare_present, H. Qed.

Lemma own_source_b_iff al : forall certs, own_source_b al certs = true <-> own_source al certs.
Proof.
  induction al as [|a al IH]; intros [|c certs]; cbn [own_source_b own_source]; try tauto; try (split; [discriminate|tauto]).
  rewrite andb_true_iff, orb_true_iff, IH, Nat.eqb_eq, existsb_exists. split.
  - intros [[E|[x [Hin E]]] R]; split; auto. apply Nat.eqb_eq in E. subst x. auto.
  - intros [[E|Hin] R]; split; auto. right. exists c. split; [exact Hin|apply Nat.eqb_refl].
Qed.

(* where a configuration object comes from (fresh dict, copy.copy of another entity's configuration, reload of a
   dict that served before) does not matter: only the path it names when the entity is built; nor does it matter
   through which entry point, and under which spelling of its name, a configuration file is loaded *)
Definition forget_origin (s : dstep) : dstep :=
  match s with
  | DConf p how par => if Nat.eqb how 3 then s else DConf p 0 0
  | DLoadFile dr b _ sp => DLoadFile dr b 0 (if is_bare sp then 4 else 0)
  | _ => s
  end.

Lemma loaded_forget_origin v d : forall fs cf ld,
  loaded_gen v fs cf ld (map forget_origin d) = loaded_gen v fs cf ld d.
Proof.
  induction d as [|s r IH]; intros fs cf ld; [reflexivity|].
  destruct s as [p k st how|p|j|p how par|c|c|dr b p|dr b|dr b a sp|p|dr b p]; cbn [map forget_origin loaded_gen];
    try (rewrite !IH; reflexivity).
  - destruct (Nat.eqb how 3) eqn:E3; cbn [loaded_gen]; [rewrite E3|cbn [Nat.eqb]]; apply IH.
  - replace (is_bare (if is_bare sp then 4 else 0)) with (is_bare sp) by (destruct (is_bare sp); reflexivity).
    destruct (load_module v ld dr b (is_bare sp)) as [oc ld']. rewrite IH. reflexivity.
Qed.

Lemma lineage_irrelevant d :
  deploy_keys (map forget_origin d) = deploy_keys d /\ deploy_certs (map forget_origin d) = deploy_certs d.
Proof. unfold deploy_keys, deploy_certs, loaded. rewrite loaded_forget_origin. split; reflexivity. Qed.

Section Deploy.
  Variable sigv : Type.
  Variable sign : nat -> nat -> payload -> sigv.
  Variable verify : nat -> nat -> payload -> sigv -> bool.
  Hypothesis verify_ideal : forall k d p k' d' p',
    verify k' d' p' (sign k d p) = true <-> k' = k /\ d' = d /\ p' = p.

  (* the whole process: the main thread installs key pairs, builds entities (and makes calls) in any
     order; OS workers then serve the jobs under any schedule *)
  Definition dfinal (d : list dstep) (g : list gate) (ps : list (nat * list (op sigv)))
    (ws : list (list nat)) (wsched : list nat) : state sigv :=
    wrun sigv sign verify (kof (deploy_keys d)) ws wsched (init_state sigv (kof (deploy_keys d)) g ps).

  Lemma deploy_pool_holds d g ps ws wsched :
    files_present d = true -> no_reedit d = true ->
    spec sigv verify {| keys := published d; gon := g; progs := ps; sched := wsched |}
         (observe_all sigv verify (deploy_certs d) (outs sigv (dfinal d g ps ws wsched))).
  Proof.
    intros GP GE. unfold dfinal. destruct (deploy_published d GP GE) as [-> ->].
    exact (pool_holds sigv sign verify verify_ideal {| keys := published d; gon := g; progs := ps; sched := wsched |} ws).
  Qed.

  (* configuration sources of every kind, files edited or not: every entity holds a certificate its OWN source
     accounts for, and every signature verifies under the certificates of exactly the entities that hold the
     caller's pair *)
  Lemma deploy_source_pool_holds d g ps ws wsched :
    bare_present d = true ->
    own_source (accounted d) (deploy_certs d) /\
    spec sigv verify {| keys := deploy_certs d; gon := g; progs := ps; sched := wsched |}
         (observe_all sigv verify (deploy_certs d) (outs sigv (dfinal d g ps ws wsched))).
  Proof.
    intros GP. split; [apply deploy_own_source, GP|]. unfold dfinal. rewrite deploy_keys_certs.
    exact (pool_holds sigv sign verify verify_ideal {| keys := deploy_certs d; gon := g; progs := ps; sched := wsched |} ws).
  Qed.
End Deploy.

(* ---------- the hypotheses are satisfiable: term algebra ---------- *)
Lemma payload_eqb_eq a b : payload_eqb a b = true <-> a = b.
Proof.
  destruct a, b. unfold payload_eqb. cbn. rewrite andb_true_iff, !Nat.eqb_eq. split; [intros [-> ->]; reflexivity|intros [= -> ->]; auto].
Qed.

Lemma tverify_ideal k d p k' d' p' : tverify k' d' p' (tsign k d p) = true <-> k' = k /\ d' = d /\ p' = p.
Proof.
  unfold tverify, tsign, tsig_eqb. rewrite !andb_true_iff, !Nat.eqb_eq, payload_eqb_eq.
  split; [intros [[-> ->] ->]; auto|intros (-> & -> & ->); auto].
Qed.

Definition tfinal := final tsig tsign tverify.
Definition tfinal_v0 (x : input tsig) : state tsig :=
  run_v0 tsig tsign tverify (kof (keys x)) (sched x) (init_state tsig (kof (keys x)) (gon x) (progs x)).

Definition twfinal := wfinal tsig tsign tverify.
Definition twfinal_v0 (x : input tsig) (ws : list (list nat)) : state tsig :=
  wrun_v0 tsig tsign tverify (kof (keys x)) ws (sched x) (init_state tsig (kof (keys x)) (gon x) (progs x)).

Lemma instance_holds (x : input tsig) : spec tsig tverify x (observe_all tsig tverify (keys x) (outs tsig (tfinal x))).
Proof. apply own_key_holds. exact tverify_ideal. Qed.

(* two entities (keys 10 and 20) sign with rsa-sha256; all six gates; the schedule lets A obtain
   its signer, then B, then A sign: A.get; B.get; A.sign; B.sign *)
Definition all_gates := [GetEnter; GetExit; SignEnter; SignExit; VerEnter; VerExit].
Definition witness : input tsig :=
  {| keys := [10; 20]; gon := all_gates;
     progs := [(0, [OSign 2 1]); (1, [OSign 2 2])];
     sched := [0; 0; 1; 1; 0; 0; 0; 1; 1; 1] |}.

(* before c928ba99: A's signature is made with B's key *)
Lemma v0_wrong_key :
  outs tsig (tfinal_v0 witness) = [[RSig (1, 2) (Sg 20 2 (1, 2))]; [RSig (2, 2) (Sg 20 2 (2, 2))]].
Proof. vm_compute. reflexivity. Qed.

Lemma v0_refuted : exists x, ~ spec tsig tverify x (observe_all tsig tverify (keys x) (outs tsig (tfinal_v0 x))).
Proof.
  exists witness. intros H. apply spec_b_iff in H. vm_compute in H. discriminate.
Qed.

(* non-vacuity: on the same input the current code finishes and yields both signatures, each
   under the caller's own key *)
Example witness_now :
  finished tsig (tfinal witness) = true /\
  outs tsig (tfinal witness) = [[RSig (1, 2) (Sg 10 2 (1, 2))]; [RSig (2, 2) (Sg 20 2 (2, 2))]] /\
  observe_all tsig tverify (keys witness) (outs tsig (tfinal witness)) = [[OSig [true; false]]; [OSig [false; true]]].
Proof. vm_compute. auto. Qed.

(* one OS worker serves entity A (key 10), then entity B (key 20), same algorithm, while a second
   worker serves C (key 30); the key pairs come from a roll-over in place: path 0 first holds pair 10
   (entity 0 is built), then pair 20 with the SAME time stamp (entity 1 is built); path 1 holds 30 *)
Definition pool_deploy : list dstep :=
  [DInstall 1 30 7 0; DInstall 0 10 7 0; DCreate 0; DInstall 0 20 7 0; DCreate 0; DCreate 1].

Example pool_witness :
  deploy_keys pool_deploy = [10; 20; 30] /\ published pool_deploy = [10; 20; 30] /\
  let st := dfinal tsig tsign tverify pool_deploy all_gates
              [(0, [OSign 2 1]); (1, [OSign 2 2]); (2, [OSign 2 3])] [[0; 1]; [2]] [0; 1; 0; 0; 1; 1; 0; 0; 0; 1; 0; 0; 0; 1] in
  finished tsig st = true /\
  observe_all tsig tverify (deploy_certs pool_deploy) (outs tsig st) =
    [[OSig [true; false; false]]; [OSig [false; true; false]]; [OSig [false; false; true]]].
Proof. vm_compute. auto. Qed.

(* configuration objects: entity 0 from a fresh configuration naming path 0 (pair 10); its Config object is copied
   and the copy pointed at path 1 (pair 20): entity 1; the original object is re-pointed at path 2 (pair 30): entity 2;
   path 0 is rolled over to pair 40 and an entity is built from a reload of the first dict: entity 3 *)
Definition lineage_deploy : list dstep :=
  [DInstall 0 10 7 0; DInstall 1 20 7 0; DInstall 2 30 7 0; DConf 0 0 0; DBuild 0; DCtx 0; DConf 1 1 0; DBuild 1;
   DConf 2 3 0; DBuild 0; DInstall 0 40 7 1; DConf 0 2 0; DBuild 2].

Example lineage_witness :
  deploy_keys lineage_deploy = [10; 20; 30; 40] /\ deploy_certs lineage_deploy = [10; 20; 30; 40] /\
  published lineage_deploy = [10; 20; 30; 40].
Proof. vm_compute. auto. Qed.

(* ---------- configuration FILES ---------- *)
(* two tenants, configuration files of the SAME base name in two directories: a/conf.py names path 0 (pair 10),
   b/conf.py names path 1 (pair 20); each is loaded once *)
Definition tenants_deploy : list dstep :=
  [DInstall 0 10 7 0; DInstall 1 20 7 0; DWrite 0 0 0; DWrite 1 0 1; DLoadFile 0 0 0 0; DLoadFile 1 0 2 1].

Example tenants_now :
  files_present tenants_deploy = true /\ no_reedit tenants_deploy = true /\
  deploy_keys tenants_deploy = [10; 20] /\ deploy_certs tenants_deploy = [10; 20] /\
  published tenants_deploy = [10; 20] /\ accounted tenants_deploy = [[10]; [20]].
Proof. vm_compute. auto 10. Qed.

(* before ca0d12ee the second tenant got the first tenant's whole configuration: it signs with pair 10 *)
Lemma loader_v0_wrong_tenant :
  deploy_keys_v0 tenants_deploy = [10; 10] /\ deploy_certs_v0 tenants_deploy = [10; 10].
Proof. vm_compute. auto. Qed.

Lemma loader_v0_refuted :
  exists d, files_present d = true /\ no_reedit d = true /\ ~ own_source (accounted d) (deploy_certs_v0 d).
Proof.
  exists tenants_deploy. split; [reflexivity|]. split; [reflexivity|].
  intros H. apply own_source_b_iff in H. vm_compute in H. discriminate.
Qed.

(* the loader as it is: a file EDITED after its first load is answered from sys.modules - the entity built afterwards
   works with what its own file said before (pair 10), not with what it says now (pair 20): own source, not fresh *)
Definition stale_deploy : list dstep :=
  [DInstall 0 10 7 0; DInstall 1 20 7 0; DWrite 0 0 0; DLoadFile 0 0 0 0; DWrite 0 0 1; DLoadFile 0 0 0 0].

Example stale_witness :
  files_present stale_deploy = true /\ no_reedit stale_deploy = false /\
  deploy_certs stale_deploy = [10; 10] /\ published stale_deploy = [10; 20] /\
  accounted stale_deploy = [[10]; [20; 10]] /\ own_source_b (accounted stale_deploy) (deploy_certs stale_deploy) = true.
Proof. vm_compute. auto 10. Qed.

Lemma loader_stale_not_fresh : exists d, files_present d = true /\ deploy_certs d <> published d.
Proof. exists stale_deploy. split; [reflexivity|]. vm_compute. discriminate. Qed.

(* the second directory's file of that name is executed anew at every load: its edits ARE seen *)
Example second_tenant_edits_seen :
  deploy_certs [DInstall 0 10 7 0; DInstall 1 20 7 0; DInstall 2 30 7 0; DWrite 0 0 0; DWrite 1 0 1; DLoadFile 0 0 0 0;
                DLoadFile 1 0 0 0; DWrite 1 0 2; DLoadFile 1 0 0 0] = [10; 20; 30].
Proof. vm_compute. reflexivity. Qed.

(* a configuration file that does NOT exist (finding C20-F3, fixed by 581b4f03): before, it was answered by the module
   of that base name loaded before from another directory - the entity was a clone of the other tenant; now the load
   raises: a slot without entity *)
Definition missing_deploy : list dstep := [DInstall 0 10 7 0; DWrite 0 0 0; DLoadFile 0 0 0 0; DLoadFile 1 0 0 0].

Example missing_witness :
  files_present missing_deploy = false /\ bare_present missing_deploy = true /\
  deploy_certs missing_deploy = [10; 0] /\ deploy_certs_v1 missing_deploy = [10; 10] /\
  accounted missing_deploy = [[10]; []].
Proof. vm_compute. auto 10. Qed.

Lemma loader_missing_v1_refuted : exists d, bare_present d = true /\ ~ own_source (accounted d) (deploy_certs_v1 d).
Proof.
  exists missing_deploy. split; [reflexivity|]. intros H. apply own_source_b_iff in H. vm_compute in H. discriminate.
Qed.

(* ... or by the file of that name in a directory an EARLIER load left on sys.path *)
Example missing_via_sys_path :
  let d := [DInstall 0 10 7 0; DWrite 0 0 0; DWrite 0 1 0; DLoadFile 0 0 0 0; DLoadFile 1 1 0 0] in
  deploy_certs_v1 d = [10; 10] /\ deploy_certs d = [10; 0].
Proof. vm_compute. auto. Qed.

(* before anything of that name was loaded, and with no directory on sys.path that has it, the load raises *)
Example missing_raises : deploy_certs [DInstall 0 10 7 0; DWrite 0 0 0; DLoadFile 1 0 0 0; DLoadFile 0 0 0 0] = [0; 10].
Proof. vm_compute. reflexivity. Qed.

(* what remains: a file asked for by its BARE name (spelling 4: no directory given - the working directory is
   directory 1) that is not there is still answered by the module of that name loaded from directory 0: the
   hypothesis bare_present of the own-source theorem cannot be dropped *)
Definition bare_missing_deploy : list dstep := [DInstall 0 10 7 0; DWrite 0 0 0; DLoadFile 0 0 0 0; DLoadFile 1 0 0 4].

Example bare_missing_witness :
  bare_present bare_missing_deploy = false /\ deploy_certs bare_missing_deploy = [10; 10] /\
  accounted bare_missing_deploy = [[10]; []].
Proof. vm_compute. auto. Qed.

Lemma loader_bare_missing_refuted : exists d, ~ own_source (accounted d) (deploy_certs d).
Proof. exists bare_missing_deploy. intros H. apply own_source_b_iff in H. vm_compute in H. discriminate. Qed.

(* a configuration given as a PACKAGE directory b/conf/__init__.py (pair 20) beside tenant a's file a/conf.py (pair 10):
   loaded first, the package is the module of that name and keeps answering for directory b *)
Example package_first :
  deploy_certs [DInstall 0 10 7 0; DInstall 1 20 7 0; DWrite 0 0 0; DWritePkg 1 0 1; DLoadFile 1 0 0 0; DLoadFile 0 0 0 0;
                DLoadFile 1 0 0 1] = [20; 10; 20].
Proof. vm_compute. reflexivity. Qed.

(* loaded after a's file, the package is never looked at: import_module answers a's module, which lies outside b -
   the load raises (no entity; not a clone of a) *)
Example package_after_file :
  let d := [DInstall 0 10 7 0; DInstall 1 20 7 0; DWrite 0 0 0; DWritePkg 1 0 1; DLoadFile 0 0 0 0; DLoadFile 1 0 0 0] in
  deploy_certs d = [10; 0] /\ deploy_certs_v1 d = [10; 10] /\ accounted d = [[10]; [20]].
Proof. vm_compute. auto. Qed.

(* file and package of one name in one directory: importlib finds the package, _load executes the file *)
Example package_and_file :
  deploy_certs [DInstall 0 10 7 0; DInstall 1 20 7 0; DWritePkg 0 0 1; DWrite 0 0 0; DLoadFile 0 0 0 0] = [10].
Proof. vm_compute. reflexivity. Qed.
