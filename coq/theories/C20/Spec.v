(* C20/Spec.v — the property, over inputs and OBSERVABLE outputs; written from the property text:

   "When several entities with different keys, or several threads of one entity, create
    redirect-binding signatures concurrently in one process, every signature produced verifies
    under the certificate of the entity that made the call and under no other entity's
    certificate, whatever the interleaving of their operations."

   Input: the entities' key pairs, which gates the scheduler uses, the threads (owning entity +
   list of calls) and the schedule.  Observable: per thread and call, for a signature the vector
   "verifies under the certificate of entity e" over all entities of the process; for a
   verification call its verdict.  Nothing about the mechanism (signer objects, tables) appears. *)
From Coq Require Import List Bool Arith.
From Verif Require Import Base.Str C20.Model.
Import ListNotations.

Inductive obs := OSig (vm : list bool) | OVer (b : bool) | ORaise | ONone.

Fixpoint all2 {A B} (P : A -> B -> Prop) (l : list A) (m : list B) : Prop :=
  match l, m with
  | a :: l', b :: m' => P a b /\ all2 P l' m'
  | _, _ => True
  end.

Fixpoint all2b {A B} (p : A -> B -> bool) (l : list A) (m : list B) : bool :=
  match l, m with
  | a :: l', b :: m' => p a b && all2b p l' m'
  | _, _ => true
  end.

Section Spec.
  Variable sigv : Type.
  Variable verify : nat -> nat -> payload -> sigv -> bool.

  Record input := {
    keys : list nat;                        (* entity e signs with key pair (nth e keys) *)
    gon : list gate;                        (* gates at which the scheduler may switch threads *)
    progs : list (nat * list (op sigv));    (* thread t: owning entity, calls in program order *)
    sched : list nat                        (* thread ids *)
  }.

  (* the signature verifies under the certificate of exactly those entities whose certificate
     carries the calling entity's key: under the caller's own, under no other entity's *)
  Definition own_key_vector (ks : list nat) (own : nat) (vm : list bool) : Prop :=
    length vm = length ks /\
    forall e, e < length ks -> (nth e vm false = true <-> kof ks e = kof ks own).

  (* the key a verification call asked for: a certificate, an explicit key, or (neither) the
     caller's own *)
  Definition asked_key (ks : list nat) (own : nat) (vk : vkey) : nat :=
    match vk with VCert e => kof ks e | VKey k => k | VOwn => kof ks own end.

  Definition ok_result (ks : list nat) (own : nat) (o : op sigv) (r : obs) : Prop :=
    match o, r with
    | OSign _ _, OSig vm => own_key_vector ks own vm
    | OVerify p s vk, OVer b => b = verify (asked_key ks own vk) (snd p) p s
    | _, _ => True
    end.

  Definition spec (x : input) (o : list (list obs)) : Prop :=
    all2 (fun th os => all2 (ok_result (keys x) (fst th)) (snd th) os) (progs x) o.

  (* boolean version, evaluated on the implementation's observed outputs *)
  Definition own_key_vector_b (ks : list nat) (own : nat) (vm : list bool) : bool :=
    list_eqb Bool.eqb vm (map (fun k => Nat.eqb k (kof ks own)) ks).

  Definition ok_result_b (ks : list nat) (own : nat) (o : op sigv) (r : obs) : bool :=
    match o, r with
    | OSign _ _, OSig vm => own_key_vector_b ks own vm
    | OVerify p s vk, OVer b => Bool.eqb b (verify (asked_key ks own vk) (snd p) p s)
    | _, _ => true
    end.

  Definition spec_b (x : input) (o : list (list obs)) : bool :=
    all2b (fun th os => all2b (ok_result_b (keys x) (fst th)) (snd th) os) (progs x) o.

  (* what can be observed of a result of the model *)
  Definition observe (ks : list nat) (r : result sigv) : obs :=
    match r with
    | RSig p s => OSig (map (fun k => verify k (snd p) p s) ks)
    | RVer b => OVer b
    | RRaise => ORaise
    | RNone => ONone
    end.

  Definition observe_all (ks : list nat) (o : list (list (result sigv))) : list (list obs) :=
    map (map (observe ks)) o.
End Spec.

(* "the certificate of the entity": an entity built from a configuration that names a certificate
   file publishes the certificate that was installed at that path when the entity was built - the
   most recent installation before its creation, whatever the time stamps say and whatever is
   installed there afterwards; "its configuration" names the path the configuration object named at that
   moment, whatever object it was copied from and wherever it (or its origin) pointed before or points later.  `before` = the steps already done, most recent first. *)
Fixpoint last_install (p : nat) (before : list dstep) : option nat :=
  match before with
  | [] => None
  | DInstall q k _ _ :: r => if Nat.eqb q p then Some k else last_install p r
  | _ :: r => last_install p r
  end.

(* the configuration objects made so far (DConf with how <> 3 makes one; they are numbered in creation order) *)
Fixpoint nconf (before : list dstep) : nat :=
  match before with
  | [] => 0
  | DConf _ how _ :: r => if Nat.eqb how 3 then nconf r else S (nconf r)
  | _ :: r => nconf r
  end.

(* the path configuration object c names now: where it was pointed last - when it was made (whatever it was
   copied from), or when it was re-pointed afterwards *)
Fixpoint conf_path (c : nat) (before : list dstep) : option nat :=
  match before with
  | [] => None
  | DConf p how parent :: r =>
      if Nat.eqb how 3
      then (if Nat.eqb parent c then match conf_path c r with Some _ => Some p | None => None end else conf_path c r)
      else (if Nat.eqb (nconf r) c then Some p else conf_path c r)
  | _ :: r => conf_path c r
  end.

Definition cert_at (p : option nat) (before : list dstep) : option nat :=
  match p with Some p => last_install p before | None => None end.

Fixpoint certs_from (before : list dstep) (d : list dstep) : list nat :=
  match d with
  | [] => []
  | DCreate p :: r => ocons (last_install p before) (certs_from (DCreate p :: before) r)
  | DBuild c :: r => ocons (cert_at (conf_path c before) before) (certs_from (DBuild c :: before) r)
  | s :: r => certs_from (s :: before) r
  end.

Definition published (d : list dstep) : list nat := certs_from [] d.

Arguments keys {sigv}.
Arguments gon {sigv}.
Arguments progs {sigv}.
Arguments sched {sigv}.
