(* C20/Spec.v — the property, over inputs and OBSERVABLE outputs; written from the property text:

   "When several entities with different keys, or several threads of one entity, create
    redirect-binding signatures concurrently in one process, every signature produced verifies
    under the certificate of the entity that made the call and under no other entity's
    certificate, whatever the interleaving of their operations."

   Input: the entities' key pairs, which gates the scheduler uses, the threads (owning entity +
   list of calls) and the schedule.  Observable: per thread and call, for a signature the vector
   "verifies under the certificate of entity e" over all entities of the process; for a
   verification call its verdict.  Nothing about the mechanism (signer objects, tables) appears. *)
From Coq Require Import List Bool Arith.
From Verif Require Import Base.Str C20.Model.
Import ListNotations.

Inductive obs := OSig (vm : list bool) | OVer (b : bool) | ORaise | ONone.

Fixpoint all2 {A B} (P : A -> B -> Prop) (l : list A) (m : list B) : Prop :=
  match l, m with
  | a :: l', b :: m' => P a b /\ all2 P l' m'
  | _, _ => True
  end.

Fixpoint all2b {A B} (p : A -> B -> bool) (l : list A) (m : list B) : bool :=
  match l, m with
  | a :: l', b :: m' => p a b && all2b p l' m'
  | _, _ => true
  end.

Section Spec.
  Variable sigv : Type.
  Variable verify : nat -> nat -> payload -> sigv -> bool.

  Record input := {
    keys : list nat;                        (* entity e signs with key pair (nth e keys) *)
    gon : list gate;                        (* gates at which the scheduler may switch threads *)
    progs : list (nat * list (op sigv));    (* thread t: owning entity, calls in program order *)
    sched : list nat                        (* thread ids *)
  }.

  (* the signature verifies under the certificate of exactly those entities whose certificate
     carries the calling entity's key: under the caller's own, under no other entity's *)
  Definition own_key_vector (ks : list nat) (own : nat) (vm : list bool) : Prop :=
    length vm = length ks /\
    forall e, e < length ks -> (nth e vm false = true <-> kof ks e = kof ks own).

  (* the key a verification call asked for: a certificate, an explicit key, or (neither) the
     caller's own *)
  Definition asked_key (ks : list nat) (own : nat) (vk : vkey) : nat :=
    match vk with VCert e => kof ks e | VKey k => k | VOwn => kof ks own end.

  Definition ok_result (ks : list nat) (own : nat) (o : op sigv) (r : obs) : Prop :=
    match o, r with
    | OSign _ _, OSig vm => own_key_vector ks own vm
    | OVerify p s vk, OVer b => b = verify (asked_key ks own vk) (snd p) p s
    | _, _ => True
    end.

  Definition spec (x : input) (o : list (list obs)) : Prop :=
    all2 (fun th os => all2 (ok_result (keys x) (fst th)) (snd th) os) (progs x) o.

  (* boolean version, evaluated on the implementation's observed outputs *)
  Definition own_key_vector_b (ks : list nat) (own : nat) (vm : list bool) : bool :=
    list_eqb Bool.eqb vm (map (fun k => Nat.eqb k (kof ks own)) ks).

  Definition ok_result_b (ks : list nat) (own : nat) (o : op sigv) (r : obs) : bool :=
    match o, r with
    | OSign _ _, OSig vm => own_key_vector_b ks own vm
    | OVerify p s vk, OVer b => Bool.eqb b (verify (asked_key ks own vk) (snd p) p s)
    | _, _ => true
    end.

  Definition spec_b (x : input) (o : list (list obs)) : bool :=
    all2b (fun th os => all2b (ok_result_b (keys x) (fst th)) (snd th) os) (progs x) o.

  (* what can be observed of a result of the model *)
  Definition observe (ks : list nat) (r : result sigv) : obs :=
    match r with
    | RSig p s => OSig (map (fun k => verify k (snd p) p s) ks)
    | RVer b => OVer b
    | RRaise => ORaise
    | RNone => ONone
    end.

  Definition observe_all (ks : list nat) (o : list (list (result sigv))) : list (list obs) :=
    map (map (observe ks)) o.
End Spec.

(* "the certificate of the entity": an entity built from a configuration that names a certificate
   file publishes the certificate that was installed at that path when the entity was built - the
   most recent installation before its creation, whatever the time stamps say and whatever is
   installed there afterwards; "its configuration" names the path the configuration object named at that
   moment, whatever object it was copied from and wherever it (or its origin) pointed before or points later.  `before` = the steps already done, most recent first. *)
Fixpoint last_install (p : nat) (before : list dstep) : option nat :=
  match before with
  | [] => None
  | DInstall q k _ _ :: r => if Nat.eqb q p then Some k else last_install p r
  | _ :: r => last_install p r
  end.

(* the configuration objects made so far (DConf with how <> 3 makes one; they are numbered in creation order) *)
Fixpoint nconf (before : list dstep) : nat :=
  match before with
  | [] => 0
  | DConf _ how _ :: r => if Nat.eqb how 3 then nconf r else S (nconf r)
  | _ :: r => nconf r
  end.

(* the path configuration object c names now: where it was pointed last - when it was made (whatever it was
   copied from), or when it was re-pointed afterwards *)
Fixpoint conf_path (c : nat) (before : list dstep) : option nat :=
  match before with
  | [] => None
  | DConf p how parent :: r =>
      if Nat.eqb how 3
      then (if Nat.eqb parent c then match conf_path c r with Some _ => Some p | None => None end else conf_path c r)
      else (if Nat.eqb (nconf r) c then Some p else conf_path c r)
  | _ :: r => conf_path c r
  end.

Definition cert_at (p : option nat) (before : list dstep) : option nat :=
  match p with Some p => last_install p before | None => None end.

(* ---- "the entity's OWN configuration": an entity built from a python configuration file dir/base.py is the entity
   that file describes.  The certificate the property speaks of is the one ITS file names - not the one a file of the
   same name in another directory names, not the one another module of that name, loaded earlier, named.
   src_now: what the file says now (None: there is no such file).  src_versions: everything the file has said so far
   (the property text knows entities, not time: an entity that works with what its own file said when the process
   read it - importlib keeps a module - signs with a key of its OWN, the certificate it publishes is the matching
   one; whether the process ought to have read the file again is not this property's business.  The STRICT reading
   - what the file says when the entity is built - is `published`; theorems give both). ---- *)
Definition same_file (d b d' b' : nat) : bool := Nat.eqb d' d && Nat.eqb b' b.

Fixpoint src_now (dr b : nat) (before : list dstep) : option nat :=
  match before with
  | [] => None
  | DWrite d' b' p :: r => if same_file dr b d' b' then Some p else src_now dr b r
  | DUnlink d' b' :: r => if same_file dr b d' b' then None else src_now dr b r
  | _ :: r => src_now dr b r
  end.

(* everything the configuration source dir/base - the file base.py or the package base/ - has said so far *)
Fixpoint src_versions (dr b : nat) (before : list dstep) : list nat :=
  match before with
  | [] => []
  | DWrite d' b' p :: r => if same_file dr b d' b' then p :: src_versions dr b r else src_versions dr b r
  | DWritePkg d' b' p :: r => if same_file dr b d' b' then p :: src_versions dr b r else src_versions dr b r
  | _ :: r => src_versions dr b r
  end.

(* what the package dir/base/ says now *)
Fixpoint pkg_now (dr b : nat) (before : list dstep) : option nat :=
  match before with
  | [] => None
  | DWritePkg d' b' p :: r => if same_file dr b d' b' then Some p else pkg_now dr b r
  | _ :: r => pkg_now dr b r
  end.

Definition olist {A} (o : option A) : list A := match o with Some x => [x] | None => [] end.

(* strict: one certificate per entity.  An entity built from a FILE always has a slot; 0 = "there must be no such
   entity" (no such file, or nothing installed at the path it names) *)
Definition slot (o : option nat) : nat := match o with Some k => k | None => 0 end.

Fixpoint certs_from (before : list dstep) (d : list dstep) : list nat :=
  match d with
  | [] => []
  | DCreate p :: r => ocons (last_install p before) (certs_from (DCreate p :: before) r)
  | DFactory p :: r => ocons (last_install p before) (certs_from (DFactory p :: before) r)
  | DBuild c :: r => ocons (cert_at (conf_path c before) before) (certs_from (DBuild c :: before) r)
  | DLoadFile dr b a s :: r =>
      slot (cert_at (src_now dr b before) before) :: certs_from (DLoadFile dr b a s :: before) r
  | s :: r => certs_from (s :: before) r
  end.

Definition published (d : list dstep) : list nat := certs_from [] d.

(* per entity: the certificates its OWN configuration source accounts for - for a dict or a Config object the one
   installed at the path it names when the entity is built; for a file: the ones installed NOW at the paths the file
   has named (key and certificate files are read when the entity is built) *)
Fixpoint accounted_from (before : list dstep) (d : list dstep) : list (list nat) :=
  match d with
  | [] => []
  | DCreate p :: r => ocons (option_map (fun k => [k]) (last_install p before)) (accounted_from (DCreate p :: before) r)
  | DFactory p :: r => ocons (option_map (fun k => [k]) (last_install p before)) (accounted_from (DFactory p :: before) r)
  | DBuild c :: r =>
      ocons (option_map (fun k => [k]) (cert_at (conf_path c before) before)) (accounted_from (DBuild c :: before) r)
  | DLoadFile dr b a s :: r =>
      flat_map (fun p => olist (last_install p before)) (src_versions dr b before)
      :: accounted_from (DLoadFile dr b a s :: before) r
  | s :: r => accounted_from (s :: before) r
  end.

Definition accounted (d : list dstep) : list (list nat) := accounted_from [] d.

(* entity by entity: the certificate it holds (0: the entity does not exist - nothing is signed) is one its own
   source accounts for; and there are exactly the entities the script makes *)
Fixpoint own_source (al : list (list nat)) (certs : list nat) : Prop :=
  match al, certs with
  | [], [] => True
  | a :: al', c :: certs' => (c = 0 \/ In c a) /\ own_source al' certs'
  | _, _ => False
  end.

Fixpoint own_source_b (al : list (list nat)) (certs : list nat) : bool :=
  match al, certs with
  | [], [] => true
  | a :: al', c :: certs' => (Nat.eqb c 0 || existsb (Nat.eqb c) a) && own_source_b al' certs'
  | _, _ => false
  end.

(* hypotheses of the theorems about files (inputs, not outputs).
   files_present: every FILE an entity is built from exists at that moment (strict theorems only);
   no_reedit: no configuration file or package is written or removed once a file of that BASE NAME has been loaded;
   bare_present: every file asked for by its BARE name (no directory given) exists at that moment *)
Fixpoint base_loaded (b : nat) (before : list dstep) : bool :=
  match before with
  | [] => false
  | DLoadFile _ b' _ _ :: r => Nat.eqb b' b || base_loaded b r
  | _ :: r => base_loaded b r
  end.

Definition present (o : option nat) : bool := match o with Some _ => true | None => false end.

Fixpoint files_present_from (before : list dstep) (d : list dstep) : bool :=
  match d with
  | [] => true
  | DLoadFile dr b a s :: r =>
      present (src_now dr b before) && files_present_from (DLoadFile dr b a s :: before) r
  | s :: r => files_present_from (s :: before) r
  end.

Fixpoint bare_present_from (before : list dstep) (d : list dstep) : bool :=
  match d with
  | [] => true
  | DLoadFile dr b a s :: r =>
      (negb (is_bare s) || present (src_now dr b before)) && bare_present_from (DLoadFile dr b a s :: before) r
  | s :: r => bare_present_from (s :: before) r
  end.

Fixpoint no_reedit_from (before : list dstep) (d : list dstep) : bool :=
  match d with
  | [] => true
  | DWrite dr b p :: r => negb (base_loaded b before) && no_reedit_from (DWrite dr b p :: before) r
  | DUnlink dr b :: r => negb (base_loaded b before) && no_reedit_from (DUnlink dr b :: before) r
  | DWritePkg dr b p :: r => negb (base_loaded b before) && no_reedit_from (DWritePkg dr b p :: before) r
  | s :: r => no_reedit_from (s :: before) r
  end.

Definition files_present (d : list dstep) : bool := files_present_from [] d.
Definition no_reedit (d : list dstep) : bool := no_reedit_from [] d.
Definition bare_present (d : list dstep) : bool := bare_present_from [] d.

Arguments keys {sigv}.
Arguments gon {sigv}.
Arguments progs {sigv}.
Arguments sched {sigv}.
