(* C20/Property.v — property theorems only. *)
From Coq Require Import List Bool Arith.
From Verif Require Import Base.Str C20.Model C20.Spec C20.Proofs.
Import ListNotations.

(* C20: for every ideal signature scheme, any number of entities and threads, any programs of
   signing / verification calls, any set of scheduler gates and EVERY schedule (list of thread ids,
   complete or not): every signature obtained verifies under the certificate of exactly the
   entities that hold the calling entity's key pair - the caller's own, no other's - and every
   verification verdict is the ideal verdict for the key that call asked for. *)
Theorem c20_own_key :
  forall (sigv : Type) (sign : nat -> nat -> payload -> sigv) (verify : nat -> nat -> payload -> sigv -> bool),
    (forall k d p k' d' p', verify k' d' p' (sign k d p) = true <-> k' = k /\ d' = d /\ p' = p) ->
    forall x : input sigv,
      spec sigv verify x (observe_all sigv verify (keys x) (outs sigv (final sigv sign verify x))).
Proof. exact own_key_holds. Qed.
Print Assumptions c20_own_key.

(* per-thread results are independent of the schedule: after ANY schedule the state of thread t
   (locals, results, remaining program) is the one it reaches running alone for as many segments
   as the schedule gave it, whatever the other threads did in between - for arbitrary instruction
   programs and an arbitrary shared table *)
Theorem c20_thread_independent :
  forall sigv sign verify key_of sched (st : state sigv) t,
    nth_error (ths (run sigv sign verify key_of sched st)) t =
    option_map (fun th => iter (occ t sched) (segT sigv sign verify key_of (sh st)) th) (nth_error (ths st) t).
Proof. exact thread_independent. Qed.
Print Assumptions c20_thread_independent.

Theorem c20_schedule_independent :
  forall sigv sign verify key_of s1 s2 (st : state sigv) t,
    occ t s1 = occ t s2 ->
    nth_error (ths (run sigv sign verify key_of s1 st)) t = nth_error (ths (run sigv sign verify key_of s2 st)) t.
Proof. exact schedule_independent. Qed.
Print Assumptions c20_schedule_independent.

(* once every thread has finished, the results are those each entity would get alone in the
   process: a function of the programs only, not of the schedule *)
Theorem c20_complete_results :
  forall sigv sign verify (x : input sigv),
    finished sigv (final sigv sign verify x) = true ->
    outs sigv (final sigv sign verify x) =
    map (fun th => map (op_result sigv sign verify (kof (keys x)) (fst th)) (snd th)) (progs x).
Proof. exact complete_outs. Qed.
Print Assumptions c20_complete_results.

(* the module-level table SIGNER_ALGS is never written by the code as it is now *)
Theorem c20_shared_unchanged :
  forall sigv sign verify key_of sched (st : state sigv), sh (run sigv sign verify key_of sched st) = sh st.
Proof. exact run_shared. Qed.
Print Assumptions c20_shared_unchanged.

(* arbitrary instruction programs (not only the compiled entry points) that never ask for an explicit
   sigkey, an arbitrary (even polluted) shared table, any schedule: a signature produced by thread t
   verifies under the key of t's entity and under no other key *)
Theorem c20_only_own_key :
  forall (sigv : Type) (sign : nat -> nat -> payload -> sigv) (verify : nat -> nat -> payload -> sigv -> bool),
    (forall k d p k' d' p', verify k' d' p' (sign k d p) = true <-> k' = k /\ d' = d /\ p' = p) ->
    forall key_of sched (st : state sigv) t l p,
      (forall th, In th (ths st) -> tinv sigv sign key_of th) ->
      nth_error (ths (run sigv sign verify key_of sched st)) t = Some (l, p) ->
      forall q s, In (RSig q s) (out l) ->
        (exists d, verify (key_of (owner l)) d q s = true) /\
        (forall k' d' q', verify k' d' q' s = true -> k' = key_of (owner l) /\ q' = q).
Proof. exact own_key_verifies. Qed.
Print Assumptions c20_only_own_key.

(* the thread hypothesis of c20_only_own_key is satisfiable: every thread built from the entry points
   (signing calls; verification calls with a certificate or with no key) satisfies it *)
Theorem c20_entry_points_tinv :
  forall sigv sign key_of gon progs,
    (forall t o, In t progs -> In o (snd t) -> no_sigkey sigv o) ->
    forall th, In th (ths (init_state sigv key_of gon progs)) -> tinv sigv sign key_of th.
Proof. exact init_tinv. Qed.
Print Assumptions c20_entry_points_tinv.

(* the hypothesis of c20_own_key is satisfiable (term algebra), and there the theorem holds *)
Theorem c20_instance :
  forall x : input tsig, spec tsig tverify x (observe_all tsig tverify (keys x) (outs tsig (tfinal x))).
Proof. exact instance_holds. Qed.
Print Assumptions c20_instance.

(* the boolean spec evaluated on the implementation's observations is the stated spec *)
Theorem c20_spec_reflect :
  forall sigv verify (x : input sigv) o, spec_b sigv verify x o = true <-> spec sigv verify x o.
Proof. exact spec_b_iff. Qed.
Print Assumptions c20_spec_reflect.

(* the code before c928ba99 (key stored on the shared signer object) violated the property:
   schedule A.get; B.get; A.sign gives A a signature under B's key *)
Theorem c20_v0_refuted :
  exists x, ~ spec tsig tverify x (observe_all tsig tverify (keys x) (outs tsig (tfinal_v0 x))).
Proof. exact v0_refuted. Qed.
Print Assumptions c20_v0_refuted.

(* OS threads.  The jobs (logical threads) are served by OS workers - a pool thread serves jobs of
   DIFFERENT entities one after the other, the main thread may make calls too - in any assignment
   and order, under EVERY schedule of the workers: the property holds, because every worker
   schedule is a schedule of the jobs (old and current code alike) *)
Theorem c20_worker_schedule_is_job_schedule :
  forall sigv sign verify key_of fixed ws wsched (st : state sigv),
    exists l, wrun_gen sigv sign verify key_of fixed ws wsched st = run_gen sigv sign verify key_of fixed l st.
Proof. exact wrun_is_run. Qed.
Print Assumptions c20_worker_schedule_is_job_schedule.

Theorem c20_worker_pool_own_key :
  forall (sigv : Type) (sign : nat -> nat -> payload -> sigv) (verify : nat -> nat -> payload -> sigv -> bool),
    (forall k d p k' d' p', verify k' d' p' (sign k d p) = true <-> k' = k /\ d' = d /\ p' = p) ->
    forall (x : input sigv) (ws : list (list nat)),
      spec sigv verify x (observe_all sigv verify (keys x) (outs sigv (wfinal sigv sign verify x ws))).
Proof. exact pool_holds. Qed.
Print Assumptions c20_worker_pool_own_key.

Theorem c20_worker_pool_complete_results :
  forall sigv sign verify (x : input sigv) ws,
    finished sigv (wfinal sigv sign verify x ws) = true ->
    outs sigv (wfinal sigv sign verify x ws) =
    map (fun th => map (op_result sigv sign verify (kof (keys x)) (fst th)) (snd th)) (progs x).
Proof. exact pool_complete_outs. Qed.
Print Assumptions c20_worker_pool_complete_results.

(* Entity life cycle.  For every deployment script (key pairs installed at paths with any time
   stamps, in place / by rename / by symlink switch, entities built in between from dicts, Config objects
   and python configuration FILES, roll-overs and roll-backs) in which every configuration file asked
   for exists and no configuration file is touched after a file of its base name has been loaded: the key
   pair an entity signs with and the certificate it publishes are both the pair that was installed at
   the path its OWN configuration names when it was built (strict reading, `published`) *)
Theorem c20_deploy_own_pair :
  forall d, files_present d = true -> no_reedit d = true ->
    deploy_keys d = published d /\ deploy_certs d = published d.
Proof. exact deploy_published. Qed.
Print Assumptions c20_deploy_own_pair.

(* scripts without configuration files (everything up to round 4) meet both hypotheses: the statement of rounds
   2-4, unchanged *)
Theorem c20_deploy_own_pair_no_files :
  forall d, no_files d = true -> deploy_keys d = published d /\ deploy_certs d = published d.
Proof. exact deploy_published_no_files. Qed.
Print Assumptions c20_deploy_own_pair_no_files.

(* ... and the whole process - deployment by the main thread, jobs of the entities served by OS
   workers under every schedule - satisfies the property with respect to those certificates *)
Theorem c20_deploy_pool_own_key :
  forall (sigv : Type) (sign : nat -> nat -> payload -> sigv) (verify : nat -> nat -> payload -> sigv -> bool),
    (forall k d p k' d' p', verify k' d' p' (sign k d p) = true <-> k' = k /\ d' = d /\ p' = p) ->
    forall d g ps ws wsched,
      files_present d = true -> no_reedit d = true ->
      spec sigv verify {| keys := published d; gon := g; progs := ps; sched := wsched |}
           (observe_all sigv verify (deploy_certs d) (outs sigv (dfinal sigv sign verify d g ps ws wsched))).
Proof. exact deploy_pool_holds. Qed.
Print Assumptions c20_deploy_pool_own_key.

(* Configuration SOURCES (round 5).  Whatever the loader handed back - current code or the code before ca0d12ee,
   any script - the key an entity's backend holds and the certificate the entity publishes are ONE pair: both are
   read, at one moment, from the files one and the same configuration names *)
Theorem c20_source_key_is_cert :
  forall d, deploy_keys d = deploy_certs d /\ deploy_keys_v1 d = deploy_certs_v1 d /\ deploy_keys_v0 d = deploy_certs_v0 d.
Proof. exact deploy_keys_certs_both. Qed.
Print Assumptions c20_source_key_is_cert.

(* THE KEY AN ENTITY SIGNS WITH IS A KEY ITS OWN CONFIGURATION SOURCE NAMES.  For every script - configuration
   files and package directories of the same or different base names in the same or different directories, loaded in
   any order, any number of times, through any entry point and spelling, edited or removed and rewritten in between,
   THERE OR NOT (a load of a file that is not there fails since 581b4f03: a slot without entity) - every entity holds
   a pair that its own source accounts for: the dict / Config object it was built from, or, for a file, a path that
   VERY file (package) has named (module table keyed by base name, checked against the file asked for:
   Model.load_module).  Never another tenant's.  The one hypothesis left: a file asked for by its BARE name - no
   directory given - is there (a bare name that finds no file in the working directory is answered, as ever, by
   whatever module of that name Python finds: c20_loader_bare_missing_refuted) *)
Theorem c20_source_own_key :
  forall d, bare_present d = true -> own_source (accounted d) (deploy_keys d).
Proof. exact deploy_own_source_keys. Qed.
Print Assumptions c20_source_own_key.

(* without hypothesis for scripts that give a directory with every file name *)
Theorem c20_source_own_key_no_bare :
  forall d, no_bare d = true -> own_source (accounted d) (deploy_keys d).
Proof. exact deploy_own_source_no_bare. Qed.
Print Assumptions c20_source_own_key_no_bare.

(* ... and the whole process satisfies the property with respect to the certificates the entities hold *)
Theorem c20_source_pool_own_key :
  forall (sigv : Type) (sign : nat -> nat -> payload -> sigv) (verify : nat -> nat -> payload -> sigv -> bool),
    (forall k d p k' d' p', verify k' d' p' (sign k d p) = true <-> k' = k /\ d' = d /\ p' = p) ->
    forall d g ps ws wsched,
      bare_present d = true ->
      own_source (accounted d) (deploy_certs d) /\
      spec sigv verify {| keys := deploy_certs d; gon := g; progs := ps; sched := wsched |}
           (observe_all sigv verify (deploy_certs d) (outs sigv (dfinal sigv sign verify d g ps ws wsched))).
Proof. exact deploy_source_pool_holds. Qed.
Print Assumptions c20_source_pool_own_key.

(* the boolean version evaluated on the certificates the real entities hold is the stated one *)
Theorem c20_own_source_reflect :
  forall al certs, own_source_b al certs = true <-> own_source al certs.
Proof. exact own_source_b_iff. Qed.
Print Assumptions c20_own_source_reflect.

(* the loader BEFORE ca0d12ee (importlib.import_module(base name), nothing else) violated it, without any
   concurrency: two tenants, configuration files of one base name in two directories, both present, neither edited -
   the second tenant holds (and signs with) the first tenant's pair *)
Theorem c20_loader_v0_refuted :
  exists d, files_present d = true /\ no_reedit d = true /\ ~ own_source (accounted d) (deploy_certs_v0 d).
Proof. exact loader_v0_refuted. Qed.
Print Assumptions c20_loader_v0_refuted.

(* the loader BEFORE 581b4f03 (after ca0d12ee) violated it when a configuration file that does not exist was asked
   for (finding C20-F3): the entity was a clone of the tenant whose module of that name had been loaded *)
Theorem c20_loader_missing_v1_refuted :
  exists d, bare_present d = true /\ ~ own_source (accounted d) (deploy_certs_v1 d).
Proof. exact loader_missing_v1_refuted. Qed.
Print Assumptions c20_loader_missing_v1_refuted.

(* what remains of it in the loader AS IT IS: a file asked for by its bare name that is not there - the hypothesis
   bare_present of c20_source_own_key cannot be dropped *)
Theorem c20_loader_bare_missing_refuted :
  exists d, ~ own_source (accounted d) (deploy_certs d).
Proof. exact loader_bare_missing_refuted. Qed.
Print Assumptions c20_loader_bare_missing_refuted.

(* the loader AS IT IS answers a file that was edited after its first load from sys.modules: the entity built
   afterwards holds a pair its own file named BEFORE (c20_source_own_key covers it), not the one it names now - the
   hypothesis no_reedit of c20_deploy_own_pair cannot be dropped *)
Theorem c20_loader_stale_not_fresh :
  exists d, files_present d = true /\ deploy_certs d <> published d.
Proof. exact loader_stale_not_fresh. Qed.
Print Assumptions c20_loader_stale_not_fresh.

(* Configuration objects.  Whatever a configuration object was derived from - loaded from a fresh dict, a
   copy.copy of another entity's Config with key_file/cert_file overridden, a reload of a dict that served
   before - the entities of a deployment load the same keys and certificates: only the path the object names
   when the entity is built counts (c20_deploy_own_pair: and that is the pair they publish); nor does it matter
   through which entry point (load_file / config_factory / config_file=) and under which spelling (absolute /
   relative, with / without ".py") a configuration file is loaded *)
Theorem c20_config_origin_irrelevant :
  forall d, deploy_keys (map forget_origin d) = deploy_keys d /\ deploy_certs (map forget_origin d) = deploy_certs d.
Proof. exact lineage_irrelevant. Qed.
Print Assumptions c20_config_origin_irrelevant.

(* ---- Source tie, translator v2 (C20/Source2.v): the translated CURRENT text of the anchored functions
   (coq/gen/C20Src2.v, regenerated on every run) equals the hand-written model on the whole input domain ---- *)
From Coq Require Import String ZArith.
From Verif Require Import Base.Py Base.Py2 C20.Source2.
From VerifGen Require Import C20Src2.
Open Scope string_scope.

(* sigver.RSACrypto.get_signer + the module table SIGNER_ALGS: for every entity key, every SigAlg str, every
   explicit sigkey (or none) the result is the model's IGet (Model.exec, current code): a signer OF THE CALL with
   the table entry's digest and `sigkey or self.key`; None for a SigAlg outside the table *)
Theorem c20_source2_get_signer : forall k s sk,
  src2_get_signer (enc_crypto k) (PStr s) (enc_okey sk) = enc_osobj (m_get k (alg_of s) sk).
Proof. exact src2_get_signer_is_model. Qed.
Print Assumptions c20_source2_get_signer.

(* sigver.RSASigner.sign (no key argument, as http_redirect_message calls it) = the model's ISign: the signer's
   own key and digest; a signer without key raises *)
Theorem c20_source2_sign :
  forall (key_sign : pyval -> pyval -> pyval -> pyval) (sign_s : nat -> nat -> string -> string),
    (forall k d m, key_sign (enc_key k) (PStr m) (PStr (digest_name d)) = PStr (sign_s k d m)) ->
    (forall m d, key_sign PNone m d = PExc "AttributeError") ->
    forall o m, src2_sign key_sign (enc_sobj o) (PStr m) PNone = enc_sig_result (m_sign sign_s o m).
Proof. exact src2_sign_is_model. Qed.
Print Assumptions c20_source2_sign.

(* sigver.RSASigner.verify = the model's IVerify: the key passed, else the signer's own (`por vk (skey o)`) *)
Theorem c20_source2_verify :
  forall (key_verify : pyval -> pyval -> pyval -> pyval -> pyval) (verify_s : nat -> nat -> string -> string -> bool),
    (forall k d m s, key_verify (enc_key k) (PStr s) (PStr m) (PStr (digest_name d)) = PBool (verify_s k d m s)) ->
    (forall s m d, key_verify PNone s m d = PExc "AttributeError") ->
    forall o m s vk,
      src2_verify key_verify (enc_sobj o) (PStr m) (PStr s) (enc_okey vk) = enc_ver_result (m_verify verify_s o m s vk).
Proof. exact src2_verify_is_model. Qed.
Print Assumptions c20_source2_verify.

(* pack.http_redirect_message, sign=True, typ SAMLRequest / SAMLResponse, any message / RelayState / location / SigAlg
   str, the backend of entity `own`: the answer is the model's result for OSign (Proofs.op_result) - not allowed: raises;
   allowed: the Location carries the signature made with the key OF THAT BACKEND and the digest of the SigAlg over the
   octets typ, RelayState, SigAlg *)
Theorem c20_source2_http_redirect_message :
  forall (key_sign : pyval -> pyval -> pyval -> pyval) (sign_s : nat -> nat -> string -> string),
    (forall k d m, key_sign (enc_key k) (PStr m) (PStr (digest_name d)) = PStr (sign_s k d m)) ->
    forall (urlencode_s deflate_s b64_s : pyval -> string) (add_query_s encode_s : pyval -> pyval -> string)
           (key_of : nat -> nat) (mtext mrelay : nat -> string) (mresp : nat -> bool)
           (verify : nat -> nat -> payload -> string -> bool) (loc : string) (own m : nat) (s : string),
      src2_http_redirect_message key_sign (fun v => PStr (urlencode_s v)) (fun v => PStr (deflate_s v))
        (fun a b => PStr (add_query_s a b)) (fun v => PStr (b64_s v)) (fun a b => PStr (encode_s a b))
        (PStr (mtext m)) (PStr loc) (PStr (mrelay m)) (PStr (typ_name (mresp m))) (PStr s) (PBool true)
        (enc_crypto (key_of own))
      = enc_sign_res urlencode_s deflate_s b64_s add_query_s mtext mrelay mresp loc
          (op_result string (m_sign_fn sign_s urlencode_s deflate_s encode_s mtext mrelay mresp) verify key_of own
             (OSign (alg_of s) m)).
Proof. exact src2_http_redirect_message_is_model. Qed.
Print Assumptions c20_source2_http_redirect_message.

(* config.Config.getattr with context "" (what security_context passes) is getattr(self, attr, None) *)
Theorem c20_source2_config_getattr : forall conf nm,
  is_bad conf = false -> dyn_name_ok nm = true ->
  src2_config_getattr conf (PStr nm) (PStr "") = p2_getattr3 conf nm PNone.
Proof. exact src2_config_getattr_plain. Qed.
Print Assumptions c20_source2_config_getattr.

(* sigver.security_context on ANY Config object that names path p - whatever further attributes it carries, whatever
   it was copied from - is the model's build_at: sec_backend = RSACrypto(the key installed at p NOW), my_cert = the
   certificate installed at p NOW (or the constructor raises when nothing is installed), and the Config object is
   left as it was *)
Theorem c20_source2_security_context :
  forall (import_key read_cert path_exists find_xmlsec : pyval -> pyval) (xmlsec_backend : pyval -> pyval -> pyval)
         (key_path cert_path : nat -> string) (fs : fsys) (bin : string) (crypto : pyval),
    (forall p, Str.is_empty (key_path p) = false) ->
    Str.is_empty bin = false ->
    path_exists (PStr bin) = PBool true ->
    (forall dt : bool, xmlsec_backend (PStr bin) (PBool dt) = crypto) ->
    is_bad crypto = false ->
    (forall p, import_key (PStr (key_path p)) = match fread fs p with Some k => enc_key k | None => PExc "OSError" end) ->
    (forall p, read_cert (PStr (cert_path p)) = match fread fs p with Some c => enc_cert c | None => PExc "OSError" end) ->
    forall p md dt eks extra,
      is_bad md = false ->
      src2_security_context import_key read_cert path_exists find_xmlsec xmlsec_backend
        (enc_conf key_path cert_path bin p md dt eks extra)
      = enc_build key_path cert_path crypto p md eks (enc_conf key_path cert_path bin p md dt eks extra) (build_at fs p).
Proof. exact src2_security_context_is_model. Qed.
Print Assumptions c20_source2_security_context.

(* Config.getattr with context None: the object's own context decides - "" plain, otherwise _<context>_<attr> *)
Theorem c20_source2_config_getattr_context : forall c f nm ctx,
  assoc_py "context" (("__class__", PStr c) :: f) = Some (PStr ctx) ->
  src2_config_getattr (PObj (("__class__", PStr c) :: f)) (PStr nm) PNone
  = if Str.is_empty ctx then p2_getattr3_dyn (PObj (("__class__", PStr c) :: f)) (PStr nm) PNone
    else p2_getattr3_dyn (PObj (("__class__", PStr c) :: f)) (PStr ("_" ++ ctx ++ "_" ++ nm)) PNone.
Proof. exact src2_config_getattr_context. Qed.
Print Assumptions c20_source2_config_getattr_context.

(* config.Config._load (the loader of python configuration files, after ca0d12ee and 581b4f03) for EVERY loader state
   st (configuration files and packages on disk, sys.modules, directories left on sys.path), every directory d - given
   with a name or bare (head_of d = "") - and base name b: the module handed back is Source2.load_which st d b - the
   module import_module found (sys.modules keyed by the base name, then sys.path with d in front, package before file)
   unless the file asked for exists and is ANOTHER file: then that file as it is now; unless the file asked for does
   not exist, a directory was named and the module found lies outside it: ModuleNotFoundError - and its CONFIG is what
   Model.load_module V2 says (c20_source2_load_which).  Reverse-applying either commit makes this theorem fail. *)
Theorem c20_source2_config_load_module :
  forall (path_split abspath isfile module_from_spec : pyval -> pyval)
         (path_insert import_module path_join samefile spec_from_file exec_module : pyval -> pyval -> pyval)
         (st : lstate) (head_of abs_of base_name : nat -> string) (fil_of file_name pkg_name : nat -> nat -> string)
         (config_of : nat -> pyval) (spec_of : nat -> nat -> pyval) (s0 : string) (path_rest : list pyval),
    (forall d b, path_split (PStr (fil_of d b)) = PList [PStr (head_of d); PStr (base_name b)]) ->
    (forall s, path_insert (PInt 0%Z) (PStr s) = PNone) ->
    (forall d b, import_module (PStr (head_of d)) (PStr (base_name b)) =
                 match import_result st d b with
                 | Some (d0, pk0, c0) => enc_mod file_name pkg_name config_of d0 pk0 b c0
                 | None => PExc "ModuleNotFoundError"
                 end) ->
    (forall d, abspath (if py_truthy (PStr (head_of d)) then PStr (head_of d) else PStr ".") = PStr (abs_of d)) ->
    (forall d pk b, abspath (PStr (mod_file file_name pkg_name d pk b)) = PStr (mod_file file_name pkg_name d pk b)) ->
    (forall d b, path_join (PStr (abs_of d)) (PStr (base_name b ++ ".py")) = PStr (file_name d b)) ->
    (forall d pk b, Str.is_empty (mod_file file_name pkg_name d pk b) = false) ->
    (forall d b, isfile (PStr (file_name d b)) =
                 PBool (match cf_read (cfiles st) d b with Some _ => true | None => false end)) ->
    (forall d0 pk0 d b, samefile (PStr (mod_file file_name pkg_name d0 pk0 b)) (PStr (file_name d b)) =
                        match cf_read (if pk0 then pkgs st else cfiles st) d0 b with
                        | Some _ => PBool (negb pk0 && Nat.eqb d0 d)
                        | None => PExc "FileNotFoundError"
                        end) ->
    (forall d0 pk0 d b, Str.startswith (mod_file file_name pkg_name d0 pk0 b) (abs_of d ++ "/") = Nat.eqb d0 d) ->
    (forall d b, spec_from_file (PStr (base_name b)) (PStr (file_name d b)) = spec_of d b) ->
    (forall d b, is_bad (spec_of d b) = false) ->
    (forall d b, module_from_spec (spec_of d b) =
                 match cf_read (cfiles st) d b with
                 | Some c => enc_mod file_name pkg_name config_of d false b c
                 | None => PExc "FileNotFoundError"
                 end) ->
    (forall d b m, exec_module (spec_of d b) m = PNone) ->
    forall self d b,
      src2_config_load_module path_split (PList (PStr s0 :: path_rest)) path_insert import_module abspath path_join isfile
        samefile spec_from_file module_from_spec exec_module self (PStr (fil_of d b))
      = enc_lres file_name pkg_name config_of b (load_which st d b (Str.is_empty (head_of d))).
Proof. exact src2_config_load_module_is_model. Qed.
Print Assumptions c20_source2_config_load_module.

Theorem c20_source2_load_which :
  forall st d b bare, lres_content (load_which st d b bare) = fst (load_module V2 st d b bare).
Proof. exact load_which_is_model. Qed.
Print Assumptions c20_source2_load_which.

(* ... and an entity built from a configuration file (Model.loaded, step DLoadFile) is that load followed by the
   constructor (c20_source2_security_context) *)
Theorem c20_source2_loaded_load_file :
  forall fs cf st d b a sp r,
    loaded fs cf st (DLoadFile d b a sp :: r)
    = build_slot fs (lres_content (load_which st d b (is_bare sp)))
      :: loaded fs cf (snd (load_module V2 st d b (is_bare sp))) r.
Proof. exact loaded_load_file. Qed.
Print Assumptions c20_source2_loaded_load_file.

(* config.Config.load_file: the name as it is, or with exactly ".py" cut off, goes to _load; the CONFIG of the module
   handed back is deep-copied and handed to self.load; an exception of the loader comes through *)
Theorem c20_source2_config_load_file :
  forall (file_name pkg_name : nat -> nat -> string) (config_of : nat -> pyval) (deepcopy : pyval -> pyval)
         (config_load load_fn : pyval -> pyval -> pyval),
    (forall c, is_bad (config_of c) = false) -> (forall c, deepcopy (config_of c) = config_of c) ->
    forall self name b r,
      (endswith name ".py" = false /\ load_fn self (PStr name) = enc_lres file_name pkg_name config_of b r) \/
      (endswith name ".py" = true /\ all_ascii name = true /\ 3 <= String.length name /\
       load_fn self (PStr (substring 0 (String.length name - 3) name)) = enc_lres file_name pkg_name config_of b r) ->
      src2_config_load_file load_fn deepcopy config_load self (PStr name) PNone
      = enc_loaded config_of config_load self b r.
Proof. exact src2_config_load_file_is_model. Qed.
Print Assumptions c20_source2_config_load_file.
