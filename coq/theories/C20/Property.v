(* C20/Property.v — property theorems only. *)
From Coq Require Import List Bool Arith.
From Verif Require Import Base.Str C20.Model C20.Spec C20.Proofs.
Import ListNotations.

(* C20: for every ideal signature scheme, any number of entities and threads, any programs of
   signing / verification calls, any set of scheduler gates and EVERY schedule (list of thread ids,
   complete or not): every signature obtained verifies under the certificate of exactly the
   entities that hold the calling entity's key pair - the caller's own, no other's - and every
   verification verdict is the ideal verdict for the key that call asked for. *)
Theorem c20_own_key :
  forall (sigv : Type) (sign : nat -> nat -> payload -> sigv) (verify : nat -> nat -> payload -> sigv -> bool),
    (forall k d p k' d' p', verify k' d' p' (sign k d p) = true <-> k' = k /\ d' = d /\ p' = p) ->
    forall x : input sigv,
      spec sigv verify x (observe_all sigv verify (keys x) (outs sigv (final sigv sign verify x))).
Proof. exact own_key_holds. Qed.
Print Assumptions c20_own_key.

(* per-thread results are independent of the schedule: after ANY schedule the state of thread t
   (locals, results, remaining program) is the one it reaches running alone for as many segments
   as the schedule gave it, whatever the other threads did in between - for arbitrary instruction
   programs and an arbitrary shared table *)
Theorem c20_thread_independent :
  forall sigv sign verify key_of sched (st : state sigv) t,
    nth_error (ths (run sigv sign verify key_of sched st)) t =
    option_map (fun th => iter (occ t sched) (segT sigv sign verify key_of (sh st)) th) (nth_error (ths st) t).
Proof. exact thread_independent. Qed.
Print Assumptions c20_thread_independent.

Theorem c20_schedule_independent :
  forall sigv sign verify key_of s1 s2 (st : state sigv) t,
    occ t s1 = occ t s2 ->
    nth_error (ths (run sigv sign verify key_of s1 st)) t = nth_error (ths (run sigv sign verify key_of s2 st)) t.
Proof. exact schedule_independent. Qed.
Print Assumptions c20_schedule_independent.

(* once every thread has finished, the results are those each entity would get alone in the
   process: a function of the programs only, not of the schedule *)
Theorem c20_complete_results :
  forall sigv sign verify (x : input sigv),
    finished sigv (final sigv sign verify x) = true ->
    outs sigv (final sigv sign verify x) =
    map (fun th => map (op_result sigv sign verify (kof (keys x)) (fst th)) (snd th)) (progs x).
Proof. exact complete_outs. Qed.
Print Assumptions c20_complete_results.

(* the module-level table SIGNER_ALGS is never written by the code as it is now *)
Theorem c20_shared_unchanged :
  forall sigv sign verify key_of sched (st : state sigv), sh (run sigv sign verify key_of sched st) = sh st.
Proof. exact run_shared. Qed.
Print Assumptions c20_shared_unchanged.

(* arbitrary instruction programs (not only the compiled entry points) that never ask for an explicit
   sigkey, an arbitrary (even polluted) shared table, any schedule: a signature produced by thread t
   verifies under the key of t's entity and under no other key *)
Theorem c20_only_own_key :
  forall (sigv : Type) (sign : nat -> nat -> payload -> sigv) (verify : nat -> nat -> payload -> sigv -> bool),
    (forall k d p k' d' p', verify k' d' p' (sign k d p) = true <-> k' = k /\ d' = d /\ p' = p) ->
    forall key_of sched (st : state sigv) t l p,
      (forall th, In th (ths st) -> tinv sigv sign key_of th) ->
      nth_error (ths (run sigv sign verify key_of sched st)) t = Some (l, p) ->
      forall q s, In (RSig q s) (out l) ->
        (exists d, verify (key_of (owner l)) d q s = true) /\
        (forall k' d' q', verify k' d' q' s = true -> k' = key_of (owner l) /\ q' = q).
Proof. exact own_key_verifies. Qed.
Print Assumptions c20_only_own_key.

(* the thread hypothesis of c20_only_own_key is satisfiable: every thread built from the entry points
   (signing calls; verification calls with a certificate or with no key) satisfies it *)
Theorem c20_entry_points_tinv :
  forall sigv sign key_of gon progs,
    (forall t o, In t progs -> In o (snd t) -> no_sigkey sigv o) ->
    forall th, In th (ths (init_state sigv key_of gon progs)) -> tinv sigv sign key_of th.
Proof. exact init_tinv. Qed.
Print Assumptions c20_entry_points_tinv.

(* the hypothesis of c20_own_key is satisfiable (term algebra), and there the theorem holds *)
Theorem c20_instance :
  forall x : input tsig, spec tsig tverify x (observe_all tsig tverify (keys x) (outs tsig (tfinal x))).
Proof. exact instance_holds. Qed.
Print Assumptions c20_instance.

(* the boolean spec evaluated on the implementation's observations is the stated spec *)
Theorem c20_spec_reflect :
  forall sigv verify (x : input sigv) o, spec_b sigv verify x o = true <-> spec sigv verify x o.
Proof. exact spec_b_iff. Qed.
Print Assumptions c20_spec_reflect.

(* the code before c928ba99 (key stored on the shared signer object) violated the property:
   schedule A.get; B.get; A.sign gives A a signature under B's key *)
Theorem c20_v0_refuted :
  exists x, ~ spec tsig tverify x (observe_all tsig tverify (keys x) (outs tsig (tfinal_v0 x))).
Proof. exact v0_refuted. Qed.
Print Assumptions c20_v0_refuted.

(* OS threads.  The jobs (logical threads) are served by OS workers - a pool thread serves jobs of
   DIFFERENT entities one after the other, the main thread may make calls too - in any assignment
   and order, under EVERY schedule of the workers: the property holds, because every worker
   schedule is a schedule of the jobs (old and current code alike) *)
Theorem c20_worker_schedule_is_job_schedule :
  forall sigv sign verify key_of fixed ws wsched (st : state sigv),
    exists l, wrun_gen sigv sign verify key_of fixed ws wsched st = run_gen sigv sign verify key_of fixed l st.
Proof. exact wrun_is_run. Qed.
Print Assumptions c20_worker_schedule_is_job_schedule.

Theorem c20_worker_pool_own_key :
  forall (sigv : Type) (sign : nat -> nat -> payload -> sigv) (verify : nat -> nat -> payload -> sigv -> bool),
    (forall k d p k' d' p', verify k' d' p' (sign k d p) = true <-> k' = k /\ d' = d /\ p' = p) ->
    forall (x : input sigv) (ws : list (list nat)),
      spec sigv verify x (observe_all sigv verify (keys x) (outs sigv (wfinal sigv sign verify x ws))).
Proof. exact pool_holds. Qed.
Print Assumptions c20_worker_pool_own_key.

Theorem c20_worker_pool_complete_results :
  forall sigv sign verify (x : input sigv) ws,
    finished sigv (wfinal sigv sign verify x ws) = true ->
    outs sigv (wfinal sigv sign verify x ws) =
    map (fun th => map (op_result sigv sign verify (kof (keys x)) (fst th)) (snd th)) (progs x).
Proof. exact pool_complete_outs. Qed.
Print Assumptions c20_worker_pool_complete_results.

(* Entity life cycle.  For every deployment script (key pairs installed at paths with any time
   stamps, in place / by rename / by symlink switch, entities built in between, roll-overs and
   roll-backs): the key pair an entity signs with and the certificate it publishes are both the pair
   that was installed at its path when it was built *)
Theorem c20_deploy_own_pair :
  forall d, deploy_keys d = published d /\ deploy_certs d = published d.
Proof. exact deploy_published. Qed.
Print Assumptions c20_deploy_own_pair.

(* ... and the whole process - deployment by the main thread, jobs of the entities served by OS
   workers under every schedule - satisfies the property with respect to those certificates *)
Theorem c20_deploy_pool_own_key :
  forall (sigv : Type) (sign : nat -> nat -> payload -> sigv) (verify : nat -> nat -> payload -> sigv -> bool),
    (forall k d p k' d' p', verify k' d' p' (sign k d p) = true <-> k' = k /\ d' = d /\ p' = p) ->
    forall d g ps ws wsched,
      spec sigv verify {| keys := published d; gon := g; progs := ps; sched := wsched |}
           (observe_all sigv verify (deploy_certs d) (outs sigv (dfinal sigv sign verify d g ps ws wsched))).
Proof. exact deploy_pool_holds. Qed.
Print Assumptions c20_deploy_pool_own_key.
