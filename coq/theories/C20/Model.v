(* C20/Model.v — redirect-binding signing under thread interleaving, as coded.

   Mirrors (sigver.py 500-603, pack.py 142-205, request.py 109-115, entity.py 284-296):
     SIGNER_ALGS           module-level dict  SigAlg -> RSASigner(digest, key=None); created at import,
                           shared by every entity and thread of the process            [shared]
     RSACrypto(key)        one object per entity (SecurityContext.sec_backend); its .key is
                           written once in __init__ and only read afterwards           [keys]
     RSACrypto.get_signer  NOW: looks the shared object up, reads its .digest and returns
                           RSASigner(digest, sigkey or self.key) - an object of the call
                           (HOwn).  BEFORE c928ba99 (kept as fixed=false): stored
                           "sigkey or self.key" on the shared object and returned that
                           object itself (HShared).
     RSASigner.sign        key_sign(key or self.key, msg, self.digest)
     RSASigner.verify      key_verify(key or self.key, sig, msg, self.digest)
     http_redirect_message allowed-list test, backend.get_signer(sigalg), "if not signer: raise",
                           signer.sign(octets)  - signer is a local variable of the call
     verify_redirect_signature   crypto.get_signer(SigAlg, sigkey), SigAlg in SIGNER_ALGS test,
                           _key = key of cert | sigkey, signer.verify(octets, sig, _key)

   Threads: any number; each has an owning entity, a program and locals (the `signer` variable of
   the running call, a flag for "the call has raised/returned early", the results so far).  A
   schedule is a list of thread ids; one entry lets that thread run up to its next scheduler gate
   (gates sit at entry/exit of get_signer, sign, verify - exactly where the harness gates the real
   threads).  Signatures are ideal: Section variables. *)
From Coq Require Import List Bool Arith.
Import ListNotations.

Definition payload := (nat * nat)%type.      (* (message id, SigAlg id): the signed octets *)

Inductive gate := GetEnter | GetExit | SignEnter | SignExit | VerEnter | VerExit.

Definition gate_eqb (a b : gate) : bool :=
  match a, b with
  | GetEnter, GetEnter | GetExit, GetExit | SignEnter, SignEnter
  | SignExit, SignExit | VerEnter, VerEnter | VerExit, VerExit => true
  | _, _ => false
  end.

(* an RSASigner object *)
Record sobj := { sdigest : nat; skey : option nat }.

(* SIGNER_ALGS: SigAlg id -> signer object.  ids 0..4 = rsa-sha1/224/256/384/512 *)
Definition shared := list (nat * sobj).

Definition init_shared : shared :=
  map (fun a => (a, {| sdigest := a; skey := None |})) [0; 1; 2; 3; 4].

(* SIG_ALLOWED_ALG (xmldsig): the same five *)
Definition allowed (alg : nat) : bool := alg <? 5.

Fixpoint find_alg (sh : shared) (alg : nat) : option sobj :=
  match sh with
  | [] => None
  | (a, o) :: r => if Nat.eqb a alg then Some o else find_alg r alg
  end.

Fixpoint set_alg (sh : shared) (alg : nat) (o : sobj) : shared :=
  match sh with
  | [] => []
  | (a, o') :: r => if Nat.eqb a alg then (a, o) :: r else (a, o') :: set_alg r alg o
  end.

(* what a local `signer` variable refers to *)
Inductive handle := HOwn (o : sobj) | HShared (alg : nat).

Definition deref (sh : shared) (h : option handle) : option sobj :=
  match h with
  | None => None
  | Some (HOwn o) => Some o
  | Some (HShared a) => find_alg sh a
  end.

Definition por (a b : option nat) : option nat :=     (* Python "a or b" on keys *)
  match a with Some _ => a | None => b end.

Section Scheme.
  Variable sigv : Type.
  Variable sign : nat -> nat -> payload -> sigv.             (* key, digest, octets *)
  Variable verify : nat -> nat -> payload -> sigv -> bool.   (* key (public part), digest, octets, signature *)
  Variable key_of : nat -> nat.                              (* entity -> its key pair *)

  Inductive instr :=
  | IGate (g : gate)
  | ICheckAllowed (alg : nat)                      (* pack.py: sigalg not in SIG_ALLOWED_ALG -> raise *)
  | IGet (alg : nat) (sigkey : option nat)         (* signer = backend.get_signer(alg, sigkey) *)
  | ICheckSigner                                   (* pack.py: if not signer: raise *)
  | ICheckKnown (alg : nat)                        (* sigver.py: if SigAlg in SIGNER_ALGS ... else None *)
  | ISign (p : payload)                            (* signer.sign(octets) *)
  | IVerify (p : payload) (s : sigv) (k : option nat)   (* signer.verify(octets, sig, k) *)
  | IEndOp.                                        (* the call returns: its locals die *)

  Inductive result :=
  | RSig (p : payload) (s : sigv)
  | RVer (b : bool)
  | RRaise
  | RNone.

  Record local := { owner : nat; signer : option handle; skip : bool; out : list result }.

  Definition push (l : local) (r : result) : local :=
    {| owner := owner l; signer := signer l; skip := skip l; out := out l ++ [r] |}.
  Definition abort (l : local) (r : result) : local :=
    {| owner := owner l; signer := signer l; skip := true; out := out l ++ [r] |}.
  Definition set_signer (l : local) (h : option handle) : local :=
    {| owner := owner l; signer := h; skip := skip l; out := out l |}.
  Definition end_op (l : local) : local :=
    {| owner := owner l; signer := None; skip := false; out := out l |}.

  (* one instruction of one thread; fixed = false is the code before c928ba99 *)
  Definition exec (fixed : bool) (sh : shared) (l : local) (i : instr) : shared * local :=
    match i with
    | IEndOp => (sh, end_op l)
    | _ =>
      if skip l then (sh, l) else
      match i with
      | IGate _ => (sh, l)
      | ICheckAllowed a => if allowed a then (sh, l) else (sh, abort l RRaise)
      | IGet a sk =>
          match find_alg sh a with
          | None => (sh, set_signer l None)
          | Some o =>
              let o' := {| sdigest := sdigest o; skey := por sk (Some (key_of (owner l))) |} in
              if fixed then (sh, set_signer l (Some (HOwn o')))
              else (set_alg sh a o', set_signer l (Some (HShared a)))
          end
      | ICheckSigner => match signer l with None => (sh, abort l RRaise) | Some _ => (sh, l) end
      | ICheckKnown a => match find_alg sh a with None => (sh, abort l RNone) | Some _ => (sh, l) end
      | ISign p =>
          match deref sh (signer l) with
          | Some o => match skey o with
                      | Some k => (sh, push l (RSig p (sign k (sdigest o) p)))
                      | None => (sh, abort l RRaise)
                      end
          | None => (sh, abort l RRaise)
          end
      | IVerify p s vk =>
          match deref sh (signer l) with
          | Some o => match por vk (skey o) with
                      | Some k => (sh, push l (RVer (verify k (sdigest o) p s)))
                      | None => (sh, abort l RRaise)
                      end
          | None => (sh, abort l RRaise)
          end
      | IEndOp => (sh, l)
      end
    end.

  (* run a thread up to (and including arrival at) its next gate, or to the end of its program *)
  Fixpoint seg (fixed : bool) (sh : shared) (l : local) (prog : list instr)
    : shared * local * list instr * option gate :=
    match prog with
    | [] => (sh, l, [], None)
    | IGate g :: r => if skip l then seg fixed sh l r else (sh, l, r, Some g)
    | i :: r => let '(sh', l') := exec fixed sh l i in seg fixed sh' l' r
    end.

  Definition thread := (local * list instr)%type.

  Record state := { sh : shared; ths : list thread; trace : list (nat * gate) }.

  Fixpoint upd {A} (n : nat) (x : A) (l : list A) : list A :=
    match l, n with
    | [], _ => []
    | _ :: r, 0 => x :: r
    | a :: r, S m => a :: upd m x r
    end.

  (* one schedule entry; entries naming a finished or unknown thread stutter *)
  Definition step_gen (fixed : bool) (t : nat) (st : state) : state :=
    match nth_error (ths st) t with
    | None => st
    | Some (l, prog) =>
        let '(sh', l', prog', g) := seg fixed (sh st) l prog in
        {| sh := sh'; ths := upd t (l', prog') (ths st);
           trace := trace st ++ match g with Some g => [(t, g)] | None => [] end |}
    end.

  Definition step := step_gen true.       (* the code as it is now *)
  Definition step_v0 := step_gen false.   (* the code before c928ba99 *)

  Definition run_gen (fixed : bool) (sched : list nat) (st : state) : state :=
    fold_left (fun st t => step_gen fixed t st) sched st.
  Definition run := run_gen true.
  Definition run_v0 := run_gen false.

  (* ---- OS threads.  A logical thread above is one JOB: the calls one entity makes while it handles one
     request.  A worker thread of a pool (WSGI server, multi-tenant process) serves jobs of DIFFERENT
     entities one after the other; the main thread that builds the entities may itself make calls.
     Nothing in the anchored code is keyed by the OS thread (no threading.local, no get_ident, no
     per-thread memo): what a worker does is what its jobs do, in order.  One schedule entry w lets
     worker w run up to its next gate: it finishes the current job and goes on with the next one when
     no gate is met on the way.  Entries naming a worker without unfinished job stutter. ---- *)
  Fixpoint wseg_gen (fixed : bool) (jobs : list nat) (st : state) : state :=
    match jobs with
    | [] => st
    | j :: r =>
        match nth_error (ths st) j with
        | Some (_, _ :: _) =>
            let st' := step_gen fixed j st in
            if Nat.eqb (length (trace st')) (length (trace st))
            then wseg_gen fixed r st'        (* job j ran to its end, no gate met *)
            else st'                         (* the worker waits at a gate inside job j *)
        | _ => wseg_gen fixed r st           (* job done already (or no such job) *)
        end
    end.

  Definition wstep_gen (fixed : bool) (ws : list (list nat)) (w : nat) (st : state) : state :=
    match nth_error ws w with
    | None => st
    | Some jobs => wseg_gen fixed jobs st
    end.

  Definition wrun_gen (fixed : bool) (ws : list (list nat)) (wsched : list nat) (st : state) : state :=
    fold_left (fun st w => wstep_gen fixed ws w st) wsched st.
  Definition wrun := wrun_gen true.
  Definition wrun_v0 := wrun_gen false.

  (* ---- the public entry points, compiled to instructions ---- *)
  Inductive vkey := VCert (e : nat) | VKey (k : nat) | VOwn.

  Inductive op :=
  | OSign (alg msg : nat)                            (* apply_binding / http_redirect_message(sign=True, sigalg) *)
  | OVerify (p : payload) (s : sigv) (vk : vkey).    (* verify_redirect_signature(saml_msg, backend, cert | sigkey | neither) *)

  Definition gt (gon : list gate) (g : gate) : list instr :=
    if existsb (gate_eqb g) gon then [IGate g] else [].

  Definition compile (gon : list gate) (o : op) : list instr :=
    match o with
    | OSign a m =>
        [ICheckAllowed a] ++ gt gon GetEnter ++ [IGet a None] ++ gt gon GetExit ++ [ICheckSigner]
        ++ gt gon SignEnter ++ [ISign (m, a)] ++ gt gon SignExit ++ [IEndOp]
    | OVerify p s vk =>
        gt gon GetEnter ++ [IGet (snd p) (match vk with VKey k => Some k | _ => None end)] ++ gt gon GetExit
        ++ [ICheckKnown (snd p)] ++ gt gon VerEnter
        ++ [IVerify p s (match vk with VCert e => Some (key_of e) | VKey k => Some k | VOwn => None end)]
        ++ gt gon VerExit ++ [IEndOp]
    end.

  Definition init_local (e : nat) : local := {| owner := e; signer := None; skip := false; out := [] |}.

  Definition mk_thread (gon : list gate) (t : nat * list op) : thread :=
    (init_local (fst t), flat_map (compile gon) (snd t)).

  Definition init_state (gon : list gate) (progs : list (nat * list op)) : state :=
    {| sh := init_shared; ths := map (mk_thread gon) progs; trace := [] |}.

  Definition outs (st : state) : list (list result) := map (fun th => out (fst th)) (ths st).
  Definition finished (st : state) : bool := forallb (fun th => match snd th with [] => true | _ => false end) (ths st).
End Scheme.

Arguments IGate {sigv}.
Arguments ICheckAllowed {sigv}.
Arguments IGet {sigv}.
Arguments ICheckSigner {sigv}.
Arguments ICheckKnown {sigv}.
Arguments ISign {sigv}.
Arguments IVerify {sigv}.
Arguments IEndOp {sigv}.
Arguments RSig {sigv}.
Arguments RVer {sigv}.
Arguments RRaise {sigv}.
Arguments RNone {sigv}.
Arguments OSign {sigv}.
Arguments OVerify {sigv}.
Arguments owner {sigv}.
Arguments signer {sigv}.
Arguments skip {sigv}.
Arguments out {sigv}.
Arguments sh {sigv}.
Arguments ths {sigv}.
Arguments trace {sigv}.
Arguments upd {A}.

(* ---- term algebra of signatures: who signed what with which digest, or unrelated bytes ---- *)
Inductive tsig := Sg (k d : nat) (p : payload) | Junk (n : nat).

Definition tsign (k d : nat) (p : payload) : tsig := Sg k d p.

Definition payload_eqb (a b : payload) : bool := Nat.eqb (fst a) (fst b) && Nat.eqb (snd a) (snd b).

Definition tsig_eqb (a b : tsig) : bool :=
  match a, b with
  | Sg k d p, Sg k' d' p' => Nat.eqb k k' && Nat.eqb d d' && payload_eqb p p'
  | Junk n, Junk n' => Nat.eqb n n'
  | _, _ => false
  end.

Definition tverify (k d : nat) (p : payload) (s : tsig) : bool := tsig_eqb s (Sg k d p).

(* entity -> key pair, from the list given in a case *)
Definition kof (keys : list nat) (e : nat) : nat := nth e keys 0.

(* ---- where an entity's key comes from (sigver.py security_context / SecurityContext.__init__):
     the configuration names a key_file and a cert_file; when the entity object is built,
       import_rsa_key_from_file(key_file)  opens and parses the file -> RSACrypto(key)   (sec_backend)
       read_cert_from_file(cert_file)      opens and reads the file  -> my_cert          (published)
     Both read the CONTENT the path has at that moment; neither looks at the file's mtime, size or
     inode, neither remembers anything between calls, nothing is keyed by path or entityid.  Later
     changes of the files do not reach an entity that exists already (RSACrypto.key and my_cert are
     written once).  A deployment is a list of steps of the main thread:
       DInstall p k stamp how   key pair k (key file + certificate file) is put at path p with mtime
                                `stamp`; how = 0 overwritten in place, 1 renamed over, 2 p is a symlink that
                                is switched to another target
       DCreate p                an entity is built from the configuration naming path p (entities are
                                numbered in creation order)
       DCall j                  the main thread runs job j here (see wrun; irrelevant for the keys)
     The configuration is an OBJECT (saml2.config.Config) with a life of its own: entity.py Entity.__init__
     keeps it (self.config) and hands it to security_context(conf), which reads conf.key_file / conf.cert_file
     AT THAT MOMENT and nothing else of the object's history - nothing is kept on the Config object, on its
     class, or keyed by its identity.  Configuration objects are numbered in creation order:
       DConf p how parent       how = 0: a new Config is loaded from a fresh dict naming path p;
                                how = 1: copy.copy(config `parent`), then key_file/cert_file (entityid) are
                                         set to path p on the copy (idiom of tests/test_39_metadata.py);
                                how = 2: a new Config is loaded from the very dict `parent` was loaded
                                         from, after its key_file/cert_file entries were set to path p;
                                how = 3: config `parent` ITSELF is re-pointed at path p (no new object);
       DBuild c                 an entity is built from configuration object c as it is now;
       DCtx c                   security_context(config c) is called and the result dropped (what
                                response.py authn_response()/response_factory() do per message) ---- *)
Inductive dstep := DInstall (p k stamp how : nat) | DCreate (p : nat) | DCall (j : nat)
  | DConf (p how parent : nat) | DBuild (c : nat) | DCtx (c : nat)
  | DWrite (dir base p : nat) | DUnlink (dir base : nat) | DLoadFile (dir base api spell : nat) | DFactory (p : nat)
  | DWritePkg (dir base p : nat).

Definition fsys := list (nat * (nat * nat)).     (* path -> (key pair installed there, mtime); newest first *)

Fixpoint fread (fs : fsys) (p : nat) : option nat :=
  match fs with
  | [] => None
  | (q, (k, _)) :: r => if Nat.eqb q p then Some k else fread r p
  end.

(* what building an entity from the configuration naming path p yields *)
Definition build_at (fs : fsys) (p : nat) : option (nat * nat) :=
  match fread fs p (* key_file *), fread fs p (* cert_file *) with
  | Some k, Some c => Some (k, c)
  | _, _ => None                             (* no such file: the constructor raises, no entity *)
  end.

Definition ocons {A} (o : option A) (l : list A) : list A := match o with Some x => x :: l | None => l end.

(* ---- where a CONFIGURATION comes from (config.py Config.load / load_file / _load, config_factory; entity.py
     Entity.__init__(config= | config_file=)).  Besides a dict (DCreate: SPConfig().load(dict); DFactory:
     config_factory(type, dict) = load(deepcopy(dict))) and a Config object (DConf / DBuild) a configuration is a
     python FILE dir/base.py, or a PACKAGE directory dir/base/__init__.py, that binds CONFIG:
       DWrite dir base p      the file dir/base.py is written (or edited): its CONFIG names key_file / cert_file at path p
       DUnlink dir base       the file is removed
       DWritePkg dir base p   the package dir/base/__init__.py is written (or edited); packages are not removed
       DLoadFile dir base api spell
                              an entity is built from it; api = 0 <Class>Config().load_file(f) + entity(config=),
                              1 config_factory(type, f) + entity(config=), 2 entity(config_file=f); spell = how f is
                              written: 0 absolute, 1 absolute + ".py", 2 relative to the working directory, 3 relative +
                              ".py", 4 / 5 the BARE name (+ ".py"): relative, and the working directory IS dir.
                              load_file strips ".py"; os.path.split gives the directory `head` and the base name
                              `tail`; head = "" (bare) is the working directory.  Of all this the loader sees (dir,
                              base) and whether the name was bare.
     Config._load(dir/base) AS IT IS NOW (after ca0d12ee and 581b4f03):
       sys.path.insert(0, dir)                                  [spath; "." for head = "" unless already in front]
       mod = importlib.import_module(base)                      sys.modules is keyed by the BASE NAME alone: a module
                                                                loaded earlier under that name is answered as it was
                                                                executed THEN [mods]; otherwise the directories of
                                                                sys.path are searched in order - dir first, then the
                                                                directories of EARLIER loads - in each the package
                                                                base/ before the file base.py; what is found is
                                                                executed and registered; none: ModuleNotFoundError
       wanted = abspath(dir)/base.py ; found = mod.__file__
       if found and isfile(wanted) and not samefile(found, wanted):   the module found is ANOTHER file than the one asked
           mod = <wanted executed now, NOT registered>               for: that file itself is executed
                                                                (samefile raises when the file of the module found
                                                                 has been removed meanwhile)
       elif head and found and not isfile(wanted):              [581b4f03] a directory was named and the file is not
           if found lies outside abspath(head)/: raise ModuleNotFoundError    there: only a module from THAT directory
                                                                (its package, or its file as loaded before it was
                                                                 removed) is the configuration asked for
       return mod                                               load_file: self.load(copy.deepcopy(mod.CONFIG))
     so that (i) a file loaded before and EDITED since is answered from sys.modules as it was (stale; the OWN file's
     earlier content), (ii) a BARE name whose file does not exist is still answered by whatever module of that name
     Python finds (it cannot be told from a module meant to be found on sys.path).
     V1 = after ca0d12ee, before 581b4f03: no third branch (finding C20-F3: a file that does not exist answered by another
     directory's module).  V0 = before ca0d12ee: return importlib.import_module(base) - wherever it came from. ---- *)
Inductive lver := V0 | V1 | V2.

Definition cfsys := list ((nat * nat) * option nat).     (* (directory, base name) -> the path its CONFIG names; newest first *)

Fixpoint cf_read (c : cfsys) (d b : nat) : option nat :=
  match c with
  | [] => None
  | ((d', b'), v) :: r => if Nat.eqb d' d && Nat.eqb b' b then v else cf_read r d b
  end.

(* a module as importlib knows it: (directory it was found in, is it the package, the path its CONFIG named when it
   was executed) *)
Definition fmod := (nat * bool * nat)%type.

(* sys.modules: base name -> module *)
Definition modtab := list (nat * fmod).

Fixpoint mod_find (m : modtab) (b : nat) : option fmod :=
  match m with
  | [] => None
  | (b', x) :: r => if Nat.eqb b' b then Some x else mod_find r b
  end.

(* the first directory of sys.path that holds the package base/ or the file base.py (the package wins) *)
Fixpoint path_find (c k : cfsys) (sp : list nat) (b : nat) : option fmod :=
  match sp with
  | [] => None
  | d :: r => match cf_read k d b with
              | Some p => Some (d, true, p)
              | None => match cf_read c d b with Some p => Some (d, false, p) | None => path_find c k r b end
              end
  end.

(* cfiles: the files dir/base.py; pkgs: the packages dir/base/__init__.py *)
Record lstate := { cfiles : cfsys; pkgs : cfsys; mods : modtab; spath : list nat }.

Definition lstate0 : lstate := {| cfiles := []; pkgs := []; mods := []; spath := [] |}.

Definition is_bare (spell : nat) : bool := 4 <=? spell.

(* the module handed back once import_module has answered `found`: None = an exception *)
Definition answer (v : lver) (st : lstate) (d b : nat) (bare : bool) (found : fmod) : option nat :=
  let '(d0, pk0, c0) := found in
  match v with
  | V0 => Some c0
  | _ =>
    match cf_read (cfiles st) d b with
    | Some cnow => if negb pk0 && Nat.eqb d0 d then Some c0
                   else match cf_read (if pk0 then pkgs st else cfiles st) d0 b with Some _ => Some cnow | None => None end
    | None => match v with
              | V2 => if bare || Nat.eqb d0 d then Some c0 else None
              | _ => Some c0
              end
    end
  end.

Definition with_path (st : lstate) (sp : list nat) (m : modtab) : lstate :=
  {| cfiles := cfiles st; pkgs := pkgs st; mods := m; spath := sp |}.

(* Config._load(dir/base): the path the CONFIG handed back names (None: it raises), and the loader state afterwards *)
Definition load_module (v : lver) (st : lstate) (d b : nat) (bare : bool) : option nat * lstate :=
  let sp := d :: spath st in
  match mod_find (mods st) b with
  | Some found => (answer v st d b bare found, with_path st sp (mods st))
  | None =>
      match path_find (cfiles st) (pkgs st) sp b with
      | Some found => (answer v st d b bare found, with_path st sp ((b, found) :: mods st))
      | None => (None, with_path st sp (mods st))
      end
  end.

Definition cf_write (st : lstate) (d b : nat) (v : option nat) : lstate :=
  {| cfiles := ((d, b), v) :: cfiles st; pkgs := pkgs st; mods := mods st; spath := spath st |}.
Definition pkg_write (st : lstate) (d b : nat) (p : nat) : lstate :=
  {| cfiles := cfiles st; pkgs := ((d, b), Some p) :: pkgs st; mods := mods st; spath := spath st |}.

(* an entity built from a configuration FILE always has a slot: (0, 0) when the loader or the constructor raised *)
Definition build_slot (fs : fsys) (oc : option nat) : nat * nat :=
  match oc with
  | Some p => match build_at fs p with Some kc => kc | None => (0, 0) end
  | None => (0, 0)
  end.

(* per entity, in creation order: (key pair of sec_backend.key, key pair of the certificate my_cert);
   cf = the path each configuration object names now; ld = the state of the module loader *)
Fixpoint loaded_gen (v : lver) (fs : fsys) (cf : list nat) (ld : lstate) (d : list dstep) : list (nat * nat) :=
  match d with
  | [] => []
  | DInstall p k s _ :: r => loaded_gen v ((p, (k, s)) :: fs) cf ld r
  | DCreate p :: r => ocons (build_at fs p) (loaded_gen v fs cf ld r)
  | DCall _ :: r => loaded_gen v fs cf ld r
  | DConf p how parent :: r =>
      if Nat.eqb how 3 then loaded_gen v fs (upd parent p cf) ld r      (* re-pointed; no such object: nothing happens *)
      else loaded_gen v fs (cf ++ [p]) ld r                             (* a new object, whatever it was derived from *)
  | DBuild c :: r =>
      match nth_error cf c with
      | Some p => ocons (build_at fs p) (loaded_gen v fs cf ld r)
      | None => loaded_gen v fs cf ld r
      end
  | DCtx _ :: r => loaded_gen v fs cf ld r
  | DWrite dr b p :: r => loaded_gen v fs cf (cf_write ld dr b (Some p)) r
  | DUnlink dr b :: r => loaded_gen v fs cf (cf_write ld dr b None) r
  | DWritePkg dr b p :: r => loaded_gen v fs cf (pkg_write ld dr b p) r
  | DLoadFile dr b _ sp :: r =>
      let '(oc, ld') := load_module v ld dr b (is_bare sp) in
      build_slot fs oc :: loaded_gen v fs cf ld' r
  | DFactory p :: r => ocons (build_at fs p) (loaded_gen v fs cf ld r)
  end.

Definition loaded := loaded_gen V2.        (* the loader as it is now *)
Definition loaded_v1 := loaded_gen V1.     (* after ca0d12ee, before 581b4f03 *)
Definition loaded_v0 := loaded_gen V0.     (* before ca0d12ee *)

Definition deploy_keys (d : list dstep) : list nat := map fst (loaded [] [] lstate0 d).
Definition deploy_certs (d : list dstep) : list nat := map snd (loaded [] [] lstate0 d).
Definition deploy_keys_v0 (d : list dstep) : list nat := map fst (loaded_v0 [] [] lstate0 d).
Definition deploy_certs_v0 (d : list dstep) : list nat := map snd (loaded_v0 [] [] lstate0 d).
Definition deploy_keys_v1 (d : list dstep) : list nat := map fst (loaded_v1 [] [] lstate0 d).
Definition deploy_certs_v1 (d : list dstep) : list nat := map snd (loaded_v1 [] [] lstate0 d).
