(* C20/Source2.v — tie to the source TEXT, translator v2 (harness/py2coq2.py, Base/Py2.v).
   coq/gen/C20Src2.v is regenerated on every run from the CURRENT text of sigver.py, pack.py and config.py
   (harness/c20.py:src2_items; the tables SIGNER_ALGS, SIG_ALLOWED_ALG, REQ_ORDER, RESP_ORDER are read from the
   text as well).  For each translated function: a theorem, for ALL inputs of the model's domain, that the
   translated function applied to the encoded input is the encoded output of the hand-written model function it
   mirrors (C20/Model.v: exec IGet / ISign / IVerify, Proofs.op_result (OSign), build_at).  External calls (RSA
   signing and verification, urlencode, DEFLATE+base64, add_query, base64, str.encode, file reads, the xmlsec1
   wrapper) are Section variables with hypotheses; every Section is followed by an Example showing them
   satisfiable. *)
From Coq Require Import String Ascii List Bool ZArith Arith Lia.
From Verif Require Import Base.Str Base.Py Base.Py2 C20.Model C20.Spec C20.Proofs.
From VerifGen Require Import C20Src2.
Import ListNotations.
Open Scope string_scope.
Set Default Timeout 20.

(* ------------------------------------------------------------------ encodings *)
(* an RSA key object (private key; its public part for verification): an object, hence truthy *)
Definition enc_key (k : nat) : pyval := PObj [("__class__", PStr "RSAKey"); ("id", PInt (Z.of_nat k))].
Definition enc_okey (o : option nat) : pyval := match o with Some k => enc_key k | None => PNone end.

(* digest objects are named by the class the table calls: hashes.SHA1() ... ; model digest ids 0..4 *)
Definition digest_names : list string := ["SHA1"; "SHA224"; "SHA256"; "SHA384"; "SHA512"].
Definition digest_name (d : nat) : string := nth d digest_names "".

Definition enc_sobj (o : sobj) : pyval :=
  PObj [("__class__", PStr "RSASigner"); ("key", enc_okey (skey o)); ("digest", PStr (digest_name (sdigest o)))].
Definition enc_osobj (o : option sobj) : pyval := match o with Some x => enc_sobj x | None => PNone end.

Definition enc_crypto (k : nat) : pyval := PObj [("__class__", PStr "RSACrypto"); ("key", enc_key k)].

(* SigAlg URIs; model ids 0..4 = rsa-sha1/224/256/384/512, every other str is id 5 (not allowed, no signer) *)
Definition u0 := "http://www.w3.org/2000/09/xmldsig#rsa-sha1".
Definition u1 := "http://www.w3.org/2001/04/xmldsig-more#rsa-sha224".
Definition u2 := "http://www.w3.org/2001/04/xmldsig-more#rsa-sha256".
Definition u3 := "http://www.w3.org/2001/04/xmldsig-more#rsa-sha384".
Definition u4 := "http://www.w3.org/2001/04/xmldsig-more#rsa-sha512".
Definition uris : list string := [u0; u1; u2; u3; u4].
Definition uri_of (a : nat) : string := nth a uris "".

Definition alg_of (s : string) : nat :=
  if String.eqb s u0 then 0 else if String.eqb s u1 then 1 else if String.eqb s u2 then 2
  else if String.eqb s u3 then 3 else if String.eqb s u4 then 4 else 5.

Lemma alg_of_cases s :
  (s = u0 /\ alg_of s = 0) \/ (s = u1 /\ alg_of s = 1) \/ (s = u2 /\ alg_of s = 2) \/ (s = u3 /\ alg_of s = 3)
  \/ (s = u4 /\ alg_of s = 4)
  \/ (alg_of s = 5 /\ String.eqb s u0 = false /\ String.eqb s u1 = false /\ String.eqb s u2 = false
      /\ String.eqb s u3 = false /\ String.eqb s u4 = false).
Proof.
  unfold alg_of.
  destruct (String.eqb s u0) eqn:E0; [apply String.eqb_eq in E0; auto|].
  destruct (String.eqb s u1) eqn:E1; [apply String.eqb_eq in E1; auto|].
  destruct (String.eqb s u2) eqn:E2; [apply String.eqb_eq in E2; auto 6|].
  destruct (String.eqb s u3) eqn:E3; [apply String.eqb_eq in E3; auto 7|].
  destruct (String.eqb s u4) eqn:E4; [apply String.eqb_eq in E4; auto 8|].
  do 5 right. auto 10.
Qed.

Lemma alg_of_uri s : allowed (alg_of s) = true -> uri_of (alg_of s) = s.
Proof.
  destruct (alg_of_cases s) as [[-> ->]|[[-> ->]|[[-> ->]|[[-> ->]|[[-> ->]|[-> _]]]]]]; try reflexivity.
  discriminate.
Qed.

Lemma enc_okey_good o : is_bad (enc_okey o) = false.
Proof. destruct o; reflexivity. Qed.

(* ================================================================== sigver.RSACrypto.get_signer *)
(* the model: Model.exec on IGet (current code, fixed = true) with the table as it is at import *)
Definition m_get (k a : nat) (sk : option nat) : option sobj :=
  match find_alg init_shared a with
  | None => None
  | Some o => Some {| sdigest := sdigest o; skey := por sk (Some k) |}
  end.

Lemma m_get_is_exec sigv (sign : nat -> nat -> payload -> sigv) verify key_of l a sk :
  skip l = false ->
  exec sigv sign verify key_of true init_shared l (IGet a sk)
  = (init_shared, set_signer sigv l (option_map HOwn (m_get (key_of (owner l)) a sk))).
Proof.
  intros Hs. unfold exec, m_get. rewrite Hs. destruct (find_alg init_shared a); reflexivity.
Qed.

Theorem src2_get_signer_is_model : forall k s sk,
  src2_get_signer (enc_crypto k) (PStr s) (enc_okey sk) = enc_osobj (m_get k (alg_of s) sk).
Proof.
  intros k s sk. unfold src2_get_signer. cbv zeta.
  rewrite p2_getitem_dict by reflexivity. cbn [assoc_py].
  fold u0 u1 u2 u3 u4.
  destruct (alg_of_cases s) as [[-> ->]|[[-> ->]|[[-> ->]|[[-> ->]|[[-> ->]|(-> & E0 & E1 & E2 & E3 & E4)]]]]].
  6: { rewrite E0, E1, E2, E3, E4. reflexivity. }
  all: cbn [String.eqb Ascii.eqb Bool.eqb u0 u1 u2 u3 u4 py_bindh p2_bind];
    change (p2_attr (enc_crypto k) "key") with (enc_key k);
    rewrite p2_or_good by apply enc_okey_good;
    destruct sk as [k'|]; reflexivity.
Qed.

(* the table itself: SIGNER_ALGS as written in sigver.py is the model's init_shared (keys None, digest = alg) *)
Corollary src2_signer_table_is_init_shared : forall k s,
  src2_get_signer (enc_crypto k) (PStr s) PNone
  = match find_alg init_shared (alg_of s) with
    | Some o => enc_sobj {| sdigest := sdigest o; skey := Some k |}
    | None => PNone
    end.
Proof.
  intros k s. change PNone with (enc_okey None) at 1. rewrite (src2_get_signer_is_model k s None). unfold m_get.
  destruct (find_alg init_shared (alg_of s)); reflexivity.
Qed.

(* ================================================================== sigver.RSASigner.sign / verify *)
Section Signer.
  Variable key_sign : pyval -> pyval -> pyval -> pyval.             (* cryptography.asymmetric.key_sign(key, msg, digest) *)
  Variable key_verify : pyval -> pyval -> pyval -> pyval -> pyval.  (* key_verify(key, sig, msg, digest) *)
  (* what the RSA primitives do on the encodings: an ideal scheme over str messages, and a missing key
     (None) makes them raise (AttributeError: None has no sign / verify) *)
  Variable sign_s : nat -> nat -> string -> string.
  Variable verify_s : nat -> nat -> string -> string -> bool.
  Hypothesis key_sign_spec : forall k d m, key_sign (enc_key k) (PStr m) (PStr (digest_name d)) = PStr (sign_s k d m).
  Hypothesis key_sign_none : forall m d, key_sign PNone m d = PExc "AttributeError".
  Hypothesis key_verify_spec : forall k d m s,
    key_verify (enc_key k) (PStr s) (PStr m) (PStr (digest_name d)) = PBool (verify_s k d m s).
  Hypothesis key_verify_none : forall s m d, key_verify PNone s m d = PExc "AttributeError".

  (* model: Model.exec on ISign - the signer's own key, its digest; no key: the call raises *)
  Definition m_sign (o : sobj) (m : string) : option string :=
    match skey o with Some k => Some (sign_s k (sdigest o) m) | None => None end.
  Definition enc_sig_result (r : option string) : pyval :=
    match r with Some s => PStr s | None => PExc "AttributeError" end.

  Theorem src2_sign_is_model : forall o m,
    src2_sign key_sign (enc_sobj o) (PStr m) PNone = enc_sig_result (m_sign o m).
  Proof.
    intros o m. unfold src2_sign, m_sign.
    change (p2_attr (enc_sobj o) "key") with (enc_okey (skey o)).
    change (p2_attr (enc_sobj o) "digest") with (PStr (digest_name (sdigest o))).
    cbn [p2_or py_truthy py_bind].
    destruct (skey o) as [k|]; cbn [enc_okey enc_key py_bind enc_sig_result].
    - apply key_sign_spec.
    - apply key_sign_none.
  Qed.

  (* with an explicit key argument: `key or self.key` *)
  Theorem src2_sign_key_is_model : forall o m k,
    src2_sign key_sign (enc_sobj o) (PStr m) (enc_key k) = PStr (sign_s k (sdigest o) m).
  Proof.
    intros o m k. unfold src2_sign.
    change (p2_attr (enc_sobj o) "digest") with (PStr (digest_name (sdigest o))).
    cbn [p2_or enc_key py_truthy py_bind]. apply key_sign_spec.
  Qed.

  (* model: Model.exec on IVerify - `por vk (skey o)`: the key passed, else the signer's own *)
  Definition m_verify (o : sobj) (m s : string) (vk : option nat) : option bool :=
    match por vk (skey o) with Some k => Some (verify_s k (sdigest o) m s) | None => None end.
  Definition enc_ver_result (r : option bool) : pyval :=
    match r with Some b => PBool b | None => PExc "AttributeError" end.

  Theorem src2_verify_is_model : forall o m s vk,
    src2_verify key_verify (enc_sobj o) (PStr m) (PStr s) (enc_okey vk) = enc_ver_result (m_verify o m s vk).
  Proof.
    intros o m s vk. unfold src2_verify, m_verify.
    change (p2_attr (enc_sobj o) "key") with (enc_okey (skey o)).
    change (p2_attr (enc_sobj o) "digest") with (PStr (digest_name (sdigest o))).
    rewrite p2_or_good by apply enc_okey_good.
    destruct vk as [k|]; cbn [enc_okey enc_key py_truthy por py_bind].
    - apply key_verify_spec.
    - destruct (skey o) as [k|]; cbn [enc_okey enc_key py_bind enc_ver_result].
      + apply key_verify_spec.
      + apply key_verify_none.
  Qed.
End Signer.

Example signer_hypotheses_satisfiable :
  exists key_sign key_verify (sign_s : nat -> nat -> string -> string) (verify_s : nat -> nat -> string -> string -> bool),
    (forall k d m, key_sign (enc_key k) (PStr m) (PStr (digest_name d)) = PStr (sign_s k d m)) /\
    (forall m d, key_sign PNone m d = PExc "AttributeError") /\
    (forall k d m s, key_verify (enc_key k) (PStr s) (PStr m) (PStr (digest_name d)) = PBool (verify_s k d m s)) /\
    (forall s m d, key_verify PNone s m d = PExc "AttributeError").
Proof.
  exists (fun k _ _ => match k with PNone => PExc "AttributeError" | _ => PStr "sig" end),
         (fun k _ _ _ => match k with PNone => PExc "AttributeError" | _ => PBool true end),
         (fun _ _ _ => "sig"), (fun _ _ _ _ => true).
  repeat split; reflexivity.
Qed.

(* ================================================================== pack.http_redirect_message, signing branch *)
Section Redirect.
  Variable key_sign : pyval -> pyval -> pyval -> pyval.
  Variable sign_s : nat -> nat -> string -> string.
  Hypothesis key_sign_spec : forall k d m, key_sign (enc_key k) (PStr m) (PStr (digest_name d)) = PStr (sign_s k d m).
  (* the other external calls return a str on whatever they are given (they do not raise); nothing else is assumed *)
  Variable urlencode_s deflate_s b64_s : pyval -> string.
  Variable add_query_s encode_s : pyval -> pyval -> string.
  Let urlencode (v : pyval) := PStr (urlencode_s v).
  Let deflate_b64 (v : pyval) := PStr (deflate_s v).
  Let b64encode (v : pyval) := PStr (b64_s v).
  Let add_query (a b : pyval) := PStr (add_query_s a b).
  Let str_encode (a b : pyval) := PStr (encode_s a b).

  (* reference: the query arguments before signing, the signed octets, the answer *)
  Definition args0 (typ msg rs : string) : list (string * pyval) :=
    (typ, PStr (deflate_s (PStr msg))) :: (if is_empty rs then [] else [("RelayState", PStr rs)]).
  Definition octets (typ msg rs s : string) : string :=
    encode_s (PStr (join "&" (map (fun kv => urlencode_s (PObj [kv])) (args0 typ msg rs ++ [("SigAlg", PStr s)])%list)))
             (PStr "ascii").
  Definition redirect_ok (loc typ msg rs s sg : string) : pyval :=
    PObj [("headers", PList [PList [PStr "Location";
             PStr (add_query_s (PStr loc)
                    (PStr (urlencode_s (PObj (args0 typ msg rs
                                              ++ [("SigAlg", PStr s); ("Signature", PStr (b64_s (PStr sg)))])%list))))]]);
          ("data", PList []); ("status", PInt 303)].

  Lemma not_in_uris s : p2_not_in (PStr s) (PList (map PStr uris)) = PBool (negb (allowed (alg_of s))).
  Proof.
    destruct (alg_of_cases s) as [[-> ->]|[[-> ->]|[[-> ->]|[[-> ->]|[[-> ->]|(-> & E0 & E1 & E2 & E3 & E4)]]]]];
      try (vm_compute; reflexivity).
    unfold p2_not_in, p2_in. rewrite s2_good by reflexivity.
    cbn [map uris list_has pv_eq]. fold u0 u1 u2 u3 u4. rewrite E0, E1, E2, E3, E4. reflexivity.
  Qed.

  (* RSASigner.sign on a signer object with a key, no key argument: the signer's key, the signer's digest *)
  Lemma src2_sign_obj : forall k dn m,
    src2_sign key_sign (PObj [("__class__", PStr "RSASigner"); ("key", enc_key k); ("digest", PStr dn)]) (PStr m) PNone
    = key_sign (enc_key k) (PStr m) (PStr dn).
  Proof. reflexivity. Qed.

  Lemma allowed_nonempty s : allowed (alg_of s) = true -> is_empty s = false.
  Proof.
    destruct (alg_of_cases s) as [[-> ->]|[[-> ->]|[[-> ->]|[[-> ->]|[[-> ->]|[-> _]]]]]]; try reflexivity. discriminate.
  Qed.

  Lemma get_signer_allowed k s : allowed (alg_of s) = true ->
    src2_get_signer (enc_crypto k) (PStr s) PNone
    = PObj [("__class__", PStr "RSASigner"); ("key", enc_key k); ("digest", PStr (digest_name (alg_of s)))].
  Proof.
    intros Ha. rewrite src2_signer_table_is_init_shared, find_init, Ha. reflexivity.
  Qed.

  Ltac hrm_case k s Ea :=
    cbn -[src2_get_signer src2_sign enc_key enc_crypto digest_name alg_of allowed];
    destruct (allowed (alg_of s)) eqn:Ea;
    [ rewrite (allowed_nonempty s Ea), (get_signer_allowed k s Ea);
      cbn -[src2_get_signer src2_sign enc_key enc_crypto digest_name alg_of allowed];
      rewrite src2_sign_obj, key_sign_spec;
      cbn -[enc_key digest_name alg_of]; reflexivity
    | cbn; reflexivity ].

  Lemma hrm_sign_explicit : forall k msg loc rs typ s,
    typ = "SAMLRequest" \/ typ = "SAMLResponse" ->
    src2_http_redirect_message key_sign urlencode deflate_b64 add_query b64encode str_encode
      (PStr msg) (PStr loc) (PStr rs) (PStr typ) (PStr s) (PBool true) (enc_crypto k)
    = if allowed (alg_of s) then redirect_ok loc typ msg rs s (sign_s k (alg_of s) (octets typ msg rs s))
      else PExc "Exception".
  Proof.
    intros k msg loc rs typ s Htyp.
    unfold src2_http_redirect_message, urlencode, deflate_b64, b64encode, add_query, str_encode. cbv beta zeta.
    match goal with
    | |- context [p2_listcomp ?a ?b ?c] =>
        replace (p2_listcomp a b c) with (PList (map PStr uris)) by (vm_compute; reflexivity)
    end.
    rewrite not_in_uris.
    destruct Htyp as [-> | ->]; destruct rs as [|c r].
    - Time hrm_case k s Ea.
    - Time hrm_case k s Ea.
    - Time hrm_case k s Ea.
    - Time hrm_case k s Ea.
  Qed.

  (* the model: Proofs.op_result on OSign - what apply_binding / http_redirect_message(sign=True) yield for entity
     `own`: messages are numbered (text, RelayState, request / response), the signature scheme of the model is the
     RSA primitive on the octets of the message *)
  Variable key_of : nat -> nat.
  Variable mtext mrelay : nat -> string.
  Variable mresp : nat -> bool.
  Definition typ_name (b : bool) : string := if b then "SAMLResponse" else "SAMLRequest".
  Definition m_octets (p : payload) : string :=
    octets (typ_name (mresp (fst p))) (mtext (fst p)) (mrelay (fst p)) (uri_of (snd p)).
  Definition m_sign_fn (k d : nat) (p : payload) : string := sign_s k d (m_octets p).
  Definition enc_sign_res (loc : string) (r : result string) : pyval :=
    match r with
    | RSig p sg => redirect_ok loc (typ_name (mresp (fst p))) (mtext (fst p)) (mrelay (fst p)) (uri_of (snd p)) sg
    | RRaise => PExc "Exception"
    | _ => PErr
    end.

  Theorem src2_http_redirect_message_is_model : forall verify loc own m s,
    src2_http_redirect_message key_sign urlencode deflate_b64 add_query b64encode str_encode
      (PStr (mtext m)) (PStr loc) (PStr (mrelay m)) (PStr (typ_name (mresp m))) (PStr s) (PBool true)
      (enc_crypto (key_of own))
    = enc_sign_res loc (op_result string m_sign_fn verify key_of own (OSign (alg_of s) m)).
  Proof.
    intros verify loc own m s.
    rewrite hrm_sign_explicit by (unfold typ_name; destruct (mresp m); auto).
    unfold op_result. destruct (allowed (alg_of s)) eqn:Ea; [|reflexivity].
    unfold enc_sign_res, m_sign_fn, m_octets. cbn [fst snd]. rewrite (alg_of_uri s Ea). reflexivity.
  Qed.
End Redirect.

Example redirect_hypotheses_satisfiable :
  exists key_sign (sign_s : nat -> nat -> string -> string),
    forall k d m, key_sign (enc_key k) (PStr m) (PStr (digest_name d)) = PStr (sign_s k d m).
Proof. exists (fun _ _ _ => PStr "sig"), (fun _ _ _ => "sig"). reflexivity. Qed.

(* ================================================================== config.Config.getattr *)
(* context "" (what security_context passes): plain getattr(self, attr, None) *)
Theorem src2_config_getattr_plain : forall conf nm,
  is_bad conf = false -> dyn_name_ok nm = true ->
  src2_config_getattr conf (PStr nm) (PStr "") = p2_getattr3 conf nm PNone.
Proof.
  intros conf nm Hc Hn. unfold src2_config_getattr. cbn [p2_is_none s1 py_bind p2_branch py_truthy p2_eq].
  cbn. unfold p2_getattr3_dyn. rewrite s3_good by (exact Hc || reflexivity). rewrite Hn. reflexivity.
Qed.

Lemma str_app_nil (s : string) : (s ++ "")%string = s.
Proof. induction s as [|a r IH]; [reflexivity|]. cbn [append]. rewrite IH. reflexivity. Qed.

(* context None: the object's current context decides - "" plain, otherwise the attribute _<context>_<attr> *)
Theorem src2_config_getattr_context : forall c f nm ctx,
  assoc_py "context" (("__class__", PStr c) :: f) = Some (PStr ctx) ->
  src2_config_getattr (PObj (("__class__", PStr c) :: f)) (PStr nm) PNone
  = if is_empty ctx then p2_getattr3_dyn (PObj (("__class__", PStr c) :: f)) (PStr nm) PNone
    else p2_getattr3_dyn (PObj (("__class__", PStr c) :: f)) (PStr ("_" ++ ctx ++ "_" ++ nm)) PNone.
Proof.
  intros c f nm ctx H. unfold src2_config_getattr.
  cbn [p2_is_none s1 py_bind p2_branch py_truthy].
  rewrite p2_attr_obj, H. cbn [py_bind]. rewrite p2_eq_str.
  destruct ctx as [|a r]; cbn [String.eqb is_empty p2_branch py_truthy]; [reflexivity|].
  cbn [p2_fconcat p2_str s1 py_bind]. rewrite str_app_nil. reflexivity.
Qed.

(* ================================================================== sigver.security_context *)
(* what read_cert_from_file returns for the certificate of key pair c (an opaque value naming the pair) *)
Definition enc_cert (c : nat) : pyval := PObj [("__class__", PStr "CertBody"); ("pair", PInt (Z.of_nat c))].

(* an entry of conf.encryption_keypairs: a dict with or without a "key_file" *)
Definition enc_ek (e : option string) : pyval :=
  match e with
  | Some f => PObj [("key_file", PStr f); ("cert_file", PStr "enc.pem")]
  | None => PObj [("cert_file", PStr "enc.pem")]
  end.
Fixpoint keyfiles (l : list (option string)) : list pyval :=
  match l with [] => [] | Some f :: r => PStr f :: keyfiles r | None :: r => keyfiles r end.
Definition enc_eks (o : option (list (option string))) : pyval :=
  match o with Some l => PList (map enc_ek l) | None => PNone end.
Definition keyfiles_of (o : option (list (option string))) : list pyval :=
  match o with Some l => keyfiles l | None => [] end.

(* the loop body over conf.encryption_keypairs, as generated (after beta / zeta) *)
Definition ek_body : list pyval -> pyval -> ctl2 :=
  fun st x => match st with
  | [v_enc_key_files] =>
      match p2_branch (p2_in (PStr "key_file") x) with
      | BTrue => py_bindS (fun n => ExcS n [v_enc_key_files])
                   (p2_append v_enc_key_files (p2_getitem x (PStr "key_file")))
                   (fun v_enc_key_files => NextS [v_enc_key_files])
      | BFalse => NextS [v_enc_key_files]
      | BExc n => ExcS n [v_enc_key_files]
      | BErr => RetS PErr
      end
  | _ => RetS PErr
  end.

Lemma ek_loop l : forall acc,
  pyfor2 (map enc_ek l) [PList acc] ek_body = NextS [PList (acc ++ keyfiles l)%list].
Proof.
  induction l as [|e r IH]; intros acc; cbn [map pyfor2 keyfiles].
  - rewrite app_nil_r. reflexivity.
  - destruct e as [f|]; cbn.
    + rewrite IH, <- app_assoc. reflexivity.
    + apply IH.
Qed.

Section SecurityContext.
  Variable import_key read_cert path_exists find_xmlsec : pyval -> pyval.
  Variable xmlsec_backend : pyval -> pyval -> pyval.
  Variable key_path cert_path : nat -> string.     (* the file names a configuration naming path p carries *)
  Variable fs : fsys.                              (* what is installed where, at the moment of the call *)
  Variable bin : string.                           (* conf.xmlsec_binary *)
  Variable crypto : pyval.                         (* the CryptoBackendXmlSec1 object *)
  Hypothesis key_path_nonempty : forall p, is_empty (key_path p) = false.
  Hypothesis bin_nonempty : is_empty bin = false.
  Hypothesis exists_spec : path_exists (PStr bin) = PBool true.
  Hypothesis backend_spec : forall dt, xmlsec_backend (PStr bin) (PBool dt) = crypto.
  Hypothesis crypto_good : is_bad crypto = false.
  (* the two file reads see the CONTENT installed at the path now (Model.fread) *)
  Hypothesis import_spec : forall p,
    import_key (PStr (key_path p)) = match fread fs p with Some k => enc_key k | None => PExc "OSError" end.
  Hypothesis read_spec : forall p,
    read_cert (PStr (cert_path p)) = match fread fs p with Some c => enc_cert c | None => PExc "OSError" end.

  (* a Config object naming path p - WHATEVER ELSE it carries (extra: any further attributes, e.g. left there by
     an earlier call, by the object it was copied from, ...) *)
  Definition enc_conf (p : nat) (md : pyval) (dt : bool) (eks : option (list (option string)))
    (extra : list (string * pyval)) : pyval :=
    PObj (("__class__", PStr "Config") :: ("metadata", md) :: ("crypto_backend", PStr "xmlsec1")
          :: ("xmlsec_binary", PStr bin) :: ("delete_tmpfiles", PBool dt) :: ("context", PStr "")
          :: ("key_file", PStr (key_path p)) :: ("cert_file", PStr (cert_path p))
          :: ("only_use_keys_in_metadata", PBool true) :: ("cert_handler_extra_class", PNone)
          :: ("generate_cert_info", PNone) :: ("tmp_cert_file", PNone) :: ("tmp_key_file", PNone)
          :: ("validate_certificate", PNone) :: ("encryption_keypairs", enc_eks eks) :: extra).

  (* the SecurityContext: sec_backend = RSACrypto(key read from key_file), my_cert = certificate read from cert_file *)
  Definition enc_secctx (p k c : nat) (md : pyval) (eks : option (list (option string))) : pyval :=
    PObj [("__class__", PStr "SecurityContext"); ("crypto", crypto); ("sec_backend", enc_crypto k);
          ("key_file", PStr (key_path p)); ("cert_file", PStr (cert_path p)); ("my_cert", enc_cert c);
          ("metadata", md); ("enc_key_files", PList (keyfiles_of eks))].

  (* model: Model.build_at - (key pair of sec_backend.key, key pair of my_cert), or no entity *)
  Definition enc_build (p : nat) (md : pyval) (eks : option (list (option string))) (conf : pyval)
    (r : option (nat * nat)) : pyval :=
    match r with
    | Some (k, c) => PList [enc_secctx p k c md eks; conf]
    | None => PList [PExc "OSError"; conf]
    end.

  Theorem src2_security_context_is_model : forall p md dt eks extra,
    is_bad md = false ->
    src2_security_context import_key read_cert path_exists find_xmlsec xmlsec_backend (enc_conf p md dt eks extra)
    = enc_build p md eks (enc_conf p md dt eks extra) (build_at fs p).
  Proof.
    intros p md dt eks extra Hmd.
    (* every read of the configuration object, once; afterwards the object is opaque *)
    assert (A0 : p2_not (enc_conf p md dt eks extra) = PBool false) by reflexivity.
    assert (A1 : p2_attr_x (enc_conf p md dt eks extra) "metadata" = md) by (destruct md; try reflexivity; discriminate).
    assert (A2 : p2_attr_x (enc_conf p md dt eks extra) "crypto_backend" = PStr "xmlsec1") by reflexivity.
    assert (A3 : p2_attr_x (enc_conf p md dt eks extra) "xmlsec_binary" = PStr bin) by reflexivity.
    assert (A4 : p2_attr_x (enc_conf p md dt eks extra) "delete_tmpfiles" = PBool dt) by reflexivity.
    assert (A5 : src2_config_getattr (enc_conf p md dt eks extra) (PStr "key_file") (PStr "") = PStr (key_path p))
      by reflexivity.
    assert (A6 : p2_attr_x (enc_conf p md dt eks extra) "key_file" = PStr (key_path p)) by reflexivity.
    assert (A7 : p2_attr_x (enc_conf p md dt eks extra) "cert_file" = PStr (cert_path p)) by reflexivity.
    assert (A8 : p2_attr_x (enc_conf p md dt eks extra) "only_use_keys_in_metadata" = PBool true) by reflexivity.
    assert (A9 : p2_attr_x (enc_conf p md dt eks extra) "cert_handler_extra_class" = PNone) by reflexivity.
    assert (A10 : p2_attr_x (enc_conf p md dt eks extra) "generate_cert_info" = PNone) by reflexivity.
    assert (A11 : p2_attr_x (enc_conf p md dt eks extra) "tmp_cert_file" = PNone) by reflexivity.
    assert (A12 : p2_attr_x (enc_conf p md dt eks extra) "tmp_key_file" = PNone) by reflexivity.
    assert (A13 : p2_attr_x (enc_conf p md dt eks extra) "validate_certificate" = PNone) by reflexivity.
    assert (A14 : p2_attr_x (enc_conf p md dt eks extra) "encryption_keypairs" = enc_eks eks)
      by (destruct eks; reflexivity).
    set (conf := enc_conf p md dt eks extra) in *. clearbody conf.
    unfold src2_security_context. cbv beta zeta. fold ek_body.
    rewrite A0, A1, ?A2, ?A3, ?A4, ?A5, ?A6, ?A7, ?A8, ?A9, ?A10, ?A11, ?A12, ?A13, ?A14.
    clear A0 A1 A2 A3 A4 A5 A6 A7 A8 A9 A10 A11 A12 A13 A14.
    cbn [p2_branch py_truthy].
    rewrite py_bindh_good by exact Hmd. cbv beta.
    change (p2_eq (PStr "xmlsec1") (PStr "xmlsec1")) with (PBool true).
    cbn [p2_branch py_truthy py_bindh p2_bind].
    change (p2_not (PStr bin)) with (PBool (negb (negb (is_empty bin)))). rewrite bin_nonempty.
    cbn [negb p2_branch py_truthy py_bind]. rewrite exists_spec.
    cbn [p2_not s1 py_bind py_truthy negb p2_branch]. rewrite backend_spec.
    rewrite py_bindh_good by exact crypto_good. cbv beta.
    cbn [py_bindh p2_bind p2_branch py_truthy]. rewrite key_path_nonempty. cbn [negb py_bind].
    rewrite import_spec. unfold build_at.
    destruct (fread fs p) as [k|] eqn:F; [|reflexivity].
    cbn [enc_key py_bindh p2_bind py_bind]. rewrite read_spec, F.
    rewrite !(py_bind_good crypto) by exact crypto_good. rewrite !(py_bind_good md) by exact Hmd.
    destruct eks as [l|]; cbn [enc_eks p2_is_not_none s1 py_bind p2_branch py_truthy].
    - cbn [p2_iter_check p2_iterable py_bindh p2_bind py_iter2]. rewrite ek_loop.
      rewrite (py_bind_good crypto) by exact crypto_good. rewrite (py_bind_good md) by exact Hmd. reflexivity.
    - reflexivity.
  Qed.
End SecurityContext.

(* an entity built by DCreate p / DBuild c (Model.loaded) is what security_context makes of the configuration:
   ocons (build_at fs p) - the theorem above is the tie of that step to the source text *)
Corollary src2_security_context_loaded : forall import_key read_cert path_exists find_xmlsec xmlsec_backend
    key_path cert_path fs bin crypto,
  (forall p, is_empty (key_path p) = false) -> is_empty bin = false -> path_exists (PStr bin) = PBool true ->
  (forall dt, xmlsec_backend (PStr bin) (PBool dt) = crypto) -> is_bad crypto = false ->
  (forall p, import_key (PStr (key_path p)) = match fread fs p with Some k => enc_key k | None => PExc "OSError" end) ->
  (forall p, read_cert (PStr (cert_path p)) = match fread fs p with Some c => enc_cert c | None => PExc "OSError" end) ->
  forall p cf ld r md dt eks extra, is_bad md = false ->
    let conf := enc_conf key_path cert_path bin p md dt eks extra in
    src2_security_context import_key read_cert path_exists find_xmlsec xmlsec_backend conf
    = match loaded fs cf ld (DCreate p :: r), loaded fs cf ld r with
      | (k, c) :: l, l' => if Nat.eqb (length l) (length l')
                           then PList [enc_secctx key_path cert_path crypto p k c md eks; conf]
                           else PList [PExc "OSError"; conf]
      | [], _ => PList [PExc "OSError"; conf]
      end.
Proof.
  intros import_key read_cert path_exists find_xmlsec xmlsec_backend key_path cert_path fs bin crypto
         H1 H2 H3 H4 H5 H6 H7 p cf ld r md dt eks extra Hmd conf.
  unfold conf.
  rewrite (src2_security_context_is_model import_key read_cert path_exists find_xmlsec xmlsec_backend
             key_path cert_path fs bin crypto H1 H2 H3 H4 H5 H6 H7 p md dt eks extra Hmd).
  unfold loaded. cbn [loaded_gen]. destruct (build_at fs p) as [[k c]|] eqn:B; cbn [ocons enc_build].
  - rewrite Nat.eqb_refl. reflexivity.
  - destruct (loaded_gen V2 fs cf ld r) as [|[k c] l] eqn:L; [reflexivity|].
    replace (Nat.eqb (length l) (length ((k, c) :: l))) with false; [reflexivity|].
    symmetry. apply Nat.eqb_neq. cbn [length]. lia.
Qed.

Fixpoint ones (n : nat) : string := match n with 0 => "" | S m => String "1" (ones m) end.
Lemma ones_len n : String.length (ones n) = n.
Proof. induction n as [|n IH]; [reflexivity|]. cbn [ones String.length]. rewrite IH. reflexivity. Qed.

Example security_context_hypotheses_satisfiable :
  exists import_key read_cert path_exists (xmlsec_backend : pyval -> pyval -> pyval)
         (key_path cert_path : nat -> string) (fs : fsys) bin crypto,
    (forall p, is_empty (key_path p) = false) /\ is_empty bin = false /\ path_exists (PStr bin) = PBool true /\
    (forall dt, xmlsec_backend (PStr bin) (PBool dt) = crypto) /\ is_bad crypto = false /\
    (forall p, import_key (PStr (key_path p)) = match fread fs p with Some k => enc_key k | None => PExc "OSError" end) /\
    (forall p, read_cert (PStr (cert_path p)) = match fread fs p with Some c => enc_cert c | None => PExc "OSError" end) /\
    fread fs 0 = Some 10 /\ fread fs 1 = Some 20 /\ fread fs 2 = None.
Proof.
  pose (fs0 := [(0, (10, 7)); (1, (20, 7))] : fsys).
  exists (fun v => match v with
                   | PStr s => match fread fs0 (String.length s - 1) with Some k => enc_key k | None => PExc "OSError" end
                   | _ => PErr end),
         (fun v => match v with
                   | PStr s => match fread fs0 (String.length s - 1) with Some c => enc_cert c | None => PExc "OSError" end
                   | _ => PErr end),
         (fun _ => PBool true), (fun _ _ => PObj [("__class__", PStr "CryptoBackendXmlSec1")]),
         (fun p => String "k" (ones p)), (fun p => String "c" (ones p)), fs0, "xmlsec1",
         (PObj [("__class__", PStr "CryptoBackendXmlSec1")]).
  repeat split; try reflexivity.
  - intros p. cbn [String.length]. rewrite ones_len, Nat.sub_succ, Nat.sub_0_r. reflexivity.
  - intros p. cbn [String.length]. rewrite ones_len, Nat.sub_succ, Nat.sub_0_r. reflexivity.
Qed.


(* ---------------------------------------------------------------------------------------------------------------
   config.Config._load / Config.load_file: the loader of python configuration files, against Model.load_module.
   The interpreter's import machinery and os.path enter as functions of the call; the hypotheses say what they answer
   in the loader state st (Model.lstate: configuration files and packages on disk, sys.modules, the directories earlier
   loads put on sys.path).  Directories and base names are numbers in the model; head_of / abs_of / base_name /
   file_name / pkg_name are their spellings. *)
Inductive lres := LMod (d : nat) (pk : bool) (c : nat) | LRaise (n : string).

(* importlib.import_module(base) once sys.path.insert(0, dir) is done: sys.modules first (keyed by the base name
   alone), then the directories of sys.path in order (package before file) *)
Definition import_result (st : lstate) (d b : nat) : option fmod :=
  match mod_find (mods st) b with
  | Some f => Some f
  | None => path_find (cfiles st) (pkgs st) (d :: spath st) b
  end.

(* the module Config._load hands back: (directory it lies in, package?, path its CONFIG names), or the exception *)
Definition load_which (st : lstate) (d b : nat) (bare : bool) : lres :=
  match import_result st d b with
  | None => LRaise "ModuleNotFoundError"
  | Some (d0, pk0, c0) =>
      match cf_read (cfiles st) d b with
      | Some cnow => if negb pk0 && Nat.eqb d0 d then LMod d0 pk0 c0
                     else match cf_read (if pk0 then pkgs st else cfiles st) d0 b with
                          | Some _ => LMod d false cnow
                          | None => LRaise "FileNotFoundError"
                          end
      | None => if bare || Nat.eqb d0 d then LMod d0 pk0 c0 else LRaise "ModuleNotFoundError"
      end
  end.

Definition lres_content (r : lres) : option nat := match r with LMod _ _ c => Some c | LRaise _ => None end.

(* ... is Model.load_module (current code, V2) *)
Lemma load_which_is_model st d b bare : lres_content (load_which st d b bare) = fst (load_module V2 st d b bare).
Proof.
  unfold load_which, import_result, load_module.
  destruct (mod_find (mods st) b) as [[[d0 pk0] c0]|]; cbn [fst answer].
  - destruct (cf_read (cfiles st) d b).
    + destruct (negb pk0 && Nat.eqb d0 d); [reflexivity|]. destruct (cf_read _ d0 b); reflexivity.
    + destruct (bare || Nat.eqb d0 d); reflexivity.
  - destruct (path_find (cfiles st) (pkgs st) (d :: spath st) b) as [[[d0 pk0] c0]|]; cbn [fst answer]; [|reflexivity].
    destruct (cf_read (cfiles st) d b).
    + destruct (negb pk0 && Nat.eqb d0 d); [reflexivity|]. destruct (cf_read _ d0 b); reflexivity.
    + destruct (bare || Nat.eqb d0 d); reflexivity.
Qed.

Section Loader.
  Variables path_split abspath isfile module_from_spec : pyval -> pyval.
  Variables path_insert import_module path_join samefile spec_from_file exec_module : pyval -> pyval -> pyval.
  Variable st : lstate.
  Variables head_of abs_of base_name : nat -> string.     (* directory as given (may be ""), made absolute; base name *)
  Variables fil_of file_name pkg_name : nat -> nat -> string.   (* the argument of _load; the absolute names of
                                                                    dir/base.py and dir/base/__init__.py *)
  Variable config_of : nat -> pyval.                      (* the CONFIG dict that names path c *)
  Variable spec_of : nat -> nat -> pyval.                 (* the ModuleSpec for dir/base.py *)
  Variable s0 : string.
  Variable path_rest : list pyval.

  Definition mod_file (d : nat) (pk : bool) (b : nat) : string := if pk then pkg_name d b else file_name d b.
  Definition enc_mod (d : nat) (pk : bool) (b c : nat) : pyval :=
    PObj [("__class__", PStr "module"); ("file", PStr (mod_file d pk b)); ("CONFIG", config_of c)].
  Definition enc_lres (b : nat) (r : lres) : pyval :=
    match r with LMod d pk c => enc_mod d pk b c | LRaise n => PExc n end.

  Hypothesis split_spec : forall d b, path_split (PStr (fil_of d b)) = PList [PStr (head_of d); PStr (base_name b)].
  Hypothesis insert_spec : forall s, path_insert (PInt 0%Z) (PStr s) = PNone.
  (* answered with the directory just put in front of sys.path *)
  Hypothesis import_spec : forall d b,
    import_module (PStr (head_of d)) (PStr (base_name b)) =
    match import_result st d b with Some (d0, pk0, c0) => enc_mod d0 pk0 b c0 | None => PExc "ModuleNotFoundError" end.
  Hypothesis abspath_spec : forall d,
    abspath (if py_truthy (PStr (head_of d)) then PStr (head_of d) else PStr ".") = PStr (abs_of d).
  (* a module's __file__ is absolute already *)
  Hypothesis abspath_file : forall d pk b, abspath (PStr (mod_file d pk b)) = PStr (mod_file d pk b).
  Hypothesis join_spec : forall d b, path_join (PStr (abs_of d)) (PStr (base_name b ++ ".py")) = PStr (file_name d b).
  Hypothesis file_name_nonempty : forall d pk b, is_empty (mod_file d pk b) = false.
  Hypothesis isfile_spec : forall d b,
    isfile (PStr (file_name d b)) = PBool (match cf_read (cfiles st) d b with Some _ => true | None => false end).
  Hypothesis samefile_spec : forall d0 pk0 d b,
    samefile (PStr (mod_file d0 pk0 b)) (PStr (file_name d b)) =
    match cf_read (if pk0 then pkgs st else cfiles st) d0 b with
    | Some _ => PBool (negb pk0 && Nat.eqb d0 d)
    | None => PExc "FileNotFoundError"
    end.
  (* a module lies inside the directory named iff it was found in that directory *)
  Hypothesis inside_spec : forall d0 pk0 d b, startswith (mod_file d0 pk0 b) (abs_of d ++ "/") = Nat.eqb d0 d.
  Hypothesis spec_spec : forall d b, spec_from_file (PStr (base_name b)) (PStr (file_name d b)) = spec_of d b.
  Hypothesis spec_good : forall d b, is_bad (spec_of d b) = false.
  (* the module as exec_module leaves it: the file as it is NOW *)
  Hypothesis module_spec : forall d b,
    module_from_spec (spec_of d b) =
    match cf_read (cfiles st) d b with Some c => enc_mod d false b c | None => PExc "FileNotFoundError" end.
  Hypothesis exec_spec : forall d b m, exec_module (spec_of d b) m = PNone.

  Theorem src2_config_load_module_is_model : forall self d b,
    src2_config_load_module path_split (PList (PStr s0 :: path_rest)) path_insert import_module abspath path_join isfile
      samefile spec_from_file module_from_spec exec_module self (PStr (fil_of d b))
    = enc_lres b (load_which st d b (is_empty (head_of d))).
  Proof.
    intros self d b. unfold src2_config_load_module. cbv zeta. cbn [py_bind].
    rewrite split_spec. cbn [py_bind p2_unpack length Nat.eqb].
    (* the three ways to the import differ in what is put on sys.path only *)
    match goal with |- match ?c with BTrue => match ?c2 with BTrue => py_bind _ (fun _ => ?K) | BFalse => _ | BExc _ => _ | BErr => _ end
                                   | BFalse => _ | BExc _ => _ | BErr => _ end = _ =>
      assert (E : forall x, match c with BTrue => match c2 with BTrue => py_bind (path_insert (PInt 0%Z) (PStr ".")) (fun _ => x)
                                                               | BFalse => x | BExc n => PExc n | BErr => PErr end
                                   | BFalse => py_bind (path_insert (PInt 0%Z) (PStr (head_of d))) (fun _ => x)
                                   | BExc n => PExc n | BErr => PErr end = x)
    end.
    { intros x. rewrite p2_eq_str. destruct (String.eqb (head_of d) ""); rewrite p2_branch_bool.
      - change (p2_getitem (PList (PStr s0 :: path_rest)) (PInt 0%Z)) with (PStr s0). rewrite p2_ne_str.
        destruct (negb (String.eqb s0 ".")); rewrite p2_branch_bool; [rewrite insert_spec|]; reflexivity.
      - rewrite insert_spec. reflexivity. }
    cbn [py_bind] in E |- *. rewrite E. clear E.
    rewrite import_spec. unfold load_which.
    destruct (import_result st d b) as [[[d0 pk0] c0]|]; [|reflexivity].
    unfold enc_mod at 1. cbn [py_bind].
    assert (A : py_bind (p2_or (PStr (head_of d)) (PStr ".")) (fun a_4 => abspath a_4) = PStr (abs_of d)).
    { rewrite p2_or_good by reflexivity. pose proof (abspath_spec d) as A.
      destruct (py_truthy (PStr (head_of d))); cbn [py_bind]; exact A. }
    rewrite A. clear A. cbn [py_bind p2_fconcat p2_str s1 append].
    rewrite join_spec. cbn [py_bind].
    change (p2_getattr3 (PObj [("__class__", PStr "module"); ("file", PStr (mod_file d0 pk0 b)); ("CONFIG", config_of c0)]) "file" PNone)
      with (PStr (mod_file d0 pk0 b)).
    cbn [py_bind]. rewrite !(p2_and_good (PStr (mod_file d0 pk0 b))) by reflexivity. cbn [py_truthy].
    rewrite file_name_nonempty. cbn [negb].
    rewrite isfile_spec. destruct (cf_read (cfiles st) d b) as [cnow|] eqn:W.
    - rewrite p2_and_good by reflexivity. cbn [py_truthy]. rewrite samefile_spec.
      destruct (cf_read (if pk0 then pkgs st else cfiles st) d0 b) as [x|] eqn:F.
      + destruct (negb pk0 && Nat.eqb d0 d).
        * (* the module found IS the file asked for: second test, the file is there *)
          change (p2_not (PBool true)) with (PBool false). cbn [p2_branch py_truthy].
          rewrite p2_and_good by reflexivity. destruct (py_truthy (PStr (head_of d))) eqn:T; [reflexivity|].
          rewrite p2_branch_good by reflexivity. rewrite T. reflexivity.
        * change (p2_not (PBool false)) with (PBool true). cbn [p2_branch py_truthy]. rewrite spec_spec. rewrite (py_bind_good (spec_of d b)) by apply spec_good.
          rewrite (py_bind_good (spec_of d b)) by apply spec_good. rewrite module_spec, W.
          unfold enc_mod. cbn [py_bind]. rewrite exec_spec. reflexivity.
      + destruct (negb pk0 && Nat.eqb d0 d) eqn:E; [|reflexivity].
        apply andb_true_iff in E as [E1 E2]. apply negb_true_iff in E1. apply Nat.eqb_eq in E2. subst pk0 d0. congruence.
    - rewrite p2_and_good by reflexivity. cbn [py_truthy p2_branch p2_not s1 negb].
      rewrite p2_and_good by reflexivity. cbn [py_truthy]. destruct (is_empty (head_of d)) eqn:Eh; cbn [negb orb].
      + (* a bare name: today's behaviour *)
        destruct (head_of d); [reflexivity|discriminate].
      + cbn [p2_branch py_truthy]. rewrite abspath_file. cbn [py_bind].
        pose proof (abspath_spec d) as A. cbn [py_truthy] in A. rewrite Eh in A. cbn [negb] in A. rewrite A.
        change (p2_add (PStr (abs_of d)) (PStr "/")) with (PStr (abs_of d ++ "/")).
        change (p2_startswith (PStr (mod_file d0 pk0 b)) (PStr (abs_of d ++ "/")))
          with (PBool (startswith (mod_file d0 pk0 b) (abs_of d ++ "/"))).
        rewrite inside_spec. destruct (Nat.eqb d0 d); reflexivity.
  Qed.

  (* Config.load_file(name): ".py" is cut off, the module is loaded, its CONFIG is deep-copied and handed to
     self.load; an exception of the loader comes through *)
  Variables deepcopy : pyval -> pyval.
  Variable config_load : pyval -> pyval -> pyval.
  Variable load_fn : pyval -> pyval -> pyval.         (* self._load *)
  Hypothesis config_good : forall c, is_bad (config_of c) = false.
  Hypothesis deepcopy_spec : forall c, deepcopy (config_of c) = config_of c.

  Definition enc_loaded (self : pyval) (b : nat) (r : lres) : pyval :=
    match r with LMod _ _ c => config_load self (config_of c) | LRaise n => PExc n end.

  Lemma load_file_tail self b r :
    py_bind (enc_lres b r)
      (fun v_mod => py_bind (py_bind (p2_attr v_mod "CONFIG") (fun a_2 => deepcopy a_2)) (fun a_3 => config_load self a_3))
    = enc_loaded self b r.
  Proof.
    destruct r as [d pk c|n]; [|reflexivity]. unfold enc_lres, enc_mod. cbn [py_bind].
    change (p2_attr _ "CONFIG") with (config_of c).
    rewrite (py_bind_good (config_of c)) by apply config_good. rewrite deepcopy_spec.
    rewrite (py_bind_good (config_of c)) by apply config_good. reflexivity.
  Qed.

  (* a name without ".py" *)
  Theorem src2_config_load_file_plain : forall self name b r,
    endswith name ".py" = false -> load_fn self (PStr name) = enc_lres b r ->
    src2_config_load_file load_fn deepcopy config_load self (PStr name) PNone = enc_loaded self b r.
  Proof.
    intros self name b r E L. unfold src2_config_load_file. cbv zeta. cbn [p2_is_not_none s1 p2_branch py_truthy].
    change (p2_endswith (PStr name) (PStr ".py")) with (PBool (endswith name ".py")). rewrite E. cbn [p2_branch py_truthy py_bind].
    rewrite L. apply load_file_tail.
  Qed.

  (* a name with ".py": exactly these three characters are cut off *)
  Theorem src2_config_load_file_py : forall self name b r,
    endswith name ".py" = true -> all_ascii name = true -> 3 <= String.length name ->
    load_fn self (PStr (substring 0 (String.length name - 3) name)) = enc_lres b r ->
    src2_config_load_file load_fn deepcopy config_load self (PStr name) PNone = enc_loaded self b r.
  Proof.
    intros self name b r E A N L. unfold src2_config_load_file. cbv zeta. cbn [p2_is_not_none s1 p2_branch py_truthy].
    change (p2_endswith (PStr name) (PStr ".py")) with (PBool (endswith name ".py")). rewrite E. cbn [p2_branch py_truthy].
    assert (S : p2_slice (PStr name) PNone (PInt (-3)%Z) = PStr (substring 0 (String.length name - 3) name)).
    { unfold p2_slice, s3. cbn [py_bind]. rewrite A. cbn [slice_bound as_z]. change (-3 <? 0)%Z with true. cbv iota.
      replace (Nat.min (String.length name) (Z.to_nat (Z.max 0 (-3 + Z.of_nat (String.length name)))) - 0)
        with (String.length name - 3) by lia.
      reflexivity. }
    rewrite S. cbn [py_bind]. rewrite L. apply load_file_tail.
  Qed.

  Theorem src2_config_load_file_is_model : forall self name b r,
    (endswith name ".py" = false /\ load_fn self (PStr name) = enc_lres b r) \/
    (endswith name ".py" = true /\ all_ascii name = true /\ 3 <= String.length name /\
     load_fn self (PStr (substring 0 (String.length name - 3) name)) = enc_lres b r) ->
    src2_config_load_file load_fn deepcopy config_load self (PStr name) PNone = enc_loaded self b r.
  Proof.
    intros self name b r [[E L]|(E & A & N & L)].
    - exact (src2_config_load_file_plain self name b r E L).
    - exact (src2_config_load_file_py self name b r E A N L).
  Qed.
End Loader.

(* a DLoadFile step of Model.loaded is that load followed by the constructor *)
Corollary loaded_load_file fs cf st d b a sp r :
  loaded fs cf st (DLoadFile d b a sp :: r)
  = build_slot fs (lres_content (load_which st d b (is_bare sp)))
    :: loaded fs cf (snd (load_module V2 st d b (is_bare sp))) r.
Proof.
  unfold loaded. cbn [loaded_gen]. rewrite load_which_is_model. destruct (load_module V2 st d b (is_bare sp)); reflexivity.
Qed.

(* the hypotheses of Section Loader are satisfiable: directories and base names are spelt by their length; the file
   dir/base.py is <ones d>/<ones b>, the package dir/base/__init__.py is <ones d>/<ones b>/i *)
Fixpoint lead1 (s : string) : nat := match s with String "1" r => S (lead1 r) | _ => 0 end.
Fixpoint after_slash (s : string) : string :=
  match s with String "/" r => r | String _ r => after_slash r | EmptyString => EmptyString end.
Fixpoint has_slash (s : string) : bool :=
  match s with String "/" _ => true | String _ r => has_slash r | EmptyString => false end.

Lemma lead1_ones d r : lead1 (ones d ++ String "/" r) = d.
Proof. induction d as [|d IH]; [reflexivity|]. cbn [ones append lead1]. rewrite IH. reflexivity. Qed.
Lemma lead1_ones_end b : lead1 (ones b) = b.
Proof. induction b as [|b IH]; [reflexivity|]. cbn [ones lead1]. rewrite IH. reflexivity. Qed.
Lemma after_slash_ones d r : after_slash (ones d ++ String "/" r) = r.
Proof. induction d as [|d IH]; [reflexivity|]. cbn [ones append after_slash]. exact IH. Qed.
Lemma has_slash_ones d : has_slash (ones d) = false.
Proof. induction d as [|d IH]; [reflexivity|]. exact IH. Qed.
Lemma has_slash_ones_slash d r : has_slash (ones d ++ String "/" r) = true.
Proof. induction d as [|d IH]; [reflexivity|]. exact IH. Qed.
Lemma length_app_str a b : String.length (a ++ b) = String.length a + String.length b.
Proof. induction a as [|c a IH]; [reflexivity|]. cbn [append String.length]. rewrite IH. reflexivity. Qed.
Lemma prefix_ones d0 d r : String.prefix (ones d ++ "/") (ones d0 ++ String "/" r) = Nat.eqb d0 d.
Proof.
  revert d0; induction d as [|d IH]; intros d0.
  - destruct d0; cbn [ones append String.prefix Nat.eqb].
    + destruct (ascii_dec "/" "/") as [_|N]; [destruct r; reflexivity|contradiction N; reflexivity].
    + destruct (ascii_dec "/" "1") as [E|_]; [discriminate E|reflexivity].
  - destruct d0; [cbn [ones append String.prefix Nat.eqb]; destruct (ascii_dec "1" "/") as [E|_]; [discriminate E|reflexivity]|].
    cbn [ones append String.prefix Nat.eqb]. destruct (ascii_dec "1" "1") as [_|N]; [apply IH|contradiction N; reflexivity].
Qed.

Definition ex_state : lstate :=
  {| cfiles := [((0, 0), Some 0); ((1, 0), Some 1)]; pkgs := [((3, 0), Some 2)]; mods := [(0, (0, false, 0))]; spath := [0] |}.
Definition ex_file (d b : nat) : string := ones d ++ String "/" (ones b).
Definition ex_pkg (d b : nat) : string := ones d ++ String "/" (ones b ++ "/i").
Definition ex_dir (s : string) : nat := lead1 s.
Definition ex_base (s : string) : nat := lead1 (after_slash s).
Definition ex_is_pkg (s : string) : bool := has_slash (after_slash s).
Definition ex_config (c : nat) : pyval := PObj [("key_file", PInt (Z.of_nat c))].
Definition ex_spec (d b : nat) : pyval := PObj [("__class__", PStr "ModuleSpec"); ("origin", PStr (ex_file d b))].

Example loader_hypotheses_satisfiable :
  exists (path_split abspath isfile module_from_spec : pyval -> pyval)
         (path_insert import_module path_join samefile spec_from_file exec_module : pyval -> pyval -> pyval)
         (head_of abs_of base_name : nat -> string) (fil_of file_name pkg_name : nat -> nat -> string)
         (config_of : nat -> pyval) (spec_of : nat -> nat -> pyval) (deepcopy : pyval -> pyval),
    (forall d b, path_split (PStr (fil_of d b)) = PList [PStr (head_of d); PStr (base_name b)]) /\
    (forall s, path_insert (PInt 0%Z) (PStr s) = PNone) /\
    (forall d b, import_module (PStr (head_of d)) (PStr (base_name b)) =
                 match import_result ex_state d b with
                 | Some (d0, pk0, c0) => enc_mod file_name pkg_name config_of d0 pk0 b c0
                 | None => PExc "ModuleNotFoundError"
                 end) /\
    (forall d, abspath (if py_truthy (PStr (head_of d)) then PStr (head_of d) else PStr ".") = PStr (abs_of d)) /\
    (forall d pk b, abspath (PStr (mod_file file_name pkg_name d pk b)) = PStr (mod_file file_name pkg_name d pk b)) /\
    (forall d b, path_join (PStr (abs_of d)) (PStr (base_name b ++ ".py")) = PStr (file_name d b)) /\
    (forall d pk b, is_empty (mod_file file_name pkg_name d pk b) = false) /\
    (forall d b, isfile (PStr (file_name d b)) =
                 PBool (match cf_read (cfiles ex_state) d b with Some _ => true | None => false end)) /\
    (forall d0 pk0 d b, samefile (PStr (mod_file file_name pkg_name d0 pk0 b)) (PStr (file_name d b)) =
                        match cf_read (if pk0 then pkgs ex_state else cfiles ex_state) d0 b with
                        | Some _ => PBool (negb pk0 && Nat.eqb d0 d)
                        | None => PExc "FileNotFoundError"
                        end) /\
    (forall d0 pk0 d b, startswith (mod_file file_name pkg_name d0 pk0 b) (abs_of d ++ "/") = Nat.eqb d0 d) /\
    (forall d b, spec_from_file (PStr (base_name b)) (PStr (file_name d b)) = spec_of d b) /\
    (forall d b, is_bad (spec_of d b) = false) /\
    (forall d b, module_from_spec (spec_of d b) =
                 match cf_read (cfiles ex_state) d b with
                 | Some c => enc_mod file_name pkg_name config_of d false b c
                 | None => PExc "FileNotFoundError"
                 end) /\
    (forall d b m, exec_module (spec_of d b) m = PNone) /\
    (forall c, is_bad (config_of c) = false) /\ (forall c, deepcopy (config_of c) = config_of c) /\
    (* the second tenant's file of the name already loaded: its own file is executed; a file that is not there: with its
       directory ModuleNotFoundError (581b4f03), by its bare name the module loaded from directory 0; a package
       directory of that name: the module loaded from directory 0 lies outside it *)
    load_which ex_state 1 0 false = LMod 1 false 1 /\ load_which ex_state 0 0 false = LMod 0 false 0 /\
    load_which ex_state 2 0 false = LRaise "ModuleNotFoundError" /\ load_which ex_state 2 0 true = LMod 0 false 0 /\
    load_which ex_state 3 0 false = LRaise "ModuleNotFoundError" /\ load_which ex_state 2 1 false = LRaise "ModuleNotFoundError".
Proof.
  exists (fun v => match v with
                   | PStr s => PList [PStr (String "h" (ones (ex_dir s))); PStr (String "m" (ones (ex_base s)))]
                   | _ => PErr end),
         (fun v => match v with
                   | PStr s => if has_slash s then PStr s else PStr (ones (String.length s - 1))
                   | _ => PErr end),
         (fun v => match v with
                   | PStr s => PBool (match cf_read (cfiles ex_state) (ex_dir s) (ex_base s) with Some _ => true | None => false end)
                   | _ => PErr end),
         (fun v => match v with
                   | PObj [_; (_, PStr s)] => match cf_read (cfiles ex_state) (ex_dir s) (ex_base s) with
                                              | Some c => enc_mod ex_file ex_pkg ex_config (ex_dir s) false (ex_base s) c
                                              | None => PExc "FileNotFoundError"
                                              end
                   | _ => PErr end),
         (fun _ _ => PNone),
         (fun h m => match h, m with
                     | PStr h, PStr m => match import_result ex_state (String.length h - 1) (String.length m - 1) with
                                         | Some (d0, pk0, c0) => enc_mod ex_file ex_pkg ex_config d0 pk0 (String.length m - 1) c0
                                         | None => PExc "ModuleNotFoundError"
                                         end
                     | _, _ => PErr end),
         (fun a m => match a, m with
                     | PStr a, PStr m => PStr (ex_file (String.length a) (String.length m - 4))
                     | _, _ => PErr end),
         (fun f0 f => match f0, f with
                      | PStr f0, PStr f =>
                          match cf_read (if ex_is_pkg f0 then pkgs ex_state else cfiles ex_state) (ex_dir f0) (ex_base f0) with
                          | Some _ => PBool (negb (ex_is_pkg f0) && Nat.eqb (ex_dir f0) (ex_dir f))
                          | None => PExc "FileNotFoundError"
                          end
                      | _, _ => PErr end),
         (fun _ f => PObj [("__class__", PStr "ModuleSpec"); ("origin", f)]),
         (fun _ _ => PNone),
         (fun d => String "h" (ones d)), (fun d => ones d), (fun b => String "m" (ones b)),
         ex_file, ex_file, ex_pkg, ex_config, ex_spec, (fun v => v).
  assert (D : forall d pk b, ex_dir (mod_file ex_file ex_pkg d pk b) = d) by (intros d [|] b; apply lead1_ones).
  assert (B : forall d pk b, ex_base (mod_file ex_file ex_pkg d pk b) = b).
  { intros d [|] b; unfold ex_base, mod_file, ex_file, ex_pkg; rewrite after_slash_ones;
      [apply lead1_ones|apply lead1_ones_end]. }
  assert (K : forall d pk b, ex_is_pkg (mod_file ex_file ex_pkg d pk b) = pk).
  { intros d [|] b; unfold ex_is_pkg, mod_file, ex_file, ex_pkg; rewrite after_slash_ones;
      [apply has_slash_ones_slash|apply has_slash_ones]. }
  assert (L : forall c n, String.length (String c (ones n)) - 1 = n)
    by (intros c n; cbn [String.length]; rewrite ones_len; lia).
  assert (D0 : forall d b, ex_dir (ex_file d b) = d) by (intros d b; exact (D d false b)).
  assert (B0 : forall d b, ex_base (ex_file d b) = b) by (intros d b; exact (B d false b)).
  repeat split; try reflexivity.
  - intros d b. rewrite D0, B0. reflexivity.
  - intros d b. rewrite !L. reflexivity.
  - intros d. cbn [py_truthy is_empty negb has_slash]. rewrite has_slash_ones, L. reflexivity.
  - intros d pk b. destruct pk; unfold mod_file, ex_file, ex_pkg; rewrite has_slash_ones_slash; reflexivity.
  - intros d b. rewrite ones_len. f_equal. f_equal. rewrite length_app_str. cbn [String.length]. rewrite ones_len. lia.
  - intros d pk b. destruct pk; unfold mod_file, ex_file, ex_pkg; destruct d; reflexivity.
  - intros d b. rewrite D0, B0. reflexivity.
  - intros d0 pk0 d b. rewrite K, D, B, D0. reflexivity.
  - intros d0 pk0 d b. unfold startswith. destruct pk0; unfold mod_file, ex_file, ex_pkg; apply prefix_ones.
  - intros d b. unfold ex_spec. rewrite D0, B0. reflexivity.
Qed.
