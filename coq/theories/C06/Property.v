(* C06/Property.v — property theorems only. *)
From Coq Require Import String List Bool.
From Verif Require Import Base.Str Base.Py Base.Py2 C06.Model C06.Spec C06.Proofs C06.Reflect C06.Methods C06.History C06.Source C06.Source2.
From VerifGen Require Import C06Tables C06Src C06Src2.

(* C06: for every outstanding set, InResponseTo placement, status, version and shape the modelled
   decision satisfies correlation, status, shape and the two completeness clauses. *)
Theorem c06_correlation_status_shape : forall x, spec x (accept x).
Proof. exact c06_holds. Qed.
Print Assumptions c06_correlation_status_shape.

(* C06 over deliveries: whatever binding the caller names (HTTP-POST, HTTP-Redirect, HTTP-Artifact, SOAP,
   PAOS), whatever the Response's Destination and whichever of its assertions arrive encrypted, the decision
   of the code as it is now (with b84752ad and e76039c1) satisfies the status / version / shape clauses; over
   the browser bindings (POST, Redirect) it satisfies the correlation clause, and, when the Response is
   unaddressed or addressed to that binding's consumer endpoint, the two completeness clauses.  No guard. *)
Theorem c06_delivery : forall y, spec_d y (receive y).
Proof. exact c06_delivery_holds. Qed.
Print Assumptions c06_delivery.

(* C06-F2, fixed by b84752ad: the pinned snapshot ([receive_v0]) accepted an encrypted assertion whose
   confirmation answers another request than the Response does *)
Theorem c06_encrypted_correlation_v0_refuted : exists y, partial_match y = false /\ ~ spec_d y (receive_v0 y).
Proof. exact encrypted_correlation_v0_refuted. Qed.
Print Assumptions c06_encrypted_correlation_v0_refuted.

(* C06-F3, fixed by e76039c1: with b84752ad alone ([receive_v1]) an encrypted assertion that carries both a
   confirmation answering the Response's request and a stray one was still accepted *)
Theorem c06_encrypted_partial_match_v1_refuted : exists y, partial_match y = true /\ ~ spec_d y (receive_v1 y).
Proof. exact encrypted_partial_match_v1_refuted. Qed.
Print Assumptions c06_encrypted_partial_match_v1_refuted.

Theorem c06_encrypted_correlation_fixed :
  receive_v1 stray_sealed = NoId /\ receive stray_sealed = NoId /\ receive partly_stray_sealed = NoId.
Proof. exact encrypted_correlation_fixed. Qed.
Print Assumptions c06_encrypted_correlation_fixed.

(* with every assertion in clear the general decision is the one C09 composes ([accept] behind the binding
   and Destination tests) in all three states of the code: in clear both repairs repeat the check made in loads() *)
Theorem c06_in_clear : forall f y, forallb negb (sealed y) = true -> receive_f f y = receive_plain y.
Proof. exact receive_plain_eq. Qed.
Print Assumptions c06_in_clear.

(* the two browser bindings are treated alike and as an asynchronous hop: the decision is one in which the
   binding does not occur (so neither of them is handled as a back channel); in clear it is [accept] *)
Theorem c06_browser_bindings_alike : forall y,
  browser (via y) = true -> well_addressed y = true -> receive y = accept_sealed V2 (sealed y) (resp y).
Proof. exact browser_is_accept_sealed. Qed.
Print Assumptions c06_browser_bindings_alike.

Theorem c06_browser_bindings_accept : forall y,
  browser (via y) = true -> well_addressed y = true -> forallb negb (sealed y) = true -> receive y = accept (resp y).
Proof. exact browser_is_accept. Qed.
Print Assumptions c06_browser_bindings_accept.

(* what the browser-binding guard of the correlation clause leaves out, as coded: over the SOAP back channel
   no request context is handed back and the outstanding set / allow_unsolicited are not consulted *)
Theorem c06_back_channel_uncorrelated : forall y cf, via y = Soap -> receive y = Identity cf -> cf = None.
Proof. exact back_channel_uncorrelated. Qed.
Print Assumptions c06_back_channel_uncorrelated.

Theorem c06_back_channel_ignores_outstanding : forall y o a,
  via y = Soap ->
  receive {| via := Soap; dest := dest y; sealed := sealed y;
             resp := {| allow_unsolicited := a; outstanding := o; irt := irt (resp y); version := version (resp y);
                        status_top := status_top (resp y); status_second := status_second (resp y);
                        assertions := assertions (resp y) |} |} = receive y.
Proof. exact back_channel_ignores_outstanding. Qed.
Print Assumptions c06_back_channel_ignores_outstanding.

(* C06 over configurations: however the SP option allow_unsolicited is written in the configuration (absent, None,
   a boolean, a number, any string) and however the configuration object was made, the decision of a receiver set
   up that way (the code as it is now, with 6bdc97cd) satisfies the property with "unsolicited responses explicitly
   allowed" := what the option says.  No guard. *)
Theorem c06_configured : forall s y, spec_c s y (receive_cfg s y).
Proof. exact c06_configured_holds. Qed.
Print Assumptions c06_configured.

(* the receiver runs with exactly what the option says; an option that says nothing definite builds no receiver,
   hence no identity whatever is delivered *)
Theorem c06_option_read_as_written : forall o, effective_allow o = meaning o.
Proof. exact effective_allow_is_meaning. Qed.
Print Assumptions c06_option_read_as_written.

Theorem c06_undefined_option_no_identity : forall s y, meaning (opt s) = None -> receive_cfg s y = NoId.
Proof. exact undefined_option_no_identity. Qed.
Print Assumptions c06_undefined_option_no_identity.

(* the documented spellings and numbers are read as documented *)
Theorem c06_documented_spellings :
  effective_allow OAbsent = Some false /\ effective_allow ONone = Some false /\ (forall b, effective_allow (OBool b) = Some b)
  /\ effective_allow (OStr "true") = Some true /\ effective_allow (OStr "false") = Some false
  /\ effective_allow (OInt 0) = Some false /\ effective_allow (OInt 1) = Some true.
Proof. exact documented_effective. Qed.
Print Assumptions c06_documented_spellings.

(* C06-F4, fixed by 6bdc97cd: in the pinned state ([receive_cfg_v0]) allow_unsolicited: "False" says no and the
   receiver accepted an unsolicited Response; outside that class the pinned state satisfied the property *)
Theorem c06_misread_option_v0_refuted :
  exists s y, misread (opt s) = true /\ meaning (opt s) = Some false /\ ~ spec_c s y (receive_cfg_v0 s y).
Proof. exact misread_option_v0_refuted. Qed.
Print Assumptions c06_misread_option_v0_refuted.

Theorem c06_configured_v0 : forall s y, misread (opt s) = false -> spec_c s y (receive_cfg_v0 s y).
Proof. exact c06_configured_v0_holds. Qed.
Print Assumptions c06_configured_v0.

Theorem c06_configured_spec_b_sound : forall s y v, spec_c_b s y v = true -> spec_c s y v.
Proof. exact spec_c_b_sound. Qed.
Print Assumptions c06_configured_spec_b_sound.

(* C06 over confirmation methods: whatever Method each SubjectConfirmation names (bearer, holder-of-key with or
   without a KeyInfo, sender-vouches, a method the receiver does not know), in every assertion, encrypted or not, over
   every binding and set-up, the decision of the code as it is now satisfies the property: "EVERY subject-confirmation
   InResponseTo equals it" is read without regard to the method.  No guard. *)
Theorem c06_methods : forall s ym, spec_cm s ym (receive_cfg_m s ym).
Proof. exact c06_methods_configured_holds. Qed.
Print Assumptions c06_methods.

(* with bearer confirmations only this layer is the one below, model and specification, plus the strict reading of
   "every" (a SubjectConfirmationData without InResponseTo does not answer the request either): nothing was weakened *)
Theorem c06_methods_bearer_model : forall s ym, all_bearer (methods ym) = true -> receive_cfg_m s ym = receive_cfg s (base ym).
Proof. exact receive_cfg_m_bearer. Qed.
Print Assumptions c06_methods_bearer_model.

Theorem c06_methods_bearer_spec : forall ym v, all_bearer (methods ym) = true ->
  (spec_dm ym v <-> spec_d (base ym) v /\ (browser (via (base ym)) = true -> every_data_answers (resp (base ym)) v)).
Proof. exact spec_dm_bearer. Qed.
Print Assumptions c06_methods_bearer_spec.

(* were the repeat of the InResponseTo test in get_subject to look at bearer confirmations only, an ENCRYPTED assertion
   whose holder-of-key confirmation answers another outstanding request would be accepted with the context of the
   Response's request ... *)
Theorem c06_bearer_only_check_refuted : exists ym, ~ spec_dm ym (receive_m_bearer ym).
Proof. exact bearer_only_check_refuted. Qed.
Print Assumptions c06_bearer_only_check_refuted.

(* ... while in clear the test made in loads() is blind to the method already: whichever methods the repeat looks at,
   the decision is the same *)
Theorem c06_methods_in_clear : forall chk ym, forallb negb (sealed (base ym)) = true -> receive_mf chk ym = receive_m ym.
Proof. exact methods_in_clear. Qed.
Print Assumptions c06_methods_in_clear.

Theorem c06_methods_spec_b_sound : forall s ym v, spec_cm_b s ym v = true -> spec_cm s ym v.
Proof. exact spec_cm_b_sound. Qed.
Print Assumptions c06_methods_spec_b_sound.

(* regenerated-table obligations: every defined status code maps to the error class its name
   demands; codes and classes are pairwise distinct; the table covers all 21 codes *)
Theorem c06_table_names :
  forallb (fun l => String.eqb (lower (status_class (Some (STATUS_PREFIX ++ l)))) (expected_class l)) defined_codes = true.
Proof. exact table_names_ok. Qed.
Print Assumptions c06_table_names.

Theorem c06_table_injective :
  nodup_b (map fst statuscode2exception) = true /\ nodup_b (map snd statuscode2exception) = true
  /\ length statuscode2exception = length defined_codes.
Proof. exact table_injective. Qed.
Print Assumptions c06_table_injective.

(* the boolean spec that Coq evaluates on the implementation's recorded outputs implies the stated spec *)
Theorem c06_spec_b_sound : forall x v, spec_b x v = true -> spec x v.
Proof. exact spec_b_sound. Qed.
Print Assumptions c06_spec_b_sound.

Theorem c06_delivery_spec_b_sound : forall y v, spec_d_b y v = true -> spec_d y v.
Proof. exact spec_d_b_sound. Qed.
Print Assumptions c06_delivery_spec_b_sound.

(* tie to the source TEXT: AuthnResponse.check_subject_confirmation_in_response_to as translated from
   /repo's current source on this run (coq/gen/C06Src.v, harness/py2coq.py) computes the model's
   check_sc_irt, for every list of assertions (each with a Subject) and confirmations *)
Theorem c06_source_check_sc_irt : forall i l ss,
  subjects l = Some ss ->
  exists b, check_sc_irt i l = Some b /\ src_check_sc_irt (enc_self ss) (PStr i) = PBool b.
Proof. exact src_check_sc_irt_is_model. Qed.
Print Assumptions c06_source_check_sc_irt.

(* tie of the configuration part to the source TEXT (coq/gen/C06Src2.v, translator v2, re-translated on this run):
   the statements of Config.load_special between cnf[arg] and self.setattr compute load_special_val ... *)
Theorem c06_source_load_special_value : forall v,
  present v = true -> src2_load_special_value (enc v) = enc (load_special_val v).
Proof. exact src_load_special_value. Qed.
Print Assumptions c06_source_load_special_value.

(* ... the statements of Base.__init__ between config.getattr(attr, "sp") and setattr(self, attr, val), with the
   default attribute_defaults["allow_unsolicited"], compute client_init_val (SAMLError where it has no value) ... *)
Theorem c06_source_option_value : forall attr v, ascii_opt v ->
  src2_option_value attr (stored v) src2_allow_unsolicited_default = enc_result (client_init_val (load_special_val v)).
Proof. exact src_option_value. Qed.
Print Assumptions c06_source_option_value.

(* ... Config.setattr / Config.getattr store the option under context "sp" and read it back unchanged whatever the
   class and current context of the configuration object; a missing option reads as None ... *)
Theorem c06_source_setattr_getattr : forall cls ctx v, present v = true ->
  exists conf1,
    src2_config_setattr (conf0 cls ctx) (PStr "sp") (PStr "allow_unsolicited") (enc v) = PList (PNone :: conf1 :: nil)
    /\ src2_config_getattr conf1 (PStr "allow_unsolicited") (PStr "sp") = enc v
    /\ src2_config_getattr (conf0 cls ctx) (PStr "allow_unsolicited") (PStr "sp") = PNone.
Proof. exact src_setattr_getattr. Qed.
Print Assumptions c06_source_setattr_getattr.

(* ... and either the client is refused (SAMLError) or the truth value Python gives the resulting attribute is the
   model's effective_allow *)
Theorem c06_source_option_is_effective_allow : forall attr v, ascii_opt v ->
  match effective_allow v with
  | Some b => p2_branch (src2_option_value attr (stored v) src2_allow_unsolicited_default) = if b then BTrue else BFalse
  | None => src2_option_value attr (stored v) src2_allow_unsolicited_default = PExc "SAMLError"
  end.
Proof. exact src_option_is_effective_allow. Qed.
Print Assumptions c06_source_option_is_effective_allow.


(* ... and the repeat of the InResponseTo test at the head of AuthnResponse.get_subject (the if statement between the
   attesting-entity test and the loop over the confirmations, as it reads NOW) raises UnsolicitedResponse exactly when
   the Response answers an outstanding request over an asynchronous hop and some SubjectConfirmationData - whatever
   Method its confirmation names - does not answer the same request: the test of Model.one_assertion_m *)
Theorem c06_source_subject_repeat_check : forall asyn x l, plain_dict x = true ->
  src2_subject_repeat_check (enc_response asyn x) (enc_subject l)
  = if asyn && match answered x with Some i => negb (sc_all_match_m every_method i l) | None => false end
    then PExc "UnsolicitedResponse" else PNone.
Proof. exact src_subject_repeat_check. Qed.
Print Assumptions c06_source_subject_repeat_check.

(* ------------------------------------------------------------------------------------------ histories
   C06 over HISTORIES: whatever the process handled before - logout responses, responses to attribute /
   authentication / authorisation queries, NameID management and mapping responses, assertion-id and artifact
   responses, earlier authentication Responses, undecodable messages, on the same client, on another client or
   before the receiving client was built - the decision of the code as it is now satisfies every clause of the
   property (receiver set-up, delivery, confirmation methods as in c06_methods).  No guard. *)
Theorem c06_histories : forall h s ym, spec_h h s ym (receive_h h s ym).
Proof. exact histories_hold. Qed.
Print Assumptions c06_histories.

(* as coded the decision does not read anything an earlier message left behind *)
Theorem c06_history_irrelevant : forall h s ym, receive_h h s ym = receive_cfg_m s ym.
Proof. exact history_irrelevant. Qed.
Print Assumptions c06_history_irrelevant.

(* the neighbourhood: a list of tolerated second-level codes that ALL response classes share and that making a
   logout response object fills ([receive_h_shared]) breaks the property: after a logout response a Response with
   status Responder / PartialLogout that answers an outstanding request is turned into identity *)
Theorem c06_shared_tolerance_refuted : exists h s ym, ~ spec_h h s ym (receive_h_shared h s ym).
Proof. exact shared_tolerance_refuted. Qed.
Print Assumptions c06_shared_tolerance_refuted.

(* ... and only then: without a logout response in the history, and for every other second-level code at any time,
   that variant decides like the code - single-message cases cannot tell them apart *)
Theorem c06_shared_tolerance_needs_logout : forall h s ym,
  existsb makes_logout_response h = false \/ status_second (resp (base ym)) <> Some PARTIAL_LOGOUT ->
  receive_h_shared h s ym = receive_h h s ym.
Proof.
  intros h s ym [H|H]; rewrite history_irrelevant; [exact (shared_needs_logout h s ym H)|exact (shared_other_codes h s ym H)].
Qed.
Print Assumptions c06_shared_tolerance_needs_logout.

(* whatever second-level code a status test lets pass, a Response failing with that code is turned into identity *)
Theorem c06_any_tolerance_refuted : forall c,
  ~ spec_cm plain_setup (failed_with RESPONDER (Some c)) (receive_tol (c :: nil) plain_setup (failed_with RESPONDER (Some c))).
Proof. exact any_tolerance_refuted. Qed.
Print Assumptions c06_any_tolerance_refuted.

Theorem c06_history_spec_b_sound : forall h s ym v, spec_h_b h s ym v = true -> spec_h h s ym v.
Proof. exact spec_h_b_sound. Qed.
Print Assumptions c06_history_spec_b_sound.

(* tie of the status test to the source TEXT (coq/gen/C06Src2.v, translator v2, re-translated on this run): the
   statements of StatusResponse.status_ok in front of the table lookup - cut out by harness/c06.py:status_slice, which
   also checks that what follows is `err_cls = STATUSCODE2EXCEPTION.get(err_code, StatusError); msg = ...; raise
   err_cls(msg)`, that no response class overrides status_ok and that nothing in the module writes to the table - let the
   test pass exactly when the top-level code IS the Success URN (or there is no Status at all) and otherwise look up the
   second-level code (None when absent): they read self.response.status and nothing else - no attribute of the object,
   of its class or of the module that an earlier message could have left behind *)
Theorem c06_source_status_ok : forall top second msg,
  src2_status_ok_head (enc_status_self (enc_status top second msg))
  = if String.eqb top STATUS_SUCCESS then PBool true else enc_optstr second.
Proof. exact src_status_ok_head. Qed.
Print Assumptions c06_source_status_ok.

Theorem c06_source_status_ok_is_model : forall x msg,
  src2_status_ok_head (enc_status_self (enc_status (status_top x) (status_second x) msg))
  = if negb (String.eqb (status_top x) STATUS_SUCCESS) then enc_optstr (status_second x) else PBool true.
Proof. exact src_status_ok_is_model. Qed.
Print Assumptions c06_source_status_ok_is_model.
