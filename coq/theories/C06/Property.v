(* C06/Property.v — property theorems only. *)
From Coq Require Import String List Bool.
From Verif Require Import Base.Str Base.Py C06.Model C06.Spec C06.Proofs C06.Reflect C06.Source.
From VerifGen Require Import C06Tables C06Src.

(* C06: for every outstanding set, InResponseTo placement, status, version and shape the modelled
   decision satisfies correlation, status, shape and the two completeness clauses. *)
Theorem c06_correlation_status_shape : forall x, spec x (accept x).
Proof. exact c06_holds. Qed.
Print Assumptions c06_correlation_status_shape.

(* regenerated-table obligations: every defined status code maps to the error class its name
   demands; codes and classes are pairwise distinct; the table covers all 21 codes *)
Theorem c06_table_names :
  forallb (fun l => String.eqb (lower (status_class (Some (STATUS_PREFIX ++ l)))) (expected_class l)) defined_codes = true.
Proof. exact table_names_ok. Qed.
Print Assumptions c06_table_names.

Theorem c06_table_injective :
  nodup_b (map fst statuscode2exception) = true /\ nodup_b (map snd statuscode2exception) = true
  /\ length statuscode2exception = length defined_codes.
Proof. exact table_injective. Qed.
Print Assumptions c06_table_injective.

(* the boolean spec that Coq evaluates on the implementation's recorded outputs implies the stated spec *)
Theorem c06_spec_b_sound : forall x v, spec_b x v = true -> spec x v.
Proof. exact spec_b_sound. Qed.
Print Assumptions c06_spec_b_sound.

(* tie to the source TEXT: AuthnResponse.check_subject_confirmation_in_response_to as translated from
   /repo's current source on this run (coq/gen/C06Src.v, harness/py2coq.py) computes the model's
   check_sc_irt, for every list of assertions (each with a Subject) and confirmations *)
Theorem c06_source_check_sc_irt : forall i l ss,
  subjects l = Some ss ->
  exists b, check_sc_irt i l = Some b /\ src_check_sc_irt (enc_self ss) (PStr i) = PBool b.
Proof. exact src_check_sc_irt_is_model. Qed.
Print Assumptions c06_source_check_sc_irt.
