(* C06/Property.v — property theorems only. *)
From Coq Require Import String List Bool.
From Verif Require Import Base.Str C06.Model C06.Spec C06.Proofs C06.Reflect.
From VerifGen Require Import C06Tables.

(* C06: for every outstanding set, InResponseTo placement, status, version and shape the modelled
   decision satisfies correlation, status, shape and the two completeness clauses. *)
Theorem c06_correlation_status_shape : forall x, spec x (accept x).
Proof. exact c06_holds. Qed.
Print Assumptions c06_correlation_status_shape.

(* regenerated-table obligations: every defined status code maps to the error class its name
   demands; codes and classes are pairwise distinct; the table covers all 21 codes *)
Theorem c06_table_names :
  forallb (fun l => String.eqb (lower (status_class (Some (STATUS_PREFIX ++ l)))) (expected_class l)) defined_codes = true.
Proof. exact table_names_ok. Qed.
Print Assumptions c06_table_names.

Theorem c06_table_injective :
  nodup_b (map fst statuscode2exception) = true /\ nodup_b (map snd statuscode2exception) = true
  /\ length statuscode2exception = length defined_codes.
Proof. exact table_injective. Qed.
Print Assumptions c06_table_injective.

(* the boolean spec that Coq evaluates on the implementation's recorded outputs implies the stated spec *)
Theorem c06_spec_b_sound : forall x v, spec_b x v = true -> spec x v.
Proof. exact spec_b_sound. Qed.
Print Assumptions c06_spec_b_sound.
