(* C06/Source2.v — tie of the configuration part of the model to the source TEXT (translator v2).
   coq/gen/C06Src2.v is re-translated from /repo's current source on every run:
     src2_load_special_value   the statements of Config.load_special through which an option value passes
                               between cnf[arg] and self.setattr(typ, arg, _val)
     src2_option_value         the statements of Base.__init__ through which it passes between
                               self.config.getattr(attr, "sp") and setattr(self, attr, val)
     src2_config_setattr / src2_config_getattr   Config.setattr / Config.getattr, whole
     src2_allow_unsolicited_default              attribute_defaults["allow_unsolicited"] of Base.__init__
   (the cuts are made by harness/c06.py:config_slices, which refuses any other shape of the surrounding
   statements).  Proved here: they compute load_special_val / client_init_val of C06/Model.v, an option stored
   under context "sp" is read back unchanged and a missing one reads as None, and the truth value Python gives
   the resulting attribute ("elif self.allow_unsolicited:") is effective_allow. *)
From Coq Require Import String List Bool Arith ZArith.
From Verif Require Import Base.Str Base.Py Base.Py2 C06.Model.
From VerifGen Require Import C06Src2.
Import ListNotations.
Open Scope string_scope.

(* an option value as a Python value (absent has none: the key is missing) *)
Definition enc (v : optval) : pyval :=
  match v with
  | OAbsent | ONone => PNone
  | OBool b => PBool b
  | OStr s => PStr s
  | OInt n => PInt (Z.of_nat n)
  end.

Definition present (v : optval) : bool := match v with OAbsent => false | _ => true end.

Lemma src_load_special_value v : present v = true -> src2_load_special_value (enc v) = enc (load_special_val v).
Proof.
  destruct v as [| |b|s|n]; intros Hp; try discriminate Hp; try reflexivity; try (destruct b; reflexivity).
  cbn [enc load_special_val]. unfold src2_load_special_value. cbn.
  destruct (String.eqb s "true") eqn:Ht; cbn; [reflexivity|].
  destruct (String.eqb s "false") eqn:Hf; cbn; reflexivity.
Qed.

(* what Config.getattr(attr, "sp") hands to Base.__init__: None when load_special never stored the option *)
Definition stored (v : optval) : pyval :=
  match v with OAbsent => PNone | _ => src2_load_special_value (enc v) end.

(* a string option is ASCII at both ends once stripped, and all ASCII then (what the translated strip() / lower()
   need: they refuse a string that might carry Unicode whitespace or letters) *)
Definition ascii_opt (v : optval) : Prop :=
  match v with OStr s => end_ascii (strip s) = true /\ all_ascii (strip s) = true | _ => True end.

Definition enc_result (r : option optval) : pyval :=
  match r with Some o => enc o | None => PExc "SAMLError" end.

Lemma list_has_words w l : list_has (PStr w) (map PStr l) = Some (mem w l).
Proof.
  induction l as [|x r IH]; [reflexivity|].
  cbn [map list_has mem]. change (pv_eq (PStr w) (PStr x)) with (Some (String.eqb w x)).
  destruct (String.eqb w x); [reflexivity | exact IH].
Qed.

Lemma first_bad_words l : first_bad (map PStr l) = None.
Proof. induction l as [|x r IH]; [reflexivity | exact IH]. Qed.

Lemma in_words w l :
  p2_in (PStr w) (p2_mklist (map PStr l)) = PBool (mem w l).
Proof.
  unfold p2_mklist. rewrite first_bad_words. unfold p2_in. cbn [s2 py_bind]. rewrite list_has_words. reflexivity.
Qed.

Lemma src_option_value_str attr s : ascii_opt (OStr s) ->
  src2_option_value attr (PStr s) src2_allow_unsolicited_default = enc_result (client_init_val (OStr s)).
Proof.
  intros (He & Ha). unfold src2_option_value.
  cbn [p2_is_not_none p2_ifexp s1 py_bind py_cond py_truthy negb].
  change (p2_isinstance (PStr s) ["str"] []) with (PBool true).
  cbn [p2_branch py_truthy].
  change (p2_strip (PStr s)) with (guard_ends (strip s)). unfold guard_ends. rewrite He.
  change (p2_lower (PStr (strip s))) with (if all_ascii (strip s) then PStr (lower (strip s)) else PErr). rewrite Ha.
  cbn [py_bind].
  pose proof (in_words (lower (strip s)) ["true"; "yes"; "on"; "1"]) as Hy. cbn [map] in Hy. rewrite Hy.
  pose proof (in_words (lower (strip s)) ["false"; "no"; "off"; "0"; ""]) as Hn. cbn [map] in Hn. rewrite Hn.
  cbn [p2_branch py_truthy].
  cbn [client_init_val]. change init_yes_words with ["true"; "yes"; "on"; "1"].
  change init_no_words with ["false"; "no"; "off"; "0"; ""].
  destruct (mem (lower (strip s)) ["true"; "yes"; "on"; "1"]); [reflexivity|].
  destruct (mem (lower (strip s)) ["false"; "no"; "off"; "0"; ""]); reflexivity.
Qed.

Lemma src_option_value attr v : ascii_opt v ->
  src2_option_value attr (stored v) src2_allow_unsolicited_default = enc_result (client_init_val (load_special_val v)).
Proof.
  destruct v as [| |b|s|n]; intros Ha; unfold stored; try rewrite src_load_special_value by reflexivity; try reflexivity;
    try (destruct b; reflexivity); try (destruct n; reflexivity).
  cbn [load_special_val].
  destruct (String.eqb s "true") eqn:Ht; [reflexivity|].
  destruct (String.eqb s "false") eqn:Hf; [reflexivity|].
  cbn [enc]. apply src_option_value_str. exact Ha.
Qed.

Lemma truthy_is_python v : present v = true -> p2_branch (enc v) = if truthy v then BTrue else BFalse.
Proof.
  destruct v as [| |b|s|n]; intros Hp; try discriminate Hp; try reflexivity;
    try (destruct b; reflexivity); try (destruct s; reflexivity); try (destruct n; reflexivity).
Qed.

Lemma client_init_present v o : client_init_val v = Some o -> present o = true.
Proof.
  destruct v as [| |b|s|n]; cbn [client_init_val]; intros H; try (injection H as <-; reflexivity).
  destruct (mem (lower (strip s)) init_yes_words); [injection H as <-; reflexivity|].
  destruct (mem (lower (strip s)) init_no_words); [injection H as <-; reflexivity | discriminate H].
Qed.

(* the whole way of the option: dict value -> load_special -> (setattr / getattr) -> Base.__init__ -> either SAMLError
   (no client) or an attribute whose truth value is effective_allow *)
Theorem src_option_is_effective_allow : forall attr v, ascii_opt v ->
  match effective_allow v with
  | Some b => p2_branch (src2_option_value attr (stored v) src2_allow_unsolicited_default) = if b then BTrue else BFalse
  | None => src2_option_value attr (stored v) src2_allow_unsolicited_default = PExc "SAMLError"
  end.
Proof.
  intros attr v Ha. rewrite (src_option_value attr v Ha). unfold effective_allow.
  destruct (client_init_val (load_special_val v)) as [o|] eqn:E; cbn [option_map enc_result]; [|reflexivity].
  apply truthy_is_python. exact (client_init_present _ _ E).
Qed.

(* Config.setattr / Config.getattr: stored under context "sp", read back unchanged under "sp" whatever the
   current context of the configuration object is (SPConfig: "sp", Config: "", IdPConfig: "idp"); an option never
   stored reads as None *)
Definition conf0 (cls ctx : string) : pyval := PObj [("__class__", PStr cls); ("context", PStr ctx)].

Theorem src_setattr_getattr : forall cls ctx v, present v = true ->
  exists conf1,
    src2_config_setattr (conf0 cls ctx) (PStr "sp") (PStr "allow_unsolicited") (enc v) = PList [PNone; conf1]
    /\ src2_config_getattr conf1 (PStr "allow_unsolicited") (PStr "sp") = enc v
    /\ src2_config_getattr (conf0 cls ctx) (PStr "allow_unsolicited") (PStr "sp") = PNone.
Proof.
  intros cls ctx v Hp.
  destruct v as [| |b|s|n]; try discriminate Hp; eexists; (split; [vm_compute; reflexivity|]); split; vm_compute; reflexivity.
Qed.

(* ------------------------------------------------------------------------------------------
   The repeat of the InResponseTo test at the head of AuthnResponse.get_subject (src2_subject_repeat_check: the if
   statement between the attesting-entity test and the loop over the confirmations, cut out by
   harness/c06.py:subject_slice and re-translated on every run).  Proved: for every receiver state (asynchop,
   InResponseTo of the Response, outstanding set) and every list of confirmations - whatever Method each names, with
   and without data / InResponseTo - it raises UnsolicitedResponse exactly when the model's method-blind test
   (Model.one_assertion_m with every_method) refuses, and returns otherwise. *)
Set Default Timeout 20.
Definition enc_irt (d : option string) : pyval := match d with Some j => PStr j | None => PNone end.

Definition method_uri (m : cm) : string :=
  match m with
  | Bearer => "urn:oasis:names:tc:SAML:2.0:cm:bearer"
  | HokKey | HokBare => "urn:oasis:names:tc:SAML:2.0:cm:holder-of-key"
  | SenderVouches => "urn:oasis:names:tc:SAML:2.0:cm:sender-vouches"
  | OtherMethod => "urn:oasis:names:tc:SAML:2.0:cm:unheard-of"
  end.

Definition enc_data (s : scd) : pyval :=
  match s with
  | NoData => PNone
  | Data d => PObj [("__class__", PStr "SubjectConfirmationData"); ("in_response_to", enc_irt d)]
  end.

Definition enc_conf (c : cm * scd) : pyval :=
  PObj [("__class__", PStr "SubjectConfirmation"); ("method", PStr (method_uri (fst c)));
        ("subject_confirmation_data", enc_data (snd c))].

Definition enc_subject (l : list (cm * scd)) : pyval :=
  PObj [("__class__", PStr "Subject"); ("subject_confirmation", PList (map enc_conf l))].

Definition enc_dict (o : list (string * string)) : list (string * pyval) := map (fun kv => (fst kv, PStr (snd kv))) o.

Definition enc_response (asyn : bool) (x : input) : pyval :=
  PObj [("__class__", PStr "AuthnResponse"); ("asynchop", PBool asyn); ("in_response_to", enc_irt (irt x));
        ("outstanding_queries", PObj (enc_dict (outstanding x)))].

(* the outstanding set is a dict: its first key is not the marker of an encoded object *)
Definition plain_dict (x : input) : bool := negb (is_obj (enc_dict (outstanding x))).

Lemma assoc_lookup k o : assoc_py k (enc_dict o) = option_map PStr (lookup k o).
Proof.
  induction o as [|[k' v] r IH]; cbn [enc_dict map assoc_py lookup fst snd option_map]; [reflexivity|].
  destruct (String.eqb k k'); [reflexivity|exact IH].
Qed.

Definition repeat_body (v_self : pyval) : list pyval -> pyval -> ctl2 := fun st_3 x_4 => match st_3 with [v__data] =>
    (let v_subject_confirmation := x_4 in
    (py_bindS (fun n_9 => (ExcS n_9 [v__data])) (p2_attr v_subject_confirmation "subject_confirmation_data") (fun v__data =>
    (match p2_branch (p2_and (p2_is_not_none v__data) (p2_ne (p2_attr v__data "in_response_to") (p2_attr v_self "in_response_to"))) with
    | BTrue => (py_bindS (fun n_7 => (ExcS n_7 [v__data])) (p2_fconcat [PStr "Unsolicited response: "; p2_str (p2_attr v_self "in_response_to")]) (fun _ =>
    (ExcS "UnsolicitedResponse" [v__data])))
    | BFalse => (NextS [v__data])
    | BExc n_8 => (ExcS n_8 [v__data])
    | BErr => (RetS PErr)
    end))))
   | _ => RetS PErr end.

Lemma attr_irt asyn x : p2_attr (enc_response asyn x) "in_response_to" = enc_irt (irt x).
Proof. unfold enc_response. destruct (irt x); reflexivity. Qed.

Lemma repeat_loop asyn x i l : irt x = Some i -> forall st0, exists st1,
  pyfor2 (map enc_conf l) [st0] (repeat_body (enc_response asyn x))
  = if sc_all_match_m every_method i l then NextS [st1] else ExcS "UnsolicitedResponse" [st1].
Proof.
  intros Hi. induction l as [|[m s] r IH]; intros st0; cbn [map pyfor2 sc_all_match_m].
  - exists st0. reflexivity.
  - unfold repeat_body at 1. rewrite attr_irt, Hi. cbn [enc_irt].
    change (p2_attr (enc_conf (m, s)) "subject_confirmation_data") with (enc_data s).
    destruct s as [|d]; cbn [enc_data].
    + cbn. apply IH.
    + cbn [py_bindS p2_bind]. 
      change (p2_attr (PObj [("__class__", PStr "SubjectConfirmationData"); ("in_response_to", enc_irt d)]) "in_response_to") with (enc_irt d).
      cbn [every_method negb orb]. unfold answers.
      destruct d as [j|]; cbn [enc_irt opt_eqb].
      * change (p2_ne (PStr j) (PStr i)) with (PBool (negb (String.eqb j i))).
        destruct (String.eqb j i); cbn; [apply IH|]. eexists. reflexivity.
      * cbn. eexists. reflexivity.
Qed.

Theorem src_subject_repeat_check asyn x l : plain_dict x = true ->
  src2_subject_repeat_check (enc_response asyn x) (enc_subject l)
  = if asyn && match answered x with Some i => negb (sc_all_match_m every_method i l) | None => false end
    then PExc "UnsolicitedResponse" else PNone.
Proof.
  intros Hd. unfold src2_subject_repeat_check. fold (repeat_body (enc_response asyn x)).
  change (p2_attr (enc_response asyn x) "asynchop") with (PBool asyn).
  change (p2_attr (enc_response asyn x) "outstanding_queries") with (PObj (enc_dict (outstanding x))).
  rewrite attr_irt. destruct asyn; cbn [p2_and py_truthy andb]; [|reflexivity].
  unfold plain_dict in Hd. apply negb_true_iff in Hd. unfold answered.
  destruct (irt x) as [i|] eqn:Hi; cbn [enc_irt].
  - unfold p2_in, s2. cbn [py_bind key_of]. rewrite Hd, assoc_lookup.
    destruct (lookup i (outstanding x)) as [c|]; cbn [option_map p2_branch py_truthy]; [|reflexivity].
    change (p2_attr (enc_subject l) "subject_confirmation") with (PList (map enc_conf l)).
    cbn [p2_iter_check p2_iterable py_bind py_iter2].
    destruct (repeat_loop true x i l Hi PErr) as [st1 E]. rewrite E.
    destruct (sc_all_match_m every_method i l); reflexivity.
  - unfold p2_in, s2. cbn [py_bind key_of]. rewrite Hd. reflexivity.
Qed.

(* ------------------------------------------------------------------------------------------ the status test
   StatusResponse.status_ok (inherited by AuthnResponse and every other response class; harness/c06.py:status_slice
   refuses a class that overrides it) cut in front of the table lookup: [src2_status_ok_head] = every statement before
   `err_cls = STATUSCODE2EXCEPTION.get(err_code, StatusError)`, ending in `return err_code`.  It answers True exactly
   when there is no Status or the top-level code IS the Success URN - nothing else counts as success, no second-level
   code, no attribute of the object, of its class or of the module is consulted -, and otherwise hands the second-level
   code (None when absent) to the table lookup, whose result is raised (the shape of the tail is checked by the cut; the
   table itself is coq/gen/C06Tables.v, regenerated from the live dict, = Model.status_class). *)
Definition enc_code (v : string) (inner : pyval) : pyval :=
  PObj [("__class__", PStr "StatusCode"); ("value", PStr v); ("status_code", inner)].
Definition enc_second (second : option string) : pyval := match second with Some c => enc_code c PNone | None => PNone end.
Definition enc_message (msg : option string) : pyval :=
  match msg with Some m => PObj [("__class__", PStr "StatusMessage"); ("text", PStr m)] | None => PNone end.
Definition enc_status (top : string) (second msg : option string) : pyval :=
  PObj [("__class__", PStr "Status"); ("status_code", enc_code top (enc_second second)); ("status_message", enc_message msg)].
(* the response object as far as status_ok may look at it: self.response.status *)
Definition enc_status_self (st : pyval) : pyval :=
  PObj [("__class__", PStr "AuthnResponse"); ("response", PObj [("__class__", PStr "Response"); ("status", st)])].
Definition enc_optstr (o : option string) : pyval := match o with Some s => PStr s | None => PNone end.

Theorem src_status_ok_head top second msg :
  src2_status_ok_head (enc_status_self (enc_status top second msg))
  = if String.eqb top VerifGen.C06Tables.STATUS_SUCCESS then PBool true else enc_optstr second.
Proof.
  unfold src2_status_ok_head, enc_status_self, enc_status, enc_code.
  destruct second as [c|], msg as [m|]; cbn.
  all: change "urn:oasis:names:tc:SAML:2.0:status:Success" with VerifGen.C06Tables.STATUS_SUCCESS.
  all: destruct (String.eqb top VerifGen.C06Tables.STATUS_SUCCESS); try reflexivity.
  destruct (is_empty c); reflexivity.
Qed.

Lemma src_status_ok_head_no_status : src2_status_ok_head (enc_status_self PNone) = PBool true.
Proof. vm_compute. reflexivity. Qed.

(* in the model's words: the status test of Model.accept & co passes exactly when the source's does, and the class
   raised otherwise is the table's entry for the code the source looks up *)
Corollary src_status_ok_is_model x msg :
  src2_status_ok_head (enc_status_self (enc_status (status_top x) (status_second x) msg))
  = if negb (String.eqb (status_top x) VerifGen.C06Tables.STATUS_SUCCESS) then enc_optstr (status_second x) else PBool true.
Proof. rewrite src_status_ok_head. destruct (String.eqb (status_top x) VerifGen.C06Tables.STATUS_SUCCESS); reflexivity. Qed.
