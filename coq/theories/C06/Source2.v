(* C06/Source2.v — tie of the configuration part of the model to the source TEXT (translator v2).
   coq/gen/C06Src2.v is re-translated from /repo's current source on every run:
     src2_load_special_value   the statements of Config.load_special through which an option value passes
                               between cnf[arg] and self.setattr(typ, arg, _val)
     src2_option_value         the statements of Base.__init__ through which it passes between
                               self.config.getattr(attr, "sp") and setattr(self, attr, val)
     src2_config_setattr / src2_config_getattr   Config.setattr / Config.getattr, whole
     src2_allow_unsolicited_default              attribute_defaults["allow_unsolicited"] of Base.__init__
   (the cuts are made by harness/c06.py:config_slices, which refuses any other shape of the surrounding
   statements).  Proved here: they compute load_special_val / client_init_val of C06/Model.v, an option stored
   under context "sp" is read back unchanged and a missing one reads as None, and the truth value Python gives
   the resulting attribute ("elif self.allow_unsolicited:") is effective_allow. *)
From Coq Require Import String List Bool Arith ZArith.
From Verif Require Import Base.Str Base.Py Base.Py2 C06.Model.
From VerifGen Require Import C06Src2.
Import ListNotations.
Open Scope string_scope.

(* an option value as a Python value (absent has none: the key is missing) *)
Definition enc (v : optval) : pyval :=
  match v with
  | OAbsent | ONone => PNone
  | OBool b => PBool b
  | OStr s => PStr s
  | OInt n => PInt (Z.of_nat n)
  end.

Definition present (v : optval) : bool := match v with OAbsent => false | _ => true end.

Lemma src_load_special_value v : present v = true -> src2_load_special_value (enc v) = enc (load_special_val v).
Proof.
  destruct v as [| |b|s|n]; intros Hp; try discriminate Hp; try reflexivity; try (destruct b; reflexivity).
  cbn [enc load_special_val]. unfold src2_load_special_value. cbn.
  destruct (String.eqb s "true") eqn:Ht; cbn; [reflexivity|].
  destruct (String.eqb s "false") eqn:Hf; cbn; reflexivity.
Qed.

(* what Config.getattr(attr, "sp") hands to Base.__init__: None when load_special never stored the option *)
Definition stored (v : optval) : pyval :=
  match v with OAbsent => PNone | _ => src2_load_special_value (enc v) end.

(* a string option is ASCII at both ends once stripped, and all ASCII then (what the translated strip() / lower()
   need: they refuse a string that might carry Unicode whitespace or letters) *)
Definition ascii_opt (v : optval) : Prop :=
  match v with OStr s => end_ascii (strip s) = true /\ all_ascii (strip s) = true | _ => True end.

Definition enc_result (r : option optval) : pyval :=
  match r with Some o => enc o | None => PExc "SAMLError" end.

Lemma list_has_words w l : list_has (PStr w) (map PStr l) = Some (mem w l).
Proof.
  induction l as [|x r IH]; [reflexivity|].
  cbn [map list_has mem]. change (pv_eq (PStr w) (PStr x)) with (Some (String.eqb w x)).
  destruct (String.eqb w x); [reflexivity | exact IH].
Qed.

Lemma first_bad_words l : first_bad (map PStr l) = None.
Proof. induction l as [|x r IH]; [reflexivity | exact IH]. Qed.

Lemma in_words w l :
  p2_in (PStr w) (p2_mklist (map PStr l)) = PBool (mem w l).
Proof.
  unfold p2_mklist. rewrite first_bad_words. unfold p2_in. cbn [s2 py_bind]. rewrite list_has_words. reflexivity.
Qed.

Lemma src_option_value_str attr s : ascii_opt (OStr s) ->
  src2_option_value attr (PStr s) src2_allow_unsolicited_default = enc_result (client_init_val (OStr s)).
Proof.
  intros (He & Ha). unfold src2_option_value.
  cbn [p2_is_not_none p2_ifexp s1 py_bind py_cond py_truthy negb].
  change (p2_isinstance (PStr s) ["str"] []) with (PBool true).
  cbn [p2_branch py_truthy].
  change (p2_strip (PStr s)) with (guard_ends (strip s)). unfold guard_ends. rewrite He.
  change (p2_lower (PStr (strip s))) with (if all_ascii (strip s) then PStr (lower (strip s)) else PErr). rewrite Ha.
  cbn [py_bind].
  pose proof (in_words (lower (strip s)) ["true"; "yes"; "on"; "1"]) as Hy. cbn [map] in Hy. rewrite Hy.
  pose proof (in_words (lower (strip s)) ["false"; "no"; "off"; "0"; ""]) as Hn. cbn [map] in Hn. rewrite Hn.
  cbn [p2_branch py_truthy].
  cbn [client_init_val]. change init_yes_words with ["true"; "yes"; "on"; "1"].
  change init_no_words with ["false"; "no"; "off"; "0"; ""].
  destruct (mem (lower (strip s)) ["true"; "yes"; "on"; "1"]); [reflexivity|].
  destruct (mem (lower (strip s)) ["false"; "no"; "off"; "0"; ""]); reflexivity.
Qed.

Lemma src_option_value attr v : ascii_opt v ->
  src2_option_value attr (stored v) src2_allow_unsolicited_default = enc_result (client_init_val (load_special_val v)).
Proof.
  destruct v as [| |b|s|n]; intros Ha; unfold stored; try rewrite src_load_special_value by reflexivity; try reflexivity;
    try (destruct b; reflexivity); try (destruct n; reflexivity).
  cbn [load_special_val].
  destruct (String.eqb s "true") eqn:Ht; [reflexivity|].
  destruct (String.eqb s "false") eqn:Hf; [reflexivity|].
  cbn [enc]. apply src_option_value_str. exact Ha.
Qed.

Lemma truthy_is_python v : present v = true -> p2_branch (enc v) = if truthy v then BTrue else BFalse.
Proof.
  destruct v as [| |b|s|n]; intros Hp; try discriminate Hp; try reflexivity;
    try (destruct b; reflexivity); try (destruct s; reflexivity); try (destruct n; reflexivity).
Qed.

Lemma client_init_present v o : client_init_val v = Some o -> present o = true.
Proof.
  destruct v as [| |b|s|n]; cbn [client_init_val]; intros H; try (injection H as <-; reflexivity).
  destruct (mem (lower (strip s)) init_yes_words); [injection H as <-; reflexivity|].
  destruct (mem (lower (strip s)) init_no_words); [injection H as <-; reflexivity | discriminate H].
Qed.

(* the whole way of the option: dict value -> load_special -> (setattr / getattr) -> Base.__init__ -> either SAMLError
   (no client) or an attribute whose truth value is effective_allow *)
Theorem src_option_is_effective_allow : forall attr v, ascii_opt v ->
  match effective_allow v with
  | Some b => p2_branch (src2_option_value attr (stored v) src2_allow_unsolicited_default) = if b then BTrue else BFalse
  | None => src2_option_value attr (stored v) src2_allow_unsolicited_default = PExc "SAMLError"
  end.
Proof.
  intros attr v Ha. rewrite (src_option_value attr v Ha). unfold effective_allow.
  destruct (client_init_val (load_special_val v)) as [o|] eqn:E; cbn [option_map enc_result]; [|reflexivity].
  apply truthy_is_python. exact (client_init_present _ _ E).
Qed.

(* Config.setattr / Config.getattr: stored under context "sp", read back unchanged under "sp" whatever the
   current context of the configuration object is (SPConfig: "sp", Config: "", IdPConfig: "idp"); an option never
   stored reads as None *)
Definition conf0 (cls ctx : string) : pyval := PObj [("__class__", PStr cls); ("context", PStr ctx)].

Theorem src_setattr_getattr : forall cls ctx v, present v = true ->
  exists conf1,
    src2_config_setattr (conf0 cls ctx) (PStr "sp") (PStr "allow_unsolicited") (enc v) = PList [PNone; conf1]
    /\ src2_config_getattr conf1 (PStr "allow_unsolicited") (PStr "sp") = enc v
    /\ src2_config_getattr (conf0 cls ctx) (PStr "allow_unsolicited") (PStr "sp") = PNone.
Proof.
  intros cls ctx v Hp.
  destruct v as [| |b|s|n]; try discriminate Hp; eexists; (split; [vm_compute; reflexivity|]); split; vm_compute; reflexivity.
Qed.
