(* C06/Proofs.v *)
From Coq Require Import String List Bool Arith Lia.
From Verif Require Import Base.Str C06.Model C06.Spec.
From VerifGen Require Import C06Tables.
Import ListNotations.
Open Scope string_scope.

(* ---- obligations on the regenerated table (re-checked whenever the live table changes) ---- *)
Lemma success_const : STATUS_SUCCESS = SUCCESS.
Proof. reflexivity. Qed.

Lemma table_names_ok :
  forallb (fun l => String.eqb (lower (status_class (Some (STATUS_PREFIX ++ l)))) (expected_class l)) defined_codes = true.
Proof. vm_compute. reflexivity. Qed.

Fixpoint nodup_b (l : list string) : bool :=
  match l with [] => true | x :: r => negb (mem x r) && nodup_b r end.

(* distinct codes map to distinct classes *)
Lemma table_injective :
  nodup_b (map fst statuscode2exception) = true /\ nodup_b (map snd statuscode2exception) = true
  /\ length statuscode2exception = length defined_codes.
Proof. vm_compute. repeat split; reflexivity. Qed.

Lemma status_class_ok_model second : status_class_ok second (status_class second) = true.
Proof.
  destruct second as [s|]; [|reflexivity]. unfold status_class_ok.
  destruct (find (fun l => String.eqb s (STATUS_PREFIX ++ l)) defined_codes) as [l|] eqn:F; [|reflexivity].
  apply find_some in F as [Hin Heq]. apply String.eqb_eq in Heq. subst s.
  pose proof table_names_ok as H. rewrite forallb_forall in H. exact (H l Hin).
Qed.

(* ---- structural lemmas ---- *)
Lemma sc_all_match_irts i scs : sc_all_match i scs = true -> forall j, In j (sc_irts scs) -> j = i.
Proof.
  induction scs as [|s r IH]; cbn [sc_all_match sc_irts]; [intros _ j []|].
  destruct s as [|d]; [exact IH|].
  intros H. apply andb_true_iff in H as [Hd Hr]. destruct d as [d|]; cbn in Hd; [|discriminate].
  apply String.eqb_eq in Hd. subst d. intros j [<-|Hj]; [reflexivity|exact (IH Hr j Hj)].
Qed.

Lemma sc_all_match_iff i scs : sc_all_match i scs = true <-> forall d, In (Data d) scs -> d = Some i.
Proof.
  induction scs as [|s r IH]; cbn [sc_all_match].
  - split; [intros _ d []|reflexivity].
  - destruct s as [|d0].
    + rewrite IH. split; intros H d Hd; [destruct Hd as [Hd|Hd]; [discriminate|exact (H d Hd)]|apply H; right; exact Hd].
    + rewrite andb_true_iff, IH. split.
      * intros [H0 H] d [Hd|Hd]; [injection Hd as <-|exact (H d Hd)].
        destruct d0 as [d0|]; cbn in H0; [|discriminate]. apply String.eqb_eq in H0. subst; reflexivity.
      * intros H. split; [|intros d Hd; apply H; right; exact Hd].
        rewrite (H d0 (or_introl eq_refl)). cbn. apply String.eqb_refl.
Qed.

Lemma conf_some x c scs : forall k, confirmations x (Some c) k scs = Some (Some c, k + count_data scs).
Proof.
  unfold count_data. induction scs as [|s r IH]; intros k; cbn [confirmations filter length].
  - f_equal. f_equal. lia.
  - destruct s as [|d]; cbn [scd_is_data].
    + apply IH.
    + destruct d as [j|]; rewrite IH; cbn [length]; f_equal; f_equal; lia.
Qed.

Lemma count_data_pos scs : (exists d, In (Data d) scs) -> count_data scs <> 0.
Proof.
  unfold count_data. intros [d Hd]. assert (H : In (Data d) (filter scd_is_data scs)).
  { apply filter_In. split; [exact Hd|reflexivity]. }
  destruct (filter scd_is_data scs); [contradiction|discriminate].
Qed.

(* the came_from state after loads, when unsolicited responses are not allowed *)
Lemma loads_solicited x cf :
  allow_unsolicited x = false -> loads x = Some cf ->
  exists i ctx, irt x = Some i /\ lookup i (outstanding x) = Some ctx /\ cf = Some ctx
                /\ check_sc_irt i (assertions x) <> Some false.
Proof.
  intros Ha. unfold loads. destruct (irt x) as [i|]; [destruct (lookup i (outstanding x)) as [c|] eqn:L|].
  - destruct (check_sc_irt i (assertions x)) as [[|]|] eqn:C; intros [= <-]; exists i, c; repeat split; congruence.
  - rewrite Ha. discriminate.
  - rewrite Ha. discriminate.
Qed.

Lemma accept_identity_inv x cf :
  accept x = Identity cf ->
  exists cf0 a scs kept,
    loads x = Some cf0 /\ version_ok (version x) = true /\ String.eqb (status_top x) STATUS_SUCCESS = true
    /\ assertions x = [a] /\ n_authn a = 1 /\ subject a = Some scs
    /\ confirmations x cf0 0 scs = Some (cf, kept) /\ kept <> 0
    /\ (allow_unsolicited x = false -> cf <> None).
Proof.
  unfold accept. destruct (instance_invalid x); [discriminate|].
  destruct (loads x) as [cf0|] eqn:El; [|discriminate].
  destruct (version_ok (version x)) eqn:Ev; cbn [negb]; [|discriminate].
  destruct (String.eqb (status_top x) STATUS_SUCCESS) eqn:Est; cbn [negb]; [|discriminate].
  destruct (assertions x) as [|a [|b r]] eqn:Eas; try discriminate.
  destruct (n_authn a =? 1)%nat eqn:En; cbn [negb]; [|discriminate]. apply Nat.eqb_eq in En.
  destruct (subject a) as [scs|] eqn:Es; [|discriminate].
  destruct (confirmations x cf0 0 scs) as [[cf' kept]|] eqn:C; [|discriminate].
  destruct (kept =? 0)%nat eqn:Ek; [discriminate|]. apply Nat.eqb_neq in Ek.
  destruct (allow_unsolicited x) eqn:Ea.
  - intros [= <-]. exists cf0, a, scs, kept. repeat (split; [solve [auto]|]). intros H; discriminate H.
  - destruct cf' as [c|]; [|discriminate]. intros [= <-].
    exists cf0, a, scs, kept. repeat (split; [solve [auto]|]). intros _; discriminate.
Qed.

Lemma correlated_holds x : correlated x (accept x).
Proof.
  intros Ha cf Hacc. apply accept_identity_inv in Hacc as (cf0 & a & scs & kept & Hl & _ & _ & Has & _ & Hs & Hc & _ & _).
  destruct (loads_solicited x cf0 Ha Hl) as (i & ctx & Hi & Hlk & -> & Hck).
  exists i, ctx. rewrite conf_some in Hc. injection Hc as <- _. repeat split; auto.
  unfold all_sc_irts. rewrite Has. cbn [flat_map]. rewrite Hs, app_nil_r.
  rewrite Has in Hck. cbn [check_sc_irt] in Hck. rewrite Hs in Hck.
  destruct (sc_all_match i scs) eqn:M; [|contradiction Hck; reflexivity].
  apply sc_all_match_irts; exact M.
Qed.

Lemma status_respected_holds x : status_respected x (accept x).
Proof.
  intros Hne. assert (E : String.eqb (status_top x) STATUS_SUCCESS = false).
  { rewrite success_const. apply String.eqb_neq; exact Hne. }
  unfold accept. destruct (instance_invalid x); [split; [reflexivity|discriminate]|].
  destruct (loads x); [|split; [reflexivity|discriminate]].
  destruct (version_ok (version x)); cbn [negb]; [|split; [reflexivity|discriminate]].
  rewrite E. cbn [negb]. split; [reflexivity|]. intros c [= <-]. apply status_class_ok_model.
Qed.

Lemma version_ok_iff v : version_ok v = true <-> v = (2, 0).
Proof.
  destruct v as [a b]. unfold version_ok. cbn [fst snd]. rewrite andb_true_iff, !Nat.eqb_eq.
  split; [intros [-> ->]; reflexivity|intros [= -> ->]; auto].
Qed.

Lemma shape_respected_holds x : shape_respected x (accept x).
Proof.
  intros H. destruct (accept x) as [cf| |] eqn:A; try reflexivity. exfalso.
  apply accept_identity_inv in A as (cf0 & a & scs & kept & _ & Hv & _ & Has & Hn & Hs & _).
  apply version_ok_iff in Hv. destruct H as [H|[H|(b & Hb & [H|H])]].
  - contradiction.
  - rewrite Has in H. discriminate.
  - rewrite Has in Hb. destruct Hb as [<-|[]]. contradiction.
  - rewrite Has in Hb. destruct Hb as [<-|[]]. congruence.
Qed.

Lemma instance_valid_when_subjects x :
  (forall a, In a (assertions x) -> subject a <> None) -> instance_invalid x = false.
Proof.
  intros H. unfold instance_invalid. destruct (existsb _ (assertions x)) eqn:E; [|reflexivity].
  apply existsb_exists in E as [a [Ha Hb]]. specialize (H a Ha). destruct (subject a); [discriminate|contradiction].
Qed.

Lemma check_sc_irt_ok i l :
  (forall a scs d, In a l -> subject a = Some scs -> In (Data d) scs -> d = Some i) ->
  check_sc_irt i l <> Some false.
Proof.
  induction l as [|a r IH]; cbn [check_sc_irt]; intros H; [discriminate|].
  destruct (subject a) as [scs|] eqn:S; [|discriminate].
  assert (M : sc_all_match i scs = true).
  { apply sc_all_match_iff. intros d Hd. exact (H a scs d (or_introl eq_refl) S Hd). }
  rewrite M. apply IH. intros b scs' d Hb. apply H. right; exact Hb.
Qed.

Lemma loads_fine x i ctx : well_correlated x i ctx -> loads x = Some (Some ctx).
Proof.
  intros (Hi & Hl & Hall). unfold loads. rewrite Hi, Hl.
  pose proof (check_sc_irt_ok i (assertions x) Hall) as H.
  destruct (check_sc_irt i (assertions x)) as [[|]|]; try reflexivity. contradiction H; reflexivity.
Qed.

Lemma accepted_when_fine_holds x : accepted_when_fine x (accept x).
Proof.
  intros i ctx scs Hw Hv Hs Has Hex. unfold accept.
  rewrite instance_valid_when_subjects by (rewrite Has; intros a [<-|[]]; discriminate).
  rewrite (loads_fine x i ctx Hw).
  apply version_ok_iff in Hv. rewrite Hv. cbn [negb].
  rewrite Hs, success_const, String.eqb_refl. cbn [negb]. rewrite Has. cbn [n_authn subject Nat.eqb negb].
  rewrite conf_some. cbn [Nat.add].
  destruct (count_data scs =? 0)%nat eqn:E; [apply Nat.eqb_eq in E; exfalso; exact (count_data_pos scs Hex E)|].
  destruct (allow_unsolicited x); reflexivity.
Qed.

Lemma status_raised_when_fine_holds x : status_raised_when_fine x (accept x).
Proof.
  intros i ctx Hw Hv Hs Hsub. unfold accept.
  rewrite (instance_valid_when_subjects x Hsub), (loads_fine x i ctx Hw).
  apply version_ok_iff in Hv. rewrite Hv. cbn [negb].
  assert (E : String.eqb (status_top x) STATUS_SUCCESS = false).
  { rewrite success_const. apply String.eqb_neq; exact Hs. }
  rewrite E. cbn [negb]. eexists; reflexivity.
Qed.

Lemma c06_holds x : spec x (accept x).
Proof.
  unfold spec. split; [apply correlated_holds|]. split; [apply status_respected_holds|].
  split; [apply shape_respected_holds|]. split; [apply accepted_when_fine_holds|apply status_raised_when_fine_holds].
Qed.

(* non-vacuity: a solicited successful Response is accepted; a foreign SubjectConfirmation InResponseTo is not *)
Example fine_example :
  let x := {| allow_unsolicited := false; outstanding := [("req-1", "/ctx1"); ("req-2", "/ctx2")]; irt := Some "req-1";
              version := (2, 0); status_top := SUCCESS; status_second := None;
              assertions := [{| n_authn := 1; subject := Some [NoData; Data (Some "req-1")] |}] |} in
  accept x = Identity (Some "/ctx1")
  /\ accept {| allow_unsolicited := false; outstanding := outstanding x; irt := irt x; version := version x;
               status_top := status_top x; status_second := None;
               assertions := [{| n_authn := 1; subject := Some [NoData; Data (Some "req-2")] |}] |} = NoId.
Proof. vm_compute. split; reflexivity. Qed.


(* ------------------------------------------------------------------ the delivery *)
Lemma noid_status x : status_respected x NoId.
Proof. intros _. split; [reflexivity|discriminate]. Qed.

Lemma noid_shape x : shape_respected x NoId.
Proof. intros _. reflexivity. Qed.

Lemma noid_correlated x : correlated x NoId.
Proof. intros _ cf H. discriminate H. Qed.

Lemma back_channel_status x : status_respected x (accept_back_channel x).
Proof.
  intros Hne. assert (E : String.eqb (status_top x) STATUS_SUCCESS = false).
  { rewrite success_const. apply String.eqb_neq; exact Hne. }
  unfold accept_back_channel. destruct (instance_invalid x); [split; [reflexivity|discriminate]|].
  destruct (version_ok (version x)); cbn [negb]; [|split; [reflexivity|discriminate]].
  rewrite E. cbn [negb]. split; [reflexivity|]. intros c [= <-]. apply status_class_ok_model.
Qed.

Lemma back_channel_identity_inv x cf :
  accept_back_channel x = Identity cf ->
  cf = None /\ version_ok (version x) = true /\ exists a, assertions x = [a] /\ n_authn a = 1 /\ subject a <> None.
Proof.
  unfold accept_back_channel. destruct (instance_invalid x); [discriminate|].
  destruct (version_ok (version x)); cbn [negb]; [|discriminate].
  destruct (String.eqb (status_top x) STATUS_SUCCESS); cbn [negb]; [|discriminate].
  destruct (assertions x) as [|a [|b r]]; try discriminate.
  destruct (n_authn a =? 1)%nat eqn:En; cbn [negb]; [|discriminate]. apply Nat.eqb_eq in En.
  destruct (subject a) as [scs|] eqn:Es; [|discriminate].
  destruct (count_data scs =? 0)%nat; [discriminate|]. intros [= <-].
  split; [reflexivity|]. split; [reflexivity|]. exists a. rewrite Es. repeat split; auto. discriminate.
Qed.

Lemma back_channel_shape x : shape_respected x (accept_back_channel x).
Proof.
  intros H. destruct (accept_back_channel x) as [cf| |] eqn:A; try reflexivity. exfalso.
  apply back_channel_identity_inv in A as (_ & Hv & a & Has & Hn & Hs).
  apply version_ok_iff in Hv. destruct H as [H|[H|(b & Hb & [H|H])]].
  - contradiction.
  - rewrite Has in H. discriminate.
  - rewrite Has in Hb. destruct Hb as [<-|[]]. contradiction.
  - rewrite Has in Hb. destruct Hb as [<-|[]]. contradiction.
Qed.

(* the two browser bindings are treated alike, and as an asynchronous hop: the decision on a Response
   that arrived over HTTP-POST or HTTP-Redirect, unaddressed or addressed to that binding's consumer
   endpoint, is [accept], in which the binding does not occur *)
Lemma browser_is_accept y : browser (via y) = true -> well_addressed y = true -> receive y = accept (resp y).
Proof. unfold receive, well_addressed. destruct (via y), (dest y); cbn; congruence. Qed.

(* addressed elsewhere (incl. the OTHER binding's endpoint): nothing comes out *)
Lemma browser_misaddressed y : browser (via y) = true -> well_addressed y = false -> receive y = NoId.
Proof. unfold receive, well_addressed. destruct (via y), (dest y); cbn; congruence. Qed.

Lemma c06_delivery_holds y : spec_d y (receive y).
Proof.
  destruct (c06_holds (resp y)) as (H1 & H2 & H3 & H4 & H5).
  unfold spec_d. destruct (browser (via y)) eqn:Hb.
  - destruct (well_addressed y) eqn:Hw.
    + rewrite (browser_is_accept y Hb Hw).
      split; [intros _; exact H1|]. split; [exact H2|]. split; [exact H3|]. intros _ _. split; [exact H4|exact H5].
    + rewrite (browser_misaddressed y Hb Hw).
      split; [intros _; apply noid_correlated|]. split; [apply noid_status|]. split; [apply noid_shape|].
      intros _ H; discriminate H.
  - split; [intros H; discriminate H|].
    assert (Hs : status_respected (resp y) (receive y) /\ shape_respected (resp y) (receive y)).
    { unfold receive. destruct (via y); try discriminate Hb; cbn [unravels asynchop negb].
      - destruct (destination_ok Artifact (dest y)); [split; assumption|split; [apply noid_status|apply noid_shape]].
      - split; [apply back_channel_status|apply back_channel_shape].
      - split; [apply noid_status|apply noid_shape]. }
    destruct Hs as [Hs1 Hs2]. split; [exact Hs1|]. split; [exact Hs2|]. intros H; discriminate H.
Qed.

(* what the browser-binding guard of the correlation clause leaves out, as coded: over the SOAP back
   channel the outstanding set is not consulted and no request context is handed back *)
Lemma back_channel_uncorrelated y cf : via y = Soap -> receive y = Identity cf -> cf = None.
Proof.
  unfold receive. intros ->. cbn [unravels asynchop negb]. intros H.
  apply back_channel_identity_inv in H as [H _]. exact H.
Qed.

Lemma back_channel_ignores_outstanding y o a :
  via y = Soap ->
  receive {| via := Soap; dest := dest y;
             resp := {| allow_unsolicited := a; outstanding := o; irt := irt (resp y); version := version (resp y);
                        status_top := status_top (resp y); status_second := status_second (resp y);
                        assertions := assertions (resp y) |} |} = receive y.
Proof. intros Hv. unfold receive. rewrite Hv. reflexivity. Qed.

(* non-vacuity of the delivery layer: Redirect is correlated like POST; an unknown InResponseTo is refused over both;
   the other binding's endpoint as Destination is refused; the back channel does not correlate *)
Example delivery_example :
  let fine := {| allow_unsolicited := false; outstanding := [("req-1", "/ctx1"); ("req-2", "/ctx2")]; irt := Some "req-1";
                 version := (2, 0); status_top := SUCCESS; status_second := None;
                 assertions := [{| n_authn := 1; subject := Some [Data (Some "req-1")] |}] |} in
  let stray := {| allow_unsolicited := false; outstanding := outstanding fine; irt := Some "unknown-9";
                  version := (2, 0); status_top := SUCCESS; status_second := None;
                  assertions := [{| n_authn := 1; subject := Some [Data (Some "unknown-9")] |}] |} in
  receive {| via := Redirect; dest := DRedirect; resp := fine |} = Identity (Some "/ctx1")
  /\ receive {| via := Post; dest := DPost; resp := fine |} = Identity (Some "/ctx1")
  /\ receive {| via := Redirect; dest := DRedirect; resp := stray |} = NoId
  /\ receive {| via := Post; dest := DAbsent; resp := stray |} = NoId
  /\ receive {| via := Redirect; dest := DPost; resp := fine |} = NoId
  /\ receive {| via := Soap; dest := DPost; resp := stray |} = Identity None.
Proof. vm_compute. repeat split; reflexivity. Qed.
