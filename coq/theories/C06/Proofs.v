(* C06/Proofs.v *)
From Coq Require Import String List Bool Arith Lia.
From Verif Require Import Base.Str C06.Model C06.Spec.
From VerifGen Require Import C06Tables.
Import ListNotations.
Open Scope string_scope.

(* ---- obligations on the regenerated table (re-checked whenever the live table changes) ---- *)
Lemma success_const : STATUS_SUCCESS = SUCCESS.
Proof. reflexivity. Qed.

Lemma table_names_ok :
  forallb (fun l => String.eqb (lower (status_class (Some (STATUS_PREFIX ++ l)))) (expected_class l)) defined_codes = true.
Proof. vm_compute. reflexivity. Qed.

Fixpoint nodup_b (l : list string) : bool :=
  match l with [] => true | x :: r => negb (mem x r) && nodup_b r end.

(* distinct codes map to distinct classes *)
Lemma table_injective :
  nodup_b (map fst statuscode2exception) = true /\ nodup_b (map snd statuscode2exception) = true
  /\ length statuscode2exception = length defined_codes.
Proof. vm_compute. repeat split; reflexivity. Qed.

Lemma status_class_ok_model second : status_class_ok second (status_class second) = true.
Proof.
  destruct second as [s|]; [|reflexivity]. unfold status_class_ok.
  destruct (find (fun l => String.eqb s (STATUS_PREFIX ++ l)) defined_codes) as [l|] eqn:F; [|reflexivity].
  apply find_some in F as [Hin Heq]. apply String.eqb_eq in Heq. subst s.
  pose proof table_names_ok as H. rewrite forallb_forall in H. exact (H l Hin).
Qed.

(* ---- structural lemmas ---- *)
Lemma sc_all_match_irts i scs : sc_all_match i scs = true -> forall j, In j (sc_irts scs) -> j = i.
Proof.
  induction scs as [|s r IH]; cbn [sc_all_match sc_irts]; [intros _ j []|].
  destruct s as [|d]; [exact IH|].
  intros H. apply andb_true_iff in H as [Hd Hr]. destruct d as [d|]; cbn in Hd; [|discriminate].
  apply String.eqb_eq in Hd. subst d. intros j [<-|Hj]; [reflexivity|exact (IH Hr j Hj)].
Qed.

Lemma sc_all_match_iff i scs : sc_all_match i scs = true <-> forall d, In (Data d) scs -> d = Some i.
Proof.
  induction scs as [|s r IH]; cbn [sc_all_match].
  - split; [intros _ d []|reflexivity].
  - destruct s as [|d0].
    + rewrite IH. split; intros H d Hd; [destruct Hd as [Hd|Hd]; [discriminate|exact (H d Hd)]|apply H; right; exact Hd].
    + rewrite andb_true_iff, IH. split.
      * intros [H0 H] d [Hd|Hd]; [injection Hd as <-|exact (H d Hd)].
        destruct d0 as [d0|]; cbn in H0; [|discriminate]. apply String.eqb_eq in H0. subst; reflexivity.
      * intros H. split; [|intros d Hd; apply H; right; exact Hd].
        rewrite (H d0 (or_introl eq_refl)). cbn. apply String.eqb_refl.
Qed.

Lemma conf_some x c scs : forall k, confirmations x (Some c) k scs = Some (Some c, k + count_data scs).
Proof.
  unfold count_data. induction scs as [|s r IH]; intros k; cbn [confirmations filter length].
  - f_equal. f_equal. lia.
  - destruct s as [|d]; cbn [scd_is_data].
    + apply IH.
    + destruct d as [j|]; rewrite IH; cbn [length]; f_equal; f_equal; lia.
Qed.

Lemma count_data_pos scs : (exists d, In (Data d) scs) -> count_data scs <> 0.
Proof.
  unfold count_data. intros [d Hd]. assert (H : In (Data d) (filter scd_is_data scs)).
  { apply filter_In. split; [exact Hd|reflexivity]. }
  destruct (filter scd_is_data scs); [contradiction|discriminate].
Qed.

(* the came_from state after loads, when unsolicited responses are not allowed *)
Lemma loads_solicited x cf :
  allow_unsolicited x = false -> loads x = Some cf ->
  exists i ctx, irt x = Some i /\ lookup i (outstanding x) = Some ctx /\ cf = Some ctx
                /\ check_sc_irt i (assertions x) <> Some false.
Proof.
  intros Ha. unfold loads. destruct (irt x) as [i|]; [destruct (lookup i (outstanding x)) as [c|] eqn:L|].
  - destruct (check_sc_irt i (assertions x)) as [[|]|] eqn:C; intros [= <-]; exists i, c; repeat split; congruence.
  - rewrite Ha. discriminate.
  - rewrite Ha. discriminate.
Qed.

Lemma accept_identity_inv x cf :
  accept x = Identity cf ->
  exists cf0 a scs kept,
    loads x = Some cf0 /\ version_ok (version x) = true /\ String.eqb (status_top x) STATUS_SUCCESS = true
    /\ assertions x = [a] /\ n_authn a = 1 /\ subject a = Some scs
    /\ confirmations x cf0 0 scs = Some (cf, kept) /\ kept <> 0
    /\ (allow_unsolicited x = false -> cf <> None).
Proof.
  unfold accept. destruct (instance_invalid x); [discriminate|].
  destruct (loads x) as [cf0|] eqn:El; [|discriminate].
  destruct (version_ok (version x)) eqn:Ev; cbn [negb]; [|discriminate].
  destruct (String.eqb (status_top x) STATUS_SUCCESS) eqn:Est; cbn [negb]; [|discriminate].
  destruct (assertions x) as [|a [|b r]] eqn:Eas; try discriminate.
  destruct (n_authn a =? 1)%nat eqn:En; cbn [negb]; [|discriminate]. apply Nat.eqb_eq in En.
  destruct (subject a) as [scs|] eqn:Es; [|discriminate].
  destruct (confirmations x cf0 0 scs) as [[cf' kept]|] eqn:C; [|discriminate].
  destruct (kept =? 0)%nat eqn:Ek; [discriminate|]. apply Nat.eqb_neq in Ek.
  destruct (allow_unsolicited x) eqn:Ea.
  - intros [= <-]. exists cf0, a, scs, kept. repeat (split; [solve [auto]|]). intros H; discriminate H.
  - destruct cf' as [c|]; [|discriminate]. intros [= <-].
    exists cf0, a, scs, kept. repeat (split; [solve [auto]|]). intros _; discriminate.
Qed.

Lemma correlated_holds x : correlated x (accept x).
Proof.
  intros Ha cf Hacc. apply accept_identity_inv in Hacc as (cf0 & a & scs & kept & Hl & _ & _ & Has & _ & Hs & Hc & _ & _).
  destruct (loads_solicited x cf0 Ha Hl) as (i & ctx & Hi & Hlk & -> & Hck).
  exists i, ctx. rewrite conf_some in Hc. injection Hc as <- _. repeat split; auto.
  unfold all_sc_irts. rewrite Has. cbn [flat_map]. rewrite Hs, app_nil_r.
  rewrite Has in Hck. cbn [check_sc_irt] in Hck. rewrite Hs in Hck.
  destruct (sc_all_match i scs) eqn:M; [|contradiction Hck; reflexivity].
  apply sc_all_match_irts; exact M.
Qed.

Lemma status_respected_holds x : status_respected x (accept x).
Proof.
  intros Hne. assert (E : String.eqb (status_top x) STATUS_SUCCESS = false).
  { rewrite success_const. apply String.eqb_neq; exact Hne. }
  unfold accept. destruct (instance_invalid x); [split; [reflexivity|discriminate]|].
  destruct (loads x); [|split; [reflexivity|discriminate]].
  destruct (version_ok (version x)); cbn [negb]; [|split; [reflexivity|discriminate]].
  rewrite E. cbn [negb]. split; [reflexivity|]. intros c [= <-]. apply status_class_ok_model.
Qed.

Lemma version_ok_iff v : version_ok v = true <-> v = (2, 0).
Proof.
  destruct v as [a b]. unfold version_ok. cbn [fst snd]. rewrite andb_true_iff, !Nat.eqb_eq.
  split; [intros [-> ->]; reflexivity|intros [= -> ->]; auto].
Qed.

Lemma shape_respected_holds x : shape_respected x (accept x).
Proof.
  intros H. destruct (accept x) as [cf| |] eqn:A; try reflexivity. exfalso.
  apply accept_identity_inv in A as (cf0 & a & scs & kept & _ & Hv & _ & Has & Hn & Hs & _).
  apply version_ok_iff in Hv. destruct H as [H|[H|(b & Hb & [H|H])]].
  - contradiction.
  - rewrite Has in H. discriminate.
  - rewrite Has in Hb. destruct Hb as [<-|[]]. contradiction.
  - rewrite Has in Hb. destruct Hb as [<-|[]]. congruence.
Qed.

Lemma instance_valid_when_subjects x :
  (forall a, In a (assertions x) -> subject a <> None) -> instance_invalid x = false.
Proof.
  intros H. unfold instance_invalid. destruct (existsb _ (assertions x)) eqn:E; [|reflexivity].
  apply existsb_exists in E as [a [Ha Hb]]. specialize (H a Ha). destruct (subject a); [discriminate|contradiction].
Qed.

Lemma check_sc_irt_ok i l :
  (forall a scs d, In a l -> subject a = Some scs -> In (Data d) scs -> d = Some i) ->
  check_sc_irt i l <> Some false.
Proof.
  induction l as [|a r IH]; cbn [check_sc_irt]; intros H; [discriminate|].
  destruct (subject a) as [scs|] eqn:S; [|discriminate].
  assert (M : sc_all_match i scs = true).
  { apply sc_all_match_iff. intros d Hd. exact (H a scs d (or_introl eq_refl) S Hd). }
  rewrite M. apply IH. intros b scs' d Hb. apply H. right; exact Hb.
Qed.

Lemma loads_fine x i ctx : well_correlated x i ctx -> loads x = Some (Some ctx).
Proof.
  intros (Hi & Hl & Hall). unfold loads. rewrite Hi, Hl.
  pose proof (check_sc_irt_ok i (assertions x) Hall) as H.
  destruct (check_sc_irt i (assertions x)) as [[|]|]; try reflexivity. contradiction H; reflexivity.
Qed.

Lemma accepted_when_fine_holds x : accepted_when_fine x (accept x).
Proof.
  intros i ctx scs Hw Hv Hs Has Hex. unfold accept.
  rewrite instance_valid_when_subjects by (rewrite Has; intros a [<-|[]]; discriminate).
  rewrite (loads_fine x i ctx Hw).
  apply version_ok_iff in Hv. rewrite Hv. cbn [negb].
  rewrite Hs, success_const, String.eqb_refl. cbn [negb]. rewrite Has. cbn [n_authn subject Nat.eqb negb].
  rewrite conf_some. cbn [Nat.add].
  destruct (count_data scs =? 0)%nat eqn:E; [apply Nat.eqb_eq in E; exfalso; exact (count_data_pos scs Hex E)|].
  destruct (allow_unsolicited x); reflexivity.
Qed.

Lemma status_raised_when_fine_holds x : status_raised_when_fine x (accept x).
Proof.
  intros i ctx Hw Hv Hs Hsub. unfold accept.
  rewrite (instance_valid_when_subjects x Hsub), (loads_fine x i ctx Hw).
  apply version_ok_iff in Hv. rewrite Hv. cbn [negb].
  assert (E : String.eqb (status_top x) STATUS_SUCCESS = false).
  { rewrite success_const. apply String.eqb_neq; exact Hs. }
  rewrite E. cbn [negb]. eexists; reflexivity.
Qed.

Lemma c06_holds x : spec x (accept x).
Proof.
  unfold spec. split; [apply correlated_holds|]. split; [apply status_respected_holds|].
  split; [apply shape_respected_holds|]. split; [apply accepted_when_fine_holds|apply status_raised_when_fine_holds].
Qed.

(* non-vacuity: a solicited successful Response is accepted; a foreign SubjectConfirmation InResponseTo is not *)
Example fine_example :
  let x := {| allow_unsolicited := false; outstanding := [("req-1", "/ctx1"); ("req-2", "/ctx2")]; irt := Some "req-1";
              version := (2, 0); status_top := SUCCESS; status_second := None;
              assertions := [{| n_authn := 1; subject := Some [NoData; Data (Some "req-1")] |}] |} in
  accept x = Identity (Some "/ctx1")
  /\ accept {| allow_unsolicited := false; outstanding := outstanding x; irt := irt x; version := version x;
               status_top := status_top x; status_second := None;
               assertions := [{| n_authn := 1; subject := Some [NoData; Data (Some "req-2")] |}] |} = NoId.
Proof. vm_compute. split; reflexivity. Qed.


(* ------------------------------------------------------------------ the delivery *)
Lemma noid_status x : status_respected x NoId.
Proof. intros _. split; [reflexivity|discriminate]. Qed.

Lemma noid_shape x : shape_respected x NoId.
Proof. intros _. reflexivity. Qed.

Lemma noid_correlated x : correlated x NoId.
Proof. intros _ cf H. discriminate H. Qed.

(* ---- which assertions are sealed ---- *)
Lemma split_sealed_in fl l a :
  In a l <-> In a (fst (split_sealed fl l)) \/ In a (snd (split_sealed fl l)).
Proof.
  revert fl. induction l as [|b r IH]; intros fl; cbn [split_sealed].
  - cbn. tauto.
  - specialize (IH (tl fl)). destruct (hd false fl); cbn [fst snd In]; rewrite IH; tauto.
Qed.

Lemma split_sealed_plain fl l : forallb negb fl = true -> split_sealed fl l = (l, []).
Proof.
  revert fl. induction l as [|b r IH]; intros fl H; cbn [split_sealed]; [reflexivity|].
  destruct fl as [|f fl']; cbn [hd tl].
  - rewrite (IH [] eq_refl). reflexivity.
  - cbn [forallb] in H. apply andb_prop in H as [Hf H]. destruct f; [discriminate|]. rewrite (IH fl' H). reflexivity.
Qed.

(* ---- every assertion is examined ---- *)
Lemma one_assertion_shape f x cf a cf' : one_assertion f x cf a = Some cf' -> n_authn a = 1 /\ subject a <> None.
Proof.
  unfold one_assertion. destruct (n_authn a =? 1)%nat eqn:En; cbn [negb]; [|discriminate].
  apply Nat.eqb_eq in En. destruct (subject a); [|discriminate]. intros _. split; [exact En|discriminate].
Qed.

Lemma all_assertions_shape f x l : forall cf cf', all_assertions f x cf l = Some cf' ->
  forall a, In a l -> n_authn a = 1 /\ subject a <> None.
Proof.
  induction l as [|b r IH]; intros cf cf' H a Ha; [contradiction|]. cbn [all_assertions] in H.
  destruct (one_assertion f x cf b) as [cf1|] eqn:E; [|discriminate].
  destruct Ha as [<-|Ha]; [exact (one_assertion_shape _ _ _ _ _ E)|exact (IH _ _ H a Ha)].
Qed.

(* ---- the Response answers outstanding request i, came_from is set: the rule of b84752ad ---- *)
Definition count_answers (i : string) (scs : list scd) : nat := length (filter (sc_answers i) scs).

Lemma conf_f_answered x i c scs : answered x = Some i ->
  forall k, confirmations_f true x (Some c) k scs = Some (Some c, k + count_answers i scs).
Proof.
  intros Ha. unfold count_answers. induction scs as [|s r IH]; intros k; cbn [confirmations_f filter length].
  - f_equal. f_equal. lia.
  - destruct s as [|d]; cbn [sc_answers]; [apply IH|]. rewrite Ha. cbn [andb].
    destruct (answers i d); cbn [negb].
    + destruct d; rewrite IH; cbn [length]; f_equal; f_equal; lia.
    + apply IH.
Qed.

(* the assertion passes _assertion when the Response answers outstanding request i (code as it is now):
   one AuthnStatement, a Subject, every confirmation with data answers i, and there is one *)
Definition assertion_answers (i : string) (a : assertion_in) : bool :=
  (n_authn a =? 1)%nat
  && match subject a with Some scs => sc_all_match i scs && negb (count_answers i scs =? 0)%nat | None => false end.

Lemma one_assertion_answered x i c a : answered x = Some i ->
  one_assertion V2 x (Some c) a = if assertion_answers i a then Some (Some c) else None.
Proof.
  intros Ha. unfold one_assertion, assertion_answers. destruct (n_authn a =? 1)%nat; cbn [negb andb]; [|reflexivity].
  destruct (subject a) as [scs|]; [|reflexivity]. rewrite Ha. cbn [strict skips andb].
  destruct (sc_all_match i scs); cbn [negb andb]; [|reflexivity].
  rewrite (conf_f_answered x i c scs Ha). cbn [Nat.add].
  destruct (count_answers i scs =? 0)%nat; cbn [negb]; [reflexivity|]. destruct (allow_unsolicited x); reflexivity.
Qed.

Lemma all_assertions_answered x i c l : answered x = Some i ->
  all_assertions V2 x (Some c) l = if forallb (assertion_answers i) l then Some (Some c) else None.
Proof.
  intros Ha. induction l as [|a r IH]; cbn [all_assertions forallb]; [reflexivity|].
  rewrite (one_assertion_answered x i c a Ha). destruct (assertion_answers i a); cbn [andb]; [exact IH|reflexivity].
Qed.

Lemma count_answers_pos i scs : count_answers i scs <> 0 -> existsb (sc_answers i) scs = true.
Proof.
  unfold count_answers. induction scs as [|s r IH]; cbn [filter existsb]; [intros H; contradiction H; reflexivity|].
  destruct (sc_answers i s); [reflexivity|exact IH].
Qed.

Lemma no_strays_all_match i scs : existsb (sc_strays i) scs = false -> sc_all_match i scs = true.
Proof.
  induction scs as [|s r IH]; cbn [existsb sc_all_match]; [reflexivity|]. intros H. apply orb_false_elim in H as [Hs Hr].
  destruct s as [|d]; [exact (IH Hr)|]. cbn [sc_strays] in Hs. unfold answers in Hs.
  destruct (opt_eqb String.eqb d (Some i)); [exact (IH Hr)|discriminate].
Qed.

Lemma count_answers_fine i scs :
  (forall d, In (Data d) scs -> d = Some i) -> (exists d, In (Data d) scs) -> count_answers i scs <> 0.
Proof.
  intros Hall [d Hd]. unfold count_answers. assert (H : In (Data d) (filter (sc_answers i) scs)).
  { apply filter_In. split; [exact Hd|]. cbn. unfold answers. rewrite (Hall d Hd). cbn. apply String.eqb_refl. }
  destruct (filter (sc_answers i) scs); [contradiction|discriminate].
Qed.

Lemma existsb_false_in {A} (f : A -> bool) l a : existsb f l = false -> In a l -> f a = false.
Proof.
  intros H Ha. destruct (f a) eqn:E; [|reflexivity].
  assert (existsb f l = true) by (apply existsb_exists; exists a; auto). congruence.
Qed.

Lemma check_sc_irt_all i l : check_sc_irt i l <> Some false -> (forall a, In a l -> subject a <> None) ->
  forall a scs, In a l -> subject a = Some scs -> sc_all_match i scs = true.
Proof.
  induction l as [|b r IH]; intros H Hs a scs Ha Hsub; [contradiction|]. cbn [check_sc_irt] in H.
  destruct (subject b) as [sb|] eqn:Eb; [|exfalso; exact (Hs b (or_introl eq_refl) Eb)].
  destruct (sc_all_match i sb) eqn:M; [|contradiction H; reflexivity].
  destruct Ha as [<-|Ha]; [congruence|]. apply (IH H (fun a' Ha' => Hs a' (or_intror Ha')) a scs Ha Hsub).
Qed.

(* ---- accept_sealed ---- *)
Lemma accept_sealed_identity_inv f fl x cf :
  accept_sealed f fl x = Identity cf ->
  let plain := fst (split_sealed fl (assertions x)) in
  let enc := snd (split_sealed fl (assertions x)) in
  exists cf0, loads (with_assertions x plain) = Some cf0 /\ version_ok (version x) = true
              /\ count_ok plain enc = true /\ all_assertions f x cf0 (plain ++ enc) = Some cf.
Proof.
  unfold accept_sealed. cbv zeta.
  destruct (instance_invalid _); [discriminate|].
  destruct (loads _) as [cf0|]; [|discriminate].
  destruct (version_ok (version x)); cbn [negb]; [|discriminate].
  destruct (String.eqb (status_top x) STATUS_SUCCESS); cbn [negb]; [|discriminate].
  destruct (count_ok _ _); cbn [negb]; [|discriminate].
  destruct (all_assertions _ _ _ _) as [cf'|] eqn:E; [|discriminate]. intros [= <-].
  exists cf0. repeat split; auto.
Qed.

Lemma sealed_status f fl x : status_respected x (accept_sealed f fl x).
Proof.
  intros Hne. assert (E : String.eqb (status_top x) STATUS_SUCCESS = false).
  { rewrite success_const. apply String.eqb_neq; exact Hne. }
  unfold accept_sealed. cbv zeta. destruct (instance_invalid _); [split; [reflexivity|discriminate]|].
  destruct (loads _); [|split; [reflexivity|discriminate]].
  destruct (version_ok (version x)); cbn [negb]; [|split; [reflexivity|discriminate]].
  rewrite E. cbn [negb]. split; [reflexivity|]. intros c [= <-]. apply status_class_ok_model.
Qed.

Lemma count_ok_nonempty fl l : count_ok (fst (split_sealed fl l)) (snd (split_sealed fl l)) = true -> l <> [].
Proof. intros H ->. cbn in H. discriminate. Qed.

Lemma sealed_shape f fl x : shape_respected x (accept_sealed f fl x).
Proof.
  intros H. destruct (accept_sealed f fl x) as [cf| |] eqn:A; try reflexivity. exfalso.
  apply accept_sealed_identity_inv in A as (cf0 & _ & Hv & Hc & Hall). apply version_ok_iff in Hv.
  destruct H as [H|[H|(b & Hb & H)]].
  - contradiction.
  - exact (count_ok_nonempty _ _ Hc H).
  - assert (Hin : In b (fst (split_sealed fl (assertions x)) ++ snd (split_sealed fl (assertions x)))).
    { apply in_or_app. apply split_sealed_in. exact Hb. }
    destruct (all_assertions_shape _ _ _ _ _ Hall b Hin) as [Hn Hs]. destruct H; contradiction.
Qed.

Lemma sealed_correlated fl x : correlated x (accept_sealed V2 fl x).
Proof.
  intros Ha cf Hacc.
  apply accept_sealed_identity_inv in Hacc as (cf0 & Hl & _ & _ & Hall).
  set (plain := fst (split_sealed fl (assertions x))) in *. set (enc := snd (split_sealed fl (assertions x))) in *.
  destruct (loads_solicited (with_assertions x plain) cf0 Ha Hl) as (i & ctx & Hi & Hlk & -> & _).
  cbn [with_assertions irt outstanding assertions] in Hi, Hlk.
  assert (Hans : answered x = Some i) by (unfold answered; rewrite Hi, Hlk; reflexivity).
  rewrite (all_assertions_answered x i ctx _ Hans) in Hall.
  destruct (forallb (assertion_answers i) (plain ++ enc)) eqn:F; [|discriminate]. injection Hall as <-.
  exists i, ctx. repeat split; auto.
  intros j Hj. unfold all_sc_irts in Hj. apply in_flat_map in Hj as (a & Ha' & Hj).
  destruct (subject a) as [scs|] eqn:Es; [|contradiction].
  rewrite forallb_forall in F. apply (split_sealed_in fl) in Ha'. fold plain enc in Ha'.
  specialize (F a (in_or_app _ _ _ Ha')). unfold assertion_answers in F. rewrite Es in F.
  apply andb_prop in F as [_ F]. apply andb_prop in F as [F _].
  exact (sc_all_match_irts i scs F j Hj).
Qed.

Lemma sealed_accepted fl x : accepted_when_fine x (accept_sealed V2 fl x).
Proof.
  intros i ctx scs (Hi & Hl & Hall) Hv Hs Has Hex. apply version_ok_iff in Hv.
  assert (Hans : answered x = Some i) by (unfold answered; rewrite Hi, Hl; reflexivity).
  assert (Hd : forall d, In (Data d) scs -> d = Some i).
  { intros d Hd. apply (Hall {| n_authn := 1; subject := Some scs |} scs d); [rewrite Has; left; reflexivity|reflexivity|exact Hd]. }
  assert (Hm : sc_all_match i scs = true) by (apply sc_all_match_iff; exact Hd).
  assert (Hok : assertion_answers i {| n_authn := 1; subject := Some scs |} = true).
  { unfold assertion_answers. cbn [n_authn subject Nat.eqb andb]. rewrite Hm. cbn [andb]. apply negb_true_iff, Nat.eqb_neq.
    exact (count_answers_fine i scs Hd Hex). }
  unfold accept_sealed. cbv zeta. rewrite Has. cbn [split_sealed]. destruct (hd false fl); cbn [fst snd app].
  - unfold instance_invalid, loads. cbn [with_assertions assertions irt outstanding allow_unsolicited existsb check_sc_irt].
    rewrite Hi, Hl, Hv, Hs, success_const, String.eqb_refl. cbn [negb count_ok length Nat.eqb orb].
    rewrite (all_assertions_answered x i ctx _ Hans). cbn [forallb]. rewrite Hok. reflexivity.
  - unfold instance_invalid, loads. cbn [with_assertions assertions irt outstanding allow_unsolicited existsb check_sc_irt subject orb].
    rewrite Hi, Hl, Hm, Hv, Hs, success_const, String.eqb_refl. cbn [negb count_ok length Nat.eqb orb].
    rewrite (all_assertions_answered x i ctx _ Hans). cbn [forallb]. rewrite Hok. reflexivity.
Qed.

Lemma sealed_status_raised fl x : status_raised_when_fine x (accept_sealed V2 fl x).
Proof.
  intros i ctx (Hi & Hl & Hall) Hv Hs Hsub. apply version_ok_iff in Hv.
  assert (E : String.eqb (status_top x) STATUS_SUCCESS = false).
  { rewrite success_const. apply String.eqb_neq; exact Hs. }
  set (plain := fst (split_sealed fl (assertions x))).
  assert (Hp : forall a, In a plain -> In a (assertions x)).
  { intros a Ha. apply (split_sealed_in fl). left. exact Ha. }
  unfold accept_sealed. cbv zeta. fold plain.
  rewrite (instance_valid_when_subjects (with_assertions x plain)) by (intros a Ha; apply Hsub, Hp, Ha).
  rewrite (loads_fine (with_assertions x plain) i ctx).
  - rewrite Hv, E. cbn [negb]. eexists; reflexivity.
  - split; [exact Hi|]. split; [exact Hl|]. intros a scs d Ha. apply Hall, Hp, Ha.
Qed.

(* ---- the back channel with sealed assertions ---- *)
Lemma back_channel_sealed_status fl x : status_respected x (accept_back_channel_sealed fl x).
Proof.
  intros Hne. assert (E : String.eqb (status_top x) STATUS_SUCCESS = false).
  { rewrite success_const. apply String.eqb_neq; exact Hne. }
  unfold accept_back_channel_sealed. cbv zeta. destruct (instance_invalid _); [split; [reflexivity|discriminate]|].
  destruct (version_ok (version x)); cbn [negb]; [|split; [reflexivity|discriminate]].
  rewrite E. cbn [negb]. split; [reflexivity|]. intros c [= <-]. apply status_class_ok_model.
Qed.

Lemma back_channel_sealed_identity_inv fl x cf :
  accept_back_channel_sealed fl x = Identity cf ->
  cf = None /\ version_ok (version x) = true
  /\ count_ok (fst (split_sealed fl (assertions x))) (snd (split_sealed fl (assertions x))) = true
  /\ forallb back_channel_assertion (fst (split_sealed fl (assertions x)) ++ snd (split_sealed fl (assertions x))) = true.
Proof.
  unfold accept_back_channel_sealed. cbv zeta. destruct (instance_invalid _); [discriminate|].
  destruct (version_ok (version x)); cbn [negb]; [|discriminate].
  destruct (String.eqb (status_top x) STATUS_SUCCESS); cbn [negb]; [|discriminate].
  destruct (count_ok _ _); cbn [negb]; [|discriminate].
  destruct (forallb _ _); [|discriminate]. intros [= <-]. repeat split; reflexivity.
Qed.

Lemma back_channel_sealed_shape fl x : shape_respected x (accept_back_channel_sealed fl x).
Proof.
  intros H. destruct (accept_back_channel_sealed fl x) as [cf| |] eqn:A; try reflexivity. exfalso.
  apply back_channel_sealed_identity_inv in A as (_ & Hv & Hc & Hall). apply version_ok_iff in Hv.
  destruct H as [H|[H|(b & Hb & H)]].
  - contradiction.
  - exact (count_ok_nonempty _ _ Hc H).
  - rewrite forallb_forall in Hall. specialize (Hall b (in_or_app _ _ _ (proj1 (split_sealed_in fl _ b) Hb))).
    unfold back_channel_assertion in Hall. apply andb_prop in Hall as [Hn Hs]. apply Nat.eqb_eq in Hn.
    destruct H as [H|H]; [contradiction|]. rewrite H in Hs. discriminate.
Qed.

(* ---- in clear nothing changed: the general decision is [accept] / [accept_back_channel], with and without
   the rule of b84752ad ("for assertions sent in clear this repeats the existing check") ---- *)
Lemma conf_f_false x scs : forall cf k, confirmations_f false x cf k scs = confirmations x cf k scs.
Proof.
  induction scs as [|s r IH]; intros cf k; cbn [confirmations_f confirmations andb]; [reflexivity|].
  destruct s as [|d]; [apply IH|]. destruct cf as [c|]; [apply IH|]. destruct d as [j|]; [|apply IH].
  destruct (is_empty j); [apply IH|]. destruct (lookup j (outstanding x)); [apply IH|].
  destruct (allow_unsolicited x); [apply IH|reflexivity].
Qed.

Lemma conf_f_clear x scs :
  match answered x with Some i => sc_all_match i scs = true | None => True end ->
  forall cf k, confirmations_f true x cf k scs = confirmations x cf k scs.
Proof.
  induction scs as [|s r IH]; intros H cf k; cbn [confirmations_f confirmations andb]; [reflexivity|].
  destruct s as [|d].
  - apply IH. destruct (answered x); [exact H|exact I].
  - assert (Hr : match answered x with Some i => sc_all_match i r = true | None => True end).
    { destruct (answered x); [|exact I]. cbn [sc_all_match] in H. apply andb_prop in H as [_ H]. exact H. }
    assert (Hd : match answered x with Some i => negb (answers i d) | None => false end = false).
    { destruct (answered x); [|reflexivity]. cbn [sc_all_match] in H. apply andb_prop in H as [H _].
      unfold answers. rewrite H. reflexivity. }
    rewrite Hd. destruct cf as [c|]; [apply IH, Hr|]. destruct d as [j|]; [|apply IH, Hr].
    destruct (is_empty j); [apply IH, Hr|]. destruct (lookup j (outstanding x)); [apply IH, Hr|].
    destruct (allow_unsolicited x); [apply IH, Hr|reflexivity].
Qed.

Lemma loads_all_match x cf a scs : loads x = Some cf -> assertions x = [a] -> subject a = Some scs ->
  match answered x with Some i => sc_all_match i scs = true | None => True end.
Proof.
  unfold loads, answered. intros H Has Hs. destruct (irt x) as [i|]; [|exact I].
  destruct (lookup i (outstanding x)); [|exact I]. rewrite Has in H. cbn [check_sc_irt] in H. rewrite Hs in H.
  destruct (sc_all_match i scs); [reflexivity|discriminate].
Qed.

Lemma accept_sealed_plain f fl x : forallb negb fl = true -> accept_sealed f fl x = accept x.
Proof.
  intros Hfl. unfold accept_sealed. cbv zeta. rewrite (split_sealed_plain fl _ Hfl). cbn [fst snd]. rewrite app_nil_r.
  change (instance_invalid (with_assertions x (assertions x))) with (instance_invalid x).
  change (loads (with_assertions x (assertions x))) with (loads x).
  unfold accept. destruct (instance_invalid x); [reflexivity|]. destruct (loads x) as [cf|] eqn:El; [|reflexivity].
  destruct (version_ok (version x)); cbn [negb]; [|reflexivity].
  destruct (String.eqb (status_top x) STATUS_SUCCESS); cbn [negb]; [|reflexivity].
  destruct (assertions x) as [|a [|b r]] eqn:Has; try reflexivity.
  cbn [count_ok length Nat.eqb orb negb all_assertions]. unfold one_assertion.
  destruct (n_authn a =? 1)%nat; cbn [negb]; [|reflexivity].
  destruct (subject a) as [scs|] eqn:Es; [|reflexivity].
  pose proof (loads_all_match x cf a scs El Has Es) as Hm.
  assert (E0 : strict f && match answered x with Some i => negb (sc_all_match i scs) | None => false end = false).
  { destruct (answered x); [rewrite Hm|]; apply andb_false_r. }
  rewrite E0.
  assert (E : confirmations_f (skips f) x cf 0 scs = confirmations x cf 0 scs).
  { destruct f; cbn [skips]; [apply conf_f_false|apply conf_f_clear; exact Hm|apply conf_f_clear; exact Hm]. }
  rewrite E. destruct (confirmations x cf 0 scs) as [[cf' kept]|]; [|reflexivity].
  destruct (kept =? 0)%nat; [reflexivity|]. destruct (allow_unsolicited x); [reflexivity|]. destruct cf'; reflexivity.
Qed.

Lemma accept_back_channel_sealed_plain fl x : forallb negb fl = true -> accept_back_channel_sealed fl x = accept_back_channel x.
Proof.
  intros Hfl. unfold accept_back_channel_sealed. cbv zeta. rewrite (split_sealed_plain fl _ Hfl). cbn [fst snd]. rewrite app_nil_r.
  change (instance_invalid (with_assertions x (assertions x))) with (instance_invalid x).
  unfold accept_back_channel. destruct (instance_invalid x); [reflexivity|].
  destruct (version_ok (version x)); cbn [negb]; [|reflexivity].
  destruct (String.eqb (status_top x) STATUS_SUCCESS); cbn [negb]; [|reflexivity].
  destruct (assertions x) as [|a [|b r]]; try reflexivity.
  cbn [count_ok length Nat.eqb orb negb forallb]. unfold back_channel_assertion.
  destruct (n_authn a =? 1)%nat; cbn [negb andb]; [|reflexivity].
  destruct (subject a) as [scs|]; [|reflexivity]. destruct (count_data scs =? 0)%nat; reflexivity.
Qed.

Lemma receive_plain_eq f y : forallb negb (sealed y) = true -> receive_f f y = receive_plain y.
Proof.
  intros H. unfold receive_f, receive_plain.
  rewrite (accept_sealed_plain f _ _ H), (accept_back_channel_sealed_plain _ _ H). reflexivity.
Qed.

Lemma fix_is_noop_in_clear y : forallb negb (sealed y) = true -> receive y = receive_v0 y /\ receive_v1 y = receive_v0 y.
Proof. intros H. unfold receive, receive_v1, receive_v0. rewrite !(receive_plain_eq _ y H). split; reflexivity. Qed.

(* the two browser bindings are treated alike, and as an asynchronous hop: the decision on a Response
   that arrived over HTTP-POST or HTTP-Redirect, unaddressed or addressed to that binding's consumer
   endpoint, is one in which the binding does not occur; with every assertion in clear it is [accept] *)
Lemma browser_is_accept_sealed y : browser (via y) = true -> well_addressed y = true ->
  receive y = accept_sealed V2 (sealed y) (resp y).
Proof. unfold receive, receive_f, well_addressed. destruct (via y), (dest y); cbn; congruence. Qed.

Lemma browser_is_accept y : browser (via y) = true -> well_addressed y = true -> forallb negb (sealed y) = true ->
  receive y = accept (resp y).
Proof. intros Hb Hw Hs. rewrite (browser_is_accept_sealed y Hb Hw). apply accept_sealed_plain, Hs. Qed.

(* addressed elsewhere (incl. the OTHER binding's endpoint): nothing comes out *)
Lemma browser_misaddressed f y : browser (via y) = true -> well_addressed y = false -> receive_f f y = NoId.
Proof. unfold receive_f, well_addressed. destruct (via y), (dest y); cbn; congruence. Qed.

Lemma c06_delivery_holds y : spec_d y (receive y).
Proof.
  unfold spec_d. destruct (browser (via y)) eqn:Hb.
  - destruct (well_addressed y) eqn:Hw.
    + rewrite (browser_is_accept_sealed y Hb Hw).
      split; [intros _; apply sealed_correlated|]. split; [apply sealed_status|]. split; [apply sealed_shape|].
      intros _ _. split; [apply sealed_accepted|apply sealed_status_raised].
    + unfold receive. rewrite (browser_misaddressed V2 y Hb Hw).
      split; [intros _; apply noid_correlated|]. split; [apply noid_status|]. split; [apply noid_shape|].
      intros _ H; discriminate H.
  - split; [intros H; discriminate H|].
    assert (Hs : status_respected (resp y) (receive y) /\ shape_respected (resp y) (receive y)).
    { unfold receive, receive_f. destruct (via y); try discriminate Hb; cbn [unravels asynchop negb].
      - destruct (destination_ok Artifact (dest y)); [split; [apply sealed_status|apply sealed_shape]|split; [apply noid_status|apply noid_shape]].
      - split; [apply back_channel_sealed_status|apply back_channel_sealed_shape].
      - split; [apply noid_status|apply noid_shape]. }
    destruct Hs as [Hs1 Hs2]. split; [exact Hs1|]. split; [exact Hs2|]. intros H; discriminate H.
Qed.

(* what the browser-binding guard of the correlation clause leaves out, as coded: over the SOAP back
   channel the outstanding set is not consulted and no request context is handed back *)
Lemma back_channel_uncorrelated y cf : via y = Soap -> receive y = Identity cf -> cf = None.
Proof.
  unfold receive, receive_f. intros ->. cbn [unravels asynchop negb]. intros H.
  apply back_channel_sealed_identity_inv in H as [H _]. exact H.
Qed.

Lemma back_channel_ignores_outstanding y o a :
  via y = Soap ->
  receive {| via := Soap; dest := dest y; sealed := sealed y;
             resp := {| allow_unsolicited := a; outstanding := o; irt := irt (resp y); version := version (resp y);
                        status_top := status_top (resp y); status_second := status_second (resp y);
                        assertions := assertions (resp y) |} |} = receive y.
Proof. intros Hv. unfold receive, receive_f. rewrite Hv. reflexivity. Qed.

(* ---- findings ---- *)
Definition stray_sealed : delivery :=
  {| via := Post; dest := DPost; sealed := [true];
     resp := {| allow_unsolicited := false; outstanding := [("req-1", "/ctx1"); ("req-2", "/ctx2")]; irt := Some "req-1";
                version := (2, 0); status_top := SUCCESS; status_second := None;
                assertions := [{| n_authn := 1; subject := Some [Data (Some "req-2")] |}] |} |}.

Definition partly_stray_sealed : delivery :=
  {| via := Post; dest := DPost; sealed := [true];
     resp := {| allow_unsolicited := false; outstanding := [("req-1", "/ctx1"); ("req-2", "/ctx2")]; irt := Some "req-1";
                version := (2, 0); status_top := SUCCESS; status_second := None;
                assertions := [{| n_authn := 1; subject := Some [Data (Some "req-2"); Data (Some "req-1")] |}] |} |}.

Lemma stray_not_correlated y :
  browser (via y) = true -> allow_unsolicited (resp y) = false -> irt (resp y) = Some "req-1" ->
  In "req-2" (all_sc_irts (resp y)) ->
  forall v, v = Identity (Some "/ctx1") -> ~ spec_d y v.
Proof.
  intros Hb Ha Hi Hin v -> (Hc & _).
  destruct (Hc Hb Ha (Some "/ctx1") eq_refl) as (i & ctx & Hi' & _ & _ & Hall).
  rewrite Hi in Hi'. injection Hi' as <-. specialize (Hall "req-2" Hin). discriminate Hall.
Qed.

(* C06-F2 (fixed by b84752ad): the pinned snapshot accepted an encrypted assertion whose only confirmation answers
   ANOTHER outstanding request, with the context of the Response's request *)
Lemma encrypted_correlation_v0_refuted : exists y, partial_match y = false /\ ~ spec_d y (receive_v0 y).
Proof.
  exists stray_sealed. split; [reflexivity|].
  apply (stray_not_correlated stray_sealed eq_refl eq_refl eq_refl (or_introl eq_refl)). vm_compute. reflexivity.
Qed.

(* C06-F3 (fixed by e76039c1): with b84752ad alone [stray, answering] was still accepted when encrypted *)
Lemma encrypted_partial_match_v1_refuted : exists y, partial_match y = true /\ ~ spec_d y (receive_v1 y).
Proof.
  exists partly_stray_sealed. split; [reflexivity|].
  apply (stray_not_correlated partly_stray_sealed eq_refl eq_refl eq_refl (or_introl eq_refl)). vm_compute. reflexivity.
Qed.

(* ... b84752ad did repair the first delivery, and both are refused now *)
Lemma encrypted_correlation_fixed :
  receive_v1 stray_sealed = NoId /\ receive stray_sealed = NoId /\ receive partly_stray_sealed = NoId.
Proof. vm_compute. repeat split; reflexivity. Qed.

(* non-vacuity of the delivery layer: Redirect is correlated like POST; an unknown InResponseTo is refused over both;
   the other binding's endpoint as Destination is refused; the back channel does not correlate; an encrypted
   assertion is correlated like one in clear; one in clear beside an encrypted one passes the count test *)
Example delivery_example :
  let fine := {| allow_unsolicited := false; outstanding := [("req-1", "/ctx1"); ("req-2", "/ctx2")]; irt := Some "req-1";
                 version := (2, 0); status_top := SUCCESS; status_second := None;
                 assertions := [{| n_authn := 1; subject := Some [Data (Some "req-1")] |}] |} in
  let stray := {| allow_unsolicited := false; outstanding := outstanding fine; irt := Some "unknown-9";
                  version := (2, 0); status_top := SUCCESS; status_second := None;
                  assertions := [{| n_authn := 1; subject := Some [Data (Some "unknown-9")] |}] |} in
  let two := with_assertions fine (assertions fine ++ assertions fine) in
  receive {| via := Redirect; dest := DRedirect; sealed := []; resp := fine |} = Identity (Some "/ctx1")
  /\ receive {| via := Post; dest := DPost; sealed := []; resp := fine |} = Identity (Some "/ctx1")
  /\ receive {| via := Redirect; dest := DRedirect; sealed := []; resp := stray |} = NoId
  /\ receive {| via := Post; dest := DAbsent; sealed := []; resp := stray |} = NoId
  /\ receive {| via := Redirect; dest := DPost; sealed := []; resp := fine |} = NoId
  /\ receive {| via := Soap; dest := DPost; sealed := []; resp := stray |} = Identity None
  /\ receive {| via := Post; dest := DPost; sealed := [true]; resp := fine |} = Identity (Some "/ctx1")
  /\ receive {| via := Post; dest := DPost; sealed := [true]; resp := stray |} = NoId
  /\ receive {| via := Post; dest := DPost; sealed := [false; true]; resp := two |} = Identity (Some "/ctx1")
  /\ receive {| via := Post; dest := DPost; sealed := []; resp := two |} = NoId
  /\ receive {| via := Post; dest := DPost; sealed := [true; true]; resp := two |} = NoId.
Proof. vm_compute. repeat split; reflexivity. Qed.

(* ---- the configuration: how allow_unsolicited is written ---- *)
(* the code's word lists are the spec's *)
Lemma words_agree : init_yes_words = yes_words /\ init_no_words = no_words.
Proof. split; reflexivity. Qed.

(* the receiver runs with exactly what the option says; an option that says nothing definite builds no receiver *)
Lemma effective_allow_is_meaning o : effective_allow o = meaning o.
Proof.
  destruct o as [| |c|s|n]; try reflexivity.
  unfold effective_allow, load_special_val.
  destruct (String.eqb_spec s "true") as [->|Ht]; [reflexivity|].
  destruct (String.eqb_spec s "false") as [->|Hf]; [reflexivity|].
  cbn [client_init_val meaning]. unfold says_yes, says_no.
  change init_yes_words with yes_words. change init_no_words with no_words.
  destruct (mem (lower (strip s)) yes_words); [reflexivity|].
  destruct (mem (lower (strip s)) no_words); reflexivity.
Qed.

Lemma option_read_as_written o b : meaning o = Some b -> effective_allow o = Some b.
Proof. intros H. rewrite effective_allow_is_meaning. exact H. Qed.

Lemma c06_configured_holds s y : spec_c s y (receive_cfg s y).
Proof.
  intros b Hb. unfold receive_cfg. rewrite (option_read_as_written _ _ Hb). apply c06_delivery_holds.
Qed.

(* a set-up whose option says nothing definite yields no identity, whatever is delivered *)
Lemma undefined_option_no_identity s y : meaning (opt s) = None -> receive_cfg s y = NoId.
Proof. intros H. unfold receive_cfg. rewrite effective_allow_is_meaning, H. reflexivity. Qed.

(* -- the pinned state before 6bdc97cd *)
Lemma effective_allow_v0_str s :
  effective_allow_v0 (OStr s) = if String.eqb s "true" then true else if String.eqb s "false" then false else negb (is_empty s).
Proof.
  unfold effective_allow_v0, load_special_val.
  destruct (String.eqb s "true") eqn:Ht; [reflexivity|].
  destruct (String.eqb s "false") eqn:Hf; [reflexivity|].
  unfold client_init_val_v0. rewrite Ht. reflexivity.
Qed.

(* outside the class C06-F4 the old receiver ran with what the option says *)
Lemma option_read_as_written_v0 o b : misread o = false -> meaning o = Some b -> effective_allow_v0 o = b.
Proof.
  destruct o as [| |c|s|n]; cbn [misread meaning]; intros Hm Hb.
  - injection Hb as <-. reflexivity.
  - injection Hb as <-. reflexivity.
  - injection Hb as <-. reflexivity.
  - rewrite effective_allow_v0_str.
    destruct (String.eqb_spec s "true") as [->|Ht].
    + vm_compute in Hb. injection Hb as <-. reflexivity.
    + destruct (String.eqb_spec s "false") as [->|Hf].
      * vm_compute in Hb. injection Hb as <-. reflexivity.
      * destruct (says_yes s) eqn:Hy.
        -- injection Hb as <-. destruct s; [vm_compute in Hy; discriminate Hy | reflexivity].
        -- destruct (says_no s) eqn:Hn; [|discriminate Hb]. injection Hb as <-.
           cbn [andb negb] in Hm. destruct (is_empty s); [reflexivity | discriminate Hm].
  - injection Hb as <-. reflexivity.
Qed.

Lemma c06_configured_v0_holds s y : misread (opt s) = false -> spec_c s y (receive_cfg_v0 s y).
Proof.
  intros Hm b Hb. unfold receive_cfg_v0. rewrite (option_read_as_written_v0 _ _ Hm Hb). apply c06_delivery_holds.
Qed.

(* the documented spellings (absent, None, booleans, "true" / "false") and numbers are read as documented *)
Lemma documented_effective :
  effective_allow OAbsent = Some false /\ effective_allow ONone = Some false /\ (forall b, effective_allow (OBool b) = Some b)
  /\ effective_allow (OStr "true") = Some true /\ effective_allow (OStr "false") = Some false
  /\ effective_allow (OInt 0) = Some false /\ effective_allow (OInt 1) = Some true.
Proof. repeat split; reflexivity. Qed.

(* how the configuration object was made does not enter the decision *)
Lemma loader_irrelevant o h1 h2 y : receive_cfg {| opt := o; how := h1 |} y = receive_cfg {| opt := o; how := h2 |} y.
Proof. reflexivity. Qed.

(* C06-F4 (fixed by 6bdc97cd): allow_unsolicited: "False" - an unsolicited Response was turned into identity *)
Definition unsolicited_post : delivery :=
  {| via := Post; dest := DPost; sealed := [];
     resp := {| allow_unsolicited := false; outstanding := [("req-1", "/ctx1")]; irt := Some "unknown-9";
                version := (2, 0); status_top := SUCCESS; status_second := None;
                assertions := [{| n_authn := 1; subject := Some [Data (Some "unknown-9")] |}] |} |}.

Lemma misread_option_v0_refuted :
  exists s y, misread (opt s) = true /\ meaning (opt s) = Some false /\ ~ spec_c s y (receive_cfg_v0 s y).
Proof.
  exists {| opt := OStr "False"; how := LSPConfig |}, unsolicited_post.
  split; [reflexivity|]. split; [reflexivity|].
  intros H. specialize (H false eq_refl). destruct H as (Hc & _).
  destruct (Hc eq_refl eq_refl None) as (i & ctx & Hi & Hl & _); [vm_compute; reflexivity|].
  cbn in Hi. injection Hi as <-. vm_compute in Hl. discriminate Hl.
Qed.

(* ... the same Response is refused now under every way of not allowing it, "False" included, accepted (without
   request context) under the ways of allowing it, and an option that says nothing definite builds no receiver *)
Example configured_example :
  let at_ o := receive_cfg {| opt := o; how := LSPConfig |} unsolicited_post in
  at_ OAbsent = NoId /\ at_ ONone = NoId /\ at_ (OBool false) = NoId /\ at_ (OStr "false") = NoId /\ at_ (OInt 0) = NoId
  /\ at_ (OStr "") = NoId /\ at_ (OStr "False") = NoId /\ at_ (OStr " no ") = NoId /\ at_ (OStr "0") = NoId
  /\ at_ (OBool true) = Identity None /\ at_ (OStr "true") = Identity None /\ at_ (OInt 1) = Identity None
  /\ at_ (OStr "YES") = Identity None
  /\ at_ (OStr "maybe") = NoId
  /\ receive_cfg_v0 {| opt := OStr "False"; how := LSPConfig |} unsolicited_post = Identity None
  /\ receive_cfg_v0 {| opt := OStr "maybe"; how := LSPConfig |} unsolicited_post = Identity None.
Proof. vm_compute. repeat split; reflexivity. Qed.
