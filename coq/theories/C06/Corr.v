From Coq Require Import String List Bool Arith.
From Verif Require Import Base.Str Base.Run C06.Model C06.Spec.
Import ListNotations.

Definition case := (input * verdict)%type.

Definition mk (allow : bool) (out : list (string * string)) (irt : option string) (version : nat * nat)
  (top : string) (second : option string) (assertions : list assertion_in) (obs : verdict) : case :=
  ({| allow_unsolicited := allow; outstanding := out; irt := irt; version := version; status_top := top;
      status_second := second; assertions := assertions |}, obs).

Definition agrees (c : case) : bool := verdict_eqb (accept (fst c)) (snd c).
Definition holds (c : case) : bool := spec_b (fst c) (snd c).
Definition cls (c : case) : nat := 0.
Definition run := run_cases agrees holds cls.
Definition explain (c : case) :=
  (accept (fst c), (correlated_b (fst c) (snd c), status_respected_b (fst c) (snd c), shape_respected_b (fst c) (snd c),
   accepted_when_fine_b (fst c) (snd c), status_raised_when_fine_b (fst c) (snd c))).
