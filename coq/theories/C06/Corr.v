From Coq Require Import String List Bool Arith.
From Verif Require Import Base.Str Base.Run C06.Model C06.Spec.
Import ListNotations.

(* a case: the delivery (binding the caller names, Response/@Destination, which assertions arrive encrypted,
   abstract Response and receiver state) and the verdict observed on the real
   Saml2Client.parse_authn_request_response *)
Definition case := (delivery * verdict)%type.

Definition mk (b : binding) (d : destination) (fl : list bool) (allow : bool) (out : list (string * string))
  (irt : option string) (version : nat * nat) (top : string) (second : option string)
  (assertions : list assertion_in) (obs : verdict) : case :=
  ({| via := b; dest := d; sealed := fl;
      resp := {| allow_unsolicited := allow; outstanding := out; irt := irt; version := version; status_top := top;
                 status_second := second; assertions := assertions |} |}, obs).

Definition agrees (c : case) : bool := verdict_eqb (receive (fst c)) (snd c).
Definition holds (c : case) : bool := spec_d_b (fst c) (snd c).

(* an assertion that arrives encrypted has a confirmation whose data does not answer the request the Response answers *)
Definition sealed_stray (y : delivery) : bool :=
  match answered (resp y) with
  | Some i => existsb (fun a => match subject a with Some scs => existsb (sc_strays i) scs | None => false end)
                      (snd (split_sealed (sealed y) (assertions (resp y))))
  | None => false
  end.

(* classes (looked at only when [holds] is false, and only when it is the correlation clause that fails):
   3 = C06-F3 (fixed by e76039c1): encrypted assertion, some confirmations answer the request, some do not;
   2 = C06-F2 (fixed by b84752ad): encrypted assertion with a stray confirmation, none of the above *)
Definition cls (c : case) : nat :=
  let y := fst c in
  if negb (browser (via y)) || correlated_b (resp y) (snd c) then 0
  else if partial_match y then 3
  else if sealed_stray y then 2 else 0.

Definition run := run_cases agrees holds cls.
Definition explain (c : case) :=
  let x := resp (fst c) in
  (receive (fst c), receive_v1 (fst c), receive_v0 (fst c), (browser (via (fst c)), well_addressed (fst c), partial_match (fst c), cls c),
   (correlated_b x (snd c), status_respected_b x (snd c), shape_respected_b x (snd c),
    accepted_when_fine_b x (snd c), status_raised_when_fine_b x (snd c))).
