From Coq Require Import String List Bool Arith.
From Verif Require Import Base.Str Base.Run C06.Model C06.Spec C06.History.
Import ListNotations.

(* a case: the set-up of the receiver (how the option allow_unsolicited is written, how the configuration object was
   made), the delivery (binding the caller names, Response/@Destination, which assertions arrive encrypted, abstract
   Response and outstanding set; its allow_unsolicited field is a placeholder: the model puts there what the code
   makes of the option, the spec what the option says), the Method each SubjectConfirmation names (per assertion, per
   confirmation; [] = bearer throughout), the verdict observed on the real Saml2Client.parse_authn_request_response, and
   the HISTORY: what the same process handled before the Response was delivered (History.v; [] = the long-lived client
   of the worker process, which handled other cases' authentication Responses only) *)
Definition case := (history * (setup * delivery_m * verdict))%type.

Definition mk (h : history) (b : binding) (d : destination) (fl : list bool) (mss : list (list cm)) (s : setup) (out : list (string * string))
  (irt : option string) (version : nat * nat) (top : string) (second : option string)
  (assertions : list assertion_in) (obs : verdict) : case :=
  (h, (s, {| base := {| via := b; dest := d; sealed := fl;
                    resp := {| allow_unsolicited := false; outstanding := out; irt := irt; version := version; status_top := top;
                               status_second := second; assertions := assertions |} |};
         methods := mss |}, obs)).

Definition c_history (c : case) : history := fst c.
Definition c_setup (c : case) : setup := fst (fst (snd c)).
Definition c_delivery_m (c : case) : delivery_m := snd (fst (snd c)).
Definition c_delivery (c : case) : delivery := base (c_delivery_m c).
Definition c_verdict (c : case) : verdict := snd (snd c).

Definition agrees (c : case) : bool := verdict_eqb (receive_h (c_history c) (c_setup c) (c_delivery_m c)) (c_verdict c).
Definition holds (c : case) : bool := spec_h_b (c_history c) (c_setup c) (c_delivery_m c) (c_verdict c).

(* an assertion that arrives encrypted has a confirmation whose data does not answer the request the Response answers *)
Definition sealed_stray (y : delivery) : bool :=
  match answered (resp y) with
  | Some i => existsb (fun a => match subject a with Some scs => existsb (sc_strays i) scs | None => false end)
                      (snd (split_sealed (sealed y) (assertions (resp y))))
  | None => false
  end.

(* classes (looked at only when [holds] is false, and only when it is the correlation clause that fails):
   4 = C06-F4 (fixed by 6bdc97cd): the option is a string that says no in another spelling than "false";
   3 = C06-F3 (fixed by e76039c1): encrypted assertion, some confirmations answer the request, some do not;
   2 = C06-F2 (fixed by b84752ad): encrypted assertion with a stray confirmation, none of the above *)
Definition cls (c : case) : nat :=
  match meaning (opt (c_setup c)) with
  | None => 0
  | Some b =>
      let y := configure b (c_delivery c) in
      if negb (browser (via y)) || correlated_b (resp y) (c_verdict c) then 0
      else if misread (opt (c_setup c)) then 4
      else if partial_match y then 3
      else if sealed_stray y then 2 else 0
  end.

Definition run := run_cases agrees holds cls.
Definition explain (c : case) :=
  let s := c_setup c in
  let y := configure (match meaning (opt s) with Some b => b | None => false end) (c_delivery c) in
  let x := resp y in
  (receive_h (c_history c) s (c_delivery_m c), receive_h_shared (c_history c) s (c_delivery_m c), receive_cfg_m s (c_delivery_m c), receive_cfg s (c_delivery c), receive_cfg_v0 s (c_delivery c),
   receive_m_bearer (configure_m (match meaning (opt s) with Some b => b | None => false end) (c_delivery_m c)), (meaning (opt s), effective_allow (opt s), misread (opt s)),
   (browser (via y), well_addressed y, partial_match y, cls c),
   (correlated_b x (c_verdict c), every_data_answers_b x (c_verdict c), status_respected_b x (c_verdict c), shape_respected_b x (c_verdict c),
    accepted_when_fine_m_b (configure_m (match meaning (opt s) with Some b => b | None => false end) (c_delivery_m c)) (c_verdict c),
    status_raised_when_fine_b x (c_verdict c))).
