From Coq Require Import String List Bool Arith.
From Verif Require Import Base.Str Base.Run C06.Model C06.Spec.
Import ListNotations.

(* a case: the delivery (binding the caller names, Response/@Destination, abstract Response and receiver
   state) and the verdict observed on the real Saml2Client.parse_authn_request_response *)
Definition case := (delivery * verdict)%type.

Definition mk (b : binding) (d : destination) (allow : bool) (out : list (string * string)) (irt : option string)
  (version : nat * nat) (top : string) (second : option string) (assertions : list assertion_in) (obs : verdict) : case :=
  ({| via := b; dest := d;
      resp := {| allow_unsolicited := allow; outstanding := out; irt := irt; version := version; status_top := top;
                 status_second := second; assertions := assertions |} |}, obs).

Definition agrees (c : case) : bool := verdict_eqb (receive (fst c)) (snd c).
Definition holds (c : case) : bool := spec_d_b (fst c) (snd c).
Definition cls (c : case) : nat := 0.
Definition run := run_cases agrees holds cls.
Definition explain (c : case) :=
  let x := resp (fst c) in
  (receive (fst c), (browser (via (fst c)), well_addressed (fst c)),
   (correlated_b x (snd c), status_respected_b x (snd c), shape_respected_b x (snd c),
    accepted_when_fine_b x (snd c), status_raised_when_fine_b x (snd c))).
