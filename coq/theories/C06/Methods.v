(* C06/Methods.v — proofs for the confirmation-method layer (Model.receive_m, Spec.spec_dm). *)
From Coq Require Import String List Bool Arith Lia.
From Verif Require Import Base.Str C06.Model C06.Spec C06.Proofs C06.Reflect.
From VerifGen Require Import C06Tables.
Import ListNotations.
Open Scope string_scope.

(* ---- tagging is a decoration: what it decorates is still there ---- *)
Lemma tag_snd ms scs : map snd (tag ms scs) = scs.
Proof. revert ms. induction scs as [|s r IH]; intros ms; cbn [tag map snd]; [reflexivity|]. rewrite IH. reflexivity. Qed.

Lemma tag_assertions_snd mss l : map snd (tag_assertions mss l) = l.
Proof. revert mss. induction l as [|a r IH]; intros mss; cbn [tag_assertions map snd]; [reflexivity|]. rewrite IH. reflexivity. Qed.

Lemma split_flags_snd {A B} (f : A -> B) fl (l : list A) :
  map f (fst (split_flags fl l)) = fst (split_flags fl (map f l))
  /\ map f (snd (split_flags fl l)) = snd (split_flags fl (map f l)).
Proof.
  revert fl. induction l as [|a r IH]; intros fl; cbn [split_flags map]; [split; reflexivity|].
  destruct (IH (tl fl)) as [I1 I2]. destruct (hd false fl); cbn [fst snd map]; rewrite I1, I2; split; reflexivity.
Qed.

Lemma split_flags_sealed fl l : split_flags fl l = split_sealed fl l.
Proof.
  revert fl. induction l as [|a r IH]; intros fl; cbn [split_flags split_sealed]; [reflexivity|]. rewrite IH. reflexivity.
Qed.

Lemma tagged_split fl mss l :
  map snd (fst (split_flags fl (tag_assertions mss l)) ++ snd (split_flags fl (tag_assertions mss l)))
  = (fst (split_sealed fl l) ++ snd (split_sealed fl l))%list.
Proof.
  rewrite map_app. destruct (split_flags_snd (@snd (list cm) assertion_in) fl (tag_assertions mss l)) as [H1 H2].
  rewrite H1, H2, tag_assertions_snd, split_flags_sealed. reflexivity.
Qed.

Lemma split_flags_in {A} fl (l : list A) a : In a (fst (split_flags fl l) ++ snd (split_flags fl l)) -> In a l.
Proof.
  revert fl. induction l as [|b r IH]; intros fl; cbn [split_flags]; [cbn; tauto|].
  specialize (IH (tl fl)). destruct (hd false fl); cbn [fst snd]; intros H.
  - apply in_app_or in H as [H|H]; [right; apply IH, in_or_app; left; exact H|].
    destruct H as [H|H]; [left; exact H|right; apply IH, in_or_app; right; exact H].
  - destruct H as [H|H]; [left; exact H|right; apply IH; exact H].
Qed.

(* ---- the test on InResponseTo that does not ask for the method ---- *)
Lemma sc_all_match_every i l : sc_all_match_m every_method i l = sc_all_match i (map snd l).
Proof.
  induction l as [|[m s] r IH]; cbn [sc_all_match_m sc_all_match map snd]; [reflexivity|].
  destruct s as [|d]; [exact IH|]. rewrite IH. reflexivity.
Qed.

Lemma sc_all_match_any chk i l : sc_all_match i (map snd l) = true -> sc_all_match_m chk i l = true.
Proof.
  induction l as [|[m s] r IH]; cbn [sc_all_match_m sc_all_match map snd]; [reflexivity|].
  destruct s as [|d]; [exact IH|]. intros H. apply andb_prop in H as [Hd Hr]. unfold answers. rewrite Hd, (IH Hr).
  rewrite orb_true_r. reflexivity.
Qed.

(* ---- came_from, once set, stays ---- *)
Lemma conf_step_some x c m s : match conf_step x (Some c) m s with Keep cf => cf = Some c | _ => True end.
Proof.
  destruct m, s as [|d]; cbn [conf_step bearer_step other_step]; try exact I; try reflexivity.
  destruct (match answered x with Some i => negb (answers i d) | None => false end); [exact I|reflexivity].
Qed.

Lemma conf_m_some x c l : forall k cf' k', confirmations_m x (Some c) k l = Some (cf', k') -> cf' = Some c.
Proof.
  induction l as [|[m s] r IH]; intros k cf' k'; cbn [confirmations_m].
  - intros [= <- _]. reflexivity.
  - pose proof (conf_step_some x c m s) as H. destruct (conf_step x (Some c) m s) as [| |cf1]; [discriminate|apply IH|].
    subst cf1. apply IH.
Qed.

Definition examined (chk : cm -> bool) (x : input) (ma : list cm * assertion_in) : Prop :=
  n_authn (snd ma) = 1
  /\ exists scs, subject (snd ma) = Some scs
                 /\ forall i, answered x = Some i -> sc_all_match_m chk i (tag (fst ma) scs) = true.

Lemma one_assertion_m_inv chk x cf ma cf' : one_assertion_m chk x cf ma = Some cf' ->
  examined chk x ma /\ forall c, cf = Some c -> cf' = Some c.
Proof.
  unfold one_assertion_m, examined. cbv zeta.
  destruct (n_authn (snd ma) =? 1)%nat eqn:En; cbn [negb]; [|discriminate]. apply Nat.eqb_eq in En.
  destruct (subject (snd ma)) as [scs|]; [|discriminate].
  destruct (match answered x with Some i => negb (sc_all_match_m chk i (tag (fst ma) scs)) | None => false end) eqn:Es; [discriminate|].
  destruct (confirmations_m x cf 0 (tag (fst ma) scs)) as [[cf1 kept]|] eqn:C; [|discriminate].
  destruct (kept =? 0)%nat; [discriminate|]. intros H.
  assert (Hcf : cf' = cf1).
  { destruct (allow_unsolicited x); [congruence|]. destruct cf1; [congruence|discriminate]. }
  subst cf1. split.
  - split; [exact En|]. exists scs. split; [reflexivity|]. intros i Hi. rewrite Hi in Es.
    destruct (sc_all_match_m chk i (tag (fst ma) scs)); [reflexivity|discriminate].
  - intros c ->. exact (conf_m_some _ _ _ _ _ _ C).
Qed.

Lemma all_assertions_m_inv chk x l : forall cf cf', all_assertions_m chk x cf l = Some cf' ->
  (forall c, cf = Some c -> cf' = Some c) /\ forall ma, In ma l -> examined chk x ma.
Proof.
  induction l as [|b r IH]; intros cf cf' H; cbn [all_assertions_m] in H.
  - injection H as <-. split; [auto|intros ma []].
  - destruct (one_assertion_m chk x cf b) as [cf1|] eqn:E; [|discriminate].
    apply one_assertion_m_inv in E as [Eb Ec]. destruct (IH _ _ H) as [I1 I2]. split.
    + intros c Hc. apply I1, Ec, Hc.
    + intros ma [<-|Hm]; [exact Eb|exact (I2 ma Hm)].
Qed.

(* ---- accept_sealed_m ---- *)
Lemma accept_sealed_m_identity_inv chk fl mss x cf :
  accept_sealed_m chk fl mss x = Identity cf ->
  let plain := fst (split_sealed fl (assertions x)) in
  let enc := snd (split_sealed fl (assertions x)) in
  let tagged := split_flags fl (tag_assertions mss (assertions x)) in
  exists cf0, loads (with_assertions x plain) = Some cf0 /\ version_ok (version x) = true
              /\ count_ok plain enc = true /\ all_assertions_m chk x cf0 (fst tagged ++ snd tagged) = Some cf.
Proof.
  unfold accept_sealed_m. cbv zeta.
  destruct (instance_invalid _); [discriminate|].
  destruct (loads _) as [cf0|]; [|discriminate].
  destruct (version_ok (version x)); cbn [negb]; [|discriminate].
  destruct (String.eqb (status_top x) STATUS_SUCCESS); cbn [negb]; [|discriminate].
  destruct (count_ok _ _); cbn [negb]; [|discriminate].
  destruct (all_assertions_m _ _ _ _) as [cf'|] eqn:E; [|discriminate]. intros [= <-].
  exists cf0. repeat split; auto.
Qed.

Lemma sealed_m_status chk fl mss x : status_respected x (accept_sealed_m chk fl mss x).
Proof.
  intros Hne. assert (E : String.eqb (status_top x) STATUS_SUCCESS = false).
  { rewrite success_const. apply String.eqb_neq; exact Hne. }
  unfold accept_sealed_m. cbv zeta. destruct (instance_invalid _); [split; [reflexivity|discriminate]|].
  destruct (loads _); [|split; [reflexivity|discriminate]].
  destruct (version_ok (version x)); cbn [negb]; [|split; [reflexivity|discriminate]].
  rewrite E. cbn [negb]. split; [reflexivity|]. intros c [= <-]. apply status_class_ok_model.
Qed.

(* every assertion of the Response is among the ones examined *)
Lemma tagged_covers fl mss l b : In b l ->
  exists ma, In ma (fst (split_flags fl (tag_assertions mss l)) ++ snd (split_flags fl (tag_assertions mss l))) /\ snd ma = b.
Proof.
  intros Hb. assert (H : In b (fst (split_sealed fl l) ++ snd (split_sealed fl l))).
  { apply in_or_app. apply split_sealed_in. exact Hb. }
  rewrite <- (tagged_split fl mss l) in H. apply in_map_iff in H as (ma & Hs & Hin). exists ma. split; [exact Hin|exact Hs].
Qed.

Lemma sealed_m_shape chk fl mss x : shape_respected x (accept_sealed_m chk fl mss x).
Proof.
  intros H. destruct (accept_sealed_m chk fl mss x) as [cf| |] eqn:A; try reflexivity. exfalso.
  apply accept_sealed_m_identity_inv in A as (cf0 & _ & Hv & Hc & Hall). apply version_ok_iff in Hv.
  destruct H as [H|[H|(b & Hb & H)]].
  - contradiction.
  - exact (count_ok_nonempty _ _ Hc H).
  - destruct (tagged_covers fl mss _ b Hb) as (ma & Hin & <-).
    destruct (proj2 (all_assertions_m_inv _ _ _ _ _ Hall) ma Hin) as (Hn & scs & Hs & _).
    destruct H as [H|H]; [contradiction|congruence].
Qed.

Lemma sealed_m_correlated fl mss x : correlated x (accept_sealed_m every_method fl mss x).
Proof.
  intros Ha cf Hacc.
  apply accept_sealed_m_identity_inv in Hacc as (cf0 & Hl & _ & _ & Hall).
  destruct (loads_solicited (with_assertions x (fst (split_sealed fl (assertions x)))) cf0 Ha Hl) as (i & ctx & Hi & Hlk & -> & _).
  cbn [with_assertions irt outstanding assertions] in Hi, Hlk.
  assert (Hans : answered x = Some i) by (unfold answered; rewrite Hi, Hlk; reflexivity).
  destruct (all_assertions_m_inv _ _ _ _ _ Hall) as [Hcf Hex]. rewrite (Hcf ctx eq_refl).
  exists i, ctx. repeat split; auto.
  intros j Hj. unfold all_sc_irts in Hj. apply in_flat_map in Hj as (a & Ha' & Hj).
  destruct (subject a) as [scs|] eqn:Es; [|contradiction].
  destruct (tagged_covers fl mss _ a Ha') as (ma & Hin & <-).
  destruct (Hex ma Hin) as (_ & scs' & Hs' & Hm). rewrite Es in Hs'. injection Hs' as <-.
  specialize (Hm i Hans). rewrite sc_all_match_every, tag_snd in Hm.
  exact (sc_all_match_irts i scs Hm j Hj).
Qed.

Lemma sealed_m_every_data fl mss x : every_data_answers x (accept_sealed_m every_method fl mss x).
Proof.
  intros Ha cf Hacc a scs d Ha' Es Hd.
  apply accept_sealed_m_identity_inv in Hacc as (cf0 & Hl & _ & _ & Hall).
  destruct (loads_solicited (with_assertions x (fst (split_sealed fl (assertions x)))) cf0 Ha Hl) as (i & ctx & Hi & Hlk & -> & _).
  cbn [with_assertions irt outstanding assertions] in Hi, Hlk.
  assert (Hans : answered x = Some i) by (unfold answered; rewrite Hi, Hlk; reflexivity).
  destruct (all_assertions_m_inv _ _ _ _ _ Hall) as [_ Hex].
  destruct (tagged_covers fl mss _ a Ha') as (ma & Hin & <-).
  destruct (Hex ma Hin) as (_ & scs' & Hs' & Hm). rewrite Es in Hs'. injection Hs' as <-.
  specialize (Hm i Hans). rewrite sc_all_match_every, tag_snd in Hm. rewrite Hi.
  exact (proj1 (sc_all_match_iff i scs) Hm d Hd).
Qed.

Lemma noid_every_data x : every_data_answers x NoId.
Proof. intros _ cf H. discriminate H. Qed.

Lemma sealed_m_status_raised chk fl mss x : status_raised_when_fine x (accept_sealed_m chk fl mss x).
Proof.
  intros i ctx (Hi & Hl & Hall) Hv Hs Hsub. apply version_ok_iff in Hv.
  assert (E : String.eqb (status_top x) STATUS_SUCCESS = false).
  { rewrite success_const. apply String.eqb_neq; exact Hs. }
  set (plain := fst (split_sealed fl (assertions x))).
  assert (Hp : forall a, In a plain -> In a (assertions x)).
  { intros a Ha. apply (split_sealed_in fl). left. exact Ha. }
  unfold accept_sealed_m. cbv zeta. fold plain.
  rewrite (instance_valid_when_subjects (with_assertions x plain)) by (intros a Ha; apply Hsub, Hp, Ha).
  rewrite (loads_fine (with_assertions x plain) i ctx).
  - rewrite Hv, E. cbn [negb]. eexists; reflexivity.
  - split; [exact Hi|]. split; [exact Hl|]. intros a scs d Ha. apply Hall, Hp, Ha.
Qed.

(* ---- completeness: nothing unusable, every data answers i, came_from set: what can be used is used ---- *)
Definition count_confirms (l : list (cm * scd)) : nat := length (filter confirms l).

Lemma conf_m_fine x i c l : answered x = Some i -> sc_all_match i (map snd l) = true -> existsb unusable l = false ->
  forall k, confirmations_m x (Some c) k l = Some (Some c, k + count_confirms l).
Proof.
  intros Ha. unfold count_confirms. induction l as [|[m s] r IH]; intros Hm Hu k; cbn [confirmations_m filter length].
  - f_equal. f_equal. lia.
  - cbn [existsb] in Hu. apply orb_false_elim in Hu as [Hu0 Hu].
    assert (Hr : sc_all_match i (map snd r) = true).
    { cbn [map snd sc_all_match] in Hm. destruct s; [exact Hm|]. apply andb_prop in Hm as [_ Hm]. exact Hm. }
    specialize (IH Hr Hu). destruct s as [|d].
    + destruct m; cbn [conf_step bearer_step other_step confirms unusable] in *; try discriminate Hu0; apply IH.
    + assert (Hd : answers i d = true).
      { cbn [map snd sc_all_match] in Hm. apply andb_prop in Hm as [Hm _]. exact Hm. }
      destruct m; cbn [conf_step bearer_step other_step confirms unusable] in *; try discriminate Hu0.
      * rewrite Ha, Hd. cbn [negb]. destruct d; rewrite IH; cbn [length]; f_equal; f_equal; lia.
      * rewrite IH. cbn [length]. f_equal. f_equal. lia.
      * apply IH.
      * rewrite IH. cbn [length]. f_equal. f_equal. lia.
Qed.

Lemma count_confirms_pos l : existsb confirms l = true -> count_confirms l <> 0.
Proof.
  unfold count_confirms. induction l as [|c r IH]; cbn [existsb filter]; [discriminate|].
  destruct (confirms c); [discriminate|exact IH].
Qed.

Lemma sealed_m_accepted fl mss x y : resp (base y) = x -> sealed (base y) = fl -> methods y = mss ->
  accepted_when_fine_m y (accept_sealed_m every_method fl mss x).
Proof.
  intros Hx Hfl Hmss. unfold accepted_when_fine_m. cbv zeta. rewrite Hx, Hmss.
  intros i ctx scs (Hi & Hl & Hall) Hv Hs Has Hex Hun. apply version_ok_iff in Hv.
  assert (Hans : answered x = Some i) by (unfold answered; rewrite Hi, Hl; reflexivity).
  assert (Hd : forall d, In (Data d) scs -> d = Some i).
  { intros d Hd. apply (Hall {| n_authn := 1; subject := Some scs |} scs d); [rewrite Has; left; reflexivity|reflexivity|exact Hd]. }
  assert (Hm : sc_all_match i scs = true) by (apply sc_all_match_iff; exact Hd).
  set (l := tag (hd [] mss) scs) in *.
  assert (Hml : sc_all_match i (map snd l) = true) by (unfold l; rewrite tag_snd; exact Hm).
  assert (Hone : one_assertion_m every_method x (Some ctx) (hd [] mss, {| n_authn := 1; subject := Some scs |}) = Some (Some ctx)).
  { unfold one_assertion_m. cbv zeta. cbn [fst snd n_authn subject Nat.eqb negb]. fold l. rewrite Hans.
    rewrite sc_all_match_every, Hml. cbn [negb].
    rewrite (conf_m_fine x i ctx l Hans Hml Hun). cbn [Nat.add].
    destruct (count_confirms l =? 0)%nat eqn:E; [apply Nat.eqb_eq in E; exfalso; exact (count_confirms_pos l Hex E)|].
    destruct (allow_unsolicited x); reflexivity. }
  unfold accept_sealed_m. cbv zeta. rewrite Has. cbn [split_sealed tag_assertions split_flags]. destruct (hd false fl); cbn [fst snd app].
  - unfold instance_invalid, loads. cbn [with_assertions assertions irt outstanding allow_unsolicited existsb check_sc_irt].
    rewrite Hi, Hl, Hv, Hs, success_const, String.eqb_refl. cbn [negb count_ok length Nat.eqb orb all_assertions_m].
    rewrite Hone. reflexivity.
  - unfold instance_invalid, loads. cbn [with_assertions assertions irt outstanding allow_unsolicited existsb check_sc_irt subject orb].
    rewrite Hi, Hl, Hm, Hv, Hs, success_const, String.eqb_refl. cbn [negb count_ok length Nat.eqb orb all_assertions_m].
    rewrite Hone. reflexivity.
Qed.

(* ---- the back channel ---- *)
Lemma back_channel_m_status fl mss x : status_respected x (accept_back_channel_sealed_m fl mss x).
Proof.
  intros Hne. assert (E : String.eqb (status_top x) STATUS_SUCCESS = false).
  { rewrite success_const. apply String.eqb_neq; exact Hne. }
  unfold accept_back_channel_sealed_m. cbv zeta. destruct (instance_invalid _); [split; [reflexivity|discriminate]|].
  destruct (version_ok (version x)); cbn [negb]; [|split; [reflexivity|discriminate]].
  rewrite E. cbn [negb]. split; [reflexivity|]. intros c [= <-]. apply status_class_ok_model.
Qed.

Lemma back_channel_m_shape fl mss x : shape_respected x (accept_back_channel_sealed_m fl mss x).
Proof.
  intros H. destruct (accept_back_channel_sealed_m fl mss x) as [cf| |] eqn:A; try reflexivity. exfalso.
  revert A. unfold accept_back_channel_sealed_m. cbv zeta. destruct (instance_invalid _); [discriminate|].
  destruct (version_ok (version x)) eqn:Hv; cbn [negb]; [|discriminate]. apply version_ok_iff in Hv.
  destruct (String.eqb (status_top x) STATUS_SUCCESS); cbn [negb]; [|discriminate].
  destruct (count_ok _ _) eqn:Hc; cbn [negb]; [|discriminate].
  destruct (forallb _ _) eqn:Hall; [|discriminate]. intros _.
  destruct H as [H|[H|(b & Hb & H)]].
  - contradiction.
  - exact (count_ok_nonempty _ _ Hc H).
  - destruct (tagged_covers fl mss _ b Hb) as (ma & Hin & <-).
    rewrite forallb_forall in Hall. specialize (Hall ma Hin). unfold back_channel_assertion_m in Hall.
    apply andb_prop in Hall as [Hn Hs]. apply Nat.eqb_eq in Hn.
    destruct H as [H|H]; [contradiction|]. rewrite H in Hs. discriminate.
Qed.

(* ---- the delivery with methods ---- *)
Lemma browser_is_accept_sealed_m chk ym : browser (via (base ym)) = true -> well_addressed (base ym) = true ->
  receive_mf chk ym = accept_sealed_m chk (sealed (base ym)) (methods ym) (resp (base ym)).
Proof. unfold receive_mf, well_addressed. cbv zeta. destruct (via (base ym)), (dest (base ym)); cbn; congruence. Qed.

Lemma browser_misaddressed_m chk ym : browser (via (base ym)) = true -> well_addressed (base ym) = false -> receive_mf chk ym = NoId.
Proof. unfold receive_mf, well_addressed. cbv zeta. destruct (via (base ym)), (dest (base ym)); cbn; congruence. Qed.

Lemma status_shape_m chk ym :
  status_respected (resp (base ym)) (receive_mf chk ym) /\ shape_respected (resp (base ym)) (receive_mf chk ym).
Proof.
  unfold receive_mf. cbv zeta. destruct (unravels (via (base ym))); cbn [negb]; [|split; [apply noid_status|apply noid_shape]].
  destruct (asynchop (via (base ym))).
  - destruct (destination_ok _ _); [split; [apply sealed_m_status|apply sealed_m_shape]|split; [apply noid_status|apply noid_shape]].
  - split; [apply back_channel_m_status|apply back_channel_m_shape].
Qed.

Lemma c06_methods_holds ym : spec_dm ym (receive_m ym).
Proof.
  unfold spec_dm. cbv zeta. destruct (status_shape_m every_method ym) as [Hst Hsh]. fold receive_m in Hst, Hsh.
  split; [|split; [exact Hst|split; [exact Hsh|]]].
  - intros Hb. destruct (well_addressed (base ym)) eqn:Hw.
    + unfold receive_m. rewrite (browser_is_accept_sealed_m _ ym Hb Hw). split; [apply sealed_m_correlated|apply sealed_m_every_data].
    + unfold receive_m. rewrite (browser_misaddressed_m _ ym Hb Hw). split; [apply noid_correlated|apply noid_every_data].
  - intros Hb Hw. unfold receive_m. rewrite (browser_is_accept_sealed_m _ ym Hb Hw).
    split; [apply sealed_m_accepted; reflexivity|apply sealed_m_status_raised].
Qed.

Lemma c06_methods_configured_holds s ym : spec_cm s ym (receive_cfg_m s ym).
Proof.
  intros b Hb. unfold receive_cfg_m. rewrite (option_read_as_written _ _ Hb). apply c06_methods_holds.
Qed.

(* ---- bearer confirmations only: the layer below, model and spec ---- *)
Definition all_bearer (mss : list (list cm)) : bool := forallb (forallb bearer_only) mss.

Lemma tag_bearer ms scs : forallb bearer_only ms = true -> tag ms scs = tag [] scs.
Proof.
  revert ms. induction scs as [|s r IH]; intros ms H; cbn [tag]; [reflexivity|].
  destruct ms as [|m ms']; [reflexivity|]. cbn [forallb] in H. apply andb_prop in H as [Hm H].
  cbn [hd tl]. rewrite (IH ms' H). destruct m; try discriminate Hm. destruct r; reflexivity.
Qed.

Lemma conf_m_bearer x scs : forall cf k, confirmations_m x cf k (tag [] scs) = confirmations_f true x cf k scs.
Proof.
  induction scs as [|s r IH]; intros cf k; cbn [tag hd tl confirmations_m confirmations_f conf_step bearer_step andb]; [reflexivity|].
  destruct s as [|d]; [apply IH|]. unfold bearer_step.
  destruct (match answered x with Some i => negb (answers i d) | None => false end); [apply IH|].
  destruct cf as [c|]; [apply IH|]. destruct d as [j|]; [|apply IH].
  destruct (is_empty j); [apply IH|]. destruct (lookup j (outstanding x)); [apply IH|].
  destruct (allow_unsolicited x); [apply IH|reflexivity].
Qed.

Lemma one_assertion_m_bearer x cf ms a : forallb bearer_only ms = true ->
  one_assertion_m every_method x cf (ms, a) = one_assertion V2 x cf a.
Proof.
  intros H. unfold one_assertion_m, one_assertion. cbv zeta. cbn [fst snd strict skips andb].
  destruct (n_authn a =? 1)%nat; cbn [negb]; [|reflexivity]. destruct (subject a) as [scs|]; [|reflexivity].
  rewrite (tag_bearer ms scs H). rewrite conf_m_bearer.
  replace (match answered x with Some i => negb (sc_all_match_m every_method i (tag [] scs)) | None => false end)
    with (match answered x with Some i => negb (sc_all_match i scs) | None => false end); [reflexivity|].
  destruct (answered x); [|reflexivity]. rewrite sc_all_match_every, tag_snd. reflexivity.
Qed.

Lemma all_assertions_m_bearer x l : (forall ma, In ma l -> forallb bearer_only (fst ma) = true) ->
  forall cf, all_assertions_m every_method x cf l = all_assertions V2 x cf (map snd l).
Proof.
  induction l as [|[ms a] r IH]; intros H cf; cbn [all_assertions_m all_assertions map snd]; [reflexivity|].
  rewrite (one_assertion_m_bearer x cf ms a (H (ms, a) (or_introl eq_refl))).
  destruct (one_assertion V2 x cf a); [|reflexivity]. apply IH. intros ma Hm. apply H. right. exact Hm.
Qed.

Lemma tag_assertions_bearer mss l ma : all_bearer mss = true -> In ma (tag_assertions mss l) -> forallb bearer_only (fst ma) = true.
Proof.
  revert mss. induction l as [|a r IH]; intros mss H; cbn [tag_assertions]; [intros []|].
  destruct mss as [|ms mss']; cbn [hd tl].
  - intros [<-|Hm]; [reflexivity|exact (IH [] eq_refl Hm)].
  - unfold all_bearer in H. cbn [forallb] in H. apply andb_prop in H as [H0 H]. intros [<-|Hm]; [exact H0|exact (IH mss' H Hm)].
Qed.

Lemma back_channel_conf_bearer scs : forall k, back_channel_confirmations k (tag [] scs) = Some (k + count_data scs).
Proof.
  unfold count_data. induction scs as [|s r IH]; intros k; cbn [tag hd tl back_channel_confirmations filter length].
  - f_equal. lia.
  - destruct s as [|d]; cbn [back_channel_step scd_is_data]; rewrite IH; cbn [length]; f_equal; lia.
Qed.

Lemma back_channel_assertion_m_bearer ms a : forallb bearer_only ms = true ->
  back_channel_assertion_m (ms, a) = back_channel_assertion a.
Proof.
  intros H. unfold back_channel_assertion_m, back_channel_assertion. cbn [fst snd].
  destruct (subject a) as [scs|]; [|reflexivity]. rewrite (tag_bearer ms scs H), back_channel_conf_bearer. reflexivity.
Qed.

Lemma forallb_map {A B} (f : B -> bool) (g : A -> B) l : forallb f (map g l) = forallb (fun a => f (g a)) l.
Proof. induction l as [|a r IH]; cbn [map forallb]; [reflexivity|]. rewrite IH. reflexivity. Qed.

Lemma forallb_ext_in {A} (f g : A -> bool) l : (forall a, In a l -> f a = g a) -> forallb f l = forallb g l.
Proof.
  induction l as [|a r IH]; intros H; cbn [forallb]; [reflexivity|].
  rewrite (H a (or_introl eq_refl)), IH; [reflexivity|]. intros b Hb. apply H. right. exact Hb.
Qed.

Lemma receive_m_bearer_only ym : all_bearer (methods ym) = true -> receive_m ym = receive (base ym).
Proof.
  intros Hb. unfold receive_m, receive_mf, receive, receive_f. cbv zeta.
  destruct (unravels (via (base ym))); cbn [negb]; [|reflexivity].
  set (fl := sealed (base ym)). set (x := resp (base ym)). set (mss := methods ym) in *.
  set (tagged := split_flags fl (tag_assertions mss (assertions x))).
  assert (Hin : forall ma, In ma (fst tagged ++ snd tagged) -> forallb bearer_only (fst ma) = true).
  { intros ma Hm. apply split_flags_in in Hm. exact (tag_assertions_bearer mss _ ma Hb Hm). }
  destruct (asynchop (via (base ym))).
  - destruct (destination_ok _ _); [|reflexivity]. unfold accept_sealed_m, accept_sealed. cbv zeta. fold tagged.
    destruct (instance_invalid _); [reflexivity|]. destruct (loads _) as [cf|]; [|reflexivity].
    destruct (version_ok _); cbn [negb]; [|reflexivity]. destruct (String.eqb _ _); cbn [negb]; [|reflexivity].
    destruct (count_ok _ _); cbn [negb]; [|reflexivity].
    rewrite (all_assertions_m_bearer x _ Hin cf). unfold tagged. rewrite tagged_split. reflexivity.
  - unfold accept_back_channel_sealed_m, accept_back_channel_sealed. cbv zeta. fold tagged.
    destruct (instance_invalid _); [reflexivity|].
    destruct (version_ok _); cbn [negb]; [|reflexivity]. destruct (String.eqb _ _); cbn [negb]; [|reflexivity].
    destruct (count_ok _ _); cbn [negb]; [|reflexivity].
    replace (forallb back_channel_assertion_m (fst tagged ++ snd tagged))
      with (forallb back_channel_assertion (map snd (fst tagged ++ snd tagged))).
    + unfold tagged. rewrite tagged_split. reflexivity.
    + rewrite forallb_map. apply forallb_ext_in. intros [ms a] Hm. cbn [snd]. symmetry.
      exact (back_channel_assertion_m_bearer ms a (Hin (ms, a) Hm)).
Qed.

Lemma unusable_bearer scs : existsb unusable (tag [] scs) = false.
Proof. induction scs as [|s r IH]; cbn [tag hd tl existsb unusable]; [reflexivity|]. destruct s; exact IH. Qed.

Lemma confirms_bearer scs : existsb confirms (tag [] scs) = existsb scd_is_data scs.
Proof. induction scs as [|s r IH]; cbn [tag hd tl existsb confirms]; [reflexivity|]. rewrite IH. destruct s; reflexivity. Qed.

Lemma hd_all_bearer mss : all_bearer mss = true -> forallb bearer_only (hd [] mss) = true.
Proof. destruct mss as [|ms r]; [reflexivity|]. unfold all_bearer. cbn [forallb hd]. intros H. apply andb_prop in H as [H _]. exact H. Qed.

(* with bearer confirmations only the completeness clause is the one of the layer below: nothing was weakened *)
Lemma accepted_when_fine_m_bearer ym v : all_bearer (methods ym) = true ->
  (accepted_when_fine_m ym v <-> accepted_when_fine (resp (base ym)) v).
Proof.
  intros Hb. unfold accepted_when_fine_m, accepted_when_fine. cbv zeta. split; intros H i ctx scs Hw Hv Hs Has.
  - intros [d Hd]. apply (H i ctx scs Hw Hv Hs Has).
    + rewrite (tag_bearer _ scs (hd_all_bearer _ Hb)), confirms_bearer. apply existsb_exists. exists (Data d). split; [exact Hd|reflexivity].
    + rewrite (tag_bearer _ scs (hd_all_bearer _ Hb)). apply unusable_bearer.
  - intros Hex _. apply (H i ctx scs Hw Hv Hs Has).
    rewrite (tag_bearer _ scs (hd_all_bearer _ Hb)), confirms_bearer in Hex. apply existsb_exists in Hex as ([|d] & Hin & Hd); [discriminate|].
    exists d. exact Hin.
Qed.

Lemma spec_dm_bearer ym v : all_bearer (methods ym) = true ->
  (spec_dm ym v <-> spec_d (base ym) v /\ (browser (via (base ym)) = true -> every_data_answers (resp (base ym)) v)).
Proof.
  intros Hb. unfold spec_dm, spec_d. cbv zeta. pose proof (accepted_when_fine_m_bearer ym v Hb) as E. split.
  - intros (H1 & H2 & H3 & H4). split; [|intros Hbr; exact (proj2 (H1 Hbr))].
    split; [intros Hbr; exact (proj1 (H1 Hbr))|]. split; [exact H2|]. split; [exact H3|].
    intros Hbr Hw. destruct (H4 Hbr Hw) as [Ha Hs]. split; [apply E; exact Ha|exact Hs].
  - intros ((H1 & H2 & H3 & H4) & H5). split; [intros Hbr; split; [exact (H1 Hbr)|exact (H5 Hbr)]|].
    split; [exact H2|]. split; [exact H3|].
    intros Hbr Hw. destruct (H4 Hbr Hw) as [Ha Hs]. split; [apply E; exact Ha|exact Hs].
Qed.

(* ---- in clear the test made in loads() is already blind to the method: whichever methods the repeat in
   get_subject looks at, the decision is the same ---- *)
Lemma forallb_all_false_split {A} fl (l : list A) : forallb negb fl = true -> split_flags fl l = (l, []).
Proof.
  revert fl. induction l as [|b r IH]; intros fl H; cbn [split_flags]; [reflexivity|].
  destruct fl as [|f fl']; cbn [hd tl].
  - rewrite (IH [] eq_refl). reflexivity.
  - cbn [forallb] in H. apply andb_prop in H as [Hf H]. destruct f; [discriminate|]. rewrite (IH fl' H). reflexivity.
Qed.

Lemma methods_in_clear chk ym : forallb negb (sealed (base ym)) = true -> receive_mf chk ym = receive_m ym.
Proof.
  intros Hfl. unfold receive_m, receive_mf. cbv zeta.
  destruct (unravels (via (base ym))); cbn [negb]; [|reflexivity].
  destruct (asynchop (via (base ym))); [|reflexivity]. destruct (destination_ok _ _); [|reflexivity].
  set (x := resp (base ym)). set (mss := methods ym). unfold accept_sealed_m. cbv zeta.
  rewrite (split_sealed_plain _ _ Hfl), (forallb_all_false_split _ _ Hfl). cbn [fst snd]. rewrite !app_nil_r.
  change (instance_invalid (with_assertions x (assertions x))) with (instance_invalid x).
  change (loads (with_assertions x (assertions x))) with (loads x).
  destruct (instance_invalid x); [reflexivity|]. destruct (loads x) as [cf|] eqn:El; [|reflexivity].
  destruct (version_ok (version x)); cbn [negb]; [|reflexivity].
  destruct (String.eqb (status_top x) STATUS_SUCCESS); cbn [negb]; [|reflexivity].
  destruct (assertions x) as [|a [|b r]] eqn:Has; try reflexivity.
  cbn [count_ok length Nat.eqb orb negb tag_assertions all_assertions_m]. unfold one_assertion_m. cbv zeta. cbn [fst snd].
  destruct (n_authn a =? 1)%nat; cbn [negb]; [|reflexivity].
  destruct (subject a) as [scs|] eqn:Es; [|reflexivity].
  pose proof (loads_all_match x cf a scs El Has Es) as Hm.
  destruct (answered x) as [i|]; [|reflexivity].
  rewrite !(sc_all_match_any _ i (tag (hd [] mss) scs)) by (rewrite tag_snd; exact Hm). reflexivity.
Qed.

(* ---- were the repeat in get_subject to look at bearer confirmations only: an encrypted assertion whose
   holder-of-key confirmation answers ANOTHER outstanding request is accepted with the context of the Response's ---- *)
Definition stray_hok_sealed : delivery_m := {| base := stray_sealed; methods := [[HokKey]] |}.
Definition stray_sv_beside_bearer_sealed : delivery_m :=
  {| base := {| via := Redirect; dest := DRedirect; sealed := [true];
                resp := {| allow_unsolicited := false; outstanding := [("req-1", "/ctx1"); ("req-2", "/ctx2")]; irt := Some "req-1";
                           version := (2, 0); status_top := SUCCESS; status_second := None;
                           assertions := [{| n_authn := 1; subject := Some [Data (Some "req-1"); Data (Some "req-2")] |}] |} |};
     methods := [[Bearer; SenderVouches]] |}.

Lemma bearer_only_check_refuted : exists ym, ~ spec_dm ym (receive_m_bearer ym).
Proof.
  exists stray_hok_sealed. intros (Hc & _). destruct (Hc eq_refl) as [Hc' _].
  destruct (Hc' eq_refl (Some "/ctx1")) as (i & ctx & Hi & _ & _ & Hall); [vm_compute; reflexivity|].
  cbn in Hi. injection Hi as <-. specialize (Hall "req-2" (or_introl eq_refl)). discriminate Hall.
Qed.

(* non-vacuity: what the code does with the methods; the stray ones are refused, encrypted or not *)
Example methods_example :
  let at_ fl ms scs :=
    receive_m {| base := {| via := Post; dest := DPost; sealed := fl;
                            resp := {| allow_unsolicited := false; outstanding := [("req-1", "/ctx1"); ("req-2", "/ctx2")];
                                       irt := Some "req-1"; version := (2, 0); status_top := SUCCESS; status_second := None;
                                       assertions := [{| n_authn := 1; subject := Some scs |}] |} |};
                 methods := [ms] |} in
  at_ [true] [HokKey] [Data (Some "req-1")] = Identity (Some "/ctx1")
  /\ at_ [true] [SenderVouches] [Data (Some "req-1")] = Identity (Some "/ctx1")
  /\ at_ [true] [HokBare] [Data (Some "req-1")] = NoId
  /\ at_ [true] [OtherMethod] [Data (Some "req-1")] = NoId
  /\ at_ [true] [SenderVouches] [NoData] = NoId
  /\ at_ [true] [HokKey] [Data (Some "req-2")] = NoId
  /\ at_ [false] [HokKey] [Data (Some "req-2")] = NoId
  /\ at_ [true] [SenderVouches] [Data None] = NoId
  /\ at_ [true] [Bearer; SenderVouches] [Data (Some "req-1"); Data (Some "req-2")] = NoId
  /\ at_ [true] [HokBare; Bearer] [Data (Some "req-2"); Data (Some "req-1")] = NoId
  /\ receive_m stray_hok_sealed = NoId /\ receive_m_bearer stray_hok_sealed = Identity (Some "/ctx1")
  /\ receive_m stray_sv_beside_bearer_sealed = NoId
  /\ receive_m_bearer stray_sv_beside_bearer_sealed = Identity (Some "/ctx1").
Proof. vm_compute. repeat split; reflexivity. Qed.

(* ---- the boolean spec evaluated on the recorded outputs implies the stated one ---- *)
Lemma accepted_m_sound ym v : accepted_when_fine_m_b ym v = true -> accepted_when_fine_m ym v.
Proof.
  unfold accepted_when_fine_m_b, accepted_when_fine_m. cbv zeta. intros H i ctx scs Hw Hv Hs Ha Hex Hun.
  rewrite (well_correlated_complete _ _ _ Hw), Ha in H. cbn [subject n_authn] in H.
  rewrite (proj2 (version_is_20_iff _) Hv), Hs, String.eqb_refl, Hex, Hun in H. cbn [andb Nat.eqb negb] in H.
  apply verdict_eqb_eq. exact H.
Qed.

Lemma every_data_sound x v : every_data_answers_b x v = true -> every_data_answers x v.
Proof.
  unfold every_data_answers_b, every_data_answers. intros H Hu cf -> a scs d Ha Hs Hd.
  rewrite Hu in H. cbn [orb is_identity negb] in H. rewrite forallb_forall in H. specialize (H a Ha). rewrite Hs in H.
  rewrite forallb_forall in H. specialize (H (Data d) Hd). exact (opt_str_eqb_eq _ _ H).
Qed.

Lemma spec_dm_b_sound ym v : spec_dm_b ym v = true -> spec_dm ym v.
Proof.
  unfold spec_dm_b, spec_dm. cbv zeta. intros H.
  apply andb_prop in H as [H H4]. apply andb_prop in H as [H H3]. apply andb_prop in H as [H1 H2].
  split; [|split; [|split]].
  - intros Hb. rewrite Hb in H1. cbn [negb orb] in H1. apply andb_prop in H1 as [H1 H1'].
    split; [exact (correlated_sound _ _ H1)|exact (every_data_sound _ _ H1')].
  - exact (status_sound _ _ H2).
  - exact (shape_sound _ _ H3).
  - intros Hb Hw. rewrite Hb, Hw in H4. cbn [negb andb orb] in H4. apply andb_prop in H4 as [Ha Hs].
    split; [exact (accepted_m_sound _ _ Ha)|exact (status_raised_sound _ _ Hs)].
Qed.

Lemma spec_cm_b_sound s ym v : spec_cm_b s ym v = true -> spec_cm s ym v.
Proof.
  unfold spec_cm_b, spec_cm. intros H b Hb. rewrite Hb in H. apply spec_dm_b_sound. exact H.
Qed.

(* the layer below is this one without a method list *)
Lemma receive_cfg_m_bearer s ym : all_bearer (methods ym) = true -> receive_cfg_m s ym = receive_cfg s (base ym).
Proof.
  intros Hb. unfold receive_cfg_m, receive_cfg. destruct (effective_allow (opt s)); [|reflexivity].
  apply (receive_m_bearer_only (configure_m b ym)). exact Hb.
Qed.
