(* C06/Model.v — correlation with outstanding requests, status, version and shape checks, as coded.
   Mirrors: AuthnResponse.loads (529-547), check_subject_confirmation_in_response_to (521-527),
   StatusResponse._verify (402-422) version / status part, status_ok (378-391) with the generated
   STATUSCODE2EXCEPTION table, parse_assertion count test (900-921), authn_statement_ok (555-563),
   get_subject / _bearer_confirmed (698-733), _assertion (818-828).  [accept] is the decision for an
   asynchronous hop (asynchop = True) whose Destination passes; [receive] (end of file) puts the
   binding-dependent part of Entity._parse_response / Saml2Client.parse_authn_request_response in
   front of it: asynchop default, return_addrs per binding, Entity.unravel's known bindings,
   StatusResponse._verify's Destination test. *)
From Coq Require Import String List Bool Arith.
From Verif Require Import Base.Str.
From VerifGen Require Import C06Tables.
Import ListNotations.
Open Scope string_scope.

Fixpoint lookup (k : string) (l : list (string * string)) : option string :=
  match l with
  | [] => None
  | (k', v) :: r => if String.eqb k k' then Some v else lookup k r
  end.

(* a SubjectConfirmation (bearer): no data element, or data with optional InResponseTo *)
Inductive scd := NoData | Data (irt : option string).

Record assertion_in := {
  n_authn : nat;                          (* number of AuthnStatement elements *)
  subject : option (list scd)             (* None: no Subject element *)
}.

Record input := {
  allow_unsolicited : bool;
  outstanding : list (string * string);   (* request id -> stored context *)
  irt : option string;                    (* Response/@InResponseTo *)
  version : nat * nat;                    (* Response/@Version major.minor *)
  status_top : string;
  status_second : option string;
  assertions : list assertion_in
}.

Inductive verdict :=
| Identity (came_from : option string)
| StatusErr (cls : string)                (* a StatusError (sub)class was raised *)
| NoId.                                   (* any other outcome without identity *)

Definition status_class (second : option string) : string :=
  match second with
  | Some s => match lookup s statuscode2exception with Some c => c | None => "StatusError" end
  | None => "StatusError"
  end.

(* check_subject_confirmation_in_response_to: None = AttributeError (swallowed by loads) *)
Fixpoint sc_all_match (i : string) (scs : list scd) : bool :=
  match scs with
  | [] => true
  | NoData :: r => sc_all_match i r
  | Data d :: r => opt_eqb String.eqb d (Some i) && sc_all_match i r
  end.

Fixpoint check_sc_irt (i : string) (l : list assertion_in) : option bool :=
  match l with
  | [] => Some true
  | a :: r => match subject a with
              | None => None
              | Some scs => if sc_all_match i scs then check_sc_irt i r else Some false
              end
  end.

(* AuthnResponse.loads, asynchop: Some came_from-state, or None = UnsolicitedResponse raised *)
Definition loads (x : input) : option (option string) :=
  match match irt x with Some i => match lookup i (outstanding x) with Some c => Some (i, c) | None => None end | None => None end with
  | Some (i, ctx) =>
      match check_sc_irt i (assertions x) with
      | Some false => None
      | _ => Some (Some ctx)
      end
  | None => if allow_unsolicited x then Some None else None
  end.

(* get_subject over the bearer confirmations: threads came_from; None = exception; the nat counts
   the confirmations that were kept *)
Fixpoint confirmations (x : input) (cf : option string) (kept : nat) (scs : list scd) : option (option string * nat) :=
  match scs with
  | [] => Some (cf, kept)
  | NoData :: r => confirmations x cf kept r
  | Data d :: r =>
      match cf, d with
      | None, Some j =>
          if is_empty j then confirmations x cf (S kept) r else
          match lookup j (outstanding x) with
          | Some c => confirmations x (Some c) (S kept) r
          | None => if allow_unsolicited x then confirmations x cf (S kept) r else None
          end
      | _, _ => confirmations x cf (S kept) r
      end
  end.

Definition version_ok (v : nat * nat) : bool := (fst v =? 2)%nat && (snd v =? 0)%nat.

(* valid_instance -> saml.Assertion.verify(): an assertion with an AuthnStatement but without a
   Subject raises MustValueError while the Response is loaded (before any other check) *)
Definition instance_invalid (x : input) : bool :=
  existsb (fun a => match subject a with None => negb (n_authn a =? 0)%nat | Some _ => false end) (assertions x).

Definition accept (x : input) : verdict :=
  if instance_invalid x then NoId else
  match loads x with
  | None => NoId
  | Some cf =>
      if negb (version_ok (version x)) then NoId else
      if negb (String.eqb (status_top x) STATUS_SUCCESS) then StatusErr (status_class (status_second x)) else
      match assertions x with
      | [a] =>
          if negb (n_authn a =? 1)%nat then NoId else
          match subject a with
          | None => NoId
          | Some scs =>
              match confirmations x cf 0 scs with
              | None => NoId
              | Some (cf', kept) =>
                  if (kept =? 0)%nat then NoId else
                  if allow_unsolicited x then Identity cf' else
                  match cf' with None => NoId | Some _ => Identity cf' end
              end
          end
      | _ => NoId
      end
  end.

(* ------------------------------------------------------------------------------------------
   The delivery: which binding the caller says the Response arrived over, and Response/@Destination.
   Entity._parse_response: asynchop = binding not in [SOAP, PAOS]; parse_authn_request_response:
   return_addrs = service_urls(binding) = the consumer endpoints registered for THAT binding;
   Entity.unravel: PAOS is not in its list (UnknownBinding); _verify: "if self.asynchop: if
   destination and destination not in return_addrs: return None" (between the version and the status
   test; every outcome up to there is one without identity and without status error, so the test can
   be taken first). *)
Inductive binding := Post | Redirect | Artifact | Soap | Paos.

(* Response/@Destination: the SP's HTTP-POST consumer endpoint, its HTTP-Redirect one, a URL that is
   no endpoint of the SP, or no attribute *)
Inductive destination := DPost | DRedirect | DElsewhere | DAbsent.

(* sealed: which of the Response's assertions (by position, in document order) arrive as
   EncryptedAssertion for the receiver's key; a missing flag means "in clear" *)
Record delivery := { via : binding; dest : destination; sealed : list bool; resp : input }.

Definition asynchop (b : binding) : bool := match b with Soap | Paos => false | _ => true end.
Definition unravels (b : binding) : bool := match b with Paos => false | _ => true end.

(* the harness SP registers one POST and one Redirect consumer endpoint, none for the others *)
Definition return_addrs (b : binding) : list destination :=
  match b with Post => [DPost] | Redirect => [DRedirect] | _ => [] end.

Definition destination_eqb (a b : destination) : bool :=
  match a, b with
  | DPost, DPost | DRedirect, DRedirect | DElsewhere, DElsewhere | DAbsent, DAbsent => true
  | _, _ => false
  end.

Definition destination_ok (b : binding) (d : destination) : bool :=
  match d with DAbsent => true | _ => existsb (destination_eqb d) (return_addrs b) end.

Definition scd_is_data (s : scd) : bool := match s with Data _ => true | NoData => false end.
Definition count_data (scs : list scd) : nat := length (filter scd_is_data scs).

(* asynchop = False (back channel): loads() looks nothing up, _verify skips Destination,
   _bearer_confirmed keeps every confirmation that has data, _assertion does not ask for came_from *)
Definition accept_back_channel (x : input) : verdict :=
  if instance_invalid x then NoId else
  if negb (version_ok (version x)) then NoId else
  if negb (String.eqb (status_top x) STATUS_SUCCESS) then StatusErr (status_class (status_second x)) else
  match assertions x with
  | [a] =>
      if negb (n_authn a =? 1)%nat then NoId else
      match subject a with
      | None => NoId
      | Some scs => if (count_data scs =? 0)%nat then NoId else Identity None
      end
  | _ => NoId
  end.

(* the decision when every assertion is sent in clear ([accept] is what C09 composes) *)
Definition receive_plain (y : delivery) : verdict :=
  if negb (unravels (via y)) then NoId else
  if asynchop (via y) then
    if destination_ok (via y) (dest y) then accept (resp y) else NoId
  else accept_back_channel (resp y).

(* ------------------------------------------------------------------------------------------
   Encrypted assertions.  What AuthnResponse.loads() does (valid_instance, the outstanding lookup and
   check_subject_confirmation_in_response_to) sees the assertions sent in clear only.  parse_assertion:
   "n_assertions != 1 and n_assertions_enc != 1" raises InvalidAssertion; then _assertion() runs on every
   clear assertion in document order, then on every decrypted one, came_from being threaded through;
   each needs exactly one AuthnStatement, a Subject, at least one usable confirmation and (unless
   unsolicited responses are allowed) came_from.
   Three states of the code ([rev]):
   V0 = the pinned snapshot (finding C06-F2: nothing looks at the confirmations of a decrypted assertion);
   V1 = with b84752ad: _bearer_confirmed, when the Response answers an outstanding request, does not use a
        confirmation whose data does not answer the same request (return False => skipped; the next one is
        tried) (finding C06-F3: [stray, answering] is accepted encrypted, refused in clear);
   V2 = with e76039c1 as well (the code as it is now): get_subject repeats the test of loads() for the
        assertion it works on and raises UnsolicitedResponse. *)
Inductive rev := V0 | V1 | V2.
Definition skips (r : rev) : bool := match r with V0 => false | _ => true end.
Definition strict (r : rev) : bool := match r with V2 => true | _ => false end.
Fixpoint split_sealed (fl : list bool) (l : list assertion_in) : list assertion_in * list assertion_in :=
  match l with
  | [] => ([], [])
  | a :: r => let pe := split_sealed (tl fl) r in
              if hd false fl then (fst pe, a :: snd pe) else (a :: fst pe, snd pe)
  end.

Definition with_assertions (x : input) (l : list assertion_in) : input :=
  {| allow_unsolicited := allow_unsolicited x; outstanding := outstanding x; irt := irt x; version := version x;
     status_top := status_top x; status_second := status_second x; assertions := l |}.

(* "self.in_response_to in self.outstanding_queries" *)
Definition answered (x : input) : option string :=
  match irt x with
  | Some i => match lookup i (outstanding x) with Some _ => Some i | None => None end
  | None => None
  end.

Definition answers (i : string) (d : option string) : bool := opt_eqb String.eqb d (Some i).

Fixpoint confirmations_f (fixed : bool) (x : input) (cf : option string) (kept : nat) (scs : list scd)
  : option (option string * nat) :=
  match scs with
  | [] => Some (cf, kept)
  | NoData :: r => confirmations_f fixed x cf kept r
  | Data d :: r =>
      if fixed && match answered x with Some i => negb (answers i d) | None => false end
      then confirmations_f fixed x cf kept r else
      match cf, d with
      | None, Some j =>
          if is_empty j then confirmations_f fixed x cf (S kept) r else
          match lookup j (outstanding x) with
          | Some c => confirmations_f fixed x (Some c) (S kept) r
          | None => if allow_unsolicited x then confirmations_f fixed x cf (S kept) r else None
          end
      | _, _ => confirmations_f fixed x cf (S kept) r
      end
  end.

(* _assertion on one assertion: None = an exception, Some = the came_from state afterwards *)
Definition one_assertion (r : rev) (x : input) (cf : option string) (a : assertion_in) : option (option string) :=
  if negb (n_authn a =? 1)%nat then None else
  match subject a with
  | None => None
  | Some scs =>
      if strict r && match answered x with Some i => negb (sc_all_match i scs) | None => false end then None else
      match confirmations_f (skips r) x cf 0 scs with
      | None => None
      | Some (cf', kept) =>
          if (kept =? 0)%nat then None else
          if allow_unsolicited x then Some cf' else
          match cf' with None => None | Some _ => Some cf' end
      end
  end.

Fixpoint all_assertions (r : rev) (x : input) (cf : option string) (l : list assertion_in) : option (option string) :=
  match l with
  | [] => Some cf
  | a :: l' => match one_assertion r x cf a with
               | None => None
               | Some cf' => all_assertions r x cf' l'
               end
  end.

Definition count_ok (plain enc : list assertion_in) : bool :=
  (length plain =? 1)%nat || (length enc =? 1)%nat.

Definition accept_sealed (fixed : rev) (fl : list bool) (x : input) : verdict :=
  let plain := fst (split_sealed fl (assertions x)) in
  let enc := snd (split_sealed fl (assertions x)) in
  if instance_invalid (with_assertions x plain) then NoId else
  match loads (with_assertions x plain) with
  | None => NoId
  | Some cf =>
      if negb (version_ok (version x)) then NoId else
      if negb (String.eqb (status_top x) STATUS_SUCCESS) then StatusErr (status_class (status_second x)) else
      if negb (count_ok plain enc) then NoId else
      match all_assertions fixed x cf (plain ++ enc) with
      | None => NoId
      | Some cf' => Identity cf'
      end
  end.

Definition back_channel_assertion (a : assertion_in) : bool :=
  (n_authn a =? 1)%nat && match subject a with None => false | Some scs => negb (count_data scs =? 0)%nat end.

Definition accept_back_channel_sealed (fl : list bool) (x : input) : verdict :=
  let plain := fst (split_sealed fl (assertions x)) in
  let enc := snd (split_sealed fl (assertions x)) in
  if instance_invalid (with_assertions x plain) then NoId else
  if negb (version_ok (version x)) then NoId else
  if negb (String.eqb (status_top x) STATUS_SUCCESS) then StatusErr (status_class (status_second x)) else
  if negb (count_ok plain enc) then NoId else
  if forallb back_channel_assertion (plain ++ enc) then Identity None else NoId.

Definition receive_f (fixed : rev) (y : delivery) : verdict :=
  if negb (unravels (via y)) then NoId else
  if asynchop (via y) then
    if destination_ok (via y) (dest y) then accept_sealed fixed (sealed y) (resp y) else NoId
  else accept_back_channel_sealed (sealed y) (resp y).

Definition receive := receive_f V2.       (* the code as it is now *)
Definition receive_v1 := receive_f V1.    (* after b84752ad, before e76039c1: finding C06-F3 *)
Definition receive_v0 := receive_f V0.    (* the pinned snapshot: finding C06-F2 *)

(* ------------------------------------------------------------------------------------------
   The configuration.  How the SP option allow_unsolicited is WRITTEN in the service/sp section of the
   configuration, and what the receiver then runs with:
   Config.load_special (config.py): the strings "true" / "false" become True / False, anything else is kept;
   Config.getattr: an option that was never set reads as None;
   Base.__init__ (client_base.py): None -> the default (False); a string -> what it says, or SAMLError (since
   6bdc97cd; before: "true" -> True, anything else kept); anything else is kept;
   AuthnResponse ("elif self.allow_unsolicited:"): the truth value of what was kept - a number other than 0
   counts as true (before 6bdc97cd a non-empty string did as well: finding C06-F4).
   [how] = the way the configuration object was made (SPConfig / Config / IdPConfig loaded from the dict,
   config_factory("sp", dict), Saml2Client(config_file=module)): the option is read through
   getattr(attr, "sp") whatever the class, so the decision does not depend on it. *)
Inductive optval := OAbsent | ONone | OBool (b : bool) | OStr (s : string) | OInt (n : nat).
Inductive loader := LSPConfig | LConfig | LIdPConfig | LFactoryDict | LClientFile.
Record setup := { opt : optval; how : loader }.

Definition load_special_val (v : optval) : optval :=
  match v with
  | OStr s => if String.eqb s "true" then OBool true else if String.eqb s "false" then OBool false else v
  | _ => v
  end.

(* Base.__init__ as it is now (6bdc97cd): a string is read by what it says - stripped and lower-cased it must be one
   of the words below - and any other string raises SAMLError: no client ([None]).  Anything that is no string is kept. *)
Definition init_yes_words : list string := ["true"; "yes"; "on"; "1"].
Definition init_no_words : list string := ["false"; "no"; "off"; "0"; ""].

Definition client_init_val (v : optval) : option optval :=
  match v with
  | OAbsent | ONone => Some (OBool false)
  | OStr s => let w := lower (strip s) in
              if mem w init_yes_words then Some (OBool true)
              else if mem w init_no_words then Some (OBool false) else None
  | _ => Some v
  end.

(* before 6bdc97cd (finding C06-F4): only "true" was mapped, any other string was kept *)
Definition client_init_val_v0 (v : optval) : optval :=
  match v with
  | OAbsent | ONone => OBool false
  | OStr s => if String.eqb s "true" then OBool true else v
  | _ => v
  end.

Definition truthy (v : optval) : bool :=
  match v with
  | OAbsent | ONone => false
  | OBool b => b
  | OStr s => negb (is_empty s)
  | OInt n => negb (n =? 0)%nat
  end.

(* what the receiver runs with; None: the client cannot be built *)
Definition effective_allow (v : optval) : option bool := option_map truthy (client_init_val (load_special_val v)).
Definition effective_allow_v0 (v : optval) : bool := truthy (client_init_val_v0 (load_special_val v)).

Definition with_allow (b : bool) (x : input) : input :=
  {| allow_unsolicited := b; outstanding := outstanding x; irt := irt x; version := version x;
     status_top := status_top x; status_second := status_second x; assertions := assertions x |}.

Definition configure (b : bool) (y : delivery) : delivery :=
  {| via := via y; dest := dest y; sealed := sealed y; resp := with_allow b (resp y) |}.

(* the decision of a receiver set up by [s]; the allow_unsolicited field of [resp y] is not looked at; a receiver
   that cannot be built produces no identity whatever is delivered *)
Definition receive_cfg (s : setup) (y : delivery) : verdict :=
  match effective_allow (opt s) with
  | Some b => receive (configure b y)
  | None => NoId
  end.

(* the pinned state before 6bdc97cd *)
Definition receive_cfg_v0 (s : setup) (y : delivery) : verdict := receive (configure (effective_allow_v0 (opt s)) y).

(* ------------------------------------------------------------------------------------------
   The confirmation METHOD.  [scd] says what a SubjectConfirmation carries; which Method it names is given beside
   it ([methods], per assertion in document order, per confirmation; a missing entry means bearer, so a delivery
   without the list is the one of the older layers).  AuthnResponse.get_subject, per confirmation:
     bearer         -> _bearer_confirmed(data): no data => not used; the rule of b84752ad; came_from looked up;
     holder-of-key  -> _holder_of_key_confirmed(data): used when the data carries a ds:KeyInfo, else not used;
     sender-vouches -> used ("pass"); then "_data.recipient": AttributeError when there is no data;
     anything else  -> ValueError.
   A confirmation other than bearer leaves came_from alone.  What looks at InResponseTo WITHOUT asking for the
   method: check_subject_confirmation_in_response_to (loads(), assertions in clear) and its repeat at the head of
   get_subject (e76039c1, every assertion).  [chk] = the methods whose confirmations that repeat looks at; the
   code: all of them. *)
Inductive cm := Bearer | HokKey | HokBare | SenderVouches | OtherMethod.

Record delivery_m := { base : delivery; methods : list (list cm) }.

Fixpoint tag (ms : list cm) (scs : list scd) : list (cm * scd) :=
  match scs with
  | [] => []
  | s :: r => (hd Bearer ms, s) :: tag (tl ms) r
  end.

Fixpoint tag_assertions (mss : list (list cm)) (l : list assertion_in) : list (list cm * assertion_in) :=
  match l with
  | [] => []
  | a :: r => (hd [] mss, a) :: tag_assertions (tl mss) r
  end.

Fixpoint split_flags {A} (fl : list bool) (l : list A) : list A * list A :=
  match l with
  | [] => ([], [])
  | a :: r => let pe := split_flags (tl fl) r in
              if hd false fl then (fst pe, a :: snd pe) else (a :: fst pe, snd pe)
  end.

(* what the evaluation of one confirmation does *)
Inductive step := Raise | Skip | Keep (cf : option string).

(* _bearer_confirmed (asynchop = True), the code as it is now *)
Definition bearer_step (x : input) (cf : option string) (s : scd) : step :=
  match s with
  | NoData => Skip
  | Data d =>
      if match answered x with Some i => negb (answers i d) | None => false end then Skip else
      match cf, d with
      | None, Some j =>
          if is_empty j then Keep cf else
          match lookup j (outstanding x) with
          | Some c => Keep (Some c)
          | None => if allow_unsolicited x then Keep cf else Raise
          end
      | _, _ => Keep cf
      end
  end.

Definition other_step (cf : option string) (m : cm) (s : scd) : step :=
  match m, s with
  | HokKey, Data _ => Keep cf
  | HokKey, NoData => Skip
  | HokBare, _ => Skip
  | SenderVouches, Data _ => Keep cf
  | SenderVouches, NoData => Raise
  | _, _ => Raise
  end.

Definition conf_step (x : input) (cf : option string) (m : cm) (s : scd) : step :=
  match m with Bearer => bearer_step x cf s | _ => other_step cf m s end.

Fixpoint confirmations_m (x : input) (cf : option string) (kept : nat) (l : list (cm * scd)) : option (option string * nat) :=
  match l with
  | [] => Some (cf, kept)
  | (m, s) :: r =>
      match conf_step x cf m s with
      | Raise => None
      | Skip => confirmations_m x cf kept r
      | Keep cf' => confirmations_m x cf' (S kept) r
      end
  end.

(* the repeat of the test of loads() at the head of get_subject, over the confirmations whose method [chk] names *)
Fixpoint sc_all_match_m (chk : cm -> bool) (i : string) (l : list (cm * scd)) : bool :=
  match l with
  | [] => true
  | (_, NoData) :: r => sc_all_match_m chk i r
  | (m, Data d) :: r => (negb (chk m) || answers i d) && sc_all_match_m chk i r
  end.

Definition every_method (_ : cm) : bool := true.
Definition bearer_only (m : cm) : bool := match m with Bearer => true | _ => false end.

Definition one_assertion_m (chk : cm -> bool) (x : input) (cf : option string) (ma : list cm * assertion_in) : option (option string) :=
  let a := snd ma in
  if negb (n_authn a =? 1)%nat then None else
  match subject a with
  | None => None
  | Some scs =>
      let l := tag (fst ma) scs in
      if match answered x with Some i => negb (sc_all_match_m chk i l) | None => false end then None else
      match confirmations_m x cf 0 l with
      | None => None
      | Some (cf', kept) =>
          if (kept =? 0)%nat then None else
          if allow_unsolicited x then Some cf' else
          match cf' with None => None | Some _ => Some cf' end
      end
  end.

Fixpoint all_assertions_m (chk : cm -> bool) (x : input) (cf : option string) (l : list (list cm * assertion_in)) : option (option string) :=
  match l with
  | [] => Some cf
  | a :: l' => match one_assertion_m chk x cf a with
               | None => None
               | Some cf' => all_assertions_m chk x cf' l'
               end
  end.

Definition accept_sealed_m (chk : cm -> bool) (fl : list bool) (mss : list (list cm)) (x : input) : verdict :=
  let plain := fst (split_sealed fl (assertions x)) in
  let enc := snd (split_sealed fl (assertions x)) in
  let tagged := split_flags fl (tag_assertions mss (assertions x)) in
  if instance_invalid (with_assertions x plain) then NoId else
  match loads (with_assertions x plain) with
  | None => NoId
  | Some cf =>
      if negb (version_ok (version x)) then NoId else
      if negb (String.eqb (status_top x) STATUS_SUCCESS) then StatusErr (status_class (status_second x)) else
      if negb (count_ok plain enc) then NoId else
      match all_assertions_m chk x cf (fst tagged ++ snd tagged) with
      | None => NoId
      | Some cf' => Identity cf'
      end
  end.

(* asynchop = False: _bearer_confirmed uses every bearer confirmation that has data; the other methods as above *)
Definition back_channel_step (m : cm) (s : scd) : step :=
  match m with
  | Bearer => match s with Data _ => Keep None | NoData => Skip end
  | _ => other_step None m s
  end.

Fixpoint back_channel_confirmations (kept : nat) (l : list (cm * scd)) : option nat :=
  match l with
  | [] => Some kept
  | (m, s) :: r =>
      match back_channel_step m s with
      | Raise => None
      | Skip => back_channel_confirmations kept r
      | Keep _ => back_channel_confirmations (S kept) r
      end
  end.

Definition back_channel_assertion_m (ma : list cm * assertion_in) : bool :=
  (n_authn (snd ma) =? 1)%nat
  && match subject (snd ma) with
     | None => false
     | Some scs => match back_channel_confirmations 0 (tag (fst ma) scs) with
                   | Some kept => negb (kept =? 0)%nat
                   | None => false
                   end
     end.

Definition accept_back_channel_sealed_m (fl : list bool) (mss : list (list cm)) (x : input) : verdict :=
  let plain := fst (split_sealed fl (assertions x)) in
  let enc := snd (split_sealed fl (assertions x)) in
  let tagged := split_flags fl (tag_assertions mss (assertions x)) in
  if instance_invalid (with_assertions x plain) then NoId else
  if negb (version_ok (version x)) then NoId else
  if negb (String.eqb (status_top x) STATUS_SUCCESS) then StatusErr (status_class (status_second x)) else
  if negb (count_ok plain enc) then NoId else
  if forallb back_channel_assertion_m (fst tagged ++ snd tagged) then Identity None else NoId.

Definition receive_mf (chk : cm -> bool) (ym : delivery_m) : verdict :=
  let y := base ym in
  if negb (unravels (via y)) then NoId else
  if asynchop (via y) then
    if destination_ok (via y) (dest y) then accept_sealed_m chk (sealed y) (methods ym) (resp y) else NoId
  else accept_back_channel_sealed_m (sealed y) (methods ym) (resp y).

Definition receive_m := receive_mf every_method.          (* the code as it is now *)
Definition receive_m_bearer := receive_mf bearer_only.    (* were the repeat in get_subject to look at bearer confirmations only *)

Definition configure_m (b : bool) (ym : delivery_m) : delivery_m :=
  {| base := configure b (base ym); methods := methods ym |}.

Definition receive_cfg_m (s : setup) (ym : delivery_m) : verdict :=
  match effective_allow (opt s) with
  | Some b => receive_m (configure_m b ym)
  | None => NoId
  end.
