(* C06/History.v — the HISTORY layer: what the process handled before the Response arrives (model, spec and proofs of
   the layer; kept in a file of its own so that C06/Model.v, which C09 composes, stays as it is).

   The property quantifies over histories: a Response is judged by the clauses of Spec.spec_cm whatever the same
   client, another client in the process or a client built later handled before - logout responses (Entity.
   parse_logout_request_response -> response.LogoutResponse), responses to attribute / authentication / authorisation
   queries (AttributeResponse, AuthnQueryResponse, AuthzResponse), NameID management and mapping responses, assertion-id
   and artifact responses, earlier authentication Responses (accepted or refused), messages that could not even be
   decoded (the response object is made BEFORE Entity.unravel looks at the message).

   As coded, nothing that outlives one message is read by the decision: the response classes of saml2.response have no
   class-level state besides the constant [msgtype], STATUSCODE2EXCEPTION is never written, a response object is made
   per message, the client hands its own (constant) options and the caller's outstanding set to it.  The decision is
   therefore Model.receive_cfg_m, for every history ([receive_h]).  The neighbourhood ([receive_hf true]): a set of
   second-level status codes the status test lets pass, kept where ALL response classes share it (a mutable class
   attribute of StatusResponse, a module-level list) and filled when a logout response object is made. *)
From Coq Require Import String List Bool Arith.
From Verif Require Import Base.Str C06.Model C06.Spec C06.Proofs C06.Methods.
From VerifGen Require Import C06Tables.
Import ListNotations.
Open Scope string_scope.

(* ------------------------------------------------------------------------------------------ model *)
(* the response class that is instantiated for a message *)
Inductive mkind := MAuthn | MLogout | MManageNameId | MNameIdMapping | MAttribute | MAuthnQuery | MAuthz
                 | MAssertionId | MArtifact.

(* one thing the process did before: a message of kind [k] handed to the matching parse_* function of the client that
   receives the Response later ([same_client]) or of another client of the process, naming binding [b];
   [status] = None: a message that cannot be decoded, else its (top-level, second-level) status; [irt] its InResponseTo.
   [NewClient]: from here on "the client" is one built now (same configuration). *)
Inductive event :=
| Msg (k : mkind) (b : binding) (same_client : bool) (irt : option string) (status : option (string * option string))
| NewClient.

Definition history := list event.

Definition PARTIAL_LOGOUT := "urn:oasis:names:tc:SAML:2.0:status:PartialLogout".

Definition makes_logout_response (e : event) : bool :=
  match e with Msg MLogout _ _ _ _ => true | _ => false end.

(* the second-level codes the status test of an AUTHENTICATION response lets pass after history [h].
   As coded ([shared = false]): none, ever.  [shared = true]: were LogoutResponse.__init__ to add PartialLogout to a
   list that all response classes share *)
Definition tolerated (shared : bool) (h : history) : list string :=
  if shared && existsb makes_logout_response h then [PARTIAL_LOGOUT] else [].

Definition with_status_top (t : string) (x : input) : input :=
  {| allow_unsolicited := allow_unsolicited x; outstanding := outstanding x; irt := irt x; version := version x;
     status_top := t; status_second := status_second x; assertions := assertions x |}.

(* a status test that lets the codes [tol] pass treats such a Response as a successful one *)
Definition tolerate (tol : list string) (x : input) : input :=
  match status_second x with
  | Some c => if mem c tol then with_status_top STATUS_SUCCESS x else x
  | None => x
  end.

Definition tolerate_m (tol : list string) (ym : delivery_m) : delivery_m :=
  {| base := {| via := via (base ym); dest := dest (base ym); sealed := sealed (base ym);
                resp := tolerate tol (resp (base ym)) |};
     methods := methods ym |}.

Definition receive_tol (tol : list string) (s : setup) (ym : delivery_m) : verdict := receive_cfg_m s (tolerate_m tol ym).

Definition receive_hf (shared : bool) (h : history) (s : setup) (ym : delivery_m) : verdict :=
  receive_tol (tolerated shared h) s ym.

Definition receive_h := receive_hf false.          (* the code as it is now *)
Definition receive_h_shared := receive_hf true.    (* the neighbourhood *)

(* ------------------------------------------------------------------------------------------ spec *)
(* "histories" in the property's quantifier: the clauses do not mention what happened before, so they bind the
   verdict after EVERY history *)
Definition spec_h (h : history) (s : setup) (ym : delivery_m) (v : verdict) : Prop := spec_cm s ym v.
Definition spec_h_b (h : history) (s : setup) (ym : delivery_m) (v : verdict) : bool := spec_cm_b s ym v.

(* ------------------------------------------------------------------------------------------ proofs *)
Lemma tolerate_nil x : tolerate [] x = x.
Proof. unfold tolerate. destruct (status_second x); reflexivity. Qed.

Lemma tolerate_m_nil ym : tolerate_m [] ym = ym.
Proof. unfold tolerate_m. rewrite tolerate_nil. destruct ym as [[v d f r] ms]. reflexivity. Qed.

Lemma history_irrelevant h s ym : receive_h h s ym = receive_cfg_m s ym.
Proof. unfold receive_h, receive_hf, receive_tol, tolerated. cbn [andb]. rewrite tolerate_m_nil. reflexivity. Qed.

Lemma histories_hold h s ym : spec_h h s ym (receive_h h s ym).
Proof. unfold spec_h. rewrite history_irrelevant. apply c06_methods_configured_holds. Qed.

Lemma spec_h_b_sound h s ym v : spec_h_b h s ym v = true -> spec_h h s ym v.
Proof. apply spec_cm_b_sound. Qed.

(* without a logout response in the history the shared list is still empty: why the change needs the SEQUENCE *)
Lemma shared_needs_logout h s ym : existsb makes_logout_response h = false -> receive_h_shared h s ym = receive_cfg_m s ym.
Proof.
  intros H. unfold receive_h_shared, receive_hf, receive_tol, tolerated. rewrite H. cbn [andb]. rewrite tolerate_m_nil. reflexivity.
Qed.

(* and for every second-level code but the one it lets pass the shared list changes nothing, at any time *)
Lemma shared_other_codes h s ym : status_second (resp (base ym)) <> Some PARTIAL_LOGOUT -> receive_h_shared h s ym = receive_cfg_m s ym.
Proof.
  intros H. unfold receive_h_shared, receive_hf, receive_tol, tolerated.
  destruct (true && existsb makes_logout_response h); [|rewrite tolerate_m_nil; reflexivity].
  assert (E : tolerate [PARTIAL_LOGOUT] (resp (base ym)) = resp (base ym)).
  { unfold tolerate. destruct (status_second (resp (base ym))) as [c|] eqn:Hs; [|reflexivity].
    cbn [mem]. destruct (String.eqb c PARTIAL_LOGOUT) eqn:Hc.
    - apply String.eqb_eq in Hc. subst c. exfalso. apply H. reflexivity.
    - reflexivity. }
  unfold tolerate_m. rewrite E. destruct ym as [[v d f r] ms]. reflexivity.
Qed.

Lemma identity_breaks_status x cf : status_top x <> SUCCESS -> ~ status_respected x (Identity cf).
Proof. intros Ht H. destruct (H Ht) as [Hi _]. discriminate Hi. Qed.

(* the witness: a logout response was handled over HTTP-Redirect; then a Response with status Responder /
   PartialLogout answers the outstanding request req-1 over HTTP-POST, with an acceptable assertion *)
Definition after_logout : history := [Msg MLogout Redirect true (Some "lreq-1") (Some (SUCCESS, None))].

Definition failed_with (top : string) (second : option string) : delivery_m :=
  {| base := {| via := Post; dest := DPost; sealed := [];
                resp := {| allow_unsolicited := false; outstanding := [("req-1", "/ctx1")]; irt := Some "req-1";
                           version := (2, 0); status_top := top; status_second := second;
                           assertions := [{| n_authn := 1; subject := Some [Data (Some "req-1")] |}] |} |};
     methods := [] |}.

Definition plain_setup : setup := {| opt := OAbsent; how := LSPConfig |}.
Definition RESPONDER := "urn:oasis:names:tc:SAML:2.0:status:Responder".

Lemma shared_tolerance_refuted : exists h s ym, ~ spec_h h s ym (receive_h_shared h s ym).
Proof.
  exists after_logout, plain_setup, (failed_with RESPONDER (Some PARTIAL_LOGOUT)).
  intros H. specialize (H false eq_refl). unfold spec_dm in H. cbv zeta in H. destruct H as (_ & Hst & _).
  assert (E : receive_h_shared after_logout plain_setup (failed_with RESPONDER (Some PARTIAL_LOGOUT)) = Identity (Some "/ctx1"))
    by (vm_compute; reflexivity).
  rewrite E in Hst. revert Hst. apply identity_breaks_status. vm_compute. discriminate.
Qed.

(* whatever code a status test lets pass, the property is gone: a Response that fails with that code is turned into
   identity (no history needed) *)
Lemma any_tolerance_refuted c : ~ spec_cm plain_setup (failed_with RESPONDER (Some c)) (receive_tol [c] plain_setup (failed_with RESPONDER (Some c))).
Proof.
  intros H. specialize (H false eq_refl). unfold spec_dm in H. cbv zeta in H. destruct H as (_ & Hst & _).
  assert (E : receive_tol [c] plain_setup (failed_with RESPONDER (Some c)) = Identity (Some "/ctx1")).
  { unfold receive_tol, tolerate_m, tolerate, failed_with. cbn [base resp status_second methods via dest sealed mem].
    rewrite String.eqb_refl. vm_compute. reflexivity. }
  rewrite E in Hst. revert Hst. apply identity_breaks_status. vm_compute. discriminate.
Qed.

(* non-vacuity: the verdicts after a logout response, as coded and in the neighbourhood *)
Example history_example :
  receive_h after_logout plain_setup (failed_with RESPONDER (Some PARTIAL_LOGOUT)) = StatusErr "StatusPartialLogout"
  /\ receive_h_shared after_logout plain_setup (failed_with RESPONDER (Some PARTIAL_LOGOUT)) = Identity (Some "/ctx1")
  /\ receive_h_shared [] plain_setup (failed_with RESPONDER (Some PARTIAL_LOGOUT)) = StatusErr "StatusPartialLogout"
  /\ receive_h_shared [NewClient; Msg MAttribute Soap true None (Some (SUCCESS, None))] plain_setup
       (failed_with RESPONDER (Some PARTIAL_LOGOUT)) = StatusErr "StatusPartialLogout"
  /\ receive_h_shared after_logout plain_setup (failed_with RESPONDER (Some "urn:oasis:names:tc:SAML:2.0:status:AuthnFailed"))
     = StatusErr "StatusAuthnFailed"
  /\ receive_h after_logout plain_setup (failed_with SUCCESS (Some PARTIAL_LOGOUT)) = Identity (Some "/ctx1").
Proof. vm_compute. repeat split; reflexivity. Qed.
