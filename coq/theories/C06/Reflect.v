(* C06/Reflect.v — the boolean specification that Coq evaluates on the implementation's recorded
   outputs implies the stated specification (so "spec_b = true on every case" means the Prop spec
   holds on every case that was run). *)
From Coq Require Import String List Bool Arith Lia.
From Verif Require Import Base.Str C06.Model C06.Spec.
Import ListNotations.
Open Scope string_scope.

Lemma opt_str_eqb_eq (a b : option string) : opt_eqb String.eqb a b = true -> a = b.
Proof.
  destruct a as [a|], b as [b|]; cbn; try discriminate; auto.
  intros H. apply String.eqb_eq in H. congruence.
Qed.

Lemma correlated_sound x v : correlated_b x v = true -> correlated x v.
Proof.
  unfold correlated_b, correlated. intros H Hu cf Hv. rewrite Hu in H. cbn [orb] in H. subst v.
  destruct (irt x) as [i|] eqn:Ei; [|discriminate].
  destruct (lookup i (outstanding x)) as [ctx|] eqn:El; [|discriminate].
  apply andb_prop in H as [H1 H2]. apply opt_str_eqb_eq in H1.
  exists i, ctx. split; [reflexivity|]. split; [exact El|]. split; [exact H1|].
  intros j Hj. rewrite forallb_forall in H2. apply String.eqb_eq. exact (H2 j Hj).
Qed.

Lemma status_sound x v : status_respected_b x v = true -> status_respected x v.
Proof.
  unfold status_respected_b, status_respected. intros H Hn.
  destruct (String.eqb (status_top x) SUCCESS) eqn:E.
  - apply String.eqb_eq in E. contradiction.
  - cbn [orb] in H. apply andb_prop in H as [H1 H2]. split.
    + destruct (is_identity v); [discriminate|reflexivity].
    + intros c ->. exact H2.
Qed.

Lemma version_is_20_iff x : version_is_20 x = true <-> version x = (2, 0)%nat.
Proof.
  unfold version_is_20. destruct (version x) as [a b]. cbn [fst snd]. split.
  - intros H. apply andb_prop in H as [H1 H2]. apply Nat.eqb_eq in H1, H2. congruence.
  - intros H. injection H as -> ->. reflexivity.
Qed.

Lemma shape_sound x v : shape_respected_b x v = true -> shape_respected x v.
Proof.
  unfold shape_respected_b, shape_respected. intros H Hbad.
  assert (Hb : bad_shape_b x = true).
  { unfold bad_shape_b. destruct Hbad as [Hv|[He|[a [Ha Hs]]]].
    - destruct (version_is_20 x) eqn:E; [|reflexivity]. apply version_is_20_iff in E. contradiction.
    - rewrite He. apply orb_true_iff. left. apply orb_true_iff. right. reflexivity.
    - apply orb_true_iff. right. apply existsb_exists. exists a. split; [exact Ha|].
      destruct Hs as [Hn|Hn].
      + destruct (n_authn a =? 1)%nat eqn:E; [apply Nat.eqb_eq in E; contradiction|reflexivity].
      + rewrite Hn. apply orb_true_iff. right. reflexivity. }
  rewrite Hb in H. cbn [negb orb] in H. destruct (is_identity v); [discriminate|reflexivity].
Qed.

Lemma verdict_eqb_eq a b : verdict_eqb a b = true -> a = b.
Proof.
  destruct a as [x| x|], b as [y|y|]; cbn; try discriminate; auto.
  - intros H. apply opt_str_eqb_eq in H. congruence.
  - intros H. apply String.eqb_eq in H. congruence.
Qed.

Lemma well_correlated_complete x i ctx :
  well_correlated x i ctx -> well_correlated_b x = Some (i, ctx).
Proof.
  intros [Hi [Hl Hall]]. unfold well_correlated_b. rewrite Hi, Hl.
  replace (forallb _ (assertions x)) with true; [reflexivity|]. symmetry.
  apply forallb_forall. intros a Ha. destruct (subject a) as [scs|] eqn:Es; [|reflexivity].
  apply forallb_forall. intros s Hs. destruct s as [|d]; [reflexivity|].
  cbn. rewrite (Hall a scs d Ha Es Hs). cbn. apply String.eqb_refl.
Qed.

Lemma accepted_sound x v : accepted_when_fine_b x v = true -> accepted_when_fine x v.
Proof.
  unfold accepted_when_fine_b, accepted_when_fine. intros H i ctx scs Hw Hv Hs Ha [d Hd].
  rewrite (well_correlated_complete _ _ _ Hw), Ha in H. cbn [subject n_authn] in H.
  rewrite (proj2 (version_is_20_iff x) Hv), Hs, String.eqb_refl in H. cbn [andb Nat.eqb] in H.
  replace (existsb scd_is_data scs) with true in H.
  - apply verdict_eqb_eq. exact H.
  - symmetry. apply existsb_exists. exists (Data d). split; [exact Hd|reflexivity].
Qed.

Lemma status_raised_sound x v : status_raised_when_fine_b x v = true -> status_raised_when_fine x v.
Proof.
  unfold status_raised_when_fine_b, status_raised_when_fine. intros H i ctx Hw Hv Hs Hsub.
  rewrite (well_correlated_complete _ _ _ Hw) in H.
  rewrite (proj2 (version_is_20_iff x) Hv) in H.
  destruct (String.eqb (status_top x) SUCCESS) eqn:E; [apply String.eqb_eq in E; contradiction|].
  cbn [andb negb] in H.
  replace (forallb _ (assertions x)) with true in H.
  - destruct v as [|c|]; try discriminate. exists c. reflexivity.
  - symmetry. apply forallb_forall. intros a Ha. specialize (Hsub a Ha).
    destruct (subject a); [reflexivity|contradiction].
Qed.

Lemma spec_b_sound x v : spec_b x v = true -> spec x v.
Proof.
  unfold spec_b, spec. intros H.
  apply andb_prop in H as [H H5]. apply andb_prop in H as [H H4].
  apply andb_prop in H as [H H3]. apply andb_prop in H as [H1 H2].
  repeat split.
  - exact (correlated_sound _ _ H1).
  - exact (proj1 (status_sound _ _ H2 H)).
  - exact (proj2 (status_sound _ _ H2 H)).
  - exact (shape_sound _ _ H3).
  - exact (accepted_sound _ _ H4).
  - exact (status_raised_sound _ _ H5).
Qed.


Lemma spec_d_b_sound y v : spec_d_b y v = true -> spec_d y v.
Proof.
  unfold spec_d_b, spec_d. intros H.
  apply andb_prop in H as [H H4]. apply andb_prop in H as [H H3]. apply andb_prop in H as [H1 H2].
  split; [|split; [|split]].
  - intros Hb. rewrite Hb in H1. cbn [negb orb] in H1. exact (correlated_sound _ _ H1).
  - exact (status_sound _ _ H2).
  - exact (shape_sound _ _ H3).
  - intros Hb Hw. rewrite Hb, Hw in H4. cbn [negb andb orb] in H4. apply andb_prop in H4 as [Ha Hs].
    split; [exact (accepted_sound _ _ Ha)|exact (status_raised_sound _ _ Hs)].
Qed.

Lemma spec_c_b_sound s y v : spec_c_b s y v = true -> spec_c s y v.
Proof.
  unfold spec_c_b, spec_c. intros H b Hb. rewrite Hb in H. apply spec_d_b_sound. exact H.
Qed.
