(* C06/Spec.v — the property, from its text.  Independent of the model and of the generated table:
   the expected error class of a defined status code is characterised by its NAME
   (lower-case class name = "status" ++ lower-case local name of the code). *)
From Coq Require Import String List Bool Arith.
From Verif Require Import Base.Str C06.Model.
Import ListNotations.
Open Scope string_scope.

Definition SUCCESS := "urn:oasis:names:tc:SAML:2.0:status:Success".
Definition STATUS_PREFIX := "urn:oasis:names:tc:SAML:2.0:status:".

(* the 21 status codes for which the library defines a dedicated error (SAML core 3.2.2.2) *)
Definition defined_codes : list string :=
  ["VersionMismatch"; "Responder"; "AuthnFailed"; "InvalidAttrNameOrValue"; "InvalidNameIDPolicy"; "NoAuthnContext";
   "NoAvailableIDP"; "NoPassive"; "NoSupportedIDP"; "PartialLogout"; "ProxyCountExceeded"; "RequestDenied";
   "RequestUnsupported"; "RequestVersionDeprecated"; "RequestVersionTooHigh"; "RequestVersionTooLow";
   "ResourceNotRecognized"; "TooManyResponses"; "UnknownAttrProfile"; "UnknownPrincipal"; "UnsupportedBinding"].

Definition expected_class (local : string) : string := "status" ++ lower local.

(* c is an acceptable error class for second-level code s *)
Definition status_class_ok (second : option string) (c : string) : bool :=
  match second with
  | Some s =>
      match find (fun l => String.eqb s (STATUS_PREFIX ++ l)) defined_codes with
      | Some l => String.eqb (lower c) (expected_class l)
      | None => true
      end
  | None => true
  end.

Definition is_identity (v : verdict) : bool := match v with Identity _ => true | _ => false end.

Fixpoint sc_irts (scs : list scd) : list string :=
  match scs with
  | [] => []
  | Data (Some j) :: r => j :: sc_irts r
  | _ :: r => sc_irts r
  end.

Definition all_sc_irts (x : input) : list string :=
  flat_map (fun a => match subject a with Some scs => sc_irts scs | None => [] end) (assertions x).

(* (1) correlation, (2) status, (3) version / shape; all about the observable verdict *)
Definition correlated (x : input) (v : verdict) : Prop :=
  allow_unsolicited x = false -> forall cf, v = Identity cf ->
    exists i ctx, irt x = Some i /\ lookup i (outstanding x) = Some ctx /\ cf = Some ctx
                  /\ forall j, In j (all_sc_irts x) -> j = i.

Definition status_respected (x : input) (v : verdict) : Prop :=
  status_top x <> SUCCESS ->
    is_identity v = false /\ forall c, v = StatusErr c -> status_class_ok (status_second x) c = true.

Definition shape_respected (x : input) (v : verdict) : Prop :=
  (version x <> (2, 0)%nat \/ assertions x = []
   \/ (exists a, In a (assertions x) /\ (n_authn a <> 1%nat \/ subject a = None)))
  -> is_identity v = false.

(* completeness: a solicited, successful, well-shaped Response is accepted with the stored context;
   an unsuccessful one whose correlation and version are fine raises a status error *)
Definition well_correlated (x : input) (i ctx : string) : Prop :=
  irt x = Some i /\ lookup i (outstanding x) = Some ctx
  /\ forall a scs d, In a (assertions x) -> subject a = Some scs -> In (Data d) scs -> d = Some i.

Definition accepted_when_fine (x : input) (v : verdict) : Prop :=
  forall i ctx scs, well_correlated x i ctx -> version x = (2, 0)%nat -> status_top x = SUCCESS ->
    assertions x = [{| n_authn := 1; subject := Some scs |}] ->
    (exists d, In (Data d) scs) ->
    v = Identity (Some ctx).

Definition status_raised_when_fine (x : input) (v : verdict) : Prop :=
  forall i ctx, well_correlated x i ctx -> version x = (2, 0)%nat -> status_top x <> SUCCESS ->
    (forall a, In a (assertions x) -> subject a <> None) ->
    exists c, v = StatusErr c.

Definition spec (x : input) (v : verdict) : Prop :=
  correlated x v /\ status_respected x v /\ shape_respected x v
  /\ accepted_when_fine x v /\ status_raised_when_fine x v.

(* ------------------------------------------------------------- boolean version *)
Definition correlated_b (x : input) (v : verdict) : bool :=
  allow_unsolicited x ||
  match v with
  | Identity cf =>
      match irt x with
      | Some i => match lookup i (outstanding x) with
                  | Some ctx => opt_eqb String.eqb cf (Some ctx) && forallb (fun j => String.eqb j i) (all_sc_irts x)
                  | None => false
                  end
      | None => false
      end
  | _ => true
  end.

Definition status_respected_b (x : input) (v : verdict) : bool :=
  String.eqb (status_top x) SUCCESS ||
  (negb (is_identity v) && match v with StatusErr c => status_class_ok (status_second x) c | _ => true end).

Definition version_is_20 (x : input) : bool := (fst (version x) =? 2)%nat && (snd (version x) =? 0)%nat.

Definition bad_shape_b (x : input) : bool :=
  negb (version_is_20 x)
  || match assertions x with [] => true | _ => false end
  || existsb (fun a => negb (n_authn a =? 1)%nat || match subject a with None => true | Some _ => false end) (assertions x).

Definition shape_respected_b (x : input) (v : verdict) : bool := negb (bad_shape_b x) || negb (is_identity v).

Definition scd_is (i : string) (s : scd) : bool :=
  match s with Data d => opt_eqb String.eqb d (Some i) | NoData => true end.

Definition well_correlated_b (x : input) : option (string * string) :=
  match irt x with
  | Some i => match lookup i (outstanding x) with
              | Some ctx =>
                  if forallb (fun a => match subject a with Some scs => forallb (scd_is i) scs | None => true end) (assertions x)
                  then Some (i, ctx) else None
              | None => None
              end
  | None => None
  end.

Definition verdict_eqb (a b : verdict) : bool :=
  match a, b with
  | Identity x, Identity y => opt_eqb String.eqb x y
  | StatusErr x, StatusErr y => String.eqb x y
  | NoId, NoId => true
  | _, _ => false
  end.

Definition accepted_when_fine_b (x : input) (v : verdict) : bool :=
  match well_correlated_b x, assertions x with
  | Some (i, ctx), [a] =>
      match subject a with
      | Some scs =>
          if version_is_20 x && String.eqb (status_top x) SUCCESS && (n_authn a =? 1)%nat
             && existsb scd_is_data scs
          then verdict_eqb v (Identity (Some ctx)) else true
      | None => true
      end
  | _, _ => true
  end.

Definition status_raised_when_fine_b (x : input) (v : verdict) : bool :=
  match well_correlated_b x with
  | Some _ =>
      if version_is_20 x && negb (String.eqb (status_top x) SUCCESS)
         && forallb (fun a => match subject a with Some _ => true | None => false end) (assertions x)
      then match v with StatusErr _ => true | _ => false end else true
  | None => true
  end.

Definition spec_b (x : input) (v : verdict) : bool :=
  correlated_b x v && status_respected_b x v && shape_respected_b x v
  && accepted_when_fine_b x v && status_raised_when_fine_b x v.

(* ------------------------------------------------------------- the delivery
   "For Responses received over a browser binding (POST, Redirect) ...": the correlation clause and the
   completeness clauses speak about the browser bindings; the status / version / shape clauses
   ("never produces identity") hold whatever the binding. *)
Definition browser (b : binding) : bool := match b with Post | Redirect => true | _ => false end.

(* not addressed to somewhere else: no Destination, or the consumer endpoint of the binding the
   Response arrived over (addressing itself is property C04; here it only conditions completeness) *)
Definition well_addressed (y : delivery) : bool :=
  match dest y, via y with
  | DAbsent, _ | DPost, Post | DRedirect, Redirect => true
  | _, _ => false
  end.

(* finding C06-F3 (open): the guard of c06_delivery.  The Response answers outstanding request i and an
   assertion that arrives ENCRYPTED carries both a confirmation that answers i and one whose data does
   not (another request, an unknown one, no InResponseTo): the code uses the first and drops the second,
   where the same assertion in clear is refused *)
Definition sc_answers (i : string) (s : scd) : bool := match s with Data d => answers i d | NoData => false end.
Definition sc_strays (i : string) (s : scd) : bool := match s with Data d => negb (answers i d) | NoData => false end.

Definition partial_match (y : delivery) : bool :=
  match answered (resp y) with
  | Some i =>
      existsb (fun a => match subject a with
                        | Some scs => existsb (sc_answers i) scs && existsb (sc_strays i) scs
                        | None => false
                        end) (snd (split_sealed (sealed y) (assertions (resp y))))
  | None => false
  end.

Definition spec_d (y : delivery) (v : verdict) : Prop :=
  (browser (via y) = true -> correlated (resp y) v)
  /\ status_respected (resp y) v /\ shape_respected (resp y) v
  /\ (browser (via y) = true -> well_addressed y = true ->
      accepted_when_fine (resp y) v /\ status_raised_when_fine (resp y) v).

Definition spec_d_b (y : delivery) (v : verdict) : bool :=
  (negb (browser (via y)) || correlated_b (resp y) v)
  && status_respected_b (resp y) v && shape_respected_b (resp y) v
  && (negb (browser (via y) && well_addressed y)
      || (accepted_when_fine_b (resp y) v && status_raised_when_fine_b (resp y) v)).

(* ------------------------------------------------------------- the configuration
   "... unless unsolicited responses are EXPLICITLY allowed": what the option, as written, says.  The
   documented forms are a boolean and the strings "true" / "false"; absent (or None) says nothing, so
   nothing is allowed; a number is read as Python reads it; a string says yes or no when, blanks and case
   aside, it is one of the usual words; any other string says nothing definite and the property does not
   speak about it. *)
Definition yes_words : list string := ["true"; "yes"; "on"; "1"].
Definition no_words : list string := ["false"; "no"; "off"; "0"; ""].

Definition says_yes (s : string) : bool := mem (lower (strip s)) yes_words.
Definition says_no (s : string) : bool := mem (lower (strip s)) no_words.

Definition meaning (v : optval) : option bool :=
  match v with
  | OAbsent | ONone => Some false
  | OBool b => Some b
  | OInt n => Some (negb (n =? 0)%nat)
  | OStr s => if says_yes s then Some true else if says_no s then Some false else None
  end.

(* finding C06-F4 (fixed by 6bdc97cd): the option is a string that says no in another spelling than exactly "false"
   (or the empty string): "False", "FALSE", "no", "off", "0", " false" ...  The code kept such a string as it was
   and later took its truth value: unsolicited responses were accepted.  Kept as the class of the regression
   (Corr.cls) and of the refutation of the pinned state. *)
Definition misread (v : optval) : bool :=
  match v with
  | OStr s => says_no s && negb (String.eqb s "false") && negb (is_empty s)
  | _ => false
  end.

(* the property for a receiver set up by [s]: spec_d with allow_unsolicited := what the option says *)
Definition spec_c (s : setup) (y : delivery) (v : verdict) : Prop :=
  forall b, meaning (opt s) = Some b -> spec_d (configure b y) v.

Definition spec_c_b (s : setup) (y : delivery) (v : verdict) : bool :=
  match meaning (opt s) with
  | Some b => spec_d_b (configure b y) v
  | None => true
  end.

(* ------------------------------------------------------------- the confirmation method
   "... and EVERY subject-confirmation InResponseTo equals it": the property does not ask which Method a
   SubjectConfirmation names.  The correlation, status and shape clauses are therefore the ones above, read on the
   delivery without its methods.  Only the completeness clause has to know them - a well-correlated Response can be
   expected to be accepted when some confirmation can be used under its method (bearer with data, holder-of-key with
   data carrying a KeyInfo, sender-vouches with data) and none of them is one the receiver cannot evaluate (a method
   it does not know, sender-vouches without data).  With bearer confirmations only this is the clause above
   (Methods.accepted_when_fine_m_bearer, Methods.spec_dm_bearer). *)
Definition confirms (c : cm * scd) : bool :=
  match c with
  | (Bearer, Data _) | (HokKey, Data _) | (SenderVouches, Data _) => true
  | _ => false
  end.

Definition unusable (c : cm * scd) : bool :=
  match c with
  | (OtherMethod, _) | (SenderVouches, NoData) => true
  | _ => false
  end.

Definition accepted_when_fine_m (ym : delivery_m) (v : verdict) : Prop :=
  let x := resp (base ym) in
  forall i ctx scs, well_correlated x i ctx -> version x = (2, 0)%nat -> status_top x = SUCCESS ->
    assertions x = [{| n_authn := 1; subject := Some scs |}] ->
    existsb confirms (tag (hd [] (methods ym)) scs) = true ->
    existsb unusable (tag (hd [] (methods ym)) scs) = false ->
    v = Identity (Some ctx).

(* "EVERY subject-confirmation InResponseTo equals it": a SubjectConfirmationData that carries no InResponseTo does
   not answer the request either ([correlated] above compares the values that are there; this clause is the strict
   reading, which the code enforces in loads() and again in get_subject) *)
Definition every_data_answers (x : input) (v : verdict) : Prop :=
  allow_unsolicited x = false -> forall cf, v = Identity cf ->
    forall a scs d, In a (assertions x) -> subject a = Some scs -> In (Data d) scs -> d = irt x.

Definition every_data_answers_b (x : input) (v : verdict) : bool :=
  allow_unsolicited x || negb (is_identity v)
  || forallb (fun a => match subject a with
                       | Some scs => forallb (fun s => match s with Data d => opt_eqb String.eqb d (irt x) | NoData => true end) scs
                       | None => true
                       end) (assertions x).

Definition spec_dm (ym : delivery_m) (v : verdict) : Prop :=
  let y := base ym in
  (browser (via y) = true -> correlated (resp y) v /\ every_data_answers (resp y) v)
  /\ status_respected (resp y) v /\ shape_respected (resp y) v
  /\ (browser (via y) = true -> well_addressed y = true ->
      accepted_when_fine_m ym v /\ status_raised_when_fine (resp y) v).

Definition accepted_when_fine_m_b (ym : delivery_m) (v : verdict) : bool :=
  let x := resp (base ym) in
  match well_correlated_b x, assertions x with
  | Some (i, ctx), [a] =>
      match subject a with
      | Some scs =>
          if version_is_20 x && String.eqb (status_top x) SUCCESS && (n_authn a =? 1)%nat
             && existsb confirms (tag (hd [] (methods ym)) scs) && negb (existsb unusable (tag (hd [] (methods ym)) scs))
          then verdict_eqb v (Identity (Some ctx)) else true
      | None => true
      end
  | _, _ => true
  end.

Definition spec_dm_b (ym : delivery_m) (v : verdict) : bool :=
  let y := base ym in
  (negb (browser (via y)) || (correlated_b (resp y) v && every_data_answers_b (resp y) v))
  && status_respected_b (resp y) v && shape_respected_b (resp y) v
  && (negb (browser (via y) && well_addressed y)
      || (accepted_when_fine_m_b ym v && status_raised_when_fine_b (resp y) v)).

Definition spec_cm (s : setup) (ym : delivery_m) (v : verdict) : Prop :=
  forall b, meaning (opt s) = Some b -> spec_dm (configure_m b ym) v.

Definition spec_cm_b (s : setup) (ym : delivery_m) (v : verdict) : bool :=
  match meaning (opt s) with
  | Some b => spec_dm_b (configure_m b ym) v
  | None => true
  end.
