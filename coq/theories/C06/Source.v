(* C06/Source.v — the model's SubjectConfirmation InResponseTo test equals
   AuthnResponse.check_subject_confirmation_in_response_to as the translator (harness/py2coq.py) produced it
   from the CURRENT source text (coq/gen/C06Src.v, regenerated on every run): for every number of
   assertions and confirmations, with and without confirmation data / InResponseTo. *)
From Coq Require Import String List Bool.
From Verif Require Import Base.Str Base.Py C06.Model.
From VerifGen Require Import C06Src.
Import ListNotations.
Open Scope string_scope.

Definition enc_sc (s : scd) : pyval :=
  PObj [("subject_confirmation_data",
         match s with
         | NoData => PNone
         | Data d => PObj [("in_response_to", match d with Some j => PStr j | None => PNone end)]
         end)].
Definition enc_assertion (scs : list scd) : pyval :=
  PObj [("subject", PObj [("subject_confirmation", PList (map enc_sc scs))])].
Definition enc_self (l : list (list scd)) : pyval :=
  PObj [("response", PObj [("assertion", PList (map enc_assertion l))])].

Definition sc_body (i : string) : pyval -> ctl := fun v__sc =>
  let v__data := py_attr v__sc "subject_confirmation_data" in
  if py_truthy (py_and (py_is_not_none v__data) (py_ne (py_attr v__data "in_response_to") (PStr i)))
  then Ret (PBool false) else Next.

Lemma inner i scs :
  pyfor (map enc_sc scs) (sc_body i) = if sc_all_match i scs then Next else Ret (PBool false).
Proof.
  induction scs as [|s r IH]; cbn [map pyfor sc_all_match]; [reflexivity|].
  destruct s as [|d]; unfold sc_body at 1; cbn [enc_sc py_attr assoc_py String.eqb Ascii.eqb Bool.eqb].
  - cbn. exact IH.
  - destruct d as [j|]; cbn [py_is_not_none py_and py_truthy py_ne py_eq opt_eqb].
    + destruct (String.eqb j i); cbn [negb andb py_truthy]; [exact IH|reflexivity].
    + reflexivity.
Qed.

(* all_present: every assertion has a Subject (otherwise the real function raises AttributeError,
   which the model represents by None) *)
Fixpoint subjects (l : list assertion_in) : option (list (list scd)) :=
  match l with
  | [] => Some []
  | a :: r => match subject a, subjects r with Some s, Some t => Some (s :: t) | _, _ => None end
  end.

Lemma outer i ss :
  pyfor (map enc_assertion ss)
        (fun v_assertion =>
           match pyfor (py_iter (py_attr (py_attr v_assertion "subject") "subject_confirmation")) (sc_body i) with
           | Ret r_ => Ret r_ | Brk => Next | Next => Next end)
  = if forallb (sc_all_match i) ss then Next else Ret (PBool false).
Proof.
  induction ss as [|s r IH]; cbn [map pyfor forallb]; [reflexivity|].
  change (py_iter (py_attr (py_attr (enc_assertion s) "subject") "subject_confirmation")) with (map enc_sc s).
  rewrite inner. destruct (sc_all_match i s); cbn [andb]; [exact IH|reflexivity].
Qed.

Lemma check_sc_irt_forallb i l ss : subjects l = Some ss -> check_sc_irt i l = Some (forallb (sc_all_match i) ss).
Proof.
  revert ss. induction l as [|a r IH]; intros ss; cbn [subjects check_sc_irt].
  - intros H. injection H as <-. reflexivity.
  - destruct (subject a) as [s|]; [|discriminate]. destruct (subjects r) as [t|]; [|discriminate].
    intros H. injection H as <-. cbn [forallb]. destruct (sc_all_match i s); cbn [andb]; [apply IH; reflexivity|reflexivity].
Qed.

Theorem src_check_sc_irt_is_model : forall i l ss,
  subjects l = Some ss ->
  exists b, check_sc_irt i l = Some b /\ src_check_sc_irt (enc_self ss) (PStr i) = PBool b.
Proof.
  intros i l ss H. exists (forallb (sc_all_match i) ss). split; [exact (check_sc_irt_forallb i l ss H)|].
  unfold src_check_sc_irt.
  change (py_iter (py_attr (py_attr (enc_self ss) "response") "assertion")) with (map enc_assertion ss).
  fold (sc_body i). rewrite outer. destruct (forallb (sc_all_match i) ss); reflexivity.
Qed.
