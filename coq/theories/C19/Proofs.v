(* C19/Proofs.v *)
From Coq Require Import List Bool Arith ZArith Lia.
From Verif Require Import C19.Model C19.Spec.
Import ListNotations.
Local Open Scope Z_scope.

(* ================================================================ association lists *)
Section AssocLemmas.
  Context {V : Type}.
  Implicit Types (l : list (nat * V)) (k : nat).

  Lemma lookup_update_eq k v l : lookup k (update k v l) = Some v.
  Proof.
    induction l as [|[k' v'] r IH]; cbn; [rewrite Nat.eqb_refl; reflexivity|].
    destruct (k' =? k)%nat eqn:E; cbn; [rewrite Nat.eqb_refl; reflexivity|rewrite E; exact IH].
  Qed.

  Lemma lookup_update_neq k k' v l : k' <> k -> lookup k' (update k v l) = lookup k' l.
  Proof.
    intros N. induction l as [|[k2 v2] r IH]; cbn.
    - destruct (k =? k')%nat eqn:E; [apply Nat.eqb_eq in E; congruence|reflexivity].
    - destruct (k2 =? k)%nat eqn:E; cbn.
      + apply Nat.eqb_eq in E; subst k2.
        destruct (k =? k')%nat eqn:E2; [apply Nat.eqb_eq in E2; congruence|reflexivity].
      + destruct (k2 =? k')%nat; [reflexivity|exact IH].
  Qed.

  Lemma lookup_remove_eq k l : lookup k (remove k l) = None.
  Proof.
    induction l as [|[k' v'] r IH]; cbn; [reflexivity|].
    destruct (k' =? k)%nat eqn:E; [exact IH|cbn; rewrite E; exact IH].
  Qed.

  Lemma lookup_remove_neq k k' l : k' <> k -> lookup k' (remove k l) = lookup k' l.
  Proof.
    intros N. induction l as [|[k2 v2] r IH]; cbn; [reflexivity|].
    destruct (k2 =? k)%nat eqn:E; cbn.
    - apply Nat.eqb_eq in E; subst k2.
      destruct (k =? k')%nat eqn:E2; [apply Nat.eqb_eq in E2; congruence|exact IH].
    - destruct (k2 =? k')%nat; [reflexivity|exact IH].
  Qed.

  Lemma lookup_In_keys k l : lookup k l <> None <-> In k (keys l).
  Proof.
    unfold keys.
    induction l as [|[k' v'] r IH]; cbn; [split; [congruence|contradiction]|].
    destruct (k' =? k)%nat eqn:E.
    - apply Nat.eqb_eq in E. split; [intros _; left; exact E|congruence].
    - apply Nat.eqb_neq in E. rewrite IH. split; [intros H; right; exact H|intros [H|H]; [congruence|exact H]].
  Qed.

  Lemma lookup_None_keys k l : lookup k l = None <-> ~ In k (keys l).
  Proof.
    rewrite <- lookup_In_keys. destruct (lookup k l) as [v|].
    - split; [discriminate|intros H; exfalso; apply H; discriminate].
    - split; [intros _ H; apply H; reflexivity|reflexivity].
  Qed.

  Lemma lookup_app k l1 l2 :
    lookup k (l1 ++ l2) = match lookup k l1 with Some v => Some v | None => lookup k l2 end.
  Proof.
    induction l1 as [|[k' v'] r IH]; cbn; [reflexivity|]. destruct (k' =? k)%nat; [reflexivity|exact IH].
  Qed.

  Lemma keys_update_in k v l : In k (keys l) -> keys (update k v l) = keys l.
  Proof.
    unfold keys.
    induction l as [|[k' v'] r IH]; cbn; [contradiction|].
    destruct (k' =? k)%nat eqn:E; cbn.
    - apply Nat.eqb_eq in E; subst; reflexivity.
    - apply Nat.eqb_neq in E. intros [H|H]; [congruence|]. rewrite IH; [reflexivity|exact H].
  Qed.

  Lemma keys_update_notin k v l : ~ In k (keys l) -> keys (update k v l) = keys l ++ [k].
  Proof.
    unfold keys.
    induction l as [|[k' v'] r IH]; cbn; [reflexivity|].
    destruct (k' =? k)%nat eqn:E; cbn.
    - apply Nat.eqb_eq in E; subst. intros H; exfalso; apply H; left; reflexivity.
    - intros H. rewrite IH; [reflexivity|]. intros H2; apply H; right; exact H2.
  Qed.

  Lemma keys_update_nonempty k v l : keys (update k v l) <> [].
  Proof.
    unfold keys. destruct l as [|[k' v'] r]; cbn; [discriminate|]. destruct (k' =? k)%nat; discriminate. Qed.

  Lemma NoDup_keys_update k v l : NoDup (keys l) -> NoDup (keys (update k v l)).
  Proof.
    intros H. destruct (in_dec Nat.eq_dec k (keys l)) as [I|I].
    - rewrite keys_update_in; assumption.
    - rewrite keys_update_notin by assumption. clear -H I. induction (keys l) as [|x r IH]; cbn.
      + constructor; [intros []|constructor].
      + inversion H as [|? ? Hx Hr]; subst. constructor.
        * rewrite in_app_iff. intros [A|[A|[]]]; [exact (Hx A)|subst; apply I; left; reflexivity].
        * apply IH; [exact Hr|intros A; apply I; right; exact A].
  Qed.
End AssocLemmas.

Lemma lookup_map_snd {A B} (f : A -> B) k (l : list (nat * A)) :
  lookup k (map (fun x => (fst x, f (snd x))) l) = option_map f (lookup k l).
Proof.
  induction l as [|[k' v] r IH]; cbn; [reflexivity|]. destruct (k' =? k)%nat; [reflexivity|exact IH].
Qed.

Lemma keys_map_snd {A B} (f : A -> B) (l : list (nat * A)) :
  keys (map (fun x => (fst x, f (snd x))) l) = keys l.
Proof. unfold keys. rewrite map_map. apply map_ext. reflexivity. Qed.

Lemma mem_In k l : mem k l = true <-> In k l.
Proof.
  induction l as [|x r IH]; cbn; [split; [discriminate|contradiction]|].
  rewrite orb_true_iff, IH, Nat.eqb_eq. tauto.
Qed.

Lemma mem_false k l : mem k l = false <-> ~ In k l.
Proof. rewrite <- mem_In. destruct (mem k l); split; congruence. Qed.

Lemma lookup_notin {V} k (l : list (nat * V)) : ~ In k (keys l) -> lookup k l = None.
Proof. apply lookup_None_keys. Qed.

Lemma lookup_filter_snd {V} (f : V -> bool) k (l : list (nat * V)) :
  NoDup (keys l) ->
  lookup k (filter (fun rp => f (snd rp)) l)
  = match lookup k l with Some v => if f v then Some v else None | None => None end.
Proof.
  unfold keys. induction l as [|[k' v'] r IH]; cbn; intros N; [reflexivity|].
  inversion N as [|? ? Nk Nr]; subst. destruct (k' =? k)%nat eqn:E.
  - apply Nat.eqb_eq in E; subst k'. destruct (f v') eqn:F; cbn; [rewrite Nat.eqb_refl; reflexivity|].
    rewrite (IH Nr). rewrite (lookup_notin k r Nk). reflexivity.
  - destruct (f v'); cbn; [rewrite E|]; apply IH; exact Nr.
Qed.

Lemma keys_filter_subset {V} (f : nat * V -> bool) k (l : list (nat * V)) : In k (keys (filter f l)) -> In k (keys l).
Proof.
  unfold keys. intros H. apply in_map_iff in H as [x [E H]]. apply filter_In in H as [H _].
  apply in_map_iff. exists x. split; assumption.
Qed.

Lemma NoDup_keys_filter {V} (f : nat * V -> bool) (l : list (nat * V)) : NoDup (keys l) -> NoDup (keys (filter f l)).
Proof.
  unfold keys. induction l as [|[k v] r IH]; cbn; intros N; [constructor|]. inversion N as [|? ? Nk Nr]; subst.
  destruct (f (k, v)); cbn; [|apply IH; exact Nr]. constructor; [|apply IH; exact Nr].
  intros H. apply Nk. exact (keys_filter_subset f k r H).
Qed.

Lemma keys_remove_subset0 {V} k k' (l : list (nat * V)) : In k' (keys (remove k l)) -> In k' (keys l).
Proof.
  unfold keys. induction l as [|[k2 v2] r IH]; cbn; [contradiction|]. destruct (k2 =? k)%nat; cbn.
  - intros H; right; apply IH; exact H.
  - intros [H|H]; [left; exact H|right; apply IH; exact H].
Qed.

Lemma NoDup_keys_remove {V} k (l : list (nat * V)) : NoDup (keys l) -> NoDup (keys (remove k l)).
Proof.
  unfold keys. induction l as [|[k2 v2] r IH]; cbn; intros N; [constructor|]. inversion N as [|? ? Nk Nr]; subst.
  destruct (k2 =? k)%nat; cbn; [apply IH; exact Nr|]. constructor; [|apply IH; exact Nr].
  intros H. apply Nk. exact (keys_remove_subset0 k k2 r H).
Qed.

Lemma lookup_purge s r p l :
  NoDup (keys l) -> (lookup r (purge s l) = Some p <-> lookup r l = Some p /\ p_subj p <> s).
Proof.
  intros N. unfold purge, rid. pose proof (lookup_filter_snd (fun q => negb (p_subj q =? s)%nat) r l N) as E0.
  cbn beta in E0. rewrite E0. clear E0.
  destruct (lookup r l) as [q|]; [|split; [discriminate|intros [H _]; discriminate]].
  destruct (p_subj q =? s)%nat eqn:E; cbn.
  - apply Nat.eqb_eq in E. split; [discriminate|intros [H Q]; injection H as <-; contradiction].
  - apply Nat.eqb_neq in E. split; [intros H; injection H as <-; split; [reflexivity|exact E]|intros [H _]; exact H].
Qed.

(* ================================================================ reading the model's own view *)
Lemma subjects_keys st : map fst (v_subjects (view_of st)) = keys (db st).
Proof. cbn. apply (keys_map_snd (fun l : list (issuer * entry) => keys l)). Qed.

Lemma present_view st s : present (view_of st) s = true <-> lookup s (db st) <> None.
Proof. unfold present. rewrite subjects_keys, mem_In. symmetry. apply lookup_In_keys. Qed.

Lemma present_view_false st s : present (view_of st) s = false <-> lookup s (db st) = None.
Proof. unfold present. rewrite subjects_keys, mem_false. symmetry. apply lookup_None_keys. Qed.

Lemma issuers_view st s :
  issuers_of (view_of st) s = match lookup s (db st) with Some l => keys l | None => [] end.
Proof.
  unfold issuers_of. cbn [view_of v_subjects].
  rewrite (lookup_map_snd (fun l : list (issuer * entry) => keys l)). destruct (lookup s (db st)); reflexivity.
Qed.

Definition pv_of (st : state) (p : pentry) : pview :=
  {| pv_entity := p_entity p; pv_list := heap st (p_ref p); pv_subj := p_subj p; pv_expire := p_expire p |}.

Lemma pending_view st r : lookup r (v_pending (view_of st)) = option_map (pv_of st) (lookup r (pend st)).
Proof. cbn [view_of v_pending]. apply (lookup_map_snd (pv_of st)). Qed.

Lemma pending_ids_view st : pending_ids (view_of st) = keys (pend st).
Proof. unfold pending_ids. cbn [view_of v_pending]. apply (keys_map_snd (pv_of st)). Qed.

(* ================================================================ the cache: what get returns *)
Lemma tu_after_false n p : tu_after n p = false -> n <= p.
Proof. unfold tu_after. destruct (p =? 0); [discriminate|]. rewrite negb_false_iff. apply Z.leb_le. Qed.

Lemma c_get_info n c s i chk t :
  c_get n c s i chk = G_info t ->
  exists l e, lookup s c = Some l /\ lookup i l = Some e /\ e_info e = Some t /\ (chk = true -> n <= e_nooa e).
Proof.
  unfold c_get. destruct (lookup s c) as [l|] eqn:El; [|discriminate].
  destruct (lookup i l) as [e|] eqn:Ee; [|discriminate].
  destruct (chk && tu_after n (e_nooa e)) eqn:E; [discriminate|].
  destruct (e_info e) as [t'|] eqn:Ei; [|discriminate]. intros H; injection H as ->.
  exists l, e. split; [reflexivity|]. split; [exact Ee|]. split; [exact Ei|].
  intros ->. cbn in E. apply tu_after_false; exact E.
Qed.

Lemma gi_loop_toks n c s chk ents : forall res old toks old',
  gi_loop n c s chk ents res old = Some (toks, old') ->
  forall t, In t toks -> In t res \/ exists e, In e ents /\ c_get n c s e chk = G_info t.
Proof.
  induction ents as [|e r IH]; cbn; intros res old toks old' H t Ht.
  - injection H as <- <-. left; exact Ht.
  - destruct (c_get n c s e chk) eqn:G; try discriminate.
    + destruct (IH _ _ _ _ H t Ht) as [A|[e' [A B]]].
      * apply in_app_iff in A as [A|[A|[]]]; [left; exact A|subst; right; exists e; split; [left; reflexivity|exact G]].
      * right; exists e'; split; [right; exact A|exact B].
    + destruct (IH _ _ _ _ H t Ht) as [A|[e' [A B]]]; [left; exact A|right; exists e'; split; [right; exact A|exact B]].
    + destruct (IH _ _ _ _ H t Ht) as [A|[e' [A B]]]; [left; exact A|right; exists e'; split; [right; exact A|exact B]].
Qed.

(* ================================================================ frame properties of the logout code *)
Lemma local_logout_some st s st' :
  local_logout st s = Some st' ->
  lookup s (db st) <> None /\ db st' = remove s (db st) /\ now st' = now st /\ pend st' = purge s (pend st)
  /\ heap st' = heap st /\ next_rid st' = next_rid st /\ next_ref st' = next_ref st.
Proof.
  unfold local_logout. destruct (lookup s (db st)) eqn:E; [|discriminate]. intros H; injection H as <-.
  cbn. repeat split; congruence.
Qed.

Lemma local_logout_none st s : local_logout st s = None -> lookup s (db st) = None.
Proof. unfold local_logout. destruct (lookup s (db st)); [discriminate|reflexivity]. Qed.

(* entries appended by the loop: consecutive fresh ids, all carrying (ref, s, dl), addressed to members of l
   that are asked over a front channel *)
Definition fresh_entries (w : world) (st : state) (s : subj) (ref : nat) (dl : option Z) (l : list issuer)
           (news : list (rid * pentry)) : Prop :=
  forall r p, In (r, p) news ->
    (next_rid st <= r)%nat /\ p_ref p = ref /\ p_subj p = s /\ p_expire p = dl /\ In (p_entity p) l
    /\ asked_by_soap w (p_entity p) = false.

Definition loop_post (w : world) (st st' : state) (s : subj) (ref : nat) (dl : option Z) (l : list issuer) : Prop :=
  db st' = db st /\ now st' = now st /\ (forall n', n' <> ref -> heap st' n' = heap st n') /\ next_ref st' = next_ref st /\
  exists news, pend st' = pend st ++ news /\ (next_rid st <= next_rid st')%nat
               /\ fresh_entries w st s ref dl l news
               /\ (forall r p, In (r, p) news -> (r < next_rid st')%nat)
               /\ NoDup (keys news).

Lemma loop_post_refl w st s ref dl l : loop_post w st st s ref dl l.
Proof.
  unfold loop_post. do 2 (split; [reflexivity|]). split; [reflexivity|]. split; [reflexivity|]. exists []. rewrite app_nil_r.
  split; [reflexivity|]. split; [lia|]. split; [intros r p []|]. split; [intros r p []|constructor].
Qed.

Lemma loop_post_weaken w st st' s ref dl e l : loop_post w st st' s ref dl l -> loop_post w st st' s ref dl (e :: l).
Proof.
  intros (A & B & C & D & news & E & F & G & K & ND). unfold loop_post. do 4 (split; [assumption|]).
  exists news. do 2 (split; [assumption|]). split; [|split; [exact K|exact ND]].
  intros r p Hr. destruct (G r p Hr) as (G1 & G2 & G3 & G4 & G5 & G6).
  do 4 (split; [assumption|]). split; [right; exact G5|exact G6].
Qed.

Lemma loop_post_heap w st st' s ref dl e l x :
  loop_post w (set_heap st ref x) st' s ref dl l -> loop_post w st st' s ref dl (e :: l).
Proof.
  intros (A & B & C & D & news & E & F & G & K & ND). cbn in A, B, D, E, F. unfold loop_post.
  do 2 (split; [assumption|]). split.
  { intros n' Hn. rewrite (C n' Hn). cbn. apply Nat.eqb_neq in Hn. rewrite Hn. reflexivity. }
  split; [assumption|]. exists news. do 2 (split; [assumption|]). split; [|split; [exact K|exact ND]].
  intros r p Hr. destruct (G r p Hr) as (G1 & G2 & G3 & G4 & G5 & G6). cbn in G1.
  do 4 (split; [assumption|]). split; [right; exact G5|exact G6].
Qed.

Lemma loop_post_add w st st' s ref dl e l :
  asked_by_soap w e = false ->
  loop_post w (add_pending st {| p_entity := e; p_ref := ref; p_subj := s; p_expire := dl |}) st' s ref dl l ->
  loop_post w st st' s ref dl (e :: l).
Proof.
  intros Fr (A & B & C & D & news & E & F & G & K & ND). cbn in A, B, C, D, E, F. unfold loop_post.
  do 4 (split; [assumption|]).
  exists ((next_rid st, {| p_entity := e; p_ref := ref; p_subj := s; p_expire := dl |}) :: news).
  split; [rewrite E, <- app_assoc; reflexivity|]. split; [lia|]. split.
  - intros r p [Hr|Hr].
    + injection Hr as <- <-. cbn. split; [lia|]. do 3 (split; [reflexivity|]). split; [left; reflexivity|exact Fr].
    + destruct (G r p Hr) as (G1 & G2 & G3 & G4 & G5 & G6). cbn in G1. split; [lia|].
      do 3 (split; [assumption|]). split; [right; exact G5|exact G6].
  - split; [intros r p [Hr|Hr]; [injection Hr as <- <-; lia|exact (K r p Hr)]|].
    cbn. constructor; [|exact ND]. intros Hin. apply in_map_iff in Hin as [[r p] [Er Hin]]. cbn in Er. subst r.
    destruct (G _ p Hin) as (G1 & _). cbn in G1. lia.
Qed.

Lemma asked_front w e b : choose w e = Some b -> b <> SOAP -> asked_by_soap w e = false.
Proof. unfold asked_by_soap. intros ->. destruct b; [congruence|reflexivity|reflexivity]. Qed.

Lemma logout_loop_frame w ans s ref dl l : forall st nd acc st' res,
  logout_loop w ans s ref dl l st nd acc = (st', res) -> loop_post w st st' s ref dl l.
Proof.
  induction l as [|e l' IH]; intros st nd acc st' res H; cbn in H.
  - injection H as <- <-. apply loop_post_refl.
  - assert (Base : forall x, (st, x) = (st', res) -> loop_post w st st' s ref dl (e :: l')).
    { intros x Hx. injection Hx as <- _. apply loop_post_refl. }
    destruct (choose w e) as [b|] eqn:Ec; [|apply (Base _ H)].
    destruct (c_get (now st) (db st) s e false) eqn:Gt.
    all: try (apply (Base _ H)).
    all: destruct b.
    all: try (destruct (answer ans e); [eapply loop_post_heap, (IH _ _ _ _ _ H)|apply (Base _ H)
                                       |apply loop_post_weaken, (IH _ _ _ _ _ H)|apply loop_post_weaken, (IH _ _ _ _ _ H)]).
    all: apply loop_post_add; [apply (asked_front _ _ _ Ec); discriminate|apply (IH _ _ _ _ _ H)].
Qed.

(* a pass that does not raise: who has answered synchronously, and who is left in not_done *)
Definition lagging (w : world) (ans : list soap_answer) (e : issuer) : bool :=
  asked_by_soap w e && negb (soap_ok w ans e).

Lemma soap_answered_app a b : soap_answered (a ++ b) = soap_answered a ++ soap_answered b.
Proof. unfold soap_answered. apply flat_map_app. Qed.

Lemma soap_ok_front w ans e : asked_by_soap w e = false -> soap_ok w ans e = false.
Proof. unfold soap_ok. intros ->. reflexivity. Qed.

Lemma In_remove_first0 a i l : a <> i -> In a l -> In a (remove_first i l).
Proof.
  intros N. induction l as [|x r IH]; cbn; [contradiction|]. destruct (x =? i)%nat eqn:E.
  - apply Nat.eqb_eq in E. intros [H|H]; [congruence|exact H].
  - intros [H|H]; [left; exact H|right; apply IH; exact H].
Qed.

Lemma remove_first_subset0 a i l : In a (remove_first i l) -> In a l.
Proof.
  induction l as [|x r IH]; cbn; [contradiction|]. destruct (x =? i)%nat.
  - intros H; right; exact H.
  - intros [H|H]; [left; exact H|right; apply IH; exact H].
Qed.

Lemma NoDup_remove_first0 i l : NoDup l -> NoDup (remove_first i l) /\ ~ In i (remove_first i l).
Proof.
  induction l as [|x r IH]; cbn; intros N; [split; [constructor|intros []]|]. inversion N as [|? ? Nx Nr]; subst.
  destruct (x =? i)%nat eqn:E.
  - apply Nat.eqb_eq in E. subst. split; assumption.
  - apply Nat.eqb_neq in E. destruct (IH Nr) as [A B]. split.
    + constructor; [intros H; apply Nx; eapply remove_first_subset0; exact H|exact A].
    + intros [H|H]; [congruence|exact (B H)].
Qed.

Lemma logout_loop_ok w ans s ref dl l : forall st nd acc st' nd' acc',
  logout_loop w ans s ref dl l st nd acc = (st', inr (nd', acc')) ->
  soap_answered acc' = soap_answered acc ++ filter (soap_ok w ans) l
  /\ (NoDup nd -> forall x, In x nd' -> In x nd /\ (In x l -> lagging w ans x = true)).
Proof.
  induction l as [|e l' IH]; intros st nd acc st' nd' acc' H; cbn in H.
  - injection H as <- <- <-. cbn. rewrite app_nil_r. split; [reflexivity|]. intros _ x Hx. split; [exact Hx|intros []].
  - destruct (choose w e) as [b|] eqn:Ec; [|discriminate].
    destruct (c_get (now st) (db st) s e false) eqn:Gt; try discriminate.
    all: destruct b.
    all: try (assert (Fr : asked_by_soap w e = false) by (apply (asked_front _ _ _ Ec); discriminate);
              apply IH in H as [H1 H2]; rewrite soap_answered_app in H1; cbn in H1; rewrite app_nil_r in H1;
              cbn [filter]; rewrite (soap_ok_front w ans e Fr); split; [exact H1|];
              intros Nd x Hx; destruct (NoDup_remove_first0 e nd Nd) as [Nd2 Ne];
              destruct (H2 Nd2 x Hx) as [Hx1 Hx2]; split; [eapply remove_first_subset0; exact Hx1|];
              intros [->|Hl]; [contradiction|exact (Hx2 Hl)]).
    all: assert (So : asked_by_soap w e = true) by (unfold asked_by_soap; rewrite Ec; reflexivity).
    all: destruct (answer ans e) eqn:Ea; try discriminate.
    all: try (assert (Se : soap_ok w ans e = false) by (unfold soap_ok; rewrite So, Ea; reflexivity);
              apply IH in H as [H1 H2]; cbn [filter]; rewrite Se; split; [exact H1|];
              intros Nd x Hx; destruct (H2 Nd x Hx) as [Hx1 Hx2]; split; [exact Hx1|];
              intros [<-|Hl]; [unfold lagging; rewrite So, Se; reflexivity|exact (Hx2 Hl)]).
    all: assert (Se : soap_ok w ans e = true) by (unfold soap_ok; rewrite So, Ea; reflexivity).
    all: apply IH in H as [H1 H2]; rewrite soap_answered_app in H1; cbn in H1; cbn [filter]; rewrite Se.
    all: split; [rewrite H1, <- app_assoc; reflexivity|].
    all: intros Nd x Hx; destruct (NoDup_remove_first0 e nd Nd) as [Nd2 Ne].
    all: destruct (H2 Nd2 x Hx) as [Hx1 Hx2]; split; [eapply remove_first_subset0; exact Hx1|].
    all: intros [->|Hl]; [contradiction|exact (Hx2 Hl)].
Qed.

(* where the pass stops, in the model's terms *)
Definition mstop (w : world) (nw : Z) (c : cache) (s : subj) (ans : list soap_answer) (e : issuer) : bool :=
  match choose w e with
  | None => true
  | Some b => match c_get nw c s e false with G_none => true | _ => false end
              || match b with SOAP => match answer ans e with SA_fail => true | _ => false end | _ => false end
  end.

Lemma logout_loop_inl w ans s ref dl l : forall st nd acc st' x,
  logout_loop w ans s ref dl l st nd acc = (st', inl x) -> exists e, In e l /\ mstop w (now st) (db st) s ans e = true.
Proof.
  induction l as [|e l' IH]; intros st nd acc st' x H; cbn in H; [discriminate|].
  assert (Rec : forall st2 nd2 acc2, now st2 = now st -> db st2 = db st ->
                  logout_loop w ans s ref dl l' st2 nd2 acc2 = (st', inl x) ->
                  exists e0, In e0 (e :: l') /\ mstop w (now st) (db st) s ans e0 = true).
  { intros st2 nd2 acc2 En Ed H2. destruct (IH _ _ _ _ _ H2) as [e0 [A B]]. rewrite En, Ed in B. exists e0. split; [right; exact A|exact B]. }
  assert (Here : mstop w (now st) (db st) s ans e = true -> exists e0, In e0 (e :: l') /\ mstop w (now st) (db st) s ans e0 = true).
  { intros X. exists e. split; [left; reflexivity|exact X]. }
  unfold mstop in Here. destruct (choose w e) as [b|] eqn:Ec; [|apply Here; reflexivity].
  destruct (c_get (now st) (db st) s e false) eqn:Gt; try (apply Here; reflexivity).
  all: destruct b; try (eapply Rec; [| |exact H]; reflexivity).
  all: destruct (answer ans e) eqn:Ea; try (apply Here; reflexivity); try (eapply Rec; [| |exact H]; reflexivity).
Qed.

Lemma logout_loop_heap w ans s ref dl l : forall st nd acc st' res,
  logout_loop w ans s ref dl l st nd acc = (st', res) ->
  heap st' ref = remove_all (filter (soap_ok w ans) (reached (mstop w (now st) (db st) s ans) l)) (heap st ref).
Proof.
  induction l as [|e l' IH]; intros st nd acc st' res H; cbn in H.
  - injection H as <- _. reflexivity.
  - cbn [reached]. unfold mstop at 1. destruct (choose w e) as [b|] eqn:Ec.
    2:{ injection H as <- _. reflexivity. }
    destruct (c_get (now st) (db st) s e false) eqn:Gt.
    2:{ injection H as <- _. reflexivity. }
    all: cbn [orb]; destruct b.
    all: try (assert (Fr : asked_by_soap w e = false) by (apply (asked_front _ _ _ Ec); discriminate);
              cbn [filter]; rewrite (soap_ok_front w ans e Fr); apply IH in H; cbn in H; exact H).
    all: assert (So : asked_by_soap w e = true) by (unfold asked_by_soap; rewrite Ec; reflexivity).
    all: destruct (answer ans e) eqn:Ea.
    all: try (injection H as <- _; reflexivity).
    all: try (assert (Se : soap_ok w ans e = false) by (unfold soap_ok; rewrite So, Ea; reflexivity);
              cbn [filter]; rewrite Se; apply IH in H; exact H).
    all: assert (Se : soap_ok w ans e = true) by (unfold soap_ok; rewrite So, Ea; reflexivity).
    all: cbn [filter]; rewrite Se; apply IH in H; cbn in H; rewrite Nat.eqb_refl in H; exact H.
Qed.

Lemma filter_all {A} (f : A -> bool) l : (forall x, In x l -> f x = true) -> filter f l = l.
Proof.
  induction l as [|x r IH]; cbn; intros H; [reflexivity|].
  rewrite (H x (or_introl eq_refl)), IH; [reflexivity|]. intros y Hy. apply H. right; exact Hy.
Qed.

Lemma remove_all_cons_notin es : forall x r, ~ In x es -> remove_all es (x :: r) = x :: remove_all es r.
Proof.
  unfold remove_all. induction es as [|e es IH]; intros x r N; cbn; [reflexivity|].
  destruct (x =? e)%nat eqn:E; [apply Nat.eqb_eq in E; subst; exfalso; apply N; left; reflexivity|].
  apply IH. intros H; apply N; right; exact H.
Qed.

Lemma reached_subset stop l x : In x (reached stop l) -> In x l.
Proof.
  induction l as [|y r IH]; cbn; [contradiction|]. destruct (stop y); [contradiction|].
  intros [H|H]; [left; exact H|right; apply IH; exact H].
Qed.

Lemma reached_ext stop1 stop2 l : (forall e, In e l -> stop1 e = stop2 e) -> reached stop1 l = reached stop2 l.
Proof.
  induction l as [|y r IH]; cbn; intros H; [reflexivity|]. rewrite (H y (or_introl eq_refl)).
  destruct (stop2 y); [reflexivity|]. rewrite IH; [reflexivity|]. intros e He. apply H. right; exact He.
Qed.

Lemma mem_In0 k l : mem k l = true <-> In k l.
Proof.
  induction l as [|x r IH]; cbn; [split; [discriminate|contradiction]|].
  rewrite orb_true_iff, IH, Nat.eqb_eq. tauto.
Qed.

Lemma remove_all_reached (f stop : issuer -> bool) l :
  NoDup l ->
  remove_all (filter f (reached stop l)) l = filter (fun e => negb (f e && mem e (reached stop l))) l.
Proof.
  induction l as [|x r IH]; intros N; [reflexivity|]. inversion N as [|? ? Nx Nr]; subst. cbn [reached].
  destruct (stop x).
  - change (remove_all (filter f []) (x :: r)) with (x :: r). symmetry. apply filter_all. intros e _. cbn. rewrite andb_false_r. reflexivity.
  - assert (Ext : filter (fun e => negb (f e && ((x =? e)%nat || mem e (reached stop r)))) r
                  = filter (fun e => negb (f e && mem e (reached stop r))) r).
    { apply filter_ext_in. intros e He. destruct (x =? e)%nat eqn:E; [|reflexivity].
      apply Nat.eqb_eq in E. subst. contradiction. }
    cbn [filter]. cbn [mem]. rewrite Nat.eqb_refl. cbn [orb]. rewrite andb_true_r. destruct (f x) eqn:F; cbn [negb].
    + unfold remove_all. cbn [fold_left remove_first]. rewrite Nat.eqb_refl. fold (remove_all (filter f (reached stop r)) r).
      rewrite (IH Nr). symmetry. exact Ext.
    + rewrite remove_all_cons_notin.
      * rewrite (IH Nr), Ext. reflexivity.
      * intros H. apply filter_In in H as [H _]. apply reached_subset in H. exact (Nx H).
Qed.

Lemma finish_pass_cases s ref acc st st' ou :
  finish_pass s ref acc st = (st', ou) ->
  ((soap_answered acc = [] \/ heap st ref <> []) /\ st' = st /\ ou = OSent acc)
  \/ (soap_answered acc <> [] /\ heap st ref = [] /\ local_logout st s = Some st' /\ ou = OSent acc)
  \/ (soap_answered acc <> [] /\ heap st ref = [] /\ lookup s (db st) = None /\ st' = st /\ ou = OExn KeyErr).
Proof.
  unfold finish_pass. destruct (soap_answered acc) as [|a0 an] eqn:Ea.
  - intros H; injection H as <- <-. left. split; [left; reflexivity|split; reflexivity].
  - destruct (heap st ref) as [|y l2] eqn:El.
    + destruct (local_logout st s) as [st3|] eqn:L.
      * intros H; injection H as <- <-. right; left. split; [discriminate|]. split; [reflexivity|]. split; reflexivity.
      * intros H; injection H as <- <-. right; right. apply local_logout_none in L. split; [discriminate|]. split; [reflexivity|]. split; [exact L|split; reflexivity].
    + intros H; injection H as <- <-. left. split; [right; discriminate|split; reflexivity].
Qed.

Lemma do_logout_cases w ans s ref dl st st' ou :
  do_logout w ans s ref dl st = (st', ou) ->
  (deadline_passed (now st) dl = true /\
     ((lookup s (db st) = None /\ st' = st /\ ou = OExn KeyErr) \/
      (local_logout st s = Some st' /\ ou = OTimeout)))
  \/ (deadline_passed (now st) dl = false /\ now st' = now st
      /\ (db st' = db st \/ (lookup s (db st) <> None /\ db st' = remove s (db st)))
      /\ ou <> OTimeout /\ ou <> ODone).
Proof.
  unfold do_logout. destruct (deadline_passed (now st) dl) eqn:D.
  - intros H. left. split; [reflexivity|]. destruct (local_logout st s) as [st2|] eqn:L.
    + injection H as <- <-. right. split; reflexivity.
    + injection H as <- <-. left. split; [apply local_logout_none; exact L|split; reflexivity].
  - intros H. right. split; [reflexivity|].
    destruct (logout_loop w ans s ref dl (heap st ref) st (heap st ref) []) as [st2 res] eqn:L.
    apply logout_loop_frame in L. destruct L as (A & B & _).
    destruct res as [e|[[|x nd] acc]].
    + injection H as <- <-. split; [exact B|]. split; [left; exact A|split; discriminate].
    + apply finish_pass_cases in H as [(_ & -> & ->)|[(_ & _ & Lg & ->)|(_ & _ & _ & -> & ->)]].
      * split; [exact B|]. split; [left; exact A|split; discriminate].
      * apply local_logout_some in Lg as (L1 & L2 & L3 & _). split; [congruence|].
        split; [right; rewrite <- A; split; assumption|split; discriminate].
      * split; [exact B|]. split; [left; exact A|split; discriminate].
    + injection H as <- <-. split; [exact B|]. split; [left; exact A|split; discriminate].
Qed.

(* the pass in detail, for a non-empty list object without duplicates: afterwards the list object holds
   exactly the IdPs that were not reached-and-answered-Success-over-SOAP *)
Definition mpass_wait (w : world) (st : state) (s : subj) (ans : list soap_answer) (l : list issuer) : list issuer :=
  filter (fun e => negb (soap_ok w ans e && mem e (reached (mstop w (now st) (db st) s ans) l))) l.

Lemma do_logout_pass w ans s ref dl st st' ou :
  do_logout w ans s ref dl st = (st', ou) -> deadline_passed (now st) dl = false ->
  NoDup (heap st ref) -> heap st ref <> [] ->
  let pw := mpass_wait w st s ans (heap st ref) in
  exists st1, loop_post w st st1 s ref dl (heap st ref) /\ heap st1 ref = pw /\
    ( (st' = st1 /\ pw <> [])
      \/ (pw = [] /\ is_exn ou = false /\ local_logout st1 s = Some st')
      \/ (pw = [] /\ lookup s (db st) = None)).
Proof.
  unfold do_logout. intros H D N NE. rewrite D in H. cbv zeta.
  destruct (logout_loop w ans s ref dl (heap st ref) st (heap st ref) []) as [st1 res] eqn:L.
  pose proof (logout_loop_frame _ _ _ _ _ _ _ _ _ _ _ L) as P.
  pose proof (logout_loop_heap _ _ _ _ _ _ _ _ _ _ _ L) as Hh. rewrite (remove_all_reached _ _ _ N) in Hh.
  fold (mpass_wait w st s ans (heap st ref)) in Hh.
  exists st1. split; [exact P|]. split; [exact Hh|].
  destruct P as (A & B & C & D' & _).
  destruct res as [e|[[|x nd] acc]].
  - injection H as <- <-. left. split; [reflexivity|].
    apply logout_loop_inl in L as [e0 [He0 Se0]]. intros X.
    assert (In e0 (mpass_wait w st s ans (heap st ref))).
    { apply filter_In. split; [exact He0|].
      assert (M : mem e0 (reached (mstop w (now st) (db st) s ans) (heap st ref)) = false).
      { destruct (mem e0 _) eqn:M; [|reflexivity]. exfalso. apply mem_In0 in M. clear -M Se0 N.
        induction (heap st ref) as [|y r IH]; cbn in M; [contradiction|].
        destruct (mstop w (now st) (db st) s ans y) eqn:Sy; [contradiction|].
        inversion N; subst. destruct M as [->|M]; [congruence|]. apply IH; assumption. }
      rewrite M, andb_false_r. reflexivity. }
    rewrite X in H. destruct H.
  - apply logout_loop_ok in L as [L1 _]. cbn [soap_answered flat_map app] in L1.
    apply finish_pass_cases in H as [(Fa & -> & ->)|[(Fa & Fb & Lg & ->)|(Fa & Fb & Fc & -> & ->)]].
    + left. split; [reflexivity|]. rewrite <- Hh. destruct Fa as [Fa|Fa]; [|exact Fa].
      rewrite Hh. intros X. rewrite L1 in Fa.
      assert (Hall : mpass_wait w st s ans (heap st ref) = heap st ref).
      { apply filter_all. intros y Hy. destruct (soap_ok w ans y) eqn:Sy; [|reflexivity].
        assert (In y (filter (soap_ok w ans) (heap st ref))) by (apply filter_In; split; assumption).
        rewrite Fa in H. destruct H. }
      rewrite Hall in X. exact (NE X).
    + right; left. rewrite <- Hh. split; [exact Fb|]. split; [reflexivity|exact Lg].
    + right; right. rewrite <- Hh. split; [exact Fb|]. rewrite <- A. exact Fc.
  - injection H as <- <-. left. split; [reflexivity|].
    apply logout_loop_ok in L as [_ L2]. destruct (L2 N x (or_introl eq_refl)) as [Hx Lx]. specialize (Lx Hx).
    intros X. assert (In x (mpass_wait w st s ans (heap st ref))).
    { apply filter_In. split; [exact Hx|]. unfold lagging in Lx. apply andb_true_iff in Lx as [_ Lx].
      apply negb_true_iff in Lx. rewrite Lx. reflexivity. }
    rewrite X in H. destruct H.
Qed.

(* ================================================================ requests handed out are on file.
   Every front-channel request that an output of the model hands to the application (`SentPending i b r`) is
   pending in the client's state afterwards: the loop files the request before it reports it, an IdP asked over
   the front channel stays in the list object (only IdPs that answer over SOAP are taken out), so the local
   logout at the end of a pass - which would drop the subject's requests - happens only when nothing was handed
   out.  Hence the monitor learns nothing from the output that the client's state does not tell it
   (`ghost_step_model`), and the proofs below may work with `ghost_step0`. *)
Lemma logout_loop_sent w ans s ref dl l : forall st nd acc st' nd' acc',
  logout_loop w ans s ref dl l st nd acc = (st', inr (nd', acc')) ->
  (forall i b r, In (SentPending i b r) acc ->
     In r (keys (pend st)) /\ In i (heap st ref) /\ asked_by_soap w i = false) ->
  (forall e, In e l -> asked_by_soap w e = false -> In e (heap st ref)) ->
  forall i b r, In (SentPending i b r) acc' ->
    In r (keys (pend st')) /\ In i (heap st' ref) /\ asked_by_soap w i = false.
Proof.
  induction l as [|e l' IH]; intros st nd acc st' nd' acc' H Hacc Hl; cbn in H.
  - injection H as <- <- <-. exact Hacc.
  - destruct (choose w e) as [b0|] eqn:Ec; [|discriminate].
    destruct (c_get (now st) (db st) s e false) eqn:Gt; try discriminate.
    all: destruct b0.
    all: try (assert (Fr : asked_by_soap w e = false) by (apply (asked_front _ _ _ Ec); discriminate);
              apply (IH _ _ _ _ _ _ H);
              [intros i1 b1 r1 Hin; apply in_app_or in Hin as [Hin|[Hin|[]]];
                 [destruct (Hacc _ _ _ Hin) as (X1 & X2 & X3); split; [|split; assumption];
                  cbn; unfold keys; rewrite map_app; apply in_or_app; left; exact X1
                 |injection Hin as <- <- <-; split; [|split; [apply Hl; [left; reflexivity|exact Fr]|exact Fr]];
                  cbn; unfold keys; rewrite map_app; apply in_or_app; right; left; reflexivity]
              |intros e1 He1 F1; cbn; apply Hl; [right; exact He1|exact F1]]).
    all: assert (So : asked_by_soap w e = true) by (unfold asked_by_soap; rewrite Ec; reflexivity).
    all: destruct (answer ans e) eqn:Ea; try discriminate.
    all: try (apply (IH _ _ _ _ _ _ H); [exact Hacc|intros e1 He1 F1; apply Hl; [right; exact He1|exact F1]]).
    all: apply (IH _ _ _ _ _ _ H);
      [intros i1 b1 r1 Hin; apply in_app_or in Hin as [Hin|[Hin|[]]]; [|discriminate];
       destruct (Hacc _ _ _ Hin) as (X1 & X2 & X3); split; [exact X1|split; [|exact X3]];
       cbn; rewrite Nat.eqb_refl; apply In_remove_first0; [intros ->; congruence|exact X2]
      |intros e1 He1 F1; cbn; rewrite Nat.eqb_refl; apply In_remove_first0;
       [intros ->; congruence|apply Hl; [right; exact He1|exact F1]]].
Qed.

Lemma do_logout_sent w ans s ref dl st st' acc :
  do_logout w ans s ref dl st = (st', OSent acc) ->
  forall i b r, In (SentPending i b r) acc -> In r (keys (pend st')).
Proof.
  unfold do_logout. destruct (deadline_passed (now st) dl).
  { destruct (local_logout st s); discriminate. }
  destruct (logout_loop w ans s ref dl (heap st ref) st (heap st ref) []) as [st1 res] eqn:L.
  destruct res as [e|[[|x nd] acc0]]; try discriminate.
  intros H i b r Hin.
  assert (P : forall i b r, In (SentPending i b r) acc0 ->
                In r (keys (pend st1)) /\ In i (heap st1 ref) /\ asked_by_soap w i = false).
  { apply (logout_loop_sent _ _ _ _ _ _ _ _ _ _ _ _ L); [intros ? ? ? []|intros e He _; exact He]. }
  apply finish_pass_cases in H as [(_ & -> & X)|[(_ & Fb & _ & X)|(_ & _ & _ & _ & X)]]; try discriminate.
  - injection X as <-. exact (proj1 (P _ _ _ Hin)).
  - injection X as <-. destruct (P _ _ _ Hin) as (_ & X & _). rewrite Fb in X. destruct X.
Qed.

Lemma step_sent w st o st' acc :
  step w st o = (st', OSent acc) -> forall i b r, In (SentPending i b r) acc -> In r (keys (pend st')).
Proof.
  intros H. destruct o; cbn [step] in H.
  all: try (injection H as _ H; discriminate).
  - destruct k; [destruct (response_fresh (now st) cond_nooa sess_nooa)| |]; discriminate.
  - injection H as _ H. destruct (c_get_identity (now st) (db st) s ents chk) as [[? ?]|]; discriminate.
  - injection H as _ H. destruct (c_get (now st) (db st) s i chk); discriminate.
  - injection H as _ H. destruct (c_stale (now st) (db st) s srcs); discriminate.
  - unfold global_logout in H. destruct (lookup s (db st)) as [l|]; [|discriminate].
    exact (do_logout_sent _ _ _ _ _ _ _ _ H).
  - unfold handle_logout_response in H. destruct (negb success); [discriminate|].
    destruct (lookup r (pend st)) as [p|]; [|discriminate].
    destruct (negb (p_entity p =? i)%nat); [discriminate|]. cbv zeta in H.
    destruct (list_eqb _ _).
    { destruct (local_logout _ _); discriminate. }
    destruct (mem i _); [|discriminate].
    exact (do_logout_sent _ _ _ _ _ _ _ _ H).
  - unfold handle_logout_request in H.
    destruct (named =? cur)%nat; [destruct (local_logout st cur)|]; destruct (existsb _ _); discriminate.
  - destruct (local_logout st s); discriminate.
Qed.

Lemma unfiled_model w st o st' ou : step w st o = (st', ou) -> unfiled ou (view_of st') = [].
Proof.
  intros H. unfold unfiled. destruct ou; try reflexivity. cbn [handed_out].
  pose proof (step_sent _ _ _ _ _ H) as P. rewrite pending_ids_view. clear H.
  induction l as [|x l IH]; [reflexivity|]. cbn [flat_map].
  assert (IH' : forall i b r, In (SentPending i b r) l -> In r (keys (pend st'))).
  { intros i b r Hin. apply (P i b r). right; exact Hin. }
  destruct x as [i b r|i]; [|exact (IH IH')]. cbn [app filter fst].
  assert (M : mem r (keys (pend st')) = true) by (apply mem_In, (P i b r); left; reflexivity).
  rewrite M. cbn [negb]. exact (IH IH').
Qed.

Lemma ghost_step_model w st g o st' ou :
  step w st o = (st', ou) ->
  ghost_step w g (view_of st) o ou (view_of st') = ghost_step0 w g (view_of st) o ou (view_of st').
Proof.
  intros H. unfold ghost_step, ghost_step0, news_of. rewrite (unfiled_model _ _ _ _ _ H), app_nil_r. reflexivity.
Qed.

(* ================================================================ the cache invariant *)
Definition KInv (st : state) (g : ghost) : Prop :=
  g_now g = now st /\
  forall s i l e, lookup s (db st) = Some l -> lookup i l = Some e ->
    g_know g s i = option_map (pair (e_nooa e)) (e_info e).

Lemma ghost_step_know w g vb o ou va :
  g_know (ghost_step w g vb o ou va) = know_after g o ou va /\ g_now (ghost_step w g vb o ou va) = now_after g o.
Proof.
  unfold ghost_step, ghost_step_n. destruct o; try (split; reflexivity).
  - destruct (present vb s); split; reflexivity.
  - destruct (answering g r i success) as [[n T]|]; split; reflexivity.
Qed.

Lemma KInv_init t0 : KInv (init t0) (ghost0 t0).
Proof. split; [reflexivity|]. intros s i l e H. discriminate. Qed.

(* how a step changes the cache *)
Inductive db_change (c c' : cache) : Prop :=
| dbc_same : c' = c -> db_change c c'
| dbc_remove s : lookup s c <> None -> c' = remove s c -> db_change c c'.

Lemma do_logout_db w ans s ref dl st st' ou :
  do_logout w ans s ref dl st = (st', ou) -> db_change (db st) (db st') /\ now st' = now st.
Proof.
  intros H. apply do_logout_cases in H as [[_ [(A & -> & _)|(A & _)]]|(_ & B & [A|[A1 A2]] & _)].
  - split; [apply dbc_same|]; reflexivity.
  - apply local_logout_some in A as (A1 & A2 & A3 & _). split; [eapply dbc_remove; eassumption|exact A3].
  - split; [apply dbc_same; exact A|exact B].
  - split; [eapply dbc_remove; eassumption|exact B].
Qed.

Lemma global_logout_db w ans s dl st st' ou :
  global_logout w ans s dl st = (st', ou) -> db_change (db st) (db st') /\ now st' = now st.
Proof.
  unfold global_logout. destruct (lookup s (db st)) as [l|].
  - intros H. apply do_logout_db in H. exact H.
  - intros H; injection H as <- _. split; [apply dbc_same|]; reflexivity.
Qed.

Lemma handle_response_db w ans r i success st st' ou :
  handle_logout_response w ans r i success st = (st', ou) -> db_change (db st) (db st') /\ now st' = now st.
Proof.
  unfold handle_logout_response. destruct (negb success).
  { intros H; injection H as <- _. split; [apply dbc_same|]; reflexivity. }
  destruct (lookup r (pend st)) as [p|].
  2:{ intros H; injection H as <- _. split; [apply dbc_same|]; reflexivity. }
  destruct (negb (p_entity p =? i)%nat).
  { intros H; injection H as <- _. split; [apply dbc_same|]; reflexivity. }
  cbn [set_pend heap]. destruct (list_eqb (heap st (p_ref p)) [i]).
  - destruct (local_logout _ (p_subj p)) as [st2|] eqn:L.
    + intros H; injection H as <- _. apply local_logout_some in L as (A1 & A2 & A3 & _). cbn in A1, A2, A3.
      split; [eapply dbc_remove; eassumption|exact A3].
    + intros H; injection H as <- _. split; [apply dbc_same|]; reflexivity.
  - destruct (mem i (heap st (p_ref p))).
    + intros H. apply do_logout_db in H. exact H.
    + intros H; injection H as <- _. split; [apply dbc_same|]; reflexivity.
Qed.

Lemma handle_request_db w named cur i b st st' ou :
  handle_logout_request w named cur i b st = (st', ou) -> db_change (db st) (db st') /\ now st' = now st.
Proof.
  unfold handle_logout_request.
  destruct (named =? cur)%nat; [destruct (local_logout st cur) as [st2|] eqn:L|];
    destruct (existsb _ _); intros H; injection H as <- _.
  1,2: apply local_logout_some in L as (A1 & A2 & A3 & _); (split; [eapply dbc_remove; eassumption|exact A3]).
  all: split; [apply dbc_same|]; reflexivity.
Qed.

Lemma KInv_db_change st st' g k :
  KInv st g -> db_change (db st) (db st') -> now st' = now st ->
  KInv st' {| g_now := g_now g; g_know := fun s i => if present (view_of st') s then g_know g s i else None;
              g_txn := k; g_owner := g_owner g; g_moot := g_moot g; g_ntxn := g_ntxn g |} .
Proof.
  intros [N K] C T. split; [cbn; congruence|]. cbn [g_know]. intros s i l e Hs Hi.
  assert (P : present (view_of st') s = true) by (apply present_view; congruence). rewrite P.
  destruct C as [C|s0 _ C]; rewrite C in Hs.
  - eapply K; eassumption.
  - destruct (Nat.eq_dec s s0) as [->|Ne]; [rewrite lookup_remove_eq in Hs; discriminate|].
    rewrite lookup_remove_neq in Hs by exact Ne. eapply K; eassumption.
Qed.

Lemma KInv_store st g k s i nooa ot :
  KInv st g ->
  KInv (store st s i nooa ot)
       {| g_now := g_now g;
          g_know := fun s' i' => if present (view_of (store st s i nooa ot)) s'
                                 then know_set (g_know g) s i (option_map (pair nooa) ot) s' i' else None;
          g_txn := k; g_owner := g_owner g; g_moot := g_moot g; g_ntxn := g_ntxn g |}.
Proof.
  intros [N K]. split; [exact N|]. cbn [g_know]. intros s' i' l e Hs Hi.
  assert (P : present (view_of (store st s i nooa ot)) s' = true) by (apply present_view; congruence). rewrite P.
  cbn [store set_db db] in Hs. unfold c_set, know_set in *.
  destruct (Nat.eq_dec s' s) as [->|Ns].
  - rewrite lookup_update_eq in Hs. injection Hs as <-. rewrite Nat.eqb_refl. cbn [andb].
    destruct (Nat.eq_dec i' i) as [->|Ni].
    + rewrite lookup_update_eq in Hi. injection Hi as <-. rewrite Nat.eqb_refl. reflexivity.
    + rewrite lookup_update_neq in Hi by exact Ni.
      destruct (i' =? i)%nat eqn:E; [apply Nat.eqb_eq in E; congruence|].
      destruct (lookup s (db st)) as [l0|] eqn:L0; [|discriminate]. eapply K; eassumption.
  - rewrite lookup_update_neq in Hs by exact Ns.
    destruct (s' =? s)%nat eqn:E; [apply Nat.eqb_eq in E; congruence|]. cbn [andb]. eapply K; eassumption.
Qed.

Lemma KInv_ext st g g' : KInv st g -> g_now g' = g_now g -> (forall s i, g_know g' s i = g_know g s i) -> KInv st g'.
Proof. intros [N K] A B. split; [congruence|]. intros. rewrite B. eapply K; eassumption. Qed.

Lemma KInv_step w st g o st' ou :
  KInv st g -> step w st o = (st', ou) -> KInv st' (ghost_step w g (view_of st) o ou (view_of st')).
Proof.
  intros I H.
  destruct (ghost_step_know w g (view_of st) o ou (view_of st')) as [Ek En].
  assert (Gen : db_change (db st) (db st') -> now st' = now st -> now_after g o = g_now g ->
                know_op g o ou = g_know g -> KInv st' (ghost_step w g (view_of st) o ou (view_of st'))).
  { intros C T A B. eapply KInv_ext; [apply (KInv_db_change st st' g (g_txn g) I C T)|cbn; congruence|].
    intros s i. rewrite Ek. unfold know_after. rewrite B. reflexivity. }
  destruct o; cbn in H.
  - (* Login *) injection H as <- <-.
    eapply KInv_ext; [apply (KInv_store st g (g_txn g) s i nooa (Some t) I)|cbn; congruence|].
    intros s' i'. rewrite Ek. reflexivity.
  - (* AcceptResponse *) destruct k; [destruct (response_fresh (now st) cond_nooa sess_nooa)| |]; injection H as <- <-.
    + eapply KInv_ext; [apply (KInv_store st g (g_txn g) s i (effective_nooa cond_nooa sess_nooa) (Some t) I)|cbn; congruence|].
      intros s' i'. rewrite Ek. reflexivity.
    + apply Gen; try reflexivity. apply dbc_same; reflexivity.
    + apply Gen; try reflexivity. apply dbc_same; reflexivity.
    + apply Gen; try reflexivity. apply dbc_same; reflexivity.
  - (* Reset *) injection H as <- <-.
    eapply KInv_ext; [apply (KInv_store st g (g_txn g) s i 0 None I)|cbn; congruence|].
    intros s' i'. rewrite Ek. reflexivity.
  - injection H as <- <-. apply Gen; try reflexivity. apply dbc_same; reflexivity.
  - injection H as <- <-. apply Gen; try reflexivity. apply dbc_same; reflexivity.
  - injection H as <- <-. apply Gen; try reflexivity. apply dbc_same; reflexivity.
  - (* Tick *) injection H as <- <-. destruct I as [N K]. split.
    + rewrite En. cbn. congruence.
    + intros s i l e Hs Hi. rewrite Ek. unfold know_after.
      assert (P : present (view_of {| now := now st + dt; db := db st; pend := pend st; heap := heap st;
                                      next_rid := next_rid st; next_ref := next_ref st |}) s = true)
        by (apply present_view; cbn in *; congruence).
      rewrite P. cbn in Hs. eapply K; eassumption.
  - apply global_logout_db in H as [C T]. apply Gen; try assumption; reflexivity.
  - apply handle_response_db in H as [C T]. apply Gen; try assumption; reflexivity.
  - apply handle_request_db in H as [C T]. apply Gen; try assumption; reflexivity.
  - destruct (local_logout st s) as [st2|] eqn:L; injection H as <- <-.
    + apply local_logout_some in L as (A1 & A2 & A3 & _).
      apply Gen; try assumption; try reflexivity. eapply dbc_remove; eassumption.
    + apply Gen; try reflexivity. apply dbc_same; reflexivity.
Qed.

(* ================================================================ unguarded clauses *)
Lemma identity_toks n c s ents chk toks old t :
  c_get_identity n c s ents chk = Some (toks, old) -> In t toks ->
  exists e, In e (match ents with [] => match lookup s c with Some l => keys l | None => [] end | _ => ents end)
            /\ c_get n c s e chk = G_info t.
Proof.
  unfold c_get_identity. intros H Ht. destruct ents as [|e0 r].
  - destruct (lookup s c) as [l|].
    + destruct (gi_loop_toks _ _ _ _ _ _ _ _ _ H t Ht) as [[]|X]. exact X.
    + injection H as <- _. destruct Ht.
  - destruct (gi_loop_toks _ _ _ _ _ _ _ _ _ H t Ht) as [[]|X]. exact X.
Qed.

Lemma logged_clause st g timed :
  KInv st g -> forall s, In s (v_logged (view_of st)) ->
  exists t, returnable (g_know g) (g_now g) timed s (issuers_of (view_of st) s) t.
Proof.
  intros [N K] s Hs. cbn [view_of v_logged] in Hs. apply filter_In in Hs as [_ Hl].
  unfold is_logged_in in Hl.
  destruct (c_get_identity (now st) (db st) s [] true) as [[[|t toks] old]|] eqn:G; try discriminate.
  destruct (identity_toks _ _ _ _ _ _ _ t G (or_introl eq_refl)) as [e [He Hg]].
  apply c_get_info in Hg as (l & en & Hl1 & Hl2 & Hl3 & Hl4).
  exists t, e, (e_nooa en). rewrite issuers_view. rewrite Hl1 in *. split; [exact He|].
  split; [rewrite (K _ _ _ _ Hl1 Hl2), Hl3; reflexivity|]. intros _. rewrite N. apply Hl4; reflexivity.
Qed.

Lemma cache_clause w st g o st' ou timed :
  KInv st g -> step w st o = (st', ou) -> cl_cache timed w g (view_of st) o ou (view_of st').
Proof.
  intros I H. split.
  - destruct I as [N K]. destruct o; try exact I; cbn in H.
    + (* GetIdentity *) injection H as <- <-.
      destruct (c_get_identity (now st) (db st) s ents chk) as [[toks old]|] eqn:G; [|exact I].
      intros t Ht. destruct (identity_toks _ _ _ _ _ _ _ t G Ht) as [e [He Hg]].
      apply c_get_info in Hg as (l & en & Hl1 & Hl2 & Hl3 & Hl4).
      exists e, (e_nooa en). split.
      * unfold cands_of. rewrite issuers_view. exact He.
      * split; [rewrite (K _ _ _ _ Hl1 Hl2), Hl3; reflexivity|]. intros T. apply andb_true_iff in T as [_ ->]. rewrite N. apply Hl4; reflexivity.
    + (* GetInfoFrom *) injection H as <- <-.
      destruct (c_get (now st) (db st) s i chk) eqn:G; try exact I.
      apply c_get_info in G as (l & en & Hl1 & Hl2 & Hl3 & Hl4).
      exists i, (e_nooa en). split; [left; reflexivity|].
      split; [rewrite (K _ _ _ _ Hl1 Hl2), Hl3; reflexivity|]. intros T. apply andb_true_iff in T as [_ ->]. rewrite N. apply Hl4; reflexivity.
  - pose proof (KInv_step _ _ _ _ _ _ I H) as I'.
    destruct (ghost_step_know w g (view_of st) o ou (view_of st')) as [Ek En].
    intros s Hs. destruct (logged_clause _ _ timed I' s Hs) as [t R]. exists t. rewrite <- Ek, <- En. exact R.
Qed.

Lemma accept_clause w st g o st' ou :
  step w st o = (st', ou) -> cl_accept w g (view_of st) o ou (view_of st').
Proof.
  intros H. destruct o; try exact I. cbn in H. intros Hk.
  destruct k; [congruence| |]; injection H as <- <-; split; (discriminate || reflexivity).
Qed.

Lemma removed_absent st s st' : local_logout st s = Some st' -> present (view_of st') s = false.
Proof.
  intros L. apply local_logout_some in L as (_ & A & _). apply present_view_false. rewrite A. apply lookup_remove_eq.
Qed.

Lemma loop_post_present w st st' s ref dl l x : loop_post w st st' s ref dl l -> present (view_of st') x = present (view_of st) x.
Proof.
  intros (A & _). unfold present. rewrite !subjects_keys, A. reflexivity.
Qed.

Lemma after_clause w st g o st' ou :
  step w st o = (st', ou) -> cl_after w g (view_of st) o ou (view_of st').
Proof.
  intros H s C. destruct o; cbn in C; try discriminate; cbn in H.
  - (* StartLogout *) destruct ou; try discriminate. injection C as <-.
    unfold global_logout in H. destruct (lookup s0 (db st)) as [l|]; [|discriminate].
    apply do_logout_cases in H as [[_ [(_ & _ & X)|(L & _)]]|(_ & _ & _ & X & _)]; try discriminate; try congruence.
    eapply removed_absent; exact L.
  - (* LogoutResponse *)
    assert (C' : option_map pv_subj (lookup r (v_pending (view_of st))) = Some s /\ (ou = ODone \/ ou = OTimeout)).
    { destruct ou; try discriminate; split; auto. }
    clear C. destruct C' as [C Hou]. rewrite pending_view in C.
    unfold handle_logout_response in H. destruct (negb success).
    { injection H as _ <-. destruct Hou; discriminate. }
    destruct (lookup r (pend st)) as [p|]; [|discriminate]. cbn in C. injection C as <-.
    destruct (negb (p_entity p =? i)%nat).
    { injection H as _ <-. destruct Hou; discriminate. }
    cbn [set_pend heap] in H. destruct (list_eqb (heap st (p_ref p)) [i]).
    + destruct (local_logout _ (p_subj p)) as [st2|] eqn:L; injection H as <- <-.
      * eapply removed_absent; exact L.
      * destruct Hou; discriminate.
    + destruct (mem i (heap st (p_ref p))).
      * apply do_logout_cases in H as [[_ [(_ & _ & X)|(L & _)]]|(_ & _ & _ & X & Y)].
        -- subst ou. destruct Hou; discriminate.
        -- eapply removed_absent; exact L.
        -- destruct Hou; congruence.
      * injection H as _ <-. destruct Hou; discriminate.
  - (* LogoutRequest *) destruct ou; try discriminate. destruct s0; try discriminate. injection C as <-.
    unfold handle_logout_request in H.
    destruct (named =? cur)%nat; [destruct (local_logout st cur) as [st2|] eqn:L|];
      destruct (existsb _ _); inversion H; subst.
    eapply removed_absent; exact L.
  - (* LocalLogout *) destruct ou; try discriminate. destruct b; try discriminate. injection C as <-.
    destruct (local_logout st s0) as [st2|] eqn:L; inversion H; subst.
    eapply removed_absent; exact L.
Qed.

Lemma pending_view_same st st' : pend st' = pend st -> heap st' = heap st -> v_pending (view_of st') = v_pending (view_of st).
Proof. intros A B. cbn. rewrite A, B. reflexivity. Qed.

Lemma frame_same st st' e : db st' = db st -> keeps (view_of st) (view_of st') e /\ no_new (view_of st) (view_of st') e.
Proof.
  intros A. split; intros s P _; unfold present in *; rewrite subjects_keys in *; [rewrite A|rewrite <- A]; exact P.
Qed.

Lemma frame_remove st st' s0 :
  db st' = remove s0 (db st) -> keeps (view_of st) (view_of st') (Some s0) /\ no_new (view_of st) (view_of st') None.
Proof.
  intros A. split; intros s P N.
  - apply present_view. apply present_view in P. rewrite A. rewrite lookup_remove_neq; [exact P|intros X; apply N; rewrite X; reflexivity].
  - apply present_view. apply present_view in P. rewrite A in P.
    destruct (Nat.eq_dec s s0) as [->|Ne]; [rewrite lookup_remove_eq in P; congruence|].
    rewrite lookup_remove_neq in P by exact Ne. exact P.
Qed.

Lemma keeps_weaken vb va s0 : keeps vb va None -> keeps vb va (Some s0).
Proof. intros K s P _. apply K; [exact P|discriminate]. Qed.
Lemma no_new_weaken vb va s0 : no_new vb va None -> no_new vb va (Some s0).
Proof. intros K s P _. apply K; [exact P|discriminate]. Qed.

Lemma pend_kept_same vb va e : v_pending va = v_pending vb -> pend_kept vb va e.
Proof. intros E. unfold pend_kept. rewrite E. split; auto. Qed.

Lemma pend_kept_purge st st' s :
  pend st' = purge s (pend st) -> heap st' = heap st -> pend_kept (view_of st) (view_of st') (Some s).
Proof.
  intros Ep Eh. unfold pend_kept. cbn [view_of v_pending]. rewrite Ep, Eh. unfold purge. split.
  - intros rp H. apply in_map_iff in H as [x [E H]]. apply filter_In in H as [H _]. apply in_map_iff. exists x. auto.
  - intros rp H N. apply in_map_iff in H as [x [E H]]. apply in_map_iff. exists x. split; [exact E|].
    apply filter_In. split; [exact H|]. apply negb_true_iff, Nat.eqb_neq. intros X. apply N. subst rp. cbn. rewrite X. reflexivity.
Qed.

Lemma request_clause w st g o st' ou :
  step w st o = (st', ou) -> cl_request w g (view_of st) o ou (view_of st').
Proof.
  intros H. destruct o; try exact I. cbn in H. unfold handle_logout_request in H. unfold cl_request.
  destruct (named =? cur)%nat eqn:E.
  - apply Nat.eqb_eq in E. subst named. destruct (local_logout st cur) as [st2|] eqn:L.
    + assert (st' = st2) by (destruct (existsb _ _); inversion H; reflexivity). subst st2.
      pose proof (removed_absent _ _ _ L) as Ab.
      apply local_logout_some in L as (A1 & A2 & A3 & A4 & A5 & _).
      destruct (frame_remove st st' cur A2) as [K Nn].
      split; [exact K|]. split; [exact Nn|]. split; [intros _; exact Ab|].
      split; [intros _; split; [reflexivity|apply present_view; exact A1]|apply pend_kept_purge; assumption].
    + assert (st' = st) by (destruct (existsb _ _); inversion H; reflexivity). subst st'.
      apply local_logout_none in L.
      destruct (frame_same st st None eq_refl) as [K Nn].
      split; [apply keeps_weaken; exact K|]. split; [exact Nn|].
      split; [intros _; apply present_view_false; exact L|].
      split; [|apply pend_kept_same; reflexivity]. intros ->. destruct (existsb _ _); inversion H.
  - assert (st' = st) by (destruct (existsb _ _); inversion H; reflexivity). subst st'.
    destruct (frame_same st st None eq_refl) as [K Nn].
    split; [exact K|]. split; [exact Nn|]. apply Nat.eqb_neq in E.
    split; [intros X; congruence|]. split; [|apply pend_kept_same; reflexivity]. intros ->. destruct (existsb _ _); inversion H.
Qed.

(* ================================================================ unguarded clauses along every history *)
Lemma view_init t0 : view_of (init t0) = empty_view.
Proof. reflexivity. Qed.

Lemma unguarded_from (cl : clause) :
  (forall w st g o st' ou, KInv st g -> step w st o = (st', ou) -> cl w g (view_of st) o ou (view_of st')) ->
  forall h w st g, KInv st g -> spec_from cl w g (view_of st) (run_from w st h).
Proof.
  intros Hcl. induction h as [|o r IH]; intros w st g I; cbn; [exact Logic.I|].
  destruct (step w st o) as [st' ou] eqn:S. cbn. split.
  - eapply Hcl; eassumption.
  - apply IH. eapply KInv_step; eassumption.
Qed.

Lemma unguarded (cl : clause) :
  (forall w st g o st' ou, KInv st g -> step w st o = (st', ou) -> cl w g (view_of st) o ou (view_of st')) ->
  forall w t0 h, spec_cl cl w t0 (run w t0 h).
Proof.
  intros Hcl w t0 h. unfold spec_cl, run. rewrite <- (view_init t0). apply unguarded_from; [exact Hcl|apply KInv_init].
Qed.

Lemma isolation_holds : forall w t0 h, spec_cl cl_iso w t0 (run w t0 h).
Proof. apply unguarded. intros. eapply cache_clause; eassumption. Qed.
Lemma expiry_holds : forall w t0 h, spec_cl cl_exp w t0 (run w t0 h).
Proof. apply unguarded. intros. eapply cache_clause; eassumption. Qed.
Lemma accept_holds : forall w t0 h, spec_cl cl_accept w t0 (run w t0 h).
Proof. apply unguarded. intros. eapply accept_clause; eassumption. Qed.
Lemma after_holds : forall w t0 h, spec_cl cl_after w t0 (run w t0 h).
Proof. apply unguarded. intros. eapply after_clause; eassumption. Qed.
Lemma request_holds : forall w t0 h, spec_cl cl_request w t0 (run w t0 h).
Proof. apply unguarded. intros. eapply request_clause; eassumption. Qed.

(* ================================================================ list facts for the logout bookkeeping *)
Lemma list_eqb_eq a : forall b, list_eqb a b = true <-> a = b.
Proof.
  induction a as [|x a IH]; destruct b as [|y b]; cbn; try (split; [discriminate|congruence]); [tauto|].
  rewrite andb_true_iff, Nat.eqb_eq, IH. split; [intros [-> ->]; reflexivity|intros H; injection H; auto].
Qed.

Lemma wait_minus_remove_first i l : NoDup l -> wait_minus i l = remove_first i l.
Proof.
  unfold wait_minus. induction l as [|x r IH]; cbn; intros N; [reflexivity|].
  inversion N as [|? ? Nx Nr]; subst. destruct (x =? i)%nat eqn:E; cbn.
  - apply Nat.eqb_eq in E; subst x. apply filter_all. intros y Hy.
    apply negb_true_iff, Nat.eqb_neq. intros ->. exact (Nx Hy).
  - rewrite IH by exact Nr. reflexivity.
Qed.

Lemma filter_andb {A} (p q : A -> bool) l : filter (fun x => p x && q x) l = filter q (filter p l).
Proof.
  induction l as [|x r IH]; cbn; [reflexivity|]. destruct (p x); cbn; [destruct (q x); rewrite IH; reflexivity|exact IH].
Qed.

Lemma NoDup_filter {A} (f : A -> bool) l : NoDup l -> NoDup (filter f l).
Proof.
  induction l as [|x r IH]; cbn; intros N; [constructor|]. inversion N as [|? ? Nx Nr]; subst.
  destruct (f x); [constructor; [intros H; apply filter_In in H as [H _]; exact (Nx H)|apply IH; exact Nr]|apply IH; exact Nr].
Qed.

Lemma remove_first_nil i l : In i l -> remove_first i l = [] -> l = [i].
Proof.
  destruct l as [|x r]; cbn; [contradiction|]. destruct (x =? i)%nat eqn:E.
  - apply Nat.eqb_eq in E. intros _ ->. congruence.
  - discriminate.
Qed.

Lemma In_remove_first a i l : a <> i -> In a l -> In a (remove_first i l).
Proof.
  intros N. induction l as [|x r IH]; cbn; [contradiction|]. destruct (x =? i)%nat eqn:E.
  - apply Nat.eqb_eq in E. intros [H|H]; [congruence|exact H].
  - intros [H|H]; [left; exact H|right; apply IH; exact H].
Qed.

Lemma remove_first_subset a i l : In a (remove_first i l) -> In a l.
Proof.
  induction l as [|x r IH]; cbn; [contradiction|]. destruct (x =? i)%nat.
  - intros H; right; exact H.
  - intros [H|H]; [left; exact H|right; apply IH; exact H].
Qed.

Lemma NoDup_remove_first i l : NoDup l -> NoDup (remove_first i l).
Proof.
  induction l as [|x r IH]; cbn; intros N; [constructor|]. inversion N as [|? ? Nx Nr]; subst.
  destruct (x =? i)%nat; [exact Nr|]. constructor; [|apply IH; exact Nr].
  intros H. apply Nx. eapply remove_first_subset; exact H.
Qed.

Lemma lookup_In {V} k (v : V) l : lookup k l = Some v -> In (k, v) l.
Proof.
  induction l as [|[k' v'] r IH]; cbn; [discriminate|]. destruct (k' =? k)%nat eqn:E.
  - apply Nat.eqb_eq in E. intros H; injection H as ->. left; congruence.
  - intros H; right; apply IH; exact H.
Qed.

Lemma In_keys {V} k (v : V) l : In (k, v) l -> In k (keys l).
Proof. intros H. unfold keys. apply in_map_iff. exists (k, v). split; [reflexivity|exact H]. Qed.

Lemma keys_remove_subset {V} k k' (l : list (nat * V)) : In k' (keys (remove k l)) -> In k' (keys l).
Proof.
  unfold keys. induction l as [|[k2 v2] r IH]; cbn; [contradiction|]. destruct (k2 =? k)%nat; cbn.
  - intros H; right; apply IH; exact H.
  - intros [H|H]; [left; exact H|right; apply IH; exact H].
Qed.

Lemma v_pending_view st : v_pending (view_of st) = map (fun rp => (fst rp, pv_of st (snd rp))) (pend st).
Proof. reflexivity. Qed.

(* the requests created by a step, as the monitor reads them off the two views *)
Lemma new_pending_app st st' old news :
  pend st' = old ++ news ->
  (forall r, In r (keys old) -> In r (keys (pend st))) ->
  (forall r p, In (r, p) news -> ~ In r (keys (pend st))) ->
  new_pending (view_of st) (view_of st') = map (fun rp => (fst rp, pv_of st' (snd rp))) news.
Proof.
  intros E Hold Hnew. unfold new_pending. rewrite pending_ids_view, v_pending_view, E.
  rewrite map_app, filter_app.
  match goal with |- ?X ++ _ = _ => assert (A : X = []) end.
  { clear E. induction old as [|[r p] o IH]; cbn; [reflexivity|].
    assert (M : mem r (keys (pend st)) = true) by (apply mem_In, Hold; left; reflexivity).
    rewrite M. cbn. apply IH. intros r' Hr'. apply Hold. right; exact Hr'. }
  rewrite A. cbn [app]. apply filter_all. intros [r pv] Hr. apply in_map_iff in Hr as [[r' p] [Er Hr]].
  injection Er as -> _. cbn. apply negb_true_iff, mem_false. eapply Hnew; exact Hr.
Qed.

(* ================================================================ the bookkeeping invariant *)
Definition db_wf (c : cache) : Prop := forall s l, lookup s c = Some l -> NoDup (keys l) /\ keys l <> [].

(* a subject that keeps its session keeps every issuer it has *)
Definition db_keeps (c c' : cache) : Prop :=
  forall s l, lookup s c = Some l -> lookup s c' <> None ->
    exists l', lookup s c' = Some l' /\ forall e, lookup e l <> None -> lookup e l' <> None.

Lemma db_keeps_same c c' : c' = c -> db_keeps c c'.
Proof. intros -> s l H _. exists l. split; [exact H|auto]. Qed.

Lemma db_keeps_remove s0 c : db_keeps c (remove s0 c).
Proof.
  intros s l H P. destruct (Nat.eq_dec s s0) as [->|Ne]; [rewrite lookup_remove_eq in P; congruence|].
  exists l. rewrite lookup_remove_neq by exact Ne. split; [exact H|auto].
Qed.

Lemma db_keeps_set s0 i e c : db_keeps c (c_set s0 i e c).
Proof.
  intros s l H _. unfold c_set. destruct (Nat.eq_dec s s0) as [->|Ne].
  - rewrite lookup_update_eq, H. eexists. split; [reflexivity|]. intros e0 He0.
    destruct (Nat.eq_dec e0 i) as [->|Ni]; [rewrite lookup_update_eq; discriminate|].
    rewrite lookup_update_neq by exact Ni. exact He0.
  - exists l. rewrite lookup_update_neq by exact Ne. split; [exact H|auto].
Qed.

(* L_txn: the shared entity_ids list object of a logout in progress IS the monitor's list of IdPs still to
   answer, and the subject still has its session with (at least) those issuers.
   L_own : the monitor's open requests are pending, addressed to a front-channel IdP still waited for.
   L_pend: every request the client keeps is such an open request (after de5f1fed, 73294247, e58d2614). *)
Record LInv (w : world) (st : state) (g : ghost) : Prop := {
  L_now : g_now g = now st;
  L_ntxn : g_ntxn g = next_ref st;
  L_txn : forall n T, g_txn g n = Some T ->
            (n < next_ref st)%nat /\ heap st n = t_wait T /\ NoDup (t_wait T)
            /\ exists l, lookup (t_subj T) (db st) = Some l /\ forall e, In e (t_wait T) -> lookup e l <> None;
  L_own : forall r n a T, g_owner g r = Some (n, a) -> g_txn g n = Some T ->
            lookup r (pend st) = Some {| p_entity := a; p_ref := n; p_subj := t_subj T; p_expire := t_deadline T |}
            /\ In a (t_wait T) /\ asked_by_soap w a = false;
  L_own_lt : forall r n a, g_owner g r = Some (n, a) -> (n < g_ntxn g)%nat;
  L_rid : forall r p, lookup r (pend st) = Some p -> (r < next_rid st)%nat;
  L_db : db_wf (db st);
  L_nodup : NoDup (keys (pend st));
  L_pend : forall r p, lookup r (pend st) = Some p ->
             exists T, g_txn g (p_ref p) = Some T /\ t_subj T = p_subj p /\ g_owner g r = Some (p_ref p, p_entity p)
}.

Lemma LInv_init w t0 : LInv w (init t0) (ghost0 t0).
Proof. constructor; cbn; try reflexivity; try discriminate. constructor. Qed.

Lemma L_txn_present w st g n T : LInv w st g -> g_txn g n = Some T -> lookup (t_subj T) (db st) <> None.
Proof. intros I H. destruct (L_txn _ _ _ I n T H) as (_ & _ & _ & l & Hl & _). congruence. Qed.

Lemma close_txn_some va tx n T :
  close_txn va tx n = Some T <-> tx n = Some T /\ present va (t_subj T) = true.
Proof.
  unfold close_txn. destruct (tx n) as [T0|]; [|split; [discriminate|intros [H _]; discriminate]].
  destruct (present va (t_subj T0)) eqn:P.
  - split; [intros H; injection H as <-; split; [reflexivity|exact P]|intros [H _]; exact H].
  - split; [discriminate|intros [H Q]; injection H as <-; congruence].
Qed.

Lemma db_wf_remove s0 c : db_wf c -> db_wf (remove s0 c).
Proof.
  intros W s l H. destruct (Nat.eq_dec s s0) as [->|Ne]; [rewrite lookup_remove_eq in H; discriminate|].
  rewrite lookup_remove_neq in H by exact Ne. exact (W s l H).
Qed.

Lemma db_wf_set s i e c : db_wf c -> db_wf (c_set s i e c).
Proof.
  intros W s' l H. unfold c_set in H. destruct (Nat.eq_dec s' s) as [->|Ne].
  - rewrite lookup_update_eq in H. injection H as <-. split; [|apply keys_update_nonempty].
    apply NoDup_keys_update. destruct (lookup s c) as [l0|] eqn:L0; [exact (proj1 (W s l0 L0))|constructor].
  - rewrite lookup_update_neq in H by exact Ne. exact (W s' l H).
Qed.

Lemma txn_kept (st st' : state) (T : txn) :
  db_keeps (db st) (db st') -> present (view_of st') (t_subj T) = true ->
  (exists l, lookup (t_subj T) (db st) = Some l /\ forall e, In e (t_wait T) -> lookup e l <> None) ->
  exists l, lookup (t_subj T) (db st') = Some l /\ forall e, In e (t_wait T) -> lookup e l <> None.
Proof.
  intros Dk P (l & Hl & He). apply present_view in P. destruct (Dk _ l Hl P) as (l' & Hl' & Hk).
  exists l'. split; [exact Hl'|]. intros e Hin. apply Hk, He, Hin.
Qed.

(* steps that start or advance no logout: pending entries may only disappear together with their subject *)
Lemma LInv_base w st st' g nw kn :
  LInv w st g -> nw = now st' -> db_keeps (db st) (db st') ->
  (forall r p, lookup r (pend st') = Some p -> lookup r (pend st) = Some p /\ lookup (p_subj p) (db st') <> None) ->
  (forall r p, lookup r (pend st) = Some p -> lookup (p_subj p) (db st') <> None -> lookup r (pend st') = Some p) ->
  NoDup (keys (pend st')) ->
  heap st' = heap st -> next_rid st' = next_rid st -> next_ref st' = next_ref st -> db_wf (db st') ->
  LInv w st' {| g_now := nw; g_know := kn; g_txn := close_txn (view_of st') (g_txn g);
                g_owner := g_owner g; g_moot := g_moot g; g_ntxn := g_ntxn g |}.
Proof.
  intros I En Dk Hp1 Hp2 ND Eh Er Ef W. destruct I as [I1 I2 I3 I4 I5 I6 I7 I8 I9]. constructor; cbn.
  - exact En.
  - congruence.
  - intros n T H. apply close_txn_some in H as [H P]. destruct (I3 n T H) as (A & B & C & D).
    split; [congruence|]. split; [congruence|]. split; [exact C|]. eapply txn_kept; eassumption.
  - intros r n a T Ho H. apply close_txn_some in H as [H P]. destruct (I4 r n a T Ho H) as [L Hin]. split; [|exact Hin].
    apply Hp2; [exact L|]. cbn. apply present_view; exact P.
  - exact I5.
  - intros r p H. destruct (Hp1 r p H) as [H0 _]. rewrite Er. exact (I6 r p H0).
  - exact W.
  - exact ND.
  - intros r p H. destruct (Hp1 r p H) as [H0 Pd]. destruct (I9 r p H0) as (T & HT & Hs & Ho). exists T.
    split; [apply close_txn_some; split; [exact HT|rewrite Hs; apply present_view; exact Pd]|]. split; assumption.
Qed.

Lemma LInv_same_pend w st st' g nw kn :
  LInv w st g -> nw = now st' -> pend st' = pend st -> heap st' = heap st ->
  next_rid st' = next_rid st -> next_ref st' = next_ref st -> db_wf (db st') -> db_keeps (db st) (db st') ->
  (forall s, lookup s (db st) <> None -> lookup s (db st') <> None) ->
  LInv w st' {| g_now := nw; g_know := kn; g_txn := close_txn (view_of st') (g_txn g);
                g_owner := g_owner g; g_moot := g_moot g; g_ntxn := g_ntxn g |}.
Proof.
  intros I En Ep Eh Er Ef W Dk Hdb. apply (LInv_base w st); try assumption.
  - intros r p H. rewrite Ep in H. split; [exact H|]. destruct (L_pend _ _ _ I r p H) as (T & HT & Hs & _).
    apply Hdb. rewrite <- Hs. eapply L_txn_present; eassumption.
  - intros r p H _. rewrite Ep. exact H.
  - rewrite Ep. apply (L_nodup _ _ _ I).
Qed.

Lemma LInv_logged_out w st st' g s nw kn :
  LInv w st g -> local_logout st s = Some st' -> nw = now st' ->
  LInv w st' {| g_now := nw; g_know := kn; g_txn := close_txn (view_of st') (g_txn g);
                g_owner := g_owner g; g_moot := g_moot g; g_ntxn := g_ntxn g |}.
Proof.
  intros I L En. apply local_logout_some in L as (A1 & A2 & A3 & A4 & A5 & A6 & A7).
  pose proof (L_nodup _ _ _ I) as ND.
  apply (LInv_base w st); try assumption.
  - rewrite A2. apply db_keeps_remove.
  - intros r p H. rewrite A4 in H. apply (lookup_purge s r p _ ND) in H as [H N]. split; [exact H|].
    rewrite A2, lookup_remove_neq by exact N. destruct (L_pend _ _ _ I r p H) as (T & HT & Hs & _).
    rewrite <- Hs. eapply L_txn_present; eassumption.
  - intros r p H P. rewrite A4. apply (lookup_purge s r p _ ND). split; [exact H|].
    intros X. rewrite X, A2, lookup_remove_eq in P. apply P; reflexivity.
  - rewrite A4. apply NoDup_keys_filter; exact ND.
  - rewrite A2. apply db_wf_remove, (L_db _ _ _ I).
Qed.

Definition GStep (w : world) (st : state) (g : ghost) (o : op) (st' : state) (ou : out) : Prop :=
  cl_pending w g (view_of st) o ou (view_of st') /\ cl_ends w g (view_of st) o ou (view_of st')
  /\ LInv w st' (ghost_step0 w g (view_of st) o ou (view_of st')).

Lemma frame_store st s i nooa ot :
  keeps (view_of st) (view_of (store st s i nooa ot)) None
  /\ no_new (view_of st) (view_of (store st s i nooa ot)) (Some s)
  /\ v_pending (view_of (store st s i nooa ot)) = v_pending (view_of st).
Proof.
  split; [|split; [|reflexivity]].
  - intros s' P _. apply present_view. apply present_view in P. cbn. unfold c_set.
    destruct (Nat.eq_dec s' s) as [->|Ne]; [rewrite lookup_update_eq; discriminate|].
    rewrite lookup_update_neq by exact Ne. exact P.
  - intros s' P N. apply present_view. apply present_view in P. cbn in P. unfold c_set in P.
    rewrite lookup_update_neq in P; [exact P|]. intros ->. apply N; reflexivity.
Qed.

Lemma keeps_db st st' : keeps (view_of st) (view_of st') None ->
  forall s, lookup s (db st) <> None -> lookup s (db st') <> None.
Proof. intros K s H. apply present_view. apply K; [apply present_view; exact H|discriminate]. Qed.

Lemma GStep_store w st g o s i nooa ot ou :
  LInv w st g ->
  (match o with Login s' _ _ _ | AcceptResponse s' _ _ _ _ _ | Reset s' _ => s' = s | _ => False end) ->
  GStep w st g o (store st s i nooa ot) ou.
Proof.
  intros I Ho. destruct (frame_store st s i nooa ot) as (K & N & P).
  assert (L : LInv w (store st s i nooa ot)
                (base_ghost g o ou (view_of (store st s i nooa ot)) (g_txn g) (g_owner g) (g_moot g) (g_ntxn g))).
  { apply (LInv_same_pend w st); try reflexivity;
      [exact I| |apply db_wf_set; apply (L_db _ _ _ I)|apply db_keeps_set|apply keeps_db; exact K].
    destruct o; try contradiction; cbn; apply (L_now _ _ _ I). }
  destruct o; try contradiction; subst; (split; [exact Logic.I|split; [|exact L]]); cbn; auto.
Qed.

Lemma GStep_same w st g o ou :
  LInv w st g ->
  (match o with GetIdentity _ _ _ | GetInfoFrom _ _ _ | Stale _ _ | AcceptResponse _ _ _ _ _ _ | LogoutRequest _ _ _ _
           | LocalLogout _ => True | _ => False end) ->
  GStep w st g o st ou.
Proof.
  intros I Ho. destruct (frame_same st st None eq_refl) as (K & N).
  assert (L : LInv w st (base_ghost g o ou (view_of st) (g_txn g) (g_owner g) (g_moot g) (g_ntxn g))).
  { apply (LInv_same_pend w st); try reflexivity; [exact I| |apply (L_db _ _ _ I)|apply db_keeps_same; reflexivity|auto].
    destruct o; try contradiction; cbn; apply (L_now _ _ _ I). }
  destruct o; try contradiction; (split; [exact Logic.I|split; [|exact L]]); cbn; auto.
  - split; [exact K|]. split; [apply no_new_weaken; exact N|reflexivity].
  - split; [apply keeps_weaken; exact K|]. split; [exact N|apply pend_kept_same; reflexivity].
Qed.

Lemma GStep_removed w st g o s st' ou :
  LInv w st g -> local_logout st s = Some st' ->
  (match o with LogoutRequest _ _ _ _ => True | LocalLogout s' => s' = s | _ => False end) ->
  GStep w st g o st' ou.
Proof.
  intros I L Ho.
  assert (Li : LInv w st' (base_ghost g o ou (view_of st') (g_txn g) (g_owner g) (g_moot g) (g_ntxn g))).
  { apply (LInv_logged_out w st st' g s); [exact I|exact L|].
    apply local_logout_some in L as (_ & _ & A3 & _).
    destruct o; try contradiction; cbn; rewrite A3; apply (L_now _ _ _ I). }
  apply local_logout_some in L as (A1 & A2 & A3 & A4 & A5 & A6 & A7).
  destruct (frame_remove st st' s A2) as (K & N).
  destruct o; try contradiction; (split; [exact Logic.I|split; [|exact Li]]); cbn; auto.
  subst s0. split; [exact K|]. split; [exact N|apply pend_kept_purge; assumption].
Qed.

Lemma GStep_tick w st g dt :
  LInv w st g ->
  GStep w st g (Tick dt) {| now := now st + dt; db := db st; pend := pend st; heap := heap st;
                            next_rid := next_rid st; next_ref := next_ref st |} OUnit.
Proof.
  intros I. set (st' := {| now := now st + dt; db := db st; pend := pend st; heap := heap st;
                           next_rid := next_rid st; next_ref := next_ref st |}).
  destruct (frame_same st st' None eq_refl) as (K & N).
  split; [exact Logic.I|]. split; [split; [exact K|split; [exact N|reflexivity]]|].
  apply (LInv_same_pend w st); try reflexivity; [exact I| |apply (L_db _ _ _ I)|apply db_keeps_same; reflexivity|auto].
  cbn. rewrite (L_now _ _ _ I). reflexivity.
Qed.

(* steps that start (n fresh) or advance (n in progress) the logout transaction n *)
Lemma LInv_step_gen w st st' g nw kn n vT ows mts ntx :
  LInv w st g ->
  nw = now st' -> ntx = next_ref st' -> (next_ref st <= next_ref st')%nat ->
  db_wf (db st') -> db_keeps (db st) (db st') ->
  (forall r p, lookup r (pend st') = Some p -> (r < next_rid st')%nat) ->
  NoDup (keys (pend st')) ->
  (forall n', n' <> n -> (n' < next_ref st)%nat -> heap st' n' = heap st n') ->
  (forall T, vT = Some T ->
     (n < next_ref st')%nat /\ heap st' n = t_wait T /\ NoDup (t_wait T)
     /\ exists l, lookup (t_subj T) (db st') = Some l /\ forall e, In e (t_wait T) -> lookup e l <> None) ->
  (forall r n0 a, ows r = Some (n0, a) -> (n0 < ntx)%nat) ->
  (forall r n0 a T0, ows r = Some (n0, a) -> n0 <> n -> g_txn g n0 = Some T0 -> lookup (t_subj T0) (db st') <> None ->
     g_owner g r = Some (n0, a) /\ lookup r (pend st') = lookup r (pend st)) ->
  (forall r a T, ows r = Some (n, a) -> vT = Some T ->
     lookup r (pend st') = Some {| p_entity := a; p_ref := n; p_subj := t_subj T; p_expire := t_deadline T |}
     /\ In a (t_wait T) /\ asked_by_soap w a = false) ->
  (forall r p, lookup r (pend st') = Some p ->
     exists T, txn_set (g_txn g) n vT (p_ref p) = Some T /\ t_subj T = p_subj p /\ lookup (p_subj p) (db st') <> None /\
       ows r = Some (p_ref p, p_entity p)) ->
  LInv w st' {| g_now := nw; g_know := kn; g_txn := close_txn (view_of st') (txn_set (g_txn g) n vT);
                g_owner := ows; g_moot := mts; g_ntxn := ntx |}.
Proof.
  intros I En Ef Le W Dk Hr ND Hh HT Hlt Hold Hnew Hpend. destruct I as [I1 I2 I3 I4 I5 I6 I7 I8 I9]. constructor; cbn.
  - exact En.
  - exact Ef.
  - intros n' T H. apply close_txn_some in H as [H P]. unfold txn_set in H.
    destruct (n' =? n)%nat eqn:E.
    + apply Nat.eqb_eq in E; subst n'. exact (HT T H).
    + apply Nat.eqb_neq in E. destruct (I3 n' T H) as (A & B & C & D).
      split; [lia|]. split; [rewrite Hh by assumption; exact B|]. split; [exact C|]. eapply txn_kept; eassumption.
  - intros r n0 a T Ho H. apply close_txn_some in H as [H P]. unfold txn_set in H.
    destruct (n0 =? n)%nat eqn:E.
    + apply Nat.eqb_eq in E; subst n0. exact (Hnew r a T Ho H).
    + apply Nat.eqb_neq in E. apply present_view in P. destruct (Hold r n0 a T Ho E H P) as [A B]. rewrite B. exact (I4 r n0 a T A H).
  - exact Hlt.
  - exact Hr.
  - exact W.
  - exact ND.
  - intros r p H. destruct (Hpend r p H) as (T & HT' & Hs & Pd & Ho). exists T.
    split; [apply close_txn_some; split; [exact HT'|rewrite Hs; apply present_view; exact Pd]|]. split; assumption.
Qed.

Lemma owner_add_cases ow n news r x :
  owner_add ow n news r = Some x ->
  (exists pv, lookup r news = Some pv /\ x = (n, pv_entity pv)) \/ (lookup r news = None /\ ow r = Some x).
Proof.
  unfold owner_add. destruct (lookup r news) as [pv|].
  - intros H; injection H as <-. left. exists pv. split; reflexivity.
  - intros H. right. split; [reflexivity|exact H].
Qed.

Lemma lookup_app_old {V} k (l1 l2 : list (nat * V)) v : lookup k l1 = Some v -> lookup k (l1 ++ l2) = Some v.
Proof. intros H. rewrite lookup_app, H. reflexivity. Qed.

Lemma lookup_app_new {V} k (l1 l2 : list (nat * V)) : lookup k l1 = None -> lookup k (l1 ++ l2) = lookup k l2.
Proof. intros H. rewrite lookup_app, H. reflexivity. Qed.

Lemma pentry_eta p : p = {| p_entity := p_entity p; p_ref := p_ref p; p_subj := p_subj p; p_expire := p_expire p |}.
Proof. destruct p; reflexivity. Qed.

Lemma In_keys_ex {V} k (l : list (nat * V)) : In k (keys l) -> exists v, In (k, v) l.
Proof. unfold keys. intros H. apply in_map_iff in H as [[k' v] [E H]]. cbn in E. subst k'. exists v. exact H. Qed.

Lemma NoDup_keys_app {V} (a b : list (nat * V)) :
  NoDup (keys a) -> NoDup (keys b) -> (forall k, In k (keys a) -> ~ In k (keys b)) -> NoDup (keys (a ++ b)).
Proof.
  unfold keys. rewrite map_app. induction a as [|[k v] a IH]; cbn; intros Na Nb D; [exact Nb|].
  inversion Na as [|? ? Nk Nr]; subst. constructor.
  - rewrite in_app_iff. intros [H|H]; [exact (Nk H)|]. exact (D k (or_introl eq_refl) H).
  - apply IH; [exact Nr|exact Nb|]. intros k' H. apply D. right; exact H.
Qed.

Lemma new_pending_sub st st' :
  (forall r, In r (keys (pend st')) -> In r (keys (pend st))) -> new_pending (view_of st) (view_of st') = [].
Proof.
  intros H. rewrite (new_pending_app st st' (pend st') []); [reflexivity|rewrite app_nil_r; reflexivity|exact H|intros r p []].
Qed.

Lemma keys_sub_of_lookup {V} (a b : list (nat * V)) :
  (forall r p, lookup r a = Some p -> exists q, lookup r b = Some q) -> forall r, In r (keys a) -> In r (keys b).
Proof.
  intros H r Hr. apply lookup_In_keys in Hr. destruct (lookup r a) as [p|] eqn:E; [|congruence].
  destruct (H r p E) as [q Hq]. apply lookup_In_keys. congruence.
Qed.

Lemma is_nil_false {A} (l : list A) : l <> [] -> is_nil l = false.
Proof. destruct l; [congruence|reflexivity]. Qed.

Lemma fresh_not_old w st g news s ref dl l :
  LInv w st g -> fresh_entries w st s ref dl l news -> forall r p, In (r, p) news -> ~ In r (keys (pend st)).
Proof.
  intros I F r p Hr Hin. apply lookup_In_keys in Hin. destruct (lookup r (pend st)) as [p0|] eqn:Lr; [|congruence].
  pose proof (L_rid _ _ _ I r p0 Lr). destruct (F r p Hr) as (B1 & _). lia.
Qed.

(* the model's stopping test is the monitor's, for an IdP the subject has a session with *)
Lemma mstop_stopper w st g s ans l e :
  KInv st g -> lookup s (db st) = Some l -> lookup e l <> None ->
  mstop w (now st) (db st) s ans e = stopper w (g_know g s) ans e.
Proof.
  intros [_ K] Hs He. unfold mstop, stopper. destruct (choose w e) as [b|]; [|reflexivity].
  destruct (lookup e l) as [en|] eqn:Le; [|congruence].
  unfold c_get. rewrite Hs, Le. cbn [andb]. rewrite (K _ _ _ _ Hs Le).
  destruct (e_info en); reflexivity.
Qed.

Lemma mpass_wait_pass w st g s ans l lst :
  KInv st g -> lookup s (db st) = Some l -> (forall e, In e lst -> lookup e l <> None) ->
  mpass_wait w st s ans lst = pass_wait w (g_know g s) ans lst.
Proof.
  intros K Hs He. unfold mpass_wait, pass_wait.
  rewrite (reached_ext (mstop w (now st) (db st) s ans) (stopper w (g_know g s) ans) lst); [reflexivity|].
  intros e Hin. eapply mstop_stopper; [exact K|exact Hs|apply He; exact Hin].
Qed.

Lemma pass_wait_front w know ans l e :
  In e l -> asked_by_soap w e = false -> In e (pass_wait w know ans l).
Proof. intros H F. apply filter_In. split; [exact H|]. rewrite (soap_ok_front w ans e F). reflexivity. Qed.

Lemma fresh_entries_pass w know ans st s ref dl l news :
  fresh_entries w st s ref dl l news -> fresh_entries w st s ref dl (pass_wait w know ans l) news.
Proof.
  intros F r p Hr. destruct (F r p Hr) as (B1 & B2 & B3 & B4 & B5 & B6). do 4 (split; [assumption|]). split; [|exact B6].
  apply pass_wait_front; assumption.
Qed.

(* purge after the pass: the entries just written belong to the subject and go with it *)
Lemma lookup_purge_app s old news r p :
  NoDup (keys (old ++ news)) -> (forall r' q, In (r', q) news -> p_subj q = s) ->
  (lookup r (purge s (old ++ news)) = Some p <-> lookup r old = Some p /\ p_subj p <> s).
Proof.
  intros N Hs. rewrite (lookup_purge s r p _ N), lookup_app. destruct (lookup r old) as [q|] eqn:E.
  - tauto.
  - split; [|intros [H _]; discriminate]. intros [H Ns]. apply lookup_In in H. exfalso. apply Ns. exact (Hs r p H).
Qed.

Lemma Old_pend w st g :
  LInv w st g -> forall r p, lookup r (pend st) = Some p ->
    exists T, g_txn g (p_ref p) = Some T /\ t_subj T = p_subj p /\ lookup (p_subj p) (db st) <> None
              /\ (p_ref p < next_ref st)%nat /\ g_owner g r = Some (p_ref p, p_entity p).
Proof.
  intros I r p Hr. destruct (L_pend _ _ _ I r p Hr) as (T & HT & Hs & Ho). exists T.
  pose proof (L_txn_present _ _ _ _ _ I HT) as C. destruct (L_txn _ _ _ I _ T HT) as (A & _). rewrite Hs in C. auto.
Qed.

(* a global logout is started and the session stays: transaction n = next_ref st waits for `wait` *)
Lemma LInv_start_stay w st st' g s dl wait tsoap news nw kn ldb :
  LInv w st g -> lookup s (db st) = Some ldb -> (forall e, In e wait -> lookup e ldb <> None) ->
  db st' = db st -> nw = now st' -> pend st' = pend st ++ news ->
  (next_rid st <= next_rid st')%nat -> next_ref st' = S (next_ref st) ->
  fresh_entries w st s (next_ref st) dl wait news ->
  (forall r p, In (r, p) news -> (r < next_rid st')%nat) -> NoDup (keys news) ->
  (forall n', n' <> next_ref st -> heap st' n' = heap st n') -> heap st' (next_ref st) = wait -> NoDup wait ->
  LInv w st' {| g_now := nw; g_know := kn;
                g_txn := close_txn (view_of st') (txn_set (g_txn g) (next_ref st)
                           (Some {| t_subj := s; t_wait := wait; t_deadline := dl; t_soap := tsoap |}));
                g_owner := owner_add (g_owner g) (next_ref st) (map (fun rp => (fst rp, pv_of st' (snd rp))) news);
                g_moot := g_moot g; g_ntxn := S (next_ref st) |}.
Proof.
  intros I Ls Hiss A1 En A5 A6 Ef A7' A8 A9 Hh Hn1 NDw.
  assert (Ps : lookup s (db st) <> None) by congruence.
  pose proof (L_ntxn _ _ _ I) as Entx. pose proof (L_nodup _ _ _ I) as NDp.
  pose proof (fresh_not_old _ _ _ _ _ _ _ _ I A7') as Fresh.
  apply (LInv_step_gen w st).
  - exact I.
  - exact En.
  - congruence.
  - lia.
  - rewrite A1. apply (L_db _ _ _ I).
  - apply db_keeps_same; exact A1.
  - intros r p Hr. rewrite A5, lookup_app in Hr. destruct (lookup r (pend st)) as [p0|] eqn:Lr.
    + pose proof (L_rid _ _ _ I r p0 Lr). lia.
    + apply lookup_In in Hr. exact (A8 r p Hr).
  - rewrite A5. apply NoDup_keys_app; [exact NDp|exact A9|].
    intros k Hk Hk'. apply In_keys_ex in Hk' as [p Hp]. exact (Fresh k p Hp Hk).
  - intros n' Hn _. apply Hh; exact Hn.
  - intros T X. injection X as <-. cbn. split; [lia|]. split; [exact Hn1|]. split; [exact NDw|].
    exists ldb. split; [rewrite A1; exact Ls|exact Hiss].
  - intros r n0 a Ho. apply owner_add_cases in Ho as [(pv & _ & X)|(_ & Ho)]; [injection X as -> _; lia|].
    pose proof (L_own_lt _ _ _ I r n0 a Ho). lia.
  - intros r n0 a T0 Ho Hn HT _. apply owner_add_cases in Ho as [(pv & _ & X)|(_ & Ho)]; [injection X as -> _; congruence|].
    split; [exact Ho|]. destruct (L_own _ _ _ I r n0 a T0 Ho HT) as [Lr _]. rewrite A5. rewrite (lookup_app_old _ _ _ _ Lr), Lr. reflexivity.
  - intros r a T Ho X. injection X as <-. cbn [t_subj t_deadline t_wait].
    apply owner_add_cases in Ho as [(pv & Hl & X)|(_ & Ho)].
    + injection X as ->. rewrite (lookup_map_snd (pv_of st')) in Hl.
      destruct (lookup r news) as [p|] eqn:Ln; [|discriminate]. cbn in Hl. injection Hl as <-. cbn [pv_of pv_entity].
      apply lookup_In in Ln as Hin. destruct (A7' r p Hin) as (B1 & B2 & B3 & B4 & B5 & B6).
      assert (Lr : lookup r (pend st) = None) by (apply lookup_None_keys; exact (Fresh r p Hin)).
      rewrite A5, (lookup_app_new _ _ _ Lr), Ln. split; [|split; [exact B5|exact B6]].
      rewrite (pentry_eta p) at 1. rewrite B2, B3, B4. reflexivity.
    + pose proof (L_own_lt _ _ _ I r _ a Ho). lia.
  - intros r p Hr. rewrite A5, lookup_app in Hr. destruct (lookup r (pend st)) as [p0|] eqn:Lr.
    + injection Hr as <-. destruct (Old_pend _ _ _ I r p0 Lr) as (T & HT & Hs & C & Hn & Ho). exists T. unfold txn_set.
      assert (Hn' : (p_ref p0 =? next_ref st)%nat = false) by (apply Nat.eqb_neq; lia). rewrite Hn'.
      split; [exact HT|]. split; [exact Hs|]. split; [rewrite A1; exact C|].
      unfold owner_add. rewrite (lookup_map_snd (pv_of st')).
      assert (Ln : lookup r news = None).
      { apply lookup_None_keys. intros Hk. apply In_keys_ex in Hk as [q Hq]. apply (Fresh r q Hq).
        apply lookup_In_keys. congruence. }
      rewrite Ln. cbn. exact Ho.
    + apply lookup_In in Hr as Hin. destruct (A7' r p Hin) as (B1 & B2 & B3 & B4 & B5 & B6).
      exists {| t_subj := s; t_wait := wait; t_deadline := dl; t_soap := tsoap |}.
      unfold txn_set. rewrite B2, Nat.eqb_refl. split; [reflexivity|]. split; [cbn; congruence|].
      split; [rewrite B3, A1; exact Ps|]. unfold owner_add. rewrite (lookup_map_snd (pv_of st')), Hr. reflexivity.
Qed.

(* a global logout is started and ends the session at once (deadline passed, or everybody answered over SOAP) *)
Lemma LInv_start_end w st st' g s nw kn :
  LInv w st g -> lookup s (db st) <> None -> db st' = remove s (db st) -> nw = now st' ->
  (forall r p, lookup r (pend st') = Some p <-> lookup r (pend st) = Some p /\ p_subj p <> s) ->
  NoDup (keys (pend st')) -> (next_rid st <= next_rid st')%nat -> next_ref st' = S (next_ref st) ->
  (forall n', n' <> next_ref st -> heap st' n' = heap st n') ->
  LInv w st' {| g_now := nw; g_know := kn; g_txn := close_txn (view_of st') (txn_set (g_txn g) (next_ref st) None);
                g_owner := owner_add (g_owner g) (next_ref st) []; g_moot := g_moot g; g_ntxn := S (next_ref st) |}.
Proof.
  intros I Ps A2 En Hp ND' A6 Ef Hh. pose proof (L_ntxn _ _ _ I) as Entx.
  apply (LInv_step_gen w st).
  - exact I.
  - exact En.
  - congruence.
  - lia.
  - rewrite A2. apply db_wf_remove, (L_db _ _ _ I).
  - rewrite A2. apply db_keeps_remove.
  - intros r p Hr. apply Hp in Hr as [Hr _]. pose proof (L_rid _ _ _ I r p Hr). lia.
  - exact ND'.
  - intros n' Hn _. apply Hh; exact Hn.
  - intros T X; discriminate.
  - intros r n0 a Ho. apply owner_add_cases in Ho as [(pv & X & _)|(_ & Ho)]; [discriminate|].
    pose proof (L_own_lt _ _ _ I r n0 a Ho). lia.
  - intros r n0 a T0 Ho Hn HT Pd. apply owner_add_cases in Ho as [(pv & X & _)|(_ & Ho)]; [discriminate|].
    split; [exact Ho|]. destruct (L_own _ _ _ I r n0 a T0 Ho HT) as [Lr _]. rewrite Lr.
    apply Hp. split; [exact Lr|]. cbn. intros X. rewrite X, A2, lookup_remove_eq in Pd. apply Pd; reflexivity.
  - intros r a T _ X; discriminate.
  - intros r p Hr. apply Hp in Hr as [Hr Ns].
    destruct (Old_pend _ _ _ I r p Hr) as (T & HT & Hs & C & Hn & Ho). exists T. unfold txn_set.
    assert (Hn' : (p_ref p =? next_ref st)%nat = false) by (apply Nat.eqb_neq; lia). rewrite Hn'.
    split; [exact HT|]. split; [exact Hs|].
    split; [rewrite A2, lookup_remove_neq by exact Ns; exact C|]. unfold owner_add. cbn. exact Ho.
Qed.

Lemma GStep_start w st g s dl ans st' ou :
  KInv st g -> LInv w st g ->
  global_logout w ans s dl st = (st', ou) -> GStep w st g (StartLogout s dl ans) st' ou.
Proof.
  intros KI I H. unfold global_logout in H. destruct (lookup s (db st)) as [l|] eqn:Ls.
  2:{ injection H as <- <-.
      assert (P : present (view_of st) s = false) by (apply present_view_false; exact Ls).
      destruct (frame_same st st None eq_refl) as (K & N).
      split; [exact Logic.I|]. split.
      - cbn [cl_ends]. split; [apply keeps_weaken; exact K|]. split; [exact N|]. intros X; congruence.
      - unfold ghost_step0, ghost_step_n. rewrite P.
        apply (LInv_same_pend w st); try reflexivity;
          [exact I|cbn; apply (L_now _ _ _ I)|apply (L_db _ _ _ I)|apply db_keeps_same; reflexivity|auto]. }
  assert (P : present (view_of st) s = true) by (apply present_view; congruence).
  assert (Ps : lookup s (db st) <> None) by congruence.
  destruct (L_db _ _ _ I s l Ls) as [ND NE].
  pose proof (L_now _ _ _ I) as Enow. pose proof (L_ntxn _ _ _ I) as Entx. pose proof (L_nodup _ _ _ I) as NDp.
  assert (Hiss : forall e, In e (keys l) -> lookup e l <> None) by (intros e He; apply lookup_In_keys; exact He).
  unfold GStep, ghost_step0, ghost_step_n. rewrite P. cbn [cl_pending cl_ends]. cbv zeta.
  rewrite issuers_view, Ls, Enow, Entx. unfold wait_start.
  set (wait := pass_wait w (g_know g s) ans (keys l)).
  assert (NDw : NoDup wait) by (apply NoDup_filter; exact ND).
  assert (Hissw : forall e, In e wait -> lookup e l <> None).
  { intros e He. apply filter_In in He as [He _]. apply Hiss; exact He. }
  assert (Hl : heap (alloc st (keys l)) (next_ref st) = keys l) by (cbn; rewrite Nat.eqb_refl; reflexivity).
  assert (Hother : forall n', n' <> next_ref st -> heap (alloc st (keys l)) n' = heap st n').
  { intros n' Hn. cbn. apply Nat.eqb_neq in Hn. rewrite Hn. reflexivity. }
  destruct (deadline_passed (now st) dl) eqn:D.
  - (* the deadline has passed: local logout *)
    cbn [orb].
    apply do_logout_cases in H as [[_ [(A & _)|(Lg & ->)]]|(D' & _)]; [cbn in A; congruence| |cbn in D'; congruence].
    apply local_logout_some in Lg as (A1 & A2 & A3 & A4 & A5 & A6 & A7). cbn in A1, A2, A3, A4, A6, A7.
    destruct (frame_remove st st' s A2) as (K & N).
    assert (Ab : present (view_of st') s = false) by (apply present_view_false; rewrite A2; apply lookup_remove_eq).
    split; [exact Logic.I|]. split; [split; [exact K|split; [exact N|intros _; exact Ab]]|].
    rewrite (new_pending_sub st st') by (rewrite A4; intros r0; apply keys_filter_subset). unfold base_ghost.
    apply (LInv_start_end w st st' g s); try assumption.
    + cbn; congruence.
    + intros r p. rewrite A4. apply lookup_purge; exact NDp.
    + rewrite A4. apply NoDup_keys_filter; exact NDp.
    + lia.
    + intros n' Hn. rewrite A5. apply Hother; exact Hn.
  - cbn [orb].
    apply do_logout_pass in H as (st1 & Lp & Hh1 & Hc); [|exact D|rewrite Hl; exact ND|rewrite Hl; exact NE].
    rewrite Hl in Lp, Hh1, Hc.
    assert (Epw : mpass_wait w (alloc st (keys l)) s ans (keys l) = wait).
    { change (mpass_wait w (alloc st (keys l)) s ans (keys l)) with (mpass_wait w st s ans (keys l)).
      apply (mpass_wait_pass w st g s ans l); assumption. }
    rewrite Epw in Hh1, Hc.
    destruct Lp as (A1 & A2 & A3 & A4 & news & A5 & A6 & A7 & A8 & A9). cbn in A1, A2, A4, A5, A6.
    assert (A7' : fresh_entries w st s (next_ref st) dl wait news).
    { apply fresh_entries_pass. intros r p Hr. destruct (A7 r p Hr) as (B1 & B2 & B3 & B4 & B5 & B6). cbn in B1.
      repeat (split; [assumption|]). exact B6. }
    pose proof (fresh_not_old _ _ _ _ _ _ _ _ I A7') as Fresh.
    destruct Hc as [(-> & NEw)|[(Ew & Ex & Lg)|(Ew & Fb)]].
    + (* requests go out / some IdPs have answered over SOAP / the pass raised: the session stays *)
      destruct (frame_same st st1 None A1) as (K & N).
      assert (Pa : present (view_of st1) s = true) by (apply present_view; rewrite A1; exact Ps).
      split; [exact Logic.I|]. split.
      { split; [apply keeps_weaken; exact K|]. split; [exact N|]. intros _.
        split; [intros X; exfalso; exact (NEw X)|intros X; rewrite Pa in X; discriminate]. }
      rewrite (is_nil_false _ NEw).
      rewrite (new_pending_app st st1 (pend st) news A5 (fun r H => H) Fresh). unfold base_ghost.
      apply (LInv_start_stay w st st1 g s dl wait _ news _ _ l); try assumption.
      * cbn. congruence.
      * intros n' Hn. rewrite (A3 n' Hn). apply Hother; exact Hn.
    + (* everybody has answered over SOAP: the session ends *)
      apply local_logout_some in Lg as (L1 & L2 & L3 & L4 & L5 & L6 & L7). rewrite A1 in L2.
      rewrite Ew. cbn [is_nil].
      destruct (frame_remove st st' s L2) as (K & N).
      assert (Ab : present (view_of st') s = false) by (apply present_view_false; rewrite L2; apply lookup_remove_eq).
      assert (NDa : NoDup (keys (pend st ++ news))).
      { apply NoDup_keys_app; [exact NDp|exact A9|].
        intros k Hk Hk'. apply In_keys_ex in Hk' as [p Hp]. exact (Fresh k p Hp Hk). }
      assert (Hs : forall r' q, In (r', q) news -> p_subj q = s).
      { intros r' q Hq. destruct (A7' r' q Hq) as (_ & _ & B3 & _). exact B3. }
      assert (Hp : forall r p, lookup r (pend st') = Some p <-> lookup r (pend st) = Some p /\ p_subj p <> s).
      { intros r p. rewrite L4, A5. apply lookup_purge_app; assumption. }
      split; [exact Logic.I|]. split; [split; [exact K|split; [exact N|intros _; split; [intros _ _; exact Ab|reflexivity]]]|].
      rewrite (new_pending_sub st st').
      2:{ apply keys_sub_of_lookup. intros r p Hr. apply Hp in Hr as [Hr _]. exists p; exact Hr. }
      unfold base_ghost. apply (LInv_start_end w st st' g s); try assumption.
      * cbn. congruence.
      * rewrite L4, A5. apply NoDup_keys_filter; exact NDa.
      * lia.
      * congruence.
      * intros n' Hn. rewrite L5, (A3 n' Hn). apply Hother; exact Hn.
    + cbn in Fb. congruence.
Qed.

Lemma answering_some g r i success n T :
  answering g r i success = Some (n, T) -> success = true /\ g_owner g r = Some (n, i) /\ g_txn g n = Some T.
Proof.
  unfold answering. destruct success; [|discriminate]. destruct (g_owner g r) as [[n0 a]|]; [|discriminate].
  destruct (a =? i)%nat eqn:E; [|discriminate]. apply Nat.eqb_eq in E; subst a.
  destruct (g_txn g n0) as [T0|] eqn:Et; [|discriminate]. intros H; injection H as <- <-. auto.
Qed.

Lemma owner_drop_some ow n i r n0 a :
  owner_drop ow n i r = Some (n0, a) -> ow r = Some (n0, a) /\ (n0 = n -> a <> i).
Proof.
  unfold owner_drop. destruct (ow r) as [[n1 a1]|]; [|discriminate].
  destruct ((n1 =? n)%nat && (a1 =? i)%nat) eqn:E; [discriminate|]. intros H; injection H as <- <-.
  split; [reflexivity|]. intros -> ->. rewrite !Nat.eqb_refl in E. discriminate.
Qed.

Lemma owner_drop_keep ow n i r n0 a :
  ow r = Some (n0, a) -> ~ (n0 = n /\ a = i) -> owner_drop ow n i r = Some (n0, a).
Proof.
  unfold owner_drop. intros -> N. destruct ((n0 =? n)%nat && (a =? i)%nat) eqn:E; [|reflexivity].
  apply andb_true_iff in E as [E1 E2]. apply Nat.eqb_eq in E1, E2. exfalso. apply N. split; assumption.
Qed.

(* a LogoutResponse that does not answer a pending request changes nothing *)
Lemma not_answering_same w st g r i success ans st' ou :
  LInv w st g -> answering g r i success = None ->
  handle_logout_response w ans r i success st = (st', ou) -> st' = st.
Proof.
  intros I An H. unfold handle_logout_response in H. destruct success; cbn [negb] in H.
  2:{ injection H as <- _; reflexivity. }
  destruct (lookup r (pend st)) as [p|] eqn:Lr.
  2:{ injection H as <- _; reflexivity. }
  destruct (p_entity p =? i)%nat eqn:Ei; cbn [negb] in H.
  2:{ injection H as <- _; reflexivity. }
  exfalso. apply Nat.eqb_eq in Ei.
  destruct (L_pend _ _ _ I r p Lr) as (T & HT & _ & Ho).
  unfold answering in An. rewrite Ho, Ei, Nat.eqb_refl, HT in An. discriminate.
Qed.

Lemma lookup_remove_some {V} k k' (l : list (nat * V)) v : lookup k' (remove k l) = Some v -> k' <> k /\ lookup k' l = Some v.
Proof.
  intros H. destruct (Nat.eq_dec k' k) as [->|Ne]; [rewrite lookup_remove_eq in H; discriminate|].
  rewrite lookup_remove_neq in H by exact Ne. split; assumption.
Qed.

Lemma owner_unique g r n i r' n0 a :
  g_owner g r = Some (n, i) -> g_owner g r' = Some (n0, a) -> (n0 <> n \/ a <> i) -> r' <> r.
Proof. intros A B C ->. rewrite A in B. injection B as <- <-. destruct C as [C|C]; apply C; reflexivity. Qed.

(* what is left of the pending requests when (n, i) has answered request r (e58d2614) *)
Lemma lookup_drop_moot n i r l r' p :
  NoDup (keys l) ->
  (lookup r' (drop_moot n i (remove r l)) = Some p
   <-> r' <> r /\ lookup r' l = Some p /\ ~ (p_ref p = n /\ p_entity p = i)).
Proof.
  intros N. unfold drop_moot, rid.
  pose proof (lookup_filter_snd (fun q => negb ((p_ref q =? n)%nat && (p_entity q =? i)%nat)) r' (remove r l)
                (NoDup_keys_remove r l N)) as E0.
  cbn beta in E0. rewrite E0. clear E0.
  destruct (lookup r' (remove r l)) as [q|] eqn:L0.
  - apply lookup_remove_some in L0 as [Ne L0].
    destruct ((p_ref q =? n)%nat && (p_entity q =? i)%nat) eqn:E; cbn.
    + apply andb_true_iff in E as [E1 E2]. apply Nat.eqb_eq in E1, E2.
      split; [discriminate|]. intros (_ & H & X). rewrite L0 in H. injection H as <-. exfalso. apply X. split; assumption.
    + split.
      * intros H; injection H as <-. split; [exact Ne|]. split; [exact L0|]. intros [X1 X2]. subst.
        rewrite !Nat.eqb_refl in E. discriminate.
      * intros (_ & H & _). congruence.
  - split; [discriminate|]. intros (Ne & H & _). rewrite <- (lookup_remove_neq r r' l Ne) in H. congruence.
Qed.

Lemma keys_drop_moot_subset n i r (l : list (rid * pentry)) k : In k (keys (drop_moot n i (remove r l))) -> In k (keys l).
Proof. intros H. apply keys_filter_subset in H. exact (keys_remove_subset0 r k l H). Qed.

(* the answer that ends the session (last involved IdP, deadline passed, or the rest answers over SOAP):
   the subject's other requests are dropped with it *)
Lemma LInv_response_end w st st' g r i n T nw kn :
  LInv w st g -> g_owner g r = Some (n, i) -> g_txn g n = Some T ->
  db st' = remove (t_subj T) (db st) -> nw = now st' ->
  (forall r' p, lookup r' (pend st') = Some p ->
     r' <> r /\ lookup r' (pend st) = Some p /\ p_subj p <> t_subj T) ->
  (forall r' p, r' <> r -> lookup r' (pend st) = Some p -> p_subj p <> t_subj T -> lookup r' (pend st') = Some p) ->
  NoDup (keys (pend st')) ->
  (forall n', n' <> n -> heap st' n' = heap st n') -> (next_rid st <= next_rid st')%nat -> next_ref st' = next_ref st ->
  LInv w st' {| g_now := nw; g_know := kn; g_txn := close_txn (view_of st') (txn_set (g_txn g) n None);
                g_owner := owner_add (owner_drop (g_owner g) n i) n (new_pending (view_of st) (view_of st'));
                g_moot := moot_add (g_moot g) (g_owner g) n i;
                g_ntxn := g_ntxn g |}.
Proof.
  intros I Ho Ht Ed En Lk Lk2 ND' Eh Er Ef.
  assert (NP : new_pending (view_of st) (view_of st') = []).
  { apply new_pending_sub. apply keys_sub_of_lookup. intros r' p Hr. apply Lk in Hr as (_ & Hr & _). exists p; exact Hr. }
  rewrite NP. apply (LInv_step_gen w st).
  - exact I.
  - exact En.
  - rewrite Ef. apply (L_ntxn _ _ _ I).
  - lia.
  - rewrite Ed. apply db_wf_remove, (L_db _ _ _ I).
  - rewrite Ed. apply db_keeps_remove.
  - intros r' p Hr. apply Lk in Hr as (_ & Hr' & _). pose proof (L_rid _ _ _ I r' p Hr'). lia.
  - exact ND'.
  - intros n' Hn _. apply Eh; exact Hn.
  - intros T0 X; discriminate.
  - intros r' n0 a Hx. apply owner_add_cases in Hx as [(pv & X & _)|(_ & Hx)]; [discriminate|].
    apply owner_drop_some in Hx as [Hx _]. exact (L_own_lt _ _ _ I r' n0 a Hx).
  - intros r' n0 a T0 Hx Hn HT Pd. apply owner_add_cases in Hx as [(pv & X & _)|(_ & Hx)]; [discriminate|].
    apply owner_drop_some in Hx as [Hx _]. split; [exact Hx|].
    destruct (L_own _ _ _ I r' n0 a T0 Hx HT) as [L0 _].
    assert (Ne : r' <> r) by (eapply owner_unique; [exact Ho|exact Hx|left; exact Hn]).
    rewrite L0. apply Lk2; [exact Ne|exact L0|].
    cbn. intros X. rewrite X, Ed, lookup_remove_eq in Pd. apply Pd; reflexivity.
  - intros r' a T0 _ X; discriminate.
  - intros r' p Hr. apply Lk in Hr as (Ne & Hr' & Ns).
    destruct (Old_pend _ _ _ I r' p Hr') as (T' & HT' & Hs & C & _ & Hm).
    assert (Hn : p_ref p <> n). { intros X. rewrite X, Ht in HT'. injection HT' as <-. apply Ns. symmetry; exact Hs. }
    exists T'. unfold txn_set. apply Nat.eqb_neq in Hn as Hn'. rewrite Hn'.
    split; [exact HT'|]. split; [exact Hs|]. split; [rewrite Ed, lookup_remove_neq by exact Ns; exact C|].
    unfold owner_add. cbn. apply owner_drop_keep; [exact Hm|]. intros [X _]. exact (Hn X).
Qed.

(* the answer after which others are still waited for (they are asked again) *)
Lemma LInv_response_stay w st st' g r i n T wait' news nw kn :
  LInv w st g -> g_owner g r = Some (n, i) -> g_txn g n = Some T ->
  db st' = db st -> nw = now st' -> pend st' = drop_moot n i (remove r (pend st)) ++ news ->
  (next_rid st <= next_rid st')%nat -> next_ref st' = next_ref st ->
  fresh_entries w st (t_subj T) n (t_deadline T) wait' news ->
  (forall r' p, In (r', p) news -> (r' < next_rid st')%nat) -> NoDup (keys news) ->
  (forall n', n' <> n -> heap st' n' = heap st n') -> heap st' n = wait' -> NoDup wait' ->
  (forall a, In a wait' -> In a (t_wait T)) ->
  (forall a, In a (t_wait T) -> a <> i -> asked_by_soap w a = false -> In a wait') ->
  LInv w st' {| g_now := nw; g_know := kn;
                g_txn := close_txn (view_of st') (txn_set (g_txn g) n
                           (Some {| t_subj := t_subj T; t_wait := wait'; t_deadline := t_deadline T; t_soap := t_soap T |}));
                g_owner := owner_add (owner_drop (g_owner g) n i) n (map (fun rp => (fst rp, pv_of st' (snd rp))) news);
                g_moot := moot_add (g_moot g) (g_owner g) n i; g_ntxn := g_ntxn g |}.
Proof.
  intros I Ho Ht A1 En A5 A6 Ef A7' A8 A9 Hh Hn1 NDw Hsup Hsub.
  destruct (L_txn _ _ _ I n T Ht) as (Hn & Hheap & ND & ldb & Ls & Hiss).
  assert (Ps : lookup (t_subj T) (db st) <> None) by congruence.
  pose proof (L_nodup _ _ _ I) as NDp.
  pose proof (fresh_not_old _ _ _ _ _ _ _ _ I A7') as Fresh.
  set (olds := drop_moot n i (remove r (pend st))) in *.
  assert (Lold : forall r' p, lookup r' olds = Some p <-> r' <> r /\ lookup r' (pend st) = Some p /\ ~ (p_ref p = n /\ p_entity p = i)).
  { intros r' p. apply lookup_drop_moot; exact NDp. }
  assert (NDo : NoDup (keys olds)) by (apply NoDup_keys_filter, NoDup_keys_remove; exact NDp).
  assert (Ksub : forall k, In k (keys olds) -> In k (keys (pend st))) by (intros k; apply keys_drop_moot_subset).
  set (T' := {| t_subj := t_subj T; t_wait := wait'; t_deadline := t_deadline T; t_soap := t_soap T |}).
  apply (LInv_step_gen w st).
  - exact I.
  - exact En.
  - rewrite Ef. apply (L_ntxn _ _ _ I).
  - lia.
  - rewrite A1. apply (L_db _ _ _ I).
  - apply db_keeps_same; exact A1.
  - intros r' p Hr. rewrite A5, lookup_app in Hr. destruct (lookup r' olds) as [p0|] eqn:L0.
    + apply Lold in L0 as (_ & L0 & _). pose proof (L_rid _ _ _ I r' p0 L0). lia.
    + apply lookup_In in Hr. exact (A8 r' p Hr).
  - rewrite A5. apply NoDup_keys_app; [exact NDo|exact A9|].
    intros k Hk Hk'. apply In_keys_ex in Hk' as [p Hp]. apply (Fresh k p Hp). apply Ksub; exact Hk.
  - intros n' Hn' _. apply Hh; exact Hn'.
  - intros T0 X. injection X as <-. cbn. split; [lia|]. split; [exact Hn1|]. split; [exact NDw|].
    exists ldb. split; [rewrite A1; exact Ls|]. intros e He. apply Hiss, Hsup, He.
  - intros r' n0 a Hx. apply owner_add_cases in Hx as [(pv & _ & X)|(_ & Hx)].
    + injection X as -> _. exact (L_own_lt _ _ _ I r n i Ho).
    + apply owner_drop_some in Hx as [Hx _]. exact (L_own_lt _ _ _ I r' n0 a Hx).
  - intros r' n0 a T0 Hx Hn0 HT _. apply owner_add_cases in Hx as [(pv & _ & X)|(_ & Hx)]; [injection X as -> _; congruence|].
    apply owner_drop_some in Hx as [Hx _]. split; [exact Hx|].
    destruct (L_own _ _ _ I r' n0 a T0 Hx HT) as [L0 _].
    assert (Ne : r' <> r) by (eapply owner_unique; [exact Ho|exact Hx|left; exact Hn0]).
    rewrite A5, L0. apply lookup_app_old. apply Lold. split; [exact Ne|]. split; [exact L0|]. cbn. intros [X _]. exact (Hn0 X).
  - intros r' a T0 Hx X. injection X as <-. cbn [t_subj t_deadline t_wait].
    apply owner_add_cases in Hx as [(pv & Hl & X)|(_ & Hx)].
    + injection X as ->. rewrite (lookup_map_snd (pv_of st')) in Hl.
      destruct (lookup r' news) as [p|] eqn:Ln; [|discriminate]. cbn in Hl. injection Hl as <-. cbn [pv_of pv_entity].
      apply lookup_In in Ln as Hi. destruct (A7' r' p Hi) as (B1 & B2 & B3 & B4 & B5 & B6).
      assert (L0 : lookup r' olds = None).
      { apply lookup_None_keys. intros X. apply Ksub in X. exact (Fresh r' p Hi X). }
      rewrite A5, (lookup_app_new _ _ _ L0), Ln. split; [|split; [exact B5|exact B6]].
      rewrite (pentry_eta p) at 1. rewrite B2, B3, B4. reflexivity.
    + apply owner_drop_some in Hx as [Hx Ha]. specialize (Ha eq_refl).
      destruct (L_own _ _ _ I r' n a T Hx Ht) as (L0 & Hin0 & Fr0).
      assert (Ne : r' <> r) by (eapply owner_unique; [exact Ho|exact Hx|right; exact Ha]).
      rewrite A5. split; [|split; [apply Hsub; assumption|exact Fr0]].
      apply lookup_app_old. apply Lold. split; [exact Ne|]. split; [exact L0|]. cbn. intros [_ X]. exact (Ha X).
  - intros r' p Hr. rewrite A5, lookup_app in Hr. destruct (lookup r' olds) as [p0|] eqn:L0.
    + injection Hr as <-. apply Lold in L0 as (Ne & L0 & Nm).
      destruct (Old_pend _ _ _ I r' p0 L0) as (T0 & HT0 & Hs & C & _ & Hm).
      assert (Ln : lookup r' news = None).
      { apply lookup_None_keys. intros Hk. apply In_keys_ex in Hk as [q Hq]. apply (Fresh r' q Hq).
        apply lookup_In_keys. congruence. }
      assert (Marks : owner_add (owner_drop (g_owner g) n i) n (map (fun rp => (fst rp, pv_of st' (snd rp))) news) r'
                      = Some (p_ref p0, p_entity p0)).
      { unfold owner_add. rewrite (lookup_map_snd (pv_of st')), Ln. cbn. apply owner_drop_keep; assumption. }
      rewrite Marks. unfold txn_set. destruct (p_ref p0 =? n)%nat eqn:En0.
      * apply Nat.eqb_eq in En0. rewrite En0, Ht in HT0. injection HT0 as <-. exists T'.
        split; [reflexivity|]. split; [exact Hs|]. split; [rewrite A1; exact C|reflexivity].
      * exists T0. split; [exact HT0|]. split; [exact Hs|]. split; [rewrite A1; exact C|reflexivity].
    + apply lookup_In in Hr as Hi. destruct (A7' r' p Hi) as (B1 & B2 & B3 & B4 & B5 & B6).
      exists T'. unfold txn_set. rewrite B2, Nat.eqb_refl. split; [reflexivity|]. split; [cbn; congruence|].
      split; [rewrite B3, A1; exact Ps|]. unfold owner_add. rewrite (lookup_map_snd (pv_of st')), Hr. reflexivity.
Qed.

Lemma GStep_response w st g r i success ans st' ou :
  KInv st g -> LInv w st g ->
  handle_logout_response w ans r i success st = (st', ou) ->
  GStep w st g (LogoutResponse r i success ans) st' ou.
Proof.
  intros KI I H. destruct (answering g r i success) as [[n T]|] eqn:An.
  2:{ (* does not answer a pending request: nothing changes *)
      pose proof (not_answering_same _ _ _ _ _ _ _ _ _ I An H) as ->.
      unfold GStep, ghost_step0, ghost_step_n. cbn [cl_pending cl_ends]. rewrite An.
      split; [intros _; split; reflexivity|]. split; [exact Logic.I|].
      apply (LInv_same_pend w st); try reflexivity;
        [exact I|cbn; apply (L_now _ _ _ I)|apply (L_db _ _ _ I)|apply db_keeps_same; reflexivity|auto]. }
  destruct (answering_some _ _ _ _ _ _ An) as (-> & Ho & Ht).
  destruct (L_own _ _ _ I r n i T Ho Ht) as (Lr & Hin & Fri).
  destruct (L_txn _ _ _ I n T Ht) as (Hn & Hh & ND & ldb & Ls & Hiss).
  assert (Ps : lookup (t_subj T) (db st) <> None) by congruence.
  pose proof (L_now _ _ _ I) as Enow. pose proof (L_ntxn _ _ _ I) as Entx. pose proof (L_nodup _ _ _ I) as NDp.
  set (olds := drop_moot n i (remove r (pend st))).
  assert (Lold : forall r' p, lookup r' olds = Some p <-> r' <> r /\ lookup r' (pend st) = Some p /\ ~ (p_ref p = n /\ p_entity p = i)).
  { intros r' p. apply lookup_drop_moot; exact NDp. }
  assert (NDo : NoDup (keys olds)) by (apply NoDup_keys_filter, NoDup_keys_remove; exact NDp).
  assert (Ksub : forall k, In k (keys olds) -> In k (keys (pend st))) by (intros k; apply keys_drop_moot_subset).
  unfold handle_logout_response in H. cbn [negb] in H. rewrite Lr in H.
  cbn [p_entity p_ref p_subj p_expire] in H. rewrite Nat.eqb_refl in H. cbn [negb set_pend heap] in H. rewrite Hh in H.
  fold olds in H.
  unfold GStep, ghost_step0, ghost_step_n. cbn [cl_pending cl_ends]. rewrite An. cbv zeta.
  unfold wait_answer. rewrite (wait_minus_remove_first i _ ND), Enow.
  split; [intros X; discriminate|].
  (* the session ends: the subject's requests go with it *)
  assert (EndLk : forall news, pend st' = purge (t_subj T) (olds ++ news) ->
            NoDup (keys (olds ++ news)) -> (forall r' q, In (r', q) news -> p_subj q = t_subj T) ->
            (forall r' p, lookup r' (pend st') = Some p -> r' <> r /\ lookup r' (pend st) = Some p /\ p_subj p <> t_subj T)
            /\ (forall r' p, r' <> r -> lookup r' (pend st) = Some p -> p_subj p <> t_subj T -> lookup r' (pend st') = Some p)).
  { intros news Ep Nd Hs. split.
    - intros r' p Hr. rewrite Ep in Hr. apply (lookup_purge_app _ _ _ r' p Nd Hs) in Hr as [L0 Ns].
      apply Lold in L0 as (Ne & L0 & _). auto.
    - intros r' p Ne L0 Ns. rewrite Ep. apply (lookup_purge_app _ _ _ r' p Nd Hs). split; [|exact Ns].
      apply Lold. split; [exact Ne|]. split; [exact L0|]. intros [X _].
      destruct (Old_pend _ _ _ I r' p L0) as (T0 & HT0 & Hs0 & _). rewrite X, Ht in HT0. injection HT0 as <-.
      apply Ns. symmetry; exact Hs0. }
  destruct (list_eqb (t_wait T) [i]) eqn:Eq.
  - (* the last involved IdP has answered *)
    apply list_eqb_eq in Eq.
    set (st1 := set_pend st olds) in *.
    destruct (local_logout st1 (t_subj T)) as [st2|] eqn:Lg.
    2:{ apply local_logout_none in Lg. cbn in Lg. congruence. }
    injection H as <- <-. pose proof (removed_absent _ _ _ Lg) as Ab.
    apply local_logout_some in Lg as (A1 & A2 & A3 & A4 & A5 & A6 & A7). cbn in A1, A2, A3, A4, A5, A6, A7.
    destruct (frame_remove st st2 (t_subj T) A2) as (K & N).
    assert (W0 : remove_first i (t_wait T) = []) by (rewrite Eq; cbn; rewrite Nat.eqb_refl; reflexivity).
    rewrite W0. unfold pass_wait. cbn [filter]. split.
    + split; [exact K|]. split; [exact N|]. destruct (deadline_passed (now st) (t_deadline T)); [exact Ab|].
      split; [intros _; exact Ab|]. split; [intros _ _; exact Ab|reflexivity].
    + cbn [is_nil]. rewrite orb_true_r. unfold base_ghost.
      destruct (EndLk []) as [Lk1 Lk2]; [rewrite app_nil_r; exact A4|rewrite app_nil_r; exact NDo|intros r' q []|].
      apply (LInv_response_end w st st2 g r i n T); try assumption.
      * cbn. congruence.
      * rewrite A4. apply NoDup_keys_filter; exact NDo.
      * intros n' _. rewrite A5. reflexivity.
      * lia.
  - assert (Mi : mem i (t_wait T) = true) by (apply mem_In; exact Hin). rewrite Mi in H.
    set (l0 := remove_first i (t_wait T)) in *.
    set (st2 := set_heap (set_pend st olds) n l0) in *.
    assert (NE : l0 <> []).
    { intros X. apply (remove_first_nil _ _ Hin) in X. rewrite X in Eq. cbn in Eq. rewrite Nat.eqb_refl in Eq. discriminate. }
    assert (ND0 : NoDup l0) by (apply NoDup_remove_first; exact ND).
    assert (Hl : heap st2 n = l0) by (cbn; rewrite Nat.eqb_refl; reflexivity).
    assert (Hother : forall n', n' <> n -> heap st2 n' = heap st n').
    { intros n' Hn'. cbn. apply Nat.eqb_neq in Hn'. rewrite Hn'. reflexivity. }
    assert (Hiss0 : forall e, In e l0 -> lookup e ldb <> None).
    { intros e He. apply Hiss. eapply remove_first_subset; exact He. }
    set (wait' := pass_wait w (g_know g (t_subj T)) ans l0).
    destruct (deadline_passed (now st) (t_deadline T)) eqn:D.
    + (* the deadline has passed *)
      cbn [orb].
      apply do_logout_cases in H as [[_ [(A & _)|(Lg & ->)]]|(D' & _)]; [cbn in A; congruence| |cbn in D'; congruence].
      pose proof (removed_absent _ _ _ Lg) as Ab.
      apply local_logout_some in Lg as (A1 & A2 & A3 & A4 & A5 & A6 & A7). cbn in A1, A2, A3, A4, A6, A7.
      destruct (frame_remove st st' (t_subj T) A2) as (K & N).
      split; [split; [exact K|split; [exact N|exact Ab]]|].
      destruct (EndLk []) as [Lk1 Lk2]; [rewrite app_nil_r; exact A4|rewrite app_nil_r; exact NDo|intros r' q []|].
      unfold base_ghost. apply (LInv_response_end w st st' g r i n T); try assumption.
      * cbn. congruence.
      * rewrite A4. apply NoDup_keys_filter; exact NDo.
      * intros n' Hn'. rewrite A5. apply Hother; exact Hn'.
      * lia.
    + cbn [orb].
      apply do_logout_pass in H as (st1 & Lp & Hh1 & Hc); [|exact D|rewrite Hl; exact ND0|rewrite Hl; exact NE].
      rewrite Hl in Lp, Hh1, Hc.
      assert (Epw : mpass_wait w st2 (t_subj T) ans l0 = wait').
      { change (mpass_wait w st2 (t_subj T) ans l0) with (mpass_wait w st (t_subj T) ans l0).
        apply (mpass_wait_pass w st g (t_subj T) ans ldb); assumption. }
      rewrite Epw in Hh1, Hc.
      destruct Lp as (A1 & A2 & A3 & A4 & news & A5 & A6 & A7 & A8 & A9). cbn in A1, A2, A4, A5, A6.
      assert (A7' : fresh_entries w st (t_subj T) n (t_deadline T) wait' news).
      { apply fresh_entries_pass. intros r' p Hr. destruct (A7 r' p Hr) as (B1 & B2 & B3 & B4 & B5 & B6). cbn in B1.
        repeat (split; [assumption|]). exact B6. }
      pose proof (fresh_not_old _ _ _ _ _ _ _ _ I A7') as Fresh.
      destruct Hc as [(-> & NEw)|[(Ew & Ex & Lg)|(Ew & Fb)]].
      * (* the others are asked again / some have answered over SOAP / the pass raised: the session stays *)
        destruct (frame_same st st1 None A1) as (K & N).
        assert (Pa : present (view_of st1) (t_subj T) = true) by (apply present_view; rewrite A1; exact Ps).
        split.
        { split; [apply keeps_weaken; exact K|]. split; [exact N|].
          split; [intros X; exfalso; exact (NE X)|]. split; [intros X; exfalso; exact (NEw X)|].
          intros X; rewrite Pa in X; discriminate. }
        rewrite (is_nil_false _ NEw).
        rewrite (new_pending_app st st1 olds news A5 Ksub Fresh).
        unfold base_ghost. apply (LInv_response_stay w st st1 g r i n T wait' news); try assumption.
        -- cbn. congruence.
        -- intros n' Hn'. rewrite (A3 n' Hn'). apply Hother; exact Hn'.
        -- apply NoDup_filter; exact ND0.
        -- intros a Ha. apply filter_In in Ha as [Ha _]. eapply remove_first_subset; exact Ha.
        -- intros a Ha Na Fa. apply pass_wait_front; [apply In_remove_first; assumption|exact Fa].
      * (* the others have all answered over SOAP: the session ends *)
        pose proof (removed_absent _ _ _ Lg) as Ab.
        apply local_logout_some in Lg as (L1 & L2 & L3 & L4 & L5 & L6 & L7). rewrite A1 in L2.
        rewrite Ew. cbn [is_nil].
        destruct (frame_remove st st' (t_subj T) L2) as (K & N).
        assert (NDa : NoDup (keys (olds ++ news))).
        { apply NoDup_keys_app; [exact NDo|exact A9|].
          intros k Hk Hk'. apply In_keys_ex in Hk' as [p Hp]. apply (Fresh k p Hp). apply Ksub; exact Hk. }
        assert (Hs : forall r' q, In (r', q) news -> p_subj q = t_subj T).
        { intros r' q Hq. destruct (A7' r' q Hq) as (_ & _ & B3 & _). exact B3. }
        split; [split; [exact K|split; [exact N|]]|].
        { split; [intros _; exact Ab|]. split; [intros _ _; exact Ab|reflexivity]. }
        destruct (EndLk news) as [Lk1 Lk2]; [rewrite L4, A5; reflexivity|exact NDa|exact Hs|].
        unfold base_ghost. apply (LInv_response_end w st st' g r i n T); try assumption.
        -- cbn. congruence.
        -- rewrite L4, A5. apply NoDup_keys_filter; exact NDa.
        -- intros n' Hn'. rewrite L5, (A3 n' Hn'). apply Hother; exact Hn'.
        -- lia.
        -- congruence.
      * cbn in Fb. congruence.
Qed.

Lemma all_step w st g o st' ou :
  KInv st g -> LInv w st g -> step w st o = (st', ou) -> GStep w st g o st' ou.
Proof.
  intros KI I H. destruct o; cbn [step] in H.
  - injection H as <- <-. apply GStep_store; [exact I|reflexivity].
  - destruct k; [destruct (response_fresh (now st) cond_nooa sess_nooa)| |]; injection H as <- <-.
    + apply GStep_store; [exact I|reflexivity].
    + apply GStep_same; [exact I|exact Logic.I].
    + apply GStep_same; [exact I|exact Logic.I].
    + apply GStep_same; [exact I|exact Logic.I].
  - injection H as <- <-. apply GStep_store; [exact I|reflexivity].
  - injection H as <- <-. apply GStep_same; [exact I|exact Logic.I].
  - injection H as <- <-. apply GStep_same; [exact I|exact Logic.I].
  - injection H as <- <-. apply GStep_same; [exact I|exact Logic.I].
  - injection H as <- <-. apply GStep_tick; exact I.
  - apply GStep_start; assumption.
  - apply GStep_response; assumption.
  - unfold handle_logout_request in H.
    destruct (named =? cur)%nat; [destruct (local_logout st cur) as [st2|] eqn:L|];
      destruct (existsb _ _); injection H as <- <-.
    1,2: eapply GStep_removed; [exact I|exact L|exact Logic.I].
    all: apply GStep_same; [exact I|exact Logic.I].
  - destruct (local_logout st s) as [st2|] eqn:L; injection H as <- <-.
    + eapply GStep_removed; [exact I|exact L|reflexivity].
    + apply GStep_same; [exact I|exact Logic.I].
Qed.

(* ================================================================ cl_others: one subject's logout leaves the
   pending requests of the other subjects alone.  A pass of do_logout appends requests of its own subject only
   and, when it ends the session, drops that subject's requests only; an answer takes out the answered request
   and the moot ones holding the SAME list object - and a list object belongs to one transaction, hence to one
   subject (LInv.L_pend); the list objects of other transactions are not touched. *)
Lemma In_lookup_nodup {V} k (v : V) l : NoDup (keys l) -> In (k, v) l -> lookup k l = Some v.
Proof.
  induction l as [|[k' v'] r IH]; cbn; [intros _ []|]. intros N. inversion N as [|? ? Nk Nr]; subst.
  intros [H|H].
  - injection H as -> ->. rewrite Nat.eqb_refl. reflexivity.
  - destruct (k' =? k)%nat eqn:E.
    + apply Nat.eqb_eq in E. subst k'. exfalso. apply Nk. exact (In_keys _ _ _ H).
    + apply IH; assumption.
Qed.

Lemma In_remove {V} (rp : nat * V) k l : In rp (remove k l) <-> In rp l /\ fst rp <> k.
Proof.
  induction l as [|[k' v'] r IH]; cbn; [tauto|]. destruct (k' =? k)%nat eqn:E.
  - apply Nat.eqb_eq in E. subst k'. rewrite IH. split.
    + intros [A B]. split; [right; exact A|exact B].
    + intros [[A|A] B]; [subst rp; cbn in B; congruence|split; assumption].
  - apply Nat.eqb_neq in E. cbn. rewrite IH. split.
    + intros [A|[A B]]; [subst rp; cbn; split; [left; reflexivity|exact E]|split; [right; exact A|exact B]].
    + intros [[A|A] B]; [left; exact A|right; split; assumption].
Qed.

Lemma purge_others s (l : list (rid * pentry)) rp : p_subj (snd rp) <> s -> (In rp (purge s l) <-> In rp l).
Proof.
  intros N. unfold purge. rewrite filter_In. split; [intros [A _]; exact A|intros A; split; [exact A|]].
  apply negb_true_iff, Nat.eqb_neq. exact N.
Qed.

Lemma do_logout_others w ans s ref dl st st' ou :
  do_logout w ans s ref dl st = (st', ou) ->
  (forall n', n' <> ref -> heap st' n' = heap st n') /\
  (forall rp, p_subj (snd rp) <> s -> (In rp (pend st') <-> In rp (pend st))).
Proof.
  unfold do_logout. destruct (deadline_passed (now st) dl).
  - destruct (local_logout st s) as [st2|] eqn:L; intros H; injection H as <- <-.
    + apply local_logout_some in L as (_ & _ & _ & Lp & Lh & _). split; [intros n' _; rewrite Lh; reflexivity|].
      intros rp N. rewrite Lp. apply purge_others; exact N.
    + split; [intros; reflexivity|intros; reflexivity].
  - destruct (logout_loop w ans s ref dl (heap st ref) st (heap st ref) []) as [st1 res] eqn:L.
    destruct (logout_loop_frame _ _ _ _ _ _ _ _ _ _ _ L) as (A & B & C & D & news & E1 & E2 & E3 & E4 & E5).
    assert (P1 : forall rp, p_subj (snd rp) <> s -> (In rp (pend st1) <-> In rp (pend st))).
    { intros [r p] N. rewrite E1, in_app_iff. split; [intros [X|X]; [exact X|]|intros X; left; exact X].
      destruct (E3 r p X) as (_ & _ & Hs & _). cbn in N. congruence. }
    destruct res as [e|[[|x nd] acc]].
    + intros H; injection H as <- <-. split; assumption.
    + intros H. apply finish_pass_cases in H as [(_ & -> & _)|[(_ & _ & Lg & _)|(_ & _ & _ & -> & _)]].
      * split; assumption.
      * apply local_logout_some in Lg as (_ & _ & _ & Lp & Lh & _).
        split; [intros n' Hn; rewrite Lh; apply C; exact Hn|].
        intros rp N. rewrite Lp, (purge_others _ _ _ N). apply P1; exact N.
      * split; assumption.
    + intros H; injection H as <- <-. split; assumption.
Qed.

Lemma pend_others_view st st' s ref :
  (forall rp, p_subj (snd rp) <> s -> (In rp (pend st') <-> In rp (pend st))) ->
  (forall n', n' <> ref -> heap st' n' = heap st n') ->
  (forall rp, In rp (pend st) -> p_ref (snd rp) = ref -> p_subj (snd rp) = s) ->
  pend_others (view_of st) (view_of st') s.
Proof.
  intros Hp Hh Hr rp N. rewrite !v_pending_view, !in_map_iff.
  assert (Same : forall rp0, In rp0 (pend st) -> p_subj (snd rp0) <> s -> pv_of st' (snd rp0) = pv_of st (snd rp0)).
  { intros rp0 H0 N0. unfold pv_of. rewrite Hh; [reflexivity|]. intros X. apply N0, Hr; assumption. }
  split; intros (rp0 & E & H0); subst rp; unfold pv_of in N; cbn in N.
  - pose proof (proj1 (Hp rp0 N) H0) as H1. exists rp0. split; [rewrite (Same rp0 H1 N); reflexivity|exact H1].
  - exists rp0. split; [rewrite (Same rp0 H0 N); reflexivity|apply Hp; assumption].
Qed.

Lemma ref_subject w st g n T :
  LInv w st g -> g_txn g n = Some T ->
  forall rp, In rp (pend st) -> p_ref (snd rp) = n -> p_subj (snd rp) = t_subj T.
Proof.
  intros I Ht [r p] H E. cbn in *. apply (In_lookup_nodup _ _ _ (L_nodup _ _ _ I)) in H.
  destruct (L_pend _ _ _ I r p H) as (T0 & HT0 & Hs & _). rewrite E, Ht in HT0. injection HT0 as <-.
  symmetry; exact Hs.
Qed.

Lemma others_step w st g o st' ou :
  LInv w st g -> step w st o = (st', ou) -> cl_others w g (view_of st) o ou (view_of st').
Proof.
  intros I H. destruct o; try exact Logic.I; cbn [step] in H; cbn [cl_others].
  - (* StartLogout *)
    unfold global_logout in H. destruct (lookup s (db st)) as [l|].
    2:{ injection H as <- _. intros rp _. reflexivity. }
    apply do_logout_others in H as [Hh Hp].
    apply (pend_others_view st st' s (next_ref st)).
    + exact Hp.
    + intros n' Hn. rewrite (Hh n' Hn). cbn. apply Nat.eqb_neq in Hn. rewrite Hn. reflexivity.
    + intros [r p] Hin E. exfalso. cbn in E. apply (In_lookup_nodup _ _ _ (L_nodup _ _ _ I)) in Hin.
      destruct (Old_pend _ _ _ I r p Hin) as (T0 & _ & _ & _ & Lt & _). lia.
  - (* LogoutResponse *)
    destruct (answering g r i success) as [[n T]|] eqn:An; [|exact Logic.I].
    destruct (answering_some _ _ _ _ _ _ An) as (-> & Ho & Ht).
    destruct (L_own _ _ _ I r n i T Ho Ht) as (Lr & _ & _).
    pose proof (ref_subject _ _ _ _ _ I Ht) as Rs.
    unfold handle_logout_response in H. cbn [negb] in H. rewrite Lr in H.
    cbn [p_entity p_ref p_subj p_expire] in H. rewrite Nat.eqb_refl in H. cbn [negb] in H. cbv zeta in H.
    set (st1 := set_pend st (drop_moot n i (remove r (pend st)))) in *.
    assert (P1 : forall rp, p_subj (snd rp) <> t_subj T -> (In rp (pend st1) <-> In rp (pend st))).
    { intros rp N. unfold st1. cbn [pend set_pend]. unfold drop_moot. rewrite filter_In, In_remove.
      split; [intros [[A _] _]; exact A|]. intros A. split; [split; [exact A|]|].
      - intros X. destruct rp as [r' p']. cbn in X; subst r'.
        apply (In_lookup_nodup _ _ _ (L_nodup _ _ _ I)) in A. rewrite Lr in A. injection A as <-. apply N; reflexivity.
      - apply negb_true_iff, andb_false_iff. left. apply Nat.eqb_neq. intros X. apply N, Rs; assumption. }
    assert (X : (forall n', n' <> n -> heap st' n' = heap st n') /\
                (forall rp, p_subj (snd rp) <> t_subj T -> (In rp (pend st') <-> In rp (pend st)))).
    { destruct (list_eqb (heap st1 n) [i]).
      - destruct (local_logout st1 (t_subj T)) as [st2|] eqn:L; injection H as <- _.
        + apply local_logout_some in L as (_ & _ & _ & Lp & Lh & _). split; [intros n' _; rewrite Lh; reflexivity|].
          intros rp N. rewrite Lp, (purge_others _ _ _ N). apply P1; exact N.
        + split; [intros; reflexivity|exact P1].
      - destruct (mem i (heap st1 n)).
        + apply do_logout_others in H as [Hh Hp]. split.
          * intros n' Hn. rewrite (Hh n' Hn). cbn. apply Nat.eqb_neq in Hn. rewrite Hn. reflexivity.
          * intros rp N. rewrite (Hp rp N). apply P1; exact N.
        + injection H as <- _. split; [intros; reflexivity|exact P1]. }
    destruct X as [Hh Hp]. exact (pend_others_view st st' (t_subj T) n Hp Hh Rs).
Qed.

Lemma bookkeeping_from : forall h w st g,
  KInv st g -> LInv w st g ->
  spec_from cl_pending w g (view_of st) (run_from w st h) /\ spec_from cl_ends w g (view_of st) (run_from w st h)
  /\ spec_from cl_others w g (view_of st) (run_from w st h).
Proof.
  induction h as [|o r IH]; intros w st g KI I; cbn; [repeat split; exact Logic.I|].
  destruct (step w st o) as [st' ou] eqn:S. cbn.
  destruct (all_step _ _ _ _ _ _ KI I S) as (A & B & C).
  pose proof (others_step _ _ _ _ _ _ I S) as O.
  rewrite <- (ghost_step_model w st g o st' ou S) in C.
  destruct (IH w st' _ (KInv_step _ _ _ _ _ _ KI S) C) as (D & E & F). repeat split; assumption.
Qed.

Lemma bookkeeping_holds w t0 h :
  spec_cl cl_pending w t0 (run w t0 h) /\ spec_cl cl_ends w t0 (run w t0 h) /\ spec_cl cl_others w t0 (run w t0 h).
Proof.
  unfold spec_cl, run. rewrite <- (view_init t0). apply bookkeeping_from; [apply KInv_init|apply LInv_init].
Qed.

Lemma pending_holds w t0 h : spec_cl cl_pending w t0 (run w t0 h).
Proof. exact (proj1 (bookkeeping_holds w t0 h)). Qed.
Lemma ends_holds w t0 h : spec_cl cl_ends w t0 (run w t0 h).
Proof. exact (proj1 (proj2 (bookkeeping_holds w t0 h))). Qed.
Lemma others_holds w t0 h : spec_cl cl_others w t0 (run w t0 h).
Proof. exact (proj2 (proj2 (bookkeeping_holds w t0 h))). Qed.

(* ================================================================ the boolean monitor IS the stated monitor *)
Lemma returnable_b_iff know nw timed s cands t :
  returnable_b know nw timed s cands t = true <-> returnable know nw timed s cands t.
Proof.
  unfold returnable_b, returnable. rewrite existsb_exists. split.
  - intros [i [Hi H]]. destruct (know s i) as [[nooa t']|] eqn:K; [|discriminate].
    apply andb_true_iff in H as [H1 H2]. apply Nat.eqb_eq in H1. subst t'.
    exists i, nooa. split; [exact Hi|]. split; [exact K|]. intros ->. cbn in H2. apply Z.leb_le. exact H2.
  - intros (i & nooa & Hi & K & H). exists i. split; [exact Hi|]. rewrite K, Nat.eqb_refl. cbn.
    destruct timed; cbn; [apply Z.leb_le, H; reflexivity|reflexivity].
Qed.

Lemma logged_b_iff know nw timed s cands :
  existsb (fun i => match know s i with
                    | Some (nooa, _) => negb timed || (nw <=? nooa)
                    | None => false
                    end) cands = true
  <-> exists t, returnable know nw timed s cands t.
Proof.
  rewrite existsb_exists. unfold returnable. split.
  - intros [i [Hi H]]. destruct (know s i) as [[nooa t]|] eqn:K; [|discriminate].
    exists t, i, nooa. split; [exact Hi|]. split; [exact K|]. intros ->. cbn in H. apply Z.leb_le. exact H.
  - intros (t & i & nooa & Hi & K & H). exists i. split; [exact Hi|]. rewrite K.
    destruct timed; cbn; [apply Z.leb_le, H; reflexivity|reflexivity].
Qed.

Lemma cl_cache_b_iff w g vb o ou va timed : cl_cache_b g vb o ou va timed = true <-> cl_cache timed w g vb o ou va.
Proof.
  unfold cl_cache_b, cl_cache. rewrite andb_true_iff, forallb_forall.
  assert (L : (forall s, In s (v_logged va) ->
                 existsb (fun i => match know_after g o ou va s i with
                                   | Some (nooa, _) => negb timed || (now_after g o <=? nooa)
                                   | None => false end) (issuers_of va s) = true)
              <-> (forall s, In s (v_logged va) ->
                     exists t, returnable (know_after g o ou va) (now_after g o) timed s (issuers_of va s) t)).
  { split; intros H s Hs; apply logged_b_iff, H, Hs. }
  rewrite L. clear L.
  assert (F : match o, ou with
              | GetInfoFrom s i chk, OInfo (Some t) => returnable_b (g_know g) (g_now g) (timed && chk) s [i] t
              | GetIdentity s ents chk, OIdentity toks _ =>
                  forallb (returnable_b (g_know g) (g_now g) (timed && chk) s (cands_of vb s ents)) toks
              | _, _ => true
              end = true
              <-> match o, ou with
                  | GetInfoFrom s i chk, OInfo (Some t) => returnable (g_know g) (g_now g) (timed && chk) s [i] t
                  | GetIdentity s ents chk, OIdentity toks _ =>
                      forall t, In t toks -> returnable (g_know g) (g_now g) (timed && chk) s (cands_of vb s ents) t
                  | _, _ => True
                  end).
  { destruct o; try (split; [intros _; exact I|reflexivity]).
    - destruct ou; try (split; [intros _; exact I|reflexivity]).
      rewrite forallb_forall. split; intros H t Ht; apply returnable_b_iff, H, Ht.
    - destruct ou; try (split; [intros _; exact I|reflexivity]).
      destruct t as [t|]; [apply returnable_b_iff|split; [intros _; exact I|reflexivity]]. }
  rewrite F. reflexivity.
Qed.

Lemma optz_eqb_eq a b : optz_eqb a b = true <-> a = b.
Proof.
  destruct a as [x|], b as [y|]; cbn; try (split; [discriminate|congruence]); [|tauto].
  rewrite Z.eqb_eq. split; congruence.
Qed.

Lemma subjects_eqb_eq a : forall b, subjects_eqb a b = true <-> a = b.
Proof.
  induction a as [|[s l] a IH]; destruct b as [|[s' l'] b]; cbn; try (split; [discriminate|congruence]); [tauto|].
  rewrite !andb_true_iff, Nat.eqb_eq, list_eqb_eq, IH. split; [intros [[-> ->] ->]; reflexivity|intros H; injection H; auto].
Qed.

Lemma pview_eqb_eq a b : pview_eqb a b = true <-> a = b.
Proof.
  destruct a, b. unfold pview_eqb. cbn. rewrite !andb_true_iff, !Nat.eqb_eq, list_eqb_eq, optz_eqb_eq.
  split; [intros [[[-> ->] ->] ->]; reflexivity|intros H; injection H; auto].
Qed.

Lemma pending_eqb_eq a : forall b, pending_eqb a b = true <-> a = b.
Proof.
  induction a as [|[r p] a IH]; destruct b as [|[r' p'] b]; cbn; try (split; [discriminate|congruence]); [tauto|].
  rewrite !andb_true_iff, Nat.eqb_eq, pview_eqb_eq, IH. split; [intros [[-> ->] ->]; reflexivity|intros H; injection H; auto].
Qed.

Lemma view_eqb_eq a b : view_eqb a b = true <-> a = b.
Proof.
  destruct a, b. unfold view_eqb. cbn. rewrite !andb_true_iff, subjects_eqb_eq, list_eqb_eq, pending_eqb_eq.
  split; [intros [[-> ->] ->]; reflexivity|intros H; injection H; auto].
Qed.

Lemma cl_accept_b_iff w g vb o ou va : cl_accept_b vb o ou va = true <-> cl_accept w g vb o ou va.
Proof.
  unfold cl_accept_b, cl_accept. destruct o; try (split; [intros _; exact I|reflexivity]).
  destruct k; cbn [rkind_good orb].
  - split; [intros _ H; congruence|reflexivity].
  - rewrite andb_true_iff, view_eqb_eq, negb_true_iff. split.
    + intros [A B] _. split; [intros ->; discriminate|exact B].
    + intros H. destruct (H ltac:(discriminate)) as [A B]. split; [destruct ou; try reflexivity; congruence|exact B].
  - rewrite andb_true_iff, view_eqb_eq, negb_true_iff. split.
    + intros [A B] _. split; [intros ->; discriminate|exact B].
    + intros H. destruct (H ltac:(discriminate)) as [A B]. split; [destruct ou; try reflexivity; congruence|exact B].
Qed.

Lemma cl_after_b_iff w g vb o ou va : cl_after_b vb o ou va = true <-> cl_after w g vb o ou va.
Proof.
  unfold cl_after_b, cl_after. destruct (completed vb o ou) as [s|].
  - rewrite negb_true_iff. split; [intros H s' E; injection E as <-; exact H|intros H; apply H; reflexivity].
  - split; [intros _ s E; discriminate|reflexivity].
Qed.

Lemma osubj_neqb_iff s e : osubj_neqb s e = true <-> Some s <> e.
Proof.
  unfold osubj_neqb. destruct e as [x|]; [|split; [discriminate|reflexivity]].
  rewrite negb_true_iff, Nat.eqb_neq. split; [intros H E; injection E as ->; apply H; reflexivity|intros H ->; apply H; reflexivity].
Qed.

Lemma present_In v s : present v s = true <-> In s (map fst (v_subjects v)).
Proof. unfold present. apply mem_In. Qed.

Lemma keeps_b_iff vb va e : keeps_b vb va e = true <-> keeps vb va e.
Proof.
  unfold keeps_b, keeps. rewrite forallb_forall. split.
  - intros H s P N. apply present_In in P. specialize (H s P). apply orb_true_iff in H as [H|H]; [|exact H].
    apply negb_true_iff in H. apply osubj_neqb_iff in N. congruence.
  - intros H s P. destruct (osubj_neqb s e) eqn:E; [|reflexivity]. cbn.
    apply H; [apply present_In; exact P|apply osubj_neqb_iff; exact E].
Qed.

Lemma no_new_b_iff vb va e : no_new_b vb va e = true <-> no_new vb va e.
Proof.
  unfold no_new_b, no_new. rewrite forallb_forall. split.
  - intros H s P N. apply present_In in P. specialize (H s P). apply orb_true_iff in H as [H|H]; [|exact H].
    apply negb_true_iff in H. apply osubj_neqb_iff in N. congruence.
  - intros H s P. destruct (osubj_neqb s e) eqn:E; [|reflexivity]. cbn.
    apply H; [apply present_In; exact P|apply osubj_neqb_iff; exact E].
Qed.

Lemma is_success_iff ou : is_success ou = true <-> ou = OStatus LSuccess.
Proof. destruct ou; cbn; try (split; [discriminate|congruence]). destruct s; split; congruence. Qed.

Lemma is_nil_iff {A} (l : list A) : is_nil l = true <-> l = [].
Proof. destruct l; cbn; split; congruence. Qed.

Lemma pend_in_b_iff rp l : pend_in_b rp l = true <-> In rp l.
Proof.
  unfold pend_in_b. rewrite existsb_exists. split.
  - intros [x [Hx H]]. apply andb_true_iff in H as [A B]. apply Nat.eqb_eq in A. apply pview_eqb_eq in B.
    destruct x, rp. cbn in *. subst. exact Hx.
  - intros H. exists rp. split; [exact H|]. rewrite Nat.eqb_refl. cbn. apply pview_eqb_eq. reflexivity.
Qed.

Lemma pend_kept_b_iff vb va e : pend_kept_b vb va e = true <-> pend_kept vb va e.
Proof.
  unfold pend_kept_b, pend_kept. rewrite andb_true_iff, !forallb_forall. split.
  - intros [A B]. split.
    + intros rp H. apply pend_in_b_iff, A, H.
    + intros rp H N. specialize (B rp H). apply orb_true_iff in B as [B|B]; [|apply pend_in_b_iff; exact B].
      apply negb_true_iff in B. apply osubj_neqb_iff in N. congruence.
  - intros [A B]. split.
    + intros rp H. apply pend_in_b_iff, A, H.
    + intros rp H. destruct (osubj_neqb (pv_subj (snd rp)) e) eqn:E; [|reflexivity]. cbn.
      apply pend_in_b_iff, B; [exact H|apply osubj_neqb_iff; exact E].
Qed.

Lemma cl_request_b_iff w g vb o ou va : cl_request_b vb o ou va = true <-> cl_request w g vb o ou va.
Proof.
  unfold cl_request_b, cl_request. destruct o; try (split; [intros _; exact I|reflexivity]).
  rewrite !andb_true_iff, keeps_b_iff, no_new_b_iff, pend_kept_b_iff.
  set (Q := pend_kept vb va _). clearbody Q. split.
  - intros [[[[A B] C] D] E]. repeat split; try assumption.
    + intros ->. rewrite Nat.eqb_refl in C. cbn in C. apply negb_true_iff; exact C.
    + destruct (is_success ou) eqn:S; [|apply is_success_iff in H; congruence]. cbn in D.
      apply andb_true_iff in D as [D _]. apply Nat.eqb_eq; exact D.
    + destruct (is_success ou) eqn:S; [|apply is_success_iff in H; congruence]. cbn in D.
      apply andb_true_iff in D as [_ D]. exact D.
  - intros (A & B & C & D & E). repeat split; try assumption.
    + destruct (named =? cur)%nat eqn:N; [|reflexivity]. cbn. apply Nat.eqb_eq in N. rewrite (C N). reflexivity.
    + destruct (is_success ou) eqn:S; [|reflexivity]. cbn. apply is_success_iff in S. destruct (D S) as [-> P].
      rewrite Nat.eqb_refl, P. reflexivity.
Qed.

Lemma cl_pending_b_iff w g vb o ou va : cl_pending_b g vb o va = true <-> cl_pending w g vb o ou va.
Proof.
  unfold cl_pending_b, cl_pending. destruct o; try (split; [intros _; exact I|reflexivity]).
  destruct (answering g r i success) as [x|].
  - split; [intros _ H; discriminate|reflexivity].
  - rewrite andb_true_iff, subjects_eqb_eq, pending_eqb_eq. split; [intros H _; exact H|intros H; apply H; reflexivity].
Qed.

Lemma is_sent_neg ou : negb (is_sent ou) = true <-> is_sent ou <> true.
Proof. destruct (is_sent ou); cbn; split; congruence. Qed.

Lemma cl_ends_b_iff w g vb o ou va : cl_ends_b w g vb o ou va = true <-> cl_ends w g vb o ou va.
Proof.
  unfold cl_ends_b, cl_ends. destruct o.
  1-7: rewrite !andb_true_iff, keeps_b_iff, no_new_b_iff, pending_eqb_eq; tauto.
  - (* StartLogout *) cbv zeta. rewrite !andb_true_iff, keeps_b_iff, no_new_b_iff.
    destruct (present vb s) eqn:P; cbn [negb orb].
    + destruct (deadline_passed (g_now g) expire).
      * rewrite negb_true_iff. split; [intros [[A B] C]; repeat split; auto|intros (A & B & C); repeat split; auto].
      * rewrite andb_true_iff, !orb_true_iff, !negb_true_iff, is_nil_iff. split.
        -- intros [[A B] [C D]]. split; [exact A|]. split; [exact B|]. intros _. split.
           ++ intros W S. destruct C as [[C|C]|C]; [rewrite W in C; discriminate|rewrite S in C; discriminate|exact C].
           ++ intros X. destruct D as [D|D]; [congruence|exact D].
        -- intros (A & B & C). destruct (C eq_refl) as [C1 C2]. split; [split; assumption|]. split.
           ++ destruct (is_nil (wait_start w g s ans (issuers_of vb s))) eqn:N; [|left; left; reflexivity].
              destruct (is_sent ou) eqn:S; [|left; right; reflexivity]. right. apply C1; [apply is_nil_iff; exact N|reflexivity].
           ++ destruct (present va s) eqn:Q; [left; reflexivity|right; apply C2; reflexivity].
    + split; [intros [[A B] _]; repeat split; auto; intros X; discriminate|intros (A & B & _); repeat split; auto].
  - (* LogoutResponse *) destruct (answering g r i success) as [[n T]|]; [|split; [intros _; exact I|reflexivity]].
    cbv zeta. rewrite !andb_true_iff, keeps_b_iff, no_new_b_iff.
    destruct (deadline_passed (g_now g) (t_deadline T)).
    + rewrite negb_true_iff. tauto.
    + rewrite !andb_true_iff, !orb_true_iff, !negb_true_iff, !is_nil_iff. split.
      * intros [[A B] [[C D] E]]. split; [exact A|]. split; [exact B|]. split; [|split].
        -- intros W. destruct C as [C|C]; [rewrite W in C; discriminate|exact C].
        -- intros W S. destruct D as [[D|D]|D]; [rewrite W in D; discriminate|rewrite S in D; discriminate|exact D].
        -- intros X. destruct E as [E|E]; [congruence|exact E].
      * intros (A & B & C & D & E). split; [split; assumption|]. split; [split|].
        -- destruct (is_nil (wait_minus i (t_wait T))) eqn:N; [|left; reflexivity]. right. apply C, is_nil_iff; exact N.
        -- destruct (is_nil (wait_answer w g (t_subj T) ans i (t_wait T))) eqn:N; [|left; left; reflexivity].
           destruct (is_sent ou) eqn:S; [|left; right; reflexivity]. right. apply D; [apply is_nil_iff; exact N|reflexivity].
        -- destruct (present va (t_subj T)) eqn:Q; [left; reflexivity|right; apply E; reflexivity].
  - split; [intros _; exact I|reflexivity].
  - rewrite !andb_true_iff, keeps_b_iff, no_new_b_iff, pend_kept_b_iff; tauto.
Qed.

Lemma pend_others_b_iff vb va s : pend_others_b vb va s = true <-> pend_others vb va s.
Proof.
  unfold pend_others_b, pend_others. rewrite andb_true_iff, !forallb_forall. split.
  - intros [A B] rp N. split; intros H.
    + specialize (A rp H). apply orb_true_iff in A as [A|A]; [apply Nat.eqb_eq in A; contradiction|].
      apply pend_in_b_iff; exact A.
    + specialize (B rp H). apply orb_true_iff in B as [B|B]; [apply Nat.eqb_eq in B; contradiction|].
      apply pend_in_b_iff; exact B.
  - intros P. split; intros rp H; destruct (pv_subj (snd rp) =? s)%nat eqn:E; try reflexivity; cbn;
      apply Nat.eqb_neq in E; apply pend_in_b_iff, (P rp E), H.
Qed.

Lemma cl_others_b_iff w g vb o ou va : cl_others_b g vb o va = true <-> cl_others w g vb o ou va.
Proof.
  unfold cl_others_b, cl_others. destruct o; try (split; [intros _; exact I|reflexivity]).
  - apply pend_others_b_iff.
  - destruct (answering g r i success) as [[n T]|]; [apply pend_others_b_iff|split; [intros _; exact I|reflexivity]].
Qed.

Lemma step_ok_b_iff w g vb o ou va : step_ok_b w g vb o ou va = true <-> step_ok w g vb o ou va.
Proof.
  unfold step_ok_b, failing_clause, step_ok, cl_iso, cl_exp.
  rewrite <- (cl_cache_b_iff w g vb o ou va false), <- (cl_cache_b_iff w g vb o ou va true),
    <- (cl_accept_b_iff w g), <- (cl_after_b_iff w g), <- (cl_request_b_iff w g), <- (cl_pending_b_iff w g vb o ou va),
    <- cl_ends_b_iff, <- (cl_others_b_iff w g vb o ou va).
  destruct (cl_cache_b g vb o ou va false); cbn [negb]; [|split; [discriminate|intros [X _]; discriminate]].
  destruct (cl_cache_b g vb o ou va true); cbn [negb]; [|split; [discriminate|intros (_ & X & _); discriminate]].
  destruct (cl_accept_b vb o ou va); cbn [negb]; [|split; [discriminate|intros (_ & _ & X & _); discriminate]].
  destruct (cl_after_b vb o ou va); cbn [negb]; [|split; [discriminate|intros (_ & _ & _ & X & _); discriminate]].
  destruct (cl_request_b vb o ou va); cbn [negb]; [|split; [discriminate|intros (_ & _ & _ & _ & X & _); discriminate]].
  destruct (cl_pending_b g vb o va); cbn [negb]; [|split; [discriminate|intros (_ & _ & _ & _ & _ & X & _); discriminate]].
  destruct (cl_ends_b w g vb o ou va); cbn [negb]; [|split; [discriminate|intros (_ & _ & _ & _ & _ & _ & X & _); discriminate]].
  destruct (cl_others_b g vb o va); cbn [negb]; [|split; [discriminate|intros (_ & _ & _ & _ & _ & _ & _ & X); discriminate]].
  split; [intros _; repeat split|reflexivity].
Qed.

Lemma spec_from_b_iff w : forall tr g vb, spec_from_b w g vb tr = true <-> spec_from step_ok w g vb tr.
Proof.
  induction tr as [|[[o ou] va] r IH]; intros g vb; cbn; [split; [intros _; exact I|reflexivity]|].
  rewrite andb_true_iff, step_ok_b_iff, IH. reflexivity.
Qed.

(* the boolean monitor evaluated on the implementation's recorded trace is the stated property *)
Lemma spec_b_iff w t0 tr : spec_b w t0 tr = true <-> spec w t0 tr.
Proof. apply spec_from_b_iff. Qed.

(* the property is the conjunction of its clauses *)
Lemma spec_from_split w : forall tr g vb,
  spec_from step_ok w g vb tr <->
  spec_from cl_iso w g vb tr /\ spec_from cl_exp w g vb tr /\ spec_from cl_accept w g vb tr /\ spec_from cl_after w g vb tr
  /\ spec_from cl_request w g vb tr /\ spec_from cl_pending w g vb tr /\ spec_from cl_ends w g vb tr
  /\ spec_from cl_others w g vb tr.
Proof.
  induction tr as [|[[o ou] va] r IH]; intros g vb; cbn; [tauto|]. rewrite IH. unfold step_ok. tauto.
Qed.

Lemma spec_split w t0 tr :
  spec w t0 tr <->
  spec_cl cl_iso w t0 tr /\ spec_cl cl_exp w t0 tr /\ spec_cl cl_accept w t0 tr /\ spec_cl cl_after w t0 tr
  /\ spec_cl cl_request w t0 tr /\ spec_cl cl_pending w t0 tr /\ spec_cl cl_ends w t0 tr /\ spec_cl cl_others w t0 tr.
Proof. apply spec_from_split. Qed.

(* main theorem: every history outside the known finding classes satisfies the whole property *)
(* main theorem: EVERY history satisfies the whole property *)
Lemma all_spec w t0 h : spec w t0 (run w t0 h).
Proof.
  apply spec_split.
  repeat split; [apply isolation_holds|apply expiry_holds|apply accept_holds|apply after_holds|apply request_holds
                |apply pending_holds|apply ends_holds|apply others_holds].
Qed.

(* no finding class is open: the guard of the earlier rounds is vacuous *)
Lemma guard_always w t0 tr : guard w t0 tr.
Proof.
  unfold guard, first_trigger, first_trigger_from. generalize (ghost0 t0), empty_view.
  induction tr as [|[[o ou] va] r IH]; intros g vb; cbn; [reflexivity|]. apply IH.
Qed.

(* ================================================================ the known finding classes are real (faithful model) *)
Local Close Scope Z_scope.
Definition w_soap : world := {| w_pref := [SOAP; REDIRECT; POST]; w_slo := [[SOAP]] |}.
Definition w_front : world := {| w_pref := [SOAP; REDIRECT; POST]; w_slo := [[REDIRECT]; [POST]] |}.

Definition w_three : world := {| w_pref := [SOAP; REDIRECT; POST]; w_slo := [[REDIRECT]; [REDIRECT]; [REDIRECT]] |}.
Definition w_mixed : world := {| w_pref := [SOAP; REDIRECT; POST]; w_slo := [[REDIRECT]; [SOAP]; [POST]] |}.

(* class 1 (fixed by 0bae05f7): the only IdP is asked over SOAP and answers Success; the session stayed *)
Definition h_soap : list op := [Login 0 0 2000 1; StartLogout 0 None [SA_ok]; GetIdentity 0 [] true].
(* class 2 (fixed by de5f1fed): IdP 1 answers the request that was sent to IdP 0 *)
Definition h_wrong_party : list op :=
  [Login 0 0 2000 1; Login 0 1 2000 2; StartLogout 0 None []; LogoutResponse 0 1 true []].
(* class 3 (fixed by 73294247): the answer to a request of an abandoned logout ends the subject's NEW session *)
Definition h_stale : list op :=
  [Login 0 0 2000 1; StartLogout 0 None []; LocalLogout 0; Login 0 0 2000 2; LogoutResponse 0 0 true [];
   GetIdentity 0 [] true].
(* class 4 (fixed by e58d2614): three IdPs; IdP 0 answers (1 and 2 are asked again: requests 3, 4), IdP 1
   answers request 1 (2 is asked again), then IdP 1 also answers its second request 3, which was moot *)
Definition h_moot : list op :=
  [Login 0 0 2000 1; Login 0 1 2000 2; Login 0 2 2000 3; StartLogout 0 None [];
   LogoutResponse 0 0 true []; LogoutResponse 1 1 true []; LogoutResponse 3 1 true []].
(* class 5 (fixed by 10d8560b): IdP 1 answers Success over SOAP in a pass that then raises (the session
   information of IdP 2 has been reset: AttributeError); its answer was forgotten, so after the front-channel
   IdPs 0 and 2 had answered, the session still waited for IdP 1 (which now fails) *)
Definition h_forgotten : list op :=
  [Login 0 0 2000 1; Login 0 1 2000 2; Login 0 2 2000 3; Reset 0 2;
   StartLogout 0 None [SA_none; SA_ok; SA_none]; Login 0 2 2000 4;
   LogoutResponse 0 0 true [SA_none; SA_http; SA_none]; LogoutResponse 1 2 true [SA_none; SA_http; SA_none];
   GetIdentity 0 [] true].

Lemma refute w t0 tr : spec_b w t0 tr = false -> ~ spec w t0 tr.
Proof. intros E H. apply spec_b_iff in H. congruence. Qed.

(* the behaviour before each fix violated the property
   (run_v0 party purge soap early moot: false = that fix reverted, everything else as now) *)
Lemma soap_v0_refuted :
  exists w t0 h, first_any_trigger w t0 (run_v0 true true false true true w t0 h) = 1%nat
                 /\ ~ spec w t0 (run_v0 true true false true true w t0 h).
Proof. exists w_soap, 1000%Z, h_soap. split; [vm_compute; reflexivity|apply refute; vm_compute; reflexivity]. Qed.

Lemma wrong_party_v0_refuted :
  exists w t0 h, first_any_trigger w t0 (run_v0 false true true true true w t0 h) = 2%nat
                 /\ ~ spec w t0 (run_v0 false true true true true w t0 h).
Proof. exists w_front, 1000%Z, h_wrong_party. split; [vm_compute; reflexivity|apply refute; vm_compute; reflexivity]. Qed.

Lemma stale_v0_refuted :
  exists w t0 h, first_any_trigger w t0 (run_v0 true false true true true w t0 h) = 3%nat
                 /\ ~ spec w t0 (run_v0 true false true true true w t0 h).
Proof. exists w_front, 1000%Z, h_stale. split; [vm_compute; reflexivity|apply refute; vm_compute; reflexivity]. Qed.

Lemma moot_v0_refuted :
  exists w t0 h, first_any_trigger w t0 (run_v0 true true true true false w t0 h) = 4%nat
                 /\ ~ spec w t0 (run_v0 true true true true false w t0 h).
Proof. exists w_three, 1000%Z, h_moot. split; [vm_compute; reflexivity|apply refute; vm_compute; reflexivity]. Qed.

Lemma forgotten_v0_refuted :
  exists w t0 h, first_any_trigger w t0 (run_v0 true true true false true w t0 h) = 5%nat
                 /\ ~ spec w t0 (run_v0 true true true false true w t0 h).
Proof. exists w_mixed, 1000%Z, h_forgotten. split; [vm_compute; reflexivity|apply refute; vm_compute; reflexivity]. Qed.

Lemma original_v0_refuted :
  exists w t0 h, ~ spec w t0 (run_v0 false false false false false w t0 h).
Proof. exists w_front, 1000%Z, h_stale. apply refute; vm_compute; reflexivity. Qed.

(* with all fixes the _v0 definitions are the model *)
Lemma step_v0_fixed w st o : step_v0 true true true true true w st o = step w st o.
Proof. destruct o; reflexivity. Qed.
Lemma run_v0_fixed w t0 h : run_v0 true true true true true w t0 h = run w t0 h.
Proof.
  unfold run_v0, run. generalize (init t0). induction h as [|o r IH]; intros st; cbn [run_from_v0 run_from]; [reflexivity|].
  rewrite step_v0_fixed. destruct (step w st o) as [st' ou]. rewrite IH. reflexivity.
Qed.

(* what went wrong and what happens now, in the model's own outputs *)
Example soap_session_survived_v0 :
  map (fun x => snd (fst x)) (run_v0 true true false true true w_soap 1000 h_soap) = [OUnit; OSent [SentSoap 0]; OIdentity [1] []].
Proof. vm_compute. reflexivity. Qed.
Example soap_session_ends_now :
  map (fun x => snd (fst x)) (run w_soap 1000 h_soap) = [OUnit; OSent [SentSoap 0]; OIdentity [] []].
Proof. vm_compute. reflexivity. Qed.
Example stale_answer_ended_new_session_v0 :
  map (fun x => snd (fst x)) (run_v0 true false true true true w_front 1000 h_stale)
  = [OUnit; OSent [SentPending 0 REDIRECT 0]; OBool true; OUnit; ODone; OIdentity [] []].
Proof. vm_compute. reflexivity. Qed.
Example stale_answer_unknown_now :
  map (fun x => snd (fst x)) (run w_front 1000 h_stale)
  = [OUnit; OSent [SentPending 0 REDIRECT 0]; OBool true; OUnit; OExn KeyErr; OIdentity [2] []].
Proof. vm_compute. reflexivity. Qed.
Example wrong_party_outputs_v0_now :
  map (fun x => snd (fst x)) (run_v0 false true true true true w_front 1000 h_wrong_party)
  = [OUnit; OUnit; OSent [SentPending 0 REDIRECT 0; SentPending 1 POST 1]; OSent [SentPending 0 REDIRECT 2]]
  /\ map (fun x => snd (fst x)) (run w_front 1000 h_wrong_party)
  = [OUnit; OUnit; OSent [SentPending 0 REDIRECT 0; SentPending 1 POST 1]; OExn LogoutErr].
Proof. split; vm_compute; reflexivity. Qed.
Example moot_outputs_v0_now :
  map (fun x => snd (fst x)) (run_v0 true true true true false w_three 1000 h_moot)
  = [OUnit; OUnit; OUnit; OSent [SentPending 0 REDIRECT 0; SentPending 1 REDIRECT 1; SentPending 2 REDIRECT 2];
     OSent [SentPending 1 REDIRECT 3; SentPending 2 REDIRECT 4]; OSent [SentPending 2 REDIRECT 5]; OExn ValueErr]
  /\ map (fun x => snd (fst x)) (run w_three 1000 h_moot)
  = [OUnit; OUnit; OUnit; OSent [SentPending 0 REDIRECT 0; SentPending 1 REDIRECT 1; SentPending 2 REDIRECT 2];
     OSent [SentPending 1 REDIRECT 3; SentPending 2 REDIRECT 4]; OSent [SentPending 2 REDIRECT 5]; OExn KeyErr].
Proof. split; vm_compute; reflexivity. Qed.
Example forgotten_outputs_v0_now :
  map (fun x => snd (fst x)) (run_v0 true true true false true w_mixed 1000 h_forgotten)
  = [OUnit; OUnit; OUnit; OUnit; OExn AttrErr; OUnit; OExn LogoutErr; OExn LogoutErr; OIdentity [1; 2; 4] []]
  /\ map (fun x => snd (fst x)) (run w_mixed 1000 h_forgotten)
  = [OUnit; OUnit; OUnit; OUnit; OExn AttrErr; OUnit; OSent [SentPending 2 POST 1]; ODone; OIdentity [] []].
Proof. split; vm_compute; reflexivity. Qed.

(* ================================================================ non-vacuity *)
(* a complete front-channel logout of subject 0 at two IdPs (subject 1 keeps its session): the guard
   holds, both answers are `answering`, the second one ends the session *)
Definition h_flow : list op :=
  [Login 0 0 2000 1; Login 0 1 2000 2; Login 1 0 2000 3; GetIdentity 0 [] true; GetInfoFrom 0 1 true;
   StartLogout 0 (Some 1500%Z) []; LogoutResponse 0 0 true []; LogoutResponse 1 1 true [];
   GetIdentity 0 [] true; GetIdentity 1 [] true; LogoutRequest 0 1 0 REDIRECT; LogoutRequest 1 1 0 REDIRECT;
   GetIdentity 1 [] true].
Example flow_outputs :
  map (fun x => snd (fst x)) (run w_front 1000 h_flow)
  = [OUnit; OUnit; OUnit; OIdentity [1; 2] []; OInfo (Some 2);
     OSent [SentPending 0 REDIRECT 0; SentPending 1 POST 1]; OSent [SentPending 1 POST 2]; ODone;
     OIdentity [] []; OIdentity [3] []; OStatus LUnknownPrincipal; OStatus LSuccess; OIdentity [] []].
Proof. vm_compute. reflexivity. Qed.
Example flow_spec : spec w_front 1000 (run w_front 1000 h_flow).
Proof. apply all_spec. Qed.

(* a mixed logout: IdP 1 answers over SOAP at once, IdP 0 over the front channel; then the session ends *)
Definition w_mixed2 : world := {| w_pref := [SOAP; REDIRECT; POST]; w_slo := [[REDIRECT]; [SOAP]] |}.
Definition h_mixed : list op :=
  [Login 0 0 2000 1; Login 0 1 2000 2; StartLogout 0 None [SA_none; SA_ok]; GetIdentity 0 [] true;
   LogoutResponse 0 0 true []; GetIdentity 0 [] true].
Example mixed_outputs :
  map (fun x => snd (fst x)) (run w_mixed2 1000 h_mixed)
  = [OUnit; OUnit; OSent [SentPending 0 REDIRECT 0; SentSoap 1]; OIdentity [1; 2] []; ODone; OIdentity [] []].
Proof. vm_compute. reflexivity. Qed.

(* the deadline passes while an answer is outstanding: the next answer ends the session at once *)
Definition h_deadline : list op :=
  [Login 0 0 5000 1; Login 0 1 5000 2; StartLogout 0 (Some 1500%Z) []; Tick 501; GetIdentity 0 [] true;
   LogoutResponse 0 0 true []; GetIdentity 0 [] true; StartLogout 0 None []].
Example deadline_outputs :
  map (fun x => snd (fst x)) (run w_front 1000 h_deadline)
  = [OUnit; OUnit; OSent [SentPending 0 REDIRECT 0; SentPending 1 POST 1]; OUnit; OIdentity [1; 2] [];
     OTimeout; OIdentity [] []; OExn KeyErr].
Proof. vm_compute. reflexivity. Qed.

(* expiry: the same information is returned at its not-on-or-after instant and not one second later *)
Example expiry_outputs :
  map (fun x => snd (fst x))
      (run w_front 1000 [Login 0 0 1010 1; Tick 10; GetInfoFrom 0 0 true; Tick 1; GetInfoFrom 0 0 true;
                         GetIdentity 0 [] true; GetInfoFrom 0 0 false])
  = [OUnit; OUnit; OInfo (Some 1); OUnit; OExn TooOldErr; OIdentity [] [0]; OInfo (Some 1)].
Proof. vm_compute. reflexivity. Qed.

(* ================================================================ the expiry time a Response hands to the cache *)
(* a Response whose SessionNotOnOrAfter or Conditions/@NotOnOrAfter has passed is refused and stores nothing *)
Lemma stale_response_stores_nothing w st s i cn sn t :
  response_fresh (now st) cn sn = false -> step w st (AcceptResponse s i cn sn t RGood) = (st, ORejected).
Proof. intros F. cbn [step]. rewrite F. reflexivity. Qed.

(* for every accepted Response (clock after the epoch) the time stored is the end of the session when the IdP
   states one, whatever Conditions/@NotOnOrAfter says (earlier, equal, later, absent), else Conditions/@NotOnOrAfter *)
Lemma accepted_expiry_is_session_end (n : Z) cn sn :
  (0 < n)%Z -> response_fresh n cn sn = true -> effective_nooa cn sn = info_nooa cn sn.
Proof.
  intros P F. unfold response_fresh in F. apply andb_true_iff in F as [Fs _].
  unfold effective_nooa, info_nooa. destruct sn as [t|]; [|reflexivity].
  cbn [still_valid] in Fs. apply Z.leb_le in Fs. destruct (0 <? t)%Z eqn:E; [reflexivity|]. apply Z.ltb_ge in E. lia.
Qed.

Lemma accepted_response_stored w st s i cn sn t :
  (0 < now st)%Z -> response_fresh (now st) cn sn = true ->
  step w st (AcceptResponse s i cn sn t RGood) = (store st s i (info_nooa cn sn) (Some t), OAccepted).
Proof. intros P F. cbn [step]. rewrite F, (accepted_expiry_is_session_end (now st) cn sn P F). reflexivity. Qed.

(* the session ends BEFORE the assertion's validity: the information is returned at the session's end and not one
   second later (and the source is then stale); the other way round it is kept past Conditions/@NotOnOrAfter
   until the session's end; a Response that has passed either time stores nothing *)
Example response_expiry_outputs :
  map (fun x => snd (fst x))
      (run w_front 1000 [AcceptResponse 0 0 (Some 1200%Z) (Some 1100%Z) 1 RGood; AcceptResponse 1 0 (Some 1100%Z) (Some 1200%Z) 2 RGood;
                         AcceptResponse 2 0 (Some 1200%Z) (Some 999%Z) 3 RGood; AcceptResponse 2 0 (Some 999%Z) None 4 RGood;
                         Tick 100; GetInfoFrom 0 0 true; Tick 1; GetInfoFrom 0 0 true; GetIdentity 0 [] true; Stale 0 [];
                         GetInfoFrom 1 0 true; Tick 99; GetInfoFrom 1 0 true; Tick 1; GetInfoFrom 1 0 true;
                         GetIdentity 2 [] true])
  = [OAccepted; OAccepted; ORejected; ORejected; OUnit; OInfo (Some 1); OUnit; OExn TooOldErr; OIdentity [] [0];
     OIssuers [0]; OInfo (Some 2); OUnit; OInfo (Some 2); OUnit; OExn TooOldErr; OIdentity [] []].
Proof. vm_compute. reflexivity. Qed.

(* ================================================================ round 6: non-vacuity of the two additions.
   (1) A request handed out but not on file (what `state_cache or {}` does to an application's empty state store
   when the answer arrives at another client object of the same SP): the monitor of the earlier rounds - owners
   learnt from the client's state only - accepts the trace (the answer "answers nothing"); the monitor learns from
   the output that request 0 went to IdP 0, so its answer is the last one and the session must end. *)
Fixpoint spec_from_b0 (w : world) (g : ghost) (vb : view) (tr : trace) : bool :=
  match tr with
  | [] => true
  | (o, ou, va) :: r => step_ok_b w g vb o ou va && spec_from_b0 w (ghost_step0 w g vb o ou va) va r
  end.
Definition w_one : world := {| w_pref := [SOAP; REDIRECT; POST]; w_slo := [[REDIRECT]] |}.
Definition v_in (p : list (rid * pview)) : view := {| v_subjects := [(0, [0])]; v_logged := [0]; v_pending := p |}.
Definition tr_lost : trace :=
  [(Login 0 0 2000 1, OUnit, v_in []);
   (StartLogout 0 None [], OSent [SentPending 0 REDIRECT 0], v_in []);
   (LogoutResponse 0 0 true [], OExn KeyErr, v_in [])].
Example lost_request_detected :
  spec_from_b0 w_one (ghost0 1000) empty_view tr_lost = true /\ spec_b w_one 1000 tr_lost = false
  /\ map (fun x => snd (fst x)) (run w_one 1000 (map (fun x => fst (fst x)) tr_lost)) =
     [OUnit; OSent [SentPending 0 REDIRECT 0]; ODone].
Proof. vm_compute. repeat split. Qed.

(* (2) Two subjects wait for the same IdP; the answer to subject 0's request must not take subject 1's pending
   request with it (what comparing the lists of outstanding IdPs by value does): clause 8 fails at that very step;
   with subject 1's request left alone the trace is accepted - and that is what the model does. *)
Definition pv1 (s : subj) : pview := {| pv_entity := 0; pv_list := [0]; pv_subj := s; pv_expire := None |}.
Definition v_two (p : list (rid * pview)) : view :=
  {| v_subjects := [(0, [0]); (1, [0])]; v_logged := [0; 1]; v_pending := p |}.
Definition tr_cross (left : list (rid * pview)) : trace :=
  [(Login 0 0 2000 1, OUnit, v_in []); (Login 1 0 2000 2, OUnit, v_two []);
   (StartLogout 0 None [], OSent [SentPending 0 REDIRECT 0], v_two [(0, pv1 0)]);
   (StartLogout 1 None [], OSent [SentPending 0 REDIRECT 1], v_two [(0, pv1 0); (1, pv1 1)]);
   (LogoutResponse 0 0 true [], ODone, {| v_subjects := [(1, [0])]; v_logged := [1]; v_pending := left |})].
Example cross_subject_drop_detected :
  spec_b w_one 1000 (tr_cross []) = false /\ spec_b w_one 1000 (tr_cross [(1, pv1 1)]) = true
  /\ run w_one 1000 (map (fun x => fst (fst x)) (tr_cross [])) = tr_cross [(1, pv1 1)].
Proof. vm_compute. repeat split. Qed.
