(* C19/Property.v — property theorems only.  `run w t0 h` is the trace (operation, output, view
   after the operation) of the model for the history h of operations started at time t0 in the
   world w (preferred SLO bindings, SLO endpoints of every IdP); `spec_cl cl` says that the clause
   cl of the reference monitor C19.Spec holds at every step of a trace. *)
From Coq Require Import List Bool Arith ZArith.
From Verif Require Import C19.Model C19.Spec C19.Proofs.

(* isolation: whatever is returned for (subject, issuer) was stored for exactly that pair and the
   subject has had a session ever since; a subject counts as logged in only on such information *)
Theorem c19_isolation : forall w t0 h, spec_cl cl_iso w t0 (run w t0 h).
Proof. exact isolation_holds. Qed.
Print Assumptions c19_isolation.

(* expiry: with the expiry check on, only until the not-on-or-after time it was stored with *)
Theorem c19_expiry : forall w t0 h, spec_cl cl_exp w t0 (run w t0 h).
Proof. exact expiry_holds. Qed.
Print Assumptions c19_expiry.

(* a Response that does not verify stores nothing *)
Theorem c19_only_verified_response_stored : forall w t0 h, spec_cl cl_accept w t0 (run w t0 h).
Proof. exact accept_holds. Qed.
Print Assumptions c19_only_verified_response_stored.

(* no information after logout: whenever a logout is reported complete the subject has no session
   (and the monitor of c19_isolation has forgotten everything about a subject without session) *)
Theorem c19_no_info_after_logout : forall w t0 h, spec_cl cl_after w t0 (run w t0 h).
Proof. exact after_holds. Qed.
Print Assumptions c19_no_info_after_logout.

(* a LogoutRequest ends the session of the current subject only if it names it, touches no one else *)
Theorem c19_logout_request_only_current_subject : forall w t0 h, spec_cl cl_request w t0 (run w t0 h).
Proof. exact request_holds. Qed.
Print Assumptions c19_logout_request_only_current_subject.

(* a LogoutResponse that does not answer a pending request changes nothing — outside the OPEN finding
   classes: `guard` = no step of the trace is a trigger of class 4 (a party answers a second, moot request of
   a logout in progress after it has already answered) or class 5 (a pass of do_logout in which an IdP
   answered Success over SOAP ends with an exception, so that answer is not recorded) *)
Theorem c19_response_needs_pending : forall w t0 h,
  guard w t0 (run w t0 h) -> spec_cl cl_pending w t0 (run w t0 h).
Proof. exact pending_holds. Qed.
Print Assumptions c19_response_needs_pending.

(* the session ends exactly when the last involved IdP has answered (front channel or SOAP) or the deadline
   has passed — outside the open finding classes *)
Theorem c19_session_ends_iff_last_answer_or_deadline : forall w t0 h,
  guard w t0 (run w t0 h) -> spec_cl cl_ends w t0 (run w t0 h).
Proof. exact ends_holds. Qed.
Print Assumptions c19_session_ends_iff_last_answer_or_deadline.

(* C19, whole property, for every world, start time and history outside the open finding classes *)
Theorem c19_property : forall w t0 h, guard w t0 (run w t0 h) -> spec w t0 (run w t0 h).
Proof. exact guarded_spec. Qed.
Print Assumptions c19_property.

(* sharper, unguarded: on EVERY history every step before the first trigger of an open finding class
   satisfies every clause (this is what the correspondence's classifier relies on) *)
Theorem c19_until_first_trigger : forall w t0 h, spec_until w t0 (run w t0 h).
Proof. exact until_holds. Qed.
Print Assumptions c19_until_first_trigger.

(* the boolean monitor that Coq evaluates on the implementation's recorded trace is the stated property *)
Theorem c19_spec_reflect : forall w t0 tr, spec_b w t0 tr = true <-> spec w t0 tr.
Proof. exact spec_b_iff. Qed.
Print Assumptions c19_spec_reflect.

(* the property is the conjunction of its clauses *)
Theorem c19_spec_clauses : forall w t0 tr,
  spec w t0 tr <->
  spec_cl cl_iso w t0 tr /\ spec_cl cl_exp w t0 tr /\ spec_cl cl_accept w t0 tr /\ spec_cl cl_after w t0 tr
  /\ spec_cl cl_request w t0 tr /\ spec_cl cl_pending w t0 tr /\ spec_cl cl_ends w t0 tr.
Proof. exact spec_split. Qed.
Print Assumptions c19_spec_clauses.

(* the code as it is violates the property in the two open classes (faithful model):
   4 a second answer of a party to a moot request of a logout in progress consumes that request (ValueError);
   5 a Success answer over SOAP given in a pass that then raises is forgotten *)
Theorem c19_moot_request_refuted : exists w t0 h, first_trigger w t0 (run w t0 h) = 4 /\ ~ spec w t0 (run w t0 h).
Proof. exact moot_refuted. Qed.
Print Assumptions c19_moot_request_refuted.

Theorem c19_forgotten_soap_answer_refuted : exists w t0 h, first_trigger w t0 (run w t0 h) = 5 /\ ~ spec w t0 (run w t0 h).
Proof. exact forgotten_refuted. Qed.
Print Assumptions c19_forgotten_soap_answer_refuted.

(* the behaviour before the fixes violated it (run_v0 party purge soap; false = that fix reverted):
   class 1, before 0bae05f7 a SOAP global logout did no bookkeeping;
   class 2, before de5f1fed an answer from another party than the one asked was honoured;
   class 3, before 73294247 the answer to a request of an abandoned logout ended a new session *)
Theorem c19_soap_v0_refuted : exists w t0 h,
  first_any_trigger w t0 (run_v0 true true false w t0 h) = 1 /\ ~ spec w t0 (run_v0 true true false w t0 h).
Proof. exact soap_v0_refuted. Qed.
Print Assumptions c19_soap_v0_refuted.

Theorem c19_wrong_party_v0_refuted : exists w t0 h,
  first_any_trigger w t0 (run_v0 false true true w t0 h) = 2 /\ ~ spec w t0 (run_v0 false true true w t0 h).
Proof. exact wrong_party_v0_refuted. Qed.
Print Assumptions c19_wrong_party_v0_refuted.

Theorem c19_stale_answer_v0_refuted : exists w t0 h,
  first_any_trigger w t0 (run_v0 true false true w t0 h) = 3 /\ ~ spec w t0 (run_v0 true false true w t0 h).
Proof. exact stale_v0_refuted. Qed.
Print Assumptions c19_stale_answer_v0_refuted.

(* run_v0 with all fixes is the model *)
Theorem c19_v0_fixed_is_model : forall w t0 h, run_v0 true true true w t0 h = run w t0 h.
Proof. exact run_v0_fixed. Qed.
Print Assumptions c19_v0_fixed_is_model.

(* the guard is satisfiable by a complete two-IdP logout that ends the session (non-vacuity) *)
Theorem c19_guard_satisfiable : guard w_front 1000 (run w_front 1000 h_flow) /\ spec w_front 1000 (run w_front 1000 h_flow).
Proof. exact (conj flow_guard flow_spec). Qed.
Print Assumptions c19_guard_satisfiable.
