(* C19/Property.v — property theorems only.  `run w t0 h` is the trace (operation, output, view
   after the operation) of the model for the history h of operations started at time t0 in the
   world w (preferred SLO bindings, SLO endpoints of every IdP); `spec_cl cl` says that the clause
   cl of the reference monitor C19.Spec holds at every step of a trace. *)
From Coq Require Import List Bool Arith ZArith.
From Verif Require Import Base.Py Base.Py2 C19.Model C19.Spec C19.Proofs C19.Source2.
From VerifGen Require Import C19Src2.
Import ListNotations.

(* isolation: whatever is returned for (subject, issuer) was stored for exactly that pair and the
   subject has had a session ever since; a subject counts as logged in only on such information *)
Theorem c19_isolation : forall w t0 h, spec_cl cl_iso w t0 (run w t0 h).
Proof. exact isolation_holds. Qed.
Print Assumptions c19_isolation.

(* expiry: with the expiry check on, only until the not-on-or-after time it was stored with *)
Theorem c19_expiry : forall w t0 h, spec_cl cl_exp w t0 (run w t0 h).
Proof. exact expiry_holds. Qed.
Print Assumptions c19_expiry.

(* a Response that does not verify stores nothing *)
Theorem c19_only_verified_response_stored : forall w t0 h, spec_cl cl_accept w t0 (run w t0 h).
Proof. exact accept_holds. Qed.
Print Assumptions c19_only_verified_response_stored.

(* no information after logout: whenever a logout is reported complete the subject has no session
   (and the monitor of c19_isolation has forgotten everything about a subject without session) *)
Theorem c19_no_info_after_logout : forall w t0 h, spec_cl cl_after w t0 (run w t0 h).
Proof. exact after_holds. Qed.
Print Assumptions c19_no_info_after_logout.

(* a LogoutRequest ends the session of the current subject only if it names it, touches no one else *)
Theorem c19_logout_request_only_current_subject : forall w t0 h, spec_cl cl_request w t0 (run w t0 h).
Proof. exact request_holds. Qed.
Print Assumptions c19_logout_request_only_current_subject.

(* a LogoutResponse that does not answer a pending request (known InResponseTo of a logout in progress,
   sent by the party the request went to, that party still being waited for, status Success) changes nothing *)
Theorem c19_response_needs_pending : forall w t0 h, spec_cl cl_pending w t0 (run w t0 h).
Proof. exact pending_holds. Qed.
Print Assumptions c19_response_needs_pending.

(* the session ends exactly when the last involved IdP has answered (front channel or SOAP) or the deadline
   has passed *)
Theorem c19_session_ends_iff_last_answer_or_deadline : forall w t0 h, spec_cl cl_ends w t0 (run w t0 h).
Proof. exact ends_holds. Qed.
Print Assumptions c19_session_ends_iff_last_answer_or_deadline.

(* never leaks across subjects, the logout side (round 6): starting a global logout for a subject, and every
   answer to a pending request of that subject's logout, leave the pending logout requests of every other subject
   exactly as they were (addressee, identity providers still to answer, deadline) *)
Theorem c19_other_subjects_requests_untouched : forall w t0 h, spec_cl cl_others w t0 (run w t0 h).
Proof. exact others_holds. Qed.
Print Assumptions c19_other_subjects_requests_untouched.

(* (round 6) every logout request that an output hands to the application for delivery over the front channel is
   on file in the client's state after that step - from ANY state, reachable or not ... *)
Theorem c19_handed_out_request_is_on_file : forall w st o st' acc,
  step w st o = (st', OSent acc) -> forall i b r, In (SentPending i b r) acc -> In r (keys (pend st')).
Proof. exact step_sent. Qed.
Print Assumptions c19_handed_out_request_is_on_file.

(* ... hence the monitor, which since round 6 also learns from the OUTPUT which requests went out and to whom
   (a request the SP has sent is pending whether or not the client object, or the state store the application
   gave it, remembers it), learns on the model exactly what the client's state tells it *)
Theorem c19_monitor_on_model : forall w st g o st' ou,
  step w st o = (st', ou) ->
  ghost_step w g (view_of st) o ou (view_of st') = ghost_step0 w g (view_of st) o ou (view_of st').
Proof. exact ghost_step_model. Qed.
Print Assumptions c19_monitor_on_model.

(* C19, whole property, for every world, start time and history — no guard, no finding class is open *)
Theorem c19_property : forall w t0 h, spec w t0 (run w t0 h).
Proof. exact all_spec. Qed.
Print Assumptions c19_property.

(* the boolean monitor that Coq evaluates on the implementation's recorded trace is the stated property *)
Theorem c19_spec_reflect : forall w t0 tr, spec_b w t0 tr = true <-> spec w t0 tr.
Proof. exact spec_b_iff. Qed.
Print Assumptions c19_spec_reflect.

(* the property is the conjunction of its clauses *)
Theorem c19_spec_clauses : forall w t0 tr,
  spec w t0 tr <->
  spec_cl cl_iso w t0 tr /\ spec_cl cl_exp w t0 tr /\ spec_cl cl_accept w t0 tr /\ spec_cl cl_after w t0 tr
  /\ spec_cl cl_request w t0 tr /\ spec_cl cl_pending w t0 tr /\ spec_cl cl_ends w t0 tr /\ spec_cl cl_others w t0 tr.
Proof. exact spec_split. Qed.
Print Assumptions c19_spec_clauses.

(* the behaviour before each fix violated the property: `run_v0 party purge soap early moot` is the model
   with the named fixes in place (false = that fix reverted); each witness fails with ONLY that fix reverted:
   class 1, before 0bae05f7 a SOAP global logout did no bookkeeping;
   class 2, before de5f1fed an answer from another party than the one asked was honoured;
   class 3, before 73294247 the answer to a request of an abandoned logout ended a new session;
   class 4, before e58d2614 a second, moot request to a party that had answered stayed pending and its answer
            was consumed (ValueError);
   class 5, before 10d8560b a Success answer over SOAP given in a pass that then raised was forgotten *)
Theorem c19_soap_v0_refuted : exists w t0 h,
  first_any_trigger w t0 (run_v0 true true false true true w t0 h) = 1 /\ ~ spec w t0 (run_v0 true true false true true w t0 h).
Proof. exact soap_v0_refuted. Qed.
Print Assumptions c19_soap_v0_refuted.

Theorem c19_wrong_party_v0_refuted : exists w t0 h,
  first_any_trigger w t0 (run_v0 false true true true true w t0 h) = 2 /\ ~ spec w t0 (run_v0 false true true true true w t0 h).
Proof. exact wrong_party_v0_refuted. Qed.
Print Assumptions c19_wrong_party_v0_refuted.

Theorem c19_stale_answer_v0_refuted : exists w t0 h,
  first_any_trigger w t0 (run_v0 true false true true true w t0 h) = 3 /\ ~ spec w t0 (run_v0 true false true true true w t0 h).
Proof. exact stale_v0_refuted. Qed.
Print Assumptions c19_stale_answer_v0_refuted.

Theorem c19_moot_request_v0_refuted : exists w t0 h,
  first_any_trigger w t0 (run_v0 true true true true false w t0 h) = 4 /\ ~ spec w t0 (run_v0 true true true true false w t0 h).
Proof. exact moot_v0_refuted. Qed.
Print Assumptions c19_moot_request_v0_refuted.

Theorem c19_forgotten_soap_answer_v0_refuted : exists w t0 h,
  first_any_trigger w t0 (run_v0 true true true false true w t0 h) = 5 /\ ~ spec w t0 (run_v0 true true true false true w t0 h).
Proof. exact forgotten_v0_refuted. Qed.
Print Assumptions c19_forgotten_soap_answer_v0_refuted.

(* run_v0 with all fixes is the model *)
Theorem c19_v0_fixed_is_model : forall w t0 h, run_v0 true true true true true w t0 h = run w t0 h.
Proof. exact run_v0_fixed. Qed.
Print Assumptions c19_v0_fixed_is_model.

(* non-vacuity: a mixed SOAP / front-channel logout completes (IdP 1 answers over SOAP at once, the answer
   of IdP 0 then ends the session) *)
Theorem c19_mixed_logout_completes :
  map (fun x => snd (fst x)) (run w_mixed2 1000 h_mixed)
  = [OUnit; OUnit; OSent [SentPending 0 REDIRECT 0; SentSoap 1]; OIdentity [1; 2] []; ODone; OIdentity [] []].
Proof. exact mixed_outputs. Qed.
Print Assumptions c19_mixed_logout_completes.

(* the expiry time a Response hands to the session cache: a Response whose SessionNotOnOrAfter or
   Conditions/@NotOnOrAfter has passed is refused and nothing is stored; an accepted one is stored with the end of
   the session when the IdP states one (AuthnStatement/@SessionNotOnOrAfter, whatever Conditions/@NotOnOrAfter
   says) and with Conditions/@NotOnOrAfter otherwise — the time the monitor of c19_expiry holds the reads to *)
Theorem c19_stale_response_stores_nothing : forall w st s i cn sn t,
  response_fresh (now st) cn sn = false -> step w st (AcceptResponse s i cn sn t RGood) = (st, ORejected).
Proof. exact stale_response_stores_nothing. Qed.
Print Assumptions c19_stale_response_stores_nothing.

Theorem c19_accepted_response_expires_with_session : forall w st s i cn sn t,
  (0 < now st)%Z -> response_fresh (now st) cn sn = true ->
  step w st (AcceptResponse s i cn sn t RGood) = (store st s i (info_nooa cn sn) (Some t), OAccepted).
Proof. exact accepted_response_stored. Qed.
Print Assumptions c19_accepted_response_expires_with_session.

(* ================================================================ source tie (translator v2)
   coq/gen/C19Src2.v is re-translated from the CURRENT text of saml2/time_util.py, cache.py, population.py,
   response.py and client.py on every run; each theorem says that the translated function, applied to the encoding
   of ANY input of the model, is the encoding of what the model function answers (exceptions included).
   Encodings, and what the theorems do not cover: C19/Source2.v, notes/C19.md. *)
Theorem c19_source2_before : forall parse (n p : Z),
  src2_before (PInt n) parse (PInt p) = PBool (tu_before n p).
Proof. exact src2_before_is_model. Qed.
Print Assumptions c19_source2_before.

Theorem c19_source2_after : forall parse (n p : Z),
  src2_after (PInt n) parse (PInt p) = PBool (tu_after n p).
Proof. exact src2_after_is_model. Qed.
Print Assumptions c19_source2_after.

Theorem c19_source2_cache_get : forall skey ikey nid code_ decode_ parse,
  cache_encoding_ok skey ikey nid code_ decode_ -> forall (n : Z) c s i chk,
  src2_cache_get (PInt n) parse code_ decode_ (enc_cache skey ikey c) (nid s) (enc_issuer ikey i) (PBool chk)
  = enc_getres nid s (c_get n c s i chk).
Proof. exact stated_cache_get. Qed.
Print Assumptions c19_source2_cache_get.

Theorem c19_source2_cache_active : forall skey ikey nid code_ decode_ parse,
  cache_encoding_ok skey ikey nid code_ decode_ -> forall (n : Z) c s i,
  src2_cache_active (PInt n) parse code_ (enc_cache skey ikey c) (nid s) (enc_issuer ikey i) = PBool (c_active n c s i).
Proof. exact stated_cache_active. Qed.
Print Assumptions c19_source2_cache_active.

Theorem c19_source2_cache_entities : forall skey ikey nid code_ decode_,
  cache_encoding_ok skey ikey nid code_ decode_ -> forall c s,
  src2_cache_entities code_ (enc_cache skey ikey c) (nid s) = enc_olist ikey (option_map keys (lookup s c)).
Proof. exact stated_cache_entities. Qed.
Print Assumptions c19_source2_cache_entities.

(* Cache.subjects: the subjects the cache lists are the NameIDs that were filed (the subjects of the model's view) *)
Theorem c19_source2_cache_subjects : forall skey ikey nid code_ decode_,
  cache_encoding_ok skey ikey nid code_ decode_ -> forall c,
  src2_cache_subjects decode_ (enc_cache skey ikey c) = enc_subject_list nid (keys c).
Proof. exact stated_cache_subjects. Qed.
Print Assumptions c19_source2_cache_subjects.

(* ... and ONLY IF the decoding brings every key back: whatever function stands for ident.decode (total on the keys),
   if the cache lists exactly the subjects that were filed, it has inverted ident.code on each of them.  (The
   round-trip hypothesis of cache_encoding_ok is what the NameID pool of harness/c19.py probes on the real code.) *)
Theorem c19_source2_subjects_need_roundtrip : forall skey ikey nid code_ decode_,
  cache_encoding_ok skey ikey nid code_ decode_ -> forall (dec : pyval -> pyval) c,
  (forall s, In s (keys c) -> is_bad (dec (PStr (skey s))) = false) ->
  src2_cache_subjects dec (enc_cache skey ikey c) = enc_subject_list nid (keys c) ->
  forall s, In s (keys c) -> dec (PStr (skey s)) = nid s.
Proof. exact stated_subjects_needs_roundtrip. Qed.
Print Assumptions c19_source2_subjects_need_roundtrip.

Theorem c19_source2_cache_delete : forall skey ikey nid code_ decode_ sync_,
  cache_encoding_ok skey ikey nid code_ decode_ -> forall c s, NoDup (keys c) ->
  src2_cache_delete code_ sync_ (enc_cache skey ikey c) (nid s) = enc_deleted skey ikey c s.
Proof. exact stated_cache_delete. Qed.
Print Assumptions c19_source2_cache_delete.

Theorem c19_source2_cache_delete_reachable : forall skey ikey nid code_ decode_ sync_,
  cache_encoding_ok skey ikey nid code_ decode_ -> forall w t0 h s,
  src2_cache_delete code_ sync_ (enc_cache skey ikey (db (final w (init t0) h))) (nid s)
  = enc_deleted skey ikey (db (final w (init t0) h)) s.
Proof. exact stated_cache_delete_reachable. Qed.
Print Assumptions c19_source2_cache_delete_reachable.

Theorem c19_source2_stale_sources_for_person : forall skey ikey nid code_ decode_ parse,
  cache_encoding_ok skey ikey nid code_ decode_ -> forall (n : Z) c s absent srcs,
  src2_stale_sources (PInt n) parse code_ (enc_population skey ikey c) (nid s) (enc_sources ikey absent srcs)
  = enc_olist ikey (c_stale n c s srcs).
Proof. exact stated_stale_sources. Qed.
Print Assumptions c19_source2_stale_sources_for_person.

Theorem c19_source2_add_information_about_person : forall set_ cache_ ava name_id came_from issuer authn_info session_index nooa,
  is_bad name_id = false -> is_bad issuer = false ->
  src2_add_information set_ (enc_users cache_) (enc_sinfo ava name_id came_from issuer authn_info session_index nooa)
  = py_bind (set_ cache_ name_id issuer (enc_sinfo_stored ava name_id came_from authn_info session_index nooa) (PInt nooa))
            (fun _ => name_id).
Proof. exact src2_add_information_is_model. Qed.
Print Assumptions c19_source2_add_information_about_person.

Theorem c19_source2_session_info : forall issuer_ authn_info_ authz_info_ ava name_id came_from session_index,
  is_bad ava = false -> is_bad name_id = false -> is_bad came_from = false -> is_bad session_index = false ->
  (forall r, is_bad (issuer_ r) = false) -> (forall r, is_bad (authn_info_ r) = false) ->
  forall cn sn,
  src2_session_info issuer_ authn_info_ authz_info_ (enc_response ava name_id came_from session_index cn sn)
  = enc_session_info issuer_ authn_info_ ava name_id came_from session_index
      (enc_response ava name_id came_from session_index cn sn) (effective_nooa cn sn).
Proof. exact src2_session_info_is_model. Qed.
Print Assumptions c19_source2_session_info.

Theorem c19_source2_is_logged_in : forall get_identity_ (tok_field : tok -> String.string * pyval) users nidv old (n : Z) c s toks olds,
  c_get_identity n c s [] true = Some (toks, olds) -> is_bad nidv = false -> is_bad old = false ->
  get_identity_ users nidv = PList [PObj (map tok_field toks); old] ->
  src2_is_logged_in get_identity_ (enc_client users) nidv = PBool (is_logged_in n c s).
Proof. exact src2_is_logged_in_is_model. Qed.
Print Assumptions c19_source2_is_logged_in.
