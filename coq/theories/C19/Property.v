(* C19/Property.v — property theorems only.  `run w t0 h` is the trace (operation, output, view
   after the operation) of the model for the history h of operations started at time t0 in the
   world w (preferred SLO bindings, SLO endpoints of every IdP); `spec_cl cl` says that the clause
   cl of the reference monitor C19.Spec holds at every step of a trace. *)
From Coq Require Import List Bool Arith ZArith.
From Verif Require Import C19.Model C19.Spec C19.Proofs.
Import ListNotations.

(* isolation: whatever is returned for (subject, issuer) was stored for exactly that pair and the
   subject has had a session ever since; a subject counts as logged in only on such information *)
Theorem c19_isolation : forall w t0 h, spec_cl cl_iso w t0 (run w t0 h).
Proof. exact isolation_holds. Qed.
Print Assumptions c19_isolation.

(* expiry: with the expiry check on, only until the not-on-or-after time it was stored with *)
Theorem c19_expiry : forall w t0 h, spec_cl cl_exp w t0 (run w t0 h).
Proof. exact expiry_holds. Qed.
Print Assumptions c19_expiry.

(* a Response that does not verify stores nothing *)
Theorem c19_only_verified_response_stored : forall w t0 h, spec_cl cl_accept w t0 (run w t0 h).
Proof. exact accept_holds. Qed.
Print Assumptions c19_only_verified_response_stored.

(* no information after logout: whenever a logout is reported complete the subject has no session
   (and the monitor of c19_isolation has forgotten everything about a subject without session) *)
Theorem c19_no_info_after_logout : forall w t0 h, spec_cl cl_after w t0 (run w t0 h).
Proof. exact after_holds. Qed.
Print Assumptions c19_no_info_after_logout.

(* a LogoutRequest ends the session of the current subject only if it names it, touches no one else *)
Theorem c19_logout_request_only_current_subject : forall w t0 h, spec_cl cl_request w t0 (run w t0 h).
Proof. exact request_holds. Qed.
Print Assumptions c19_logout_request_only_current_subject.

(* a LogoutResponse that does not answer a pending request (known InResponseTo of a logout in progress,
   sent by the party the request went to, that party still being waited for, status Success) changes nothing *)
Theorem c19_response_needs_pending : forall w t0 h, spec_cl cl_pending w t0 (run w t0 h).
Proof. exact pending_holds. Qed.
Print Assumptions c19_response_needs_pending.

(* the session ends exactly when the last involved IdP has answered (front channel or SOAP) or the deadline
   has passed *)
Theorem c19_session_ends_iff_last_answer_or_deadline : forall w t0 h, spec_cl cl_ends w t0 (run w t0 h).
Proof. exact ends_holds. Qed.
Print Assumptions c19_session_ends_iff_last_answer_or_deadline.

(* C19, whole property, for every world, start time and history — no guard, no finding class is open *)
Theorem c19_property : forall w t0 h, spec w t0 (run w t0 h).
Proof. exact all_spec. Qed.
Print Assumptions c19_property.

(* the boolean monitor that Coq evaluates on the implementation's recorded trace is the stated property *)
Theorem c19_spec_reflect : forall w t0 tr, spec_b w t0 tr = true <-> spec w t0 tr.
Proof. exact spec_b_iff. Qed.
Print Assumptions c19_spec_reflect.

(* the property is the conjunction of its clauses *)
Theorem c19_spec_clauses : forall w t0 tr,
  spec w t0 tr <->
  spec_cl cl_iso w t0 tr /\ spec_cl cl_exp w t0 tr /\ spec_cl cl_accept w t0 tr /\ spec_cl cl_after w t0 tr
  /\ spec_cl cl_request w t0 tr /\ spec_cl cl_pending w t0 tr /\ spec_cl cl_ends w t0 tr.
Proof. exact spec_split. Qed.
Print Assumptions c19_spec_clauses.

(* the behaviour before each fix violated the property: `run_v0 party purge soap early moot` is the model
   with the named fixes in place (false = that fix reverted); each witness fails with ONLY that fix reverted:
   class 1, before 0bae05f7 a SOAP global logout did no bookkeeping;
   class 2, before de5f1fed an answer from another party than the one asked was honoured;
   class 3, before 73294247 the answer to a request of an abandoned logout ended a new session;
   class 4, before e58d2614 a second, moot request to a party that had answered stayed pending and its answer
            was consumed (ValueError);
   class 5, before 10d8560b a Success answer over SOAP given in a pass that then raised was forgotten *)
Theorem c19_soap_v0_refuted : exists w t0 h,
  first_any_trigger w t0 (run_v0 true true false true true w t0 h) = 1 /\ ~ spec w t0 (run_v0 true true false true true w t0 h).
Proof. exact soap_v0_refuted. Qed.
Print Assumptions c19_soap_v0_refuted.

Theorem c19_wrong_party_v0_refuted : exists w t0 h,
  first_any_trigger w t0 (run_v0 false true true true true w t0 h) = 2 /\ ~ spec w t0 (run_v0 false true true true true w t0 h).
Proof. exact wrong_party_v0_refuted. Qed.
Print Assumptions c19_wrong_party_v0_refuted.

Theorem c19_stale_answer_v0_refuted : exists w t0 h,
  first_any_trigger w t0 (run_v0 true false true true true w t0 h) = 3 /\ ~ spec w t0 (run_v0 true false true true true w t0 h).
Proof. exact stale_v0_refuted. Qed.
Print Assumptions c19_stale_answer_v0_refuted.

Theorem c19_moot_request_v0_refuted : exists w t0 h,
  first_any_trigger w t0 (run_v0 true true true true false w t0 h) = 4 /\ ~ spec w t0 (run_v0 true true true true false w t0 h).
Proof. exact moot_v0_refuted. Qed.
Print Assumptions c19_moot_request_v0_refuted.

Theorem c19_forgotten_soap_answer_v0_refuted : exists w t0 h,
  first_any_trigger w t0 (run_v0 true true true false true w t0 h) = 5 /\ ~ spec w t0 (run_v0 true true true false true w t0 h).
Proof. exact forgotten_v0_refuted. Qed.
Print Assumptions c19_forgotten_soap_answer_v0_refuted.

(* run_v0 with all fixes is the model *)
Theorem c19_v0_fixed_is_model : forall w t0 h, run_v0 true true true true true w t0 h = run w t0 h.
Proof. exact run_v0_fixed. Qed.
Print Assumptions c19_v0_fixed_is_model.

(* non-vacuity: a mixed SOAP / front-channel logout completes (IdP 1 answers over SOAP at once, the answer
   of IdP 0 then ends the session) *)
Theorem c19_mixed_logout_completes :
  map (fun x => snd (fst x)) (run w_mixed2 1000 h_mixed)
  = [OUnit; OUnit; OSent [SentPending 0 REDIRECT 0; SentSoap 1]; OIdentity [1; 2] []; ODone; OIdentity [] []].
Proof. exact mixed_outputs. Qed.
Print Assumptions c19_mixed_logout_completes.
