From Verif Require Import C19.Model C19.Spec C19.Proofs.
Theorem c19_placeholder : True.
Proof. exact placeholder. Qed.
Print Assumptions c19_placeholder.
